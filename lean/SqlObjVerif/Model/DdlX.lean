import SqlObjVerif.Model.Ddl
import SqlObjVerif.Model.PyDdl
import SqlObjVerif.Extracted.Ddl
import SqlObjVerif.Extracted.PyDdl
/-!
# C14 — the schema-generation code as TRANSLATED from the source

`callX n callee args` RUNS the PyDdl program that `vlib/extractors/pyddl.py` translated from /repo's `col.py`,
`dbconnection.py`, the seven connection modules, `styles.py` and `main.py` on this very run (`Extracted.prog`), with
call depth `n`, on the IMAGE of the hand model's state: `colV` (a column object of the class `clsOf kind`),
`soClassV` (the class being created), `connV` (the connection), `styleV`, `joinV`.  `Lemmas/DdlX*.lean` prove the
translated functions equal to the pieces of `Model/Ddl.lean` (`extraPieces`, `typePieces`, `colText`, `idText`,
`createTableSQL`, `constraints`, `joinTableSQL`, the `Style` functions, link-table ownership) for ALL declarations,
dialects and capabilities and every sufficiently large call depth.

## Interface assumptions (the PARAMETERS of the interpreter, `ddlI`)

* `sqlbuilder.sqlrepr(v, db)` of an enum value: `NULL` for `None`, the hand model `sqlLit` of a string literal (`DdlSyn`;
  backslash-escaping for `'mysql'` / `'postgres'`, quote doubling otherwise — hand-modelled after `converters.py`, tied
  by the harness's enum-value stream, not translated).
* `findClass(name, registry)` returns the class registered under `name` (never fails); the image identifies the name
  with the class object it denotes: `foreignKey` holds `otherV` (an object with `sqlmeta.table / idName / idType`).
* `MaxdbConnection.createSequenceName(table)` (not translated: it reads a module constant) returns `table[:28] + '_SEQ'`.
* `connection.can_use_microseconds()` / `can_use_max_types()` read the capability record `Caps`; `self.createSQL(soClass)`
  (`sqlmeta.createSQL`, not modelled) returns `[]`; `join.hasIntermediateTable()` reads a stored flag.
* `'%i' % n` = `natDigits` (hand model of decimal rendering); `str.lower()` / `str.upper()` = the ASCII maps `lowerC` /
  `upperC` of `DdlStyle` (exact on ASCII; see that file's header).
* A column object stores what `SOCol.__init__` leaves behind: `dbName` (already resolved through the style),
  `notNone`, `alternateID`, `unique` (`NoDefault` resolved to `alternateID`), `defaultSQL`, `customSQLType = None`
  (no `sqlType=`), `char_binary = None`, `varchar` as resolved by `SOStringLikeCol.__init__` / `SOBLOBCol.__init__`
  (`varcharEff`), `length` (`0` for none), `cascade` ∈ None / True / False / `'null'`, `refColumn = None`,
  `enumValues` (a list of `str` / `None`).  The `__init__` methods are not translated.
* Further images are defined next to the lemmas that use them: `soClassV` / `metaV` (`Lemmas/DdlXId.lean`: `sqlmeta.table`,
  `idName`, `idType`, `idSize`, `columnList`), `styleV` (`Lemmas/DdlXStyle.lean`: a style object with `longID`), `jV` /
  `joinClsV` (`Lemmas/DdlXJoin.lean`: a join with `intermediateTable`, `joinColumn`, `otherColumn`, `soClass.__name__`,
  `otherClass.__name__`, an optional `createRelatedTable`; `sqlmeta.joins` may contain `None`).
* `capword('')` / `lowerword('')` raise IndexError in Python and in the translation; the hand model returns `''` there, so
  the style theorems are stated for non-empty words.
* `self.connection = connection` inside `mysqlCreateSQL` / `mssqlCreateSQL` rebinds `self` for the rest of that call
  (value semantics; the translator accepts no other attribute assignment).
-/
namespace SqlObjVerif.DdlX
open SqlObjVerif.Ddl
open SqlObjVerif.PyDdl hiding Str isUpperC
open SqlObjVerif.PyDdl.Extracted

/-! ### the interface -/

def kwNULL : Str := [78, 85, 76, 76]

/-- which literal syntax `sqlrepr` uses for the dialect name `db` -/
def litOfDb (db : Str) : LitDb :=
  if db = [109, 121, 115, 113, 108] /- mysql -/ then .mysql
  else if db = [112, 111, 115, 116, 103, 114, 101, 115] /- postgres -/ then .postgres
  else .plain

def sqlreprX : List Val → R Val
  | [.none, .str _] => .ok (.str kwNULL)
  | [.str s, .str db] => .ok (.str (sqlLit (litOfDb db) s))
  | _ => .stuck

def findClassX : List Val → R Val
  | [x, _] => .ok x
  | _ => .stuck

def extX (f : String) (args : List Val) : R Val :=
  if f = "sqlbuilder.sqlrepr" then sqlreprX args
  else if f = "findClass" then findClassX args
  else if f = "events.CreateTableSignal" then .ok (.str [])      -- the signal objects are only handed to `send`
  else if f = "events.DropTableSignal" then .ok (.str [])
  else .stuck

def fieldBool (v : Val) (a : String) : R Val :=
  match v with
  | .obj _ fs => match aget a fs with
    | some (.bool b) => .ok (.bool b)
    | _ => .stuck
  | _ => .stuck

def extMethX (v : Val) (m : String) (args : List Val) : R Val :=
  if m = "can_use_microseconds" then (match args with
    | [] => fieldBool v "micro"
    | _ => .stuck)
  else if m = "can_use_max_types" then (match args with
    | [] => fieldBool v "maxTypes"
    | _ => .stuck)
  else if m = "hasIntermediateTable" then (match args with
    | [] => fieldBool v "hasInter"
    | _ => .stuck)
  else if m = "createSQL" then (match args with
    | [_] => .ok (.list [])
    | _ => .stuck)
  else if m = "createSequenceName" then (match args with      -- MaxDB: `'%s_SEQ' % table[:28]`
    | [.str t] => .ok (.str (t.take 28 ++ [95, 83, 69, 81]))
    | _ => .stuck)
  else .stuck

def fmtDX (i : Int) : Str := if i < 0 then 45 :: natDigits (-i).toNat else natDigits i.toNat

def ddlI : Iface where
  mro := fun _ => []
  classAttr := fun _ _ => none
  ext := extX
  extMeth := extMethX
  fmtD := fmtDX
  lower := fun s => s.map lowerC
  upper := fun s => s.map upperC

/-- the interface the translated functions run against -/
@[reducible] def IX : Iface := prog.iface ddlI

/-- run a function of the translated program with call depth `n` -/
@[reducible] def callX (n : Nat) : Callee → List Val → R Val := callN prog ddlI n

/-! ### the image of the hand model's state -/

def optStr : Option Str → Val
  | none => .none
  | some s => .str s

@[simp] theorem optStr_none : optStr none = .none := rfl
@[simp] theorem optStr_some (s : Str) : optStr (some s) = .str s := rfl

def connCls : Dialect → Nat
  | .sqlite => C_SQLiteConnection
  | .mysql => C_MySQLConnection
  | .postgres => C_PostgresConnection
  | .firebird => C_FirebirdConnection
  | .mssql => C_MSSQLConnection
  | .sybase => C_SybaseConnection
  | .maxdb => C_MaxdbConnection

/-- the connection object -/
def connV (d : Dialect) (c : Caps) : Val :=
  .obj (connCls d) [("micro", .bool c.micro), ("maxTypes", .bool c.maxTypes)]

def idTypeV (isStr : Bool) : Val := .ty (if isStr then "str" else "int")

/-- the class a foreign key points to -/
def otherV (tTable tId : Str) (tIdStr : Bool) : Val :=
  .obj C_SQLObject [("sqlmeta", .obj C_SQLObject [("table", .str tTable), ("idName", .str tId), ("idType", idTypeV tIdStr)])]

def cascadeV : Cascade → Val
  | .none => .none
  | .cascade => .bool true
  | .restrict => .bool false
  | .setNull => .str [110, 117, 108, 108]

def simpleCls : SimpleKind → Nat
  | .bool => C_SOBoolCol
  | .float => C_SOFloatCol
  | .dateTime => C_SODateTimeCol
  | .date => C_SODateCol
  | .time => C_SOTimeCol
  | .timestamp => C_SOTimestampCol
  | .uuid => C_SOUuidCol

def intCls : IntKind → Nat
  | .int => C_SOIntCol
  | .tiny => C_SOTinyIntCol
  | .small => C_SOSmallIntCol
  | .medium => C_SOMediumIntCol
  | .big => C_SOBigIntCol

def clsOf : Kind → Nat
  | .simple k => simpleCls k
  | .int k _ _ _ => intCls k
  | .str false _ _ => C_SOStringCol
  | .str true _ _ => C_SOUnicodeCol
  | .blob _ _ => C_SOBLOBCol
  | .pickle _ _ => C_SOPickleCol
  | .decimal _ _ => C_SODecimalCol
  | .currency => C_SOCurrencyCol
  | .enum _ => C_SOEnumCol
  | .fk _ _ _ _ => C_SOForeignKey

/-- the attributes specific to a column class -/
def kindFields (T : Tables) : Kind → List (String × Val)
  | .simple _ => []
  | .int _ length u z => [("length", .int length), ("unsigned", .bool u), ("zerofill", .bool z)]
  | .str _ length v => [("length", .int length), ("varchar", .bool (varcharEff length v true)), ("char_binary", .none)]
  | .blob length v => [("length", .int length), ("varchar", .bool (varcharEff length v false)), ("char_binary", .none)]
  | .pickle length v => [("length", .int length), ("varchar", .bool (varcharEff length v false)), ("char_binary", .none)]
  | .decimal s p => [("size", .int s), ("precision", .int p)]
  | .currency => [("size", .int T.currencySize), ("precision", .int T.currencyPrecision)]
  | .enum vals => [("enumValues", .list (vals.map optStr))]
  | .fk tTable tId tIdStr cas =>
    [("foreignKey", otherV tTable tId tIdStr), ("cascade", cascadeV cas), ("refColumn", .none)]

/-- the class being created, as far as a column sees it (`self.soClass`) -/
def ownerV (table : Str) : Val :=
  .obj C_SQLObject [("sqlmeta", .obj C_SQLObject [("table", .str table), ("registry", .none)])]

/-- the attributes every column object has; `conn0` is whatever `self.connection` holds before the call -/
def commonFields (st : Style) (table : Str) (conn0 : Val) (col : Col) : List (String × Val) :=
  [("dbName", .str (col.db st)), ("notNone", .bool col.notNone), ("alternateID", .bool col.alternateID),
   ("unique", .bool (col.unique.getD col.alternateID)), ("defaultSQL", optStr col.defaultSQL),
   ("customSQLType", .none), ("connection", conn0), ("soClass", ownerV table), ("name", .str col.attr)]

/-- a column object -/
def colV (T : Tables) (st : Style) (table : Str) (conn0 : Val) (col : Col) : Val :=
  .obj (clsOf col.kind) (kindFields T col.kind ++ commonFields st table conn0 col)

def strList (l : List Str) : Val := .list (l.map .str)

/-! ### joins, indexes and the class object -/

/-- what `_getJoinsToCreate` reads of a join object -/
structure JoinD where
  hasInter : Bool                 -- `join.hasIntermediateTable()`
  createRel : Option Bool         -- the attribute `createRelatedTable`, if there is one
  selfName : Str                  -- `join.soClass.__name__`
  otherName : Str                 -- `join.otherClass.__name__`
  join : Join                     -- intermediateTable, joinColumn, otherColumn

def nameV (s : Str) : Val := .obj C_SQLObject [("__name__", .str s)]

def jV (j : JoinD) : Val :=
  .obj C_SQLObject ([("intermediateTable", .str j.join.table), ("joinColumn", .str j.join.joinColumn),
    ("otherColumn", .str j.join.otherColumn), ("hasInter", .bool j.hasInter), ("soClass", nameV j.selfName),
    ("otherClass", nameV j.otherName)] ++
    match j.createRel with
    | none => []
    | some b => [("createRelatedTable", .bool b)])

/-- an entry of `sqlmeta.joins` (`None` = a deleted join) -/
def joV : Option JoinD → Val
  | none => .none
  | some j => jV j

def idSizeV : IdSize → Val
  | .none => .none
  | .tiny => .str [84, 73, 78, 89]
  | .small => .str [83, 77, 65, 76, 76]
  | .medium => .str [77, 69, 68, 73, 85, 77]
  | .big => .str [66, 73, 71]

/-- an index object (`SODatabaseIndex`): plain columns only (no expressions, no MySQL prefix lengths) -/
def ixV (decl : Decl) (ix : Index) : Val :=
  .obj C_SODatabaseIndex [("name", .str ix.name), ("unique", .bool ix.unique),
    ("descriptions", .list ((indexCols decl ix).map fun db =>
      Val.dict [(.str [99, 111, 108, 117, 109, 110], .obj C_SOCol [("dbName", .str db)])])),
    ("soClass", ownerV decl.tableName)]

/-- what the declaration does not say: the joins of the class and its default connection -/
structure ClsX where
  joins : List (Option JoinD)
  conn : Val

/-- `soClass.sqlmeta` -/
def metaV (decl : Decl) (c0 : Val) (x : ClsX) : Val :=
  .obj C_SQLObject [("table", .str decl.tableName), ("idName", .str decl.idCol), ("idType", idTypeV decl.idStr),
    ("idSize", idSizeV decl.idSize),
    ("columnList", .list (decl.cols.map (colV Ddl.Extracted.tables decl.style decl.tableName c0))),
    ("joins", .list (x.joins.map joV)), ("indexes", .list (decl.indexes.map (ixV decl)))]

/-- the class being created -/
def soClassV (decl : Decl) (c0 : Val) (x : ClsX) : Val :=
  .obj C_SQLObject [("sqlmeta", metaV decl c0 x), ("_connection", x.conn)]


end SqlObjVerif.DdlX
