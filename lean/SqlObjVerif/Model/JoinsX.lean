import SqlObjVerif.Model.Joins
import SqlObjVerif.Model.PyJoins
import SqlObjVerif.Extracted.PyJoins
/-!
# C13 — the join accessors of `joins.py` as TRANSLATED from the source

`doSortN`, `applyOrderByX`, `multiplePerformJoinX`, `relatedPerformJoinX`, `relatedAddX`, `relatedRemoveX`,
`singlePerformJoinX`, … RUN the PyJoins programs `vlib/extractors/pyjoins.py` translated from /repo's `joins.py` on this
very run, on a world `w` = a state `DB` of the hand-written model (`Model/Graph.lean` / `Model/Joins.lean`).
`Lemmas/JoinsX*.lean` prove that they compute exactly the hand model's functions (`C13_translated_*_eq_model`).

## The assumed interface (the parameters of the interpreter) — everything below is ASSUMED, not verified here
objects (handles `Hnd`):
* `inst k j` : the instance of class `k` with id `j`: `.id = j`, `._connection = conn`, `.sqlmeta._perConnection` = the
  parameter `perConn`; `getattr(inst, name)` = `pval j name` — the instance's value (`None` or an integer) of the
  attribute called `name`; the model's `val j a` is `pval j (nm a)` for the attribute names `nm a`, none of which
  starts with `-`; an integer has no attribute `id` (`AttributeError`), `int(n) = n`;
* `self` = `mjoin` (an `SOMultipleJoin` / `SOSingleJoin`: `otherClass = cls D.other`, `joinColumn = col D.fkcol`, the
  foreign-key column `f` of the other class) or `rjoin` (an `SORelatedJoin`: `intermediateTable = tbl D.table`,
  `joinColumn = lcol D.ownFirst`, `otherColumn = lcol (!D.ownFirst)`, `otherClass = cls D.other`);
  `self.orderBy` = the parameter `D.orderBy` (the property `SOJoin.orderBy`, text-checked by the extractor, caches
  `otherClass.sqlmeta.defaultOrder`); `self.makeDefault = D.makeDefault`, `self.soClass = cls D.own`,
  `cls k .sqlmeta.style.instanceIDAttrToAttr(pycol f)` = `fkattr f` (the attribute that takes an instance);
* `fld a` : an `SQLObjectField` with `.original = nm a`; `desc a` : `DESC(fld a)` with `.expr = fld a`; `isinstance` of
  anything else with these two classes is False;
* `Min` : `joins.Min`; `Min < x` is True for every `x` but `Min` itself, `x < Min` is False (`MinType.__lt__/__gt__`,
  text-checked by the extractor); integers compare as integers; anything else is outside the interface;
* `list.sort(key, reverse)` is THE stable sort (`insSort` = the reference stable sort; the harness cross-checks CPython's).
queries (assumed not to change anything):
* `conn._SO_selectJoin(cls k, col f, owner)` : the rows `(id,)` the parameter `C.selectJoin db k f owner` lists
  (`modelConn`: the ids of the rows of class `k` whose key `f` is `owner`, in table order — the statement template is
  extracted by `vlib/extractors/graph.py`);
* `conn._SO_intermediateJoin(tbl t, lcol g, lcol c, owner)` : `C.interJoin db t g c owner` (`modelConn`:
  `SELECT g FROM t WHERE c = owner` over the link rows, in insertion order);
* `cls k .get(j, connection)` : the instance `inst k j` (cache effects are C04's business);
* `self._dbNameToPythonName()` : the Python name `pycol D.fkcol` of the join column; `getattr(cls k .q, pycol f)` = the SQL
  field `field k f`; `field == v` builds the SQL expression `app "==" [field, v]`;
  `cls k .select(field k f == owner, connection=…)` : a select result `app "select" [cls k, col f, owner]`;
  `.count()` = the number of rows `C.selectJoin` lists for it, `[0]` = the instance of the first of them.
* new-style accessors: `self` = `m2m` (an `SOManyToMany`, attributes as `rjoin`) or `o2m` (an `SOOneToMany`:
  `otherClass`, `joinColumn = col D.fkcol`); `cls k .q.id` = `idfield k`, `cls k .sqlmeta.table` = `ctable k`;
  `sqlbuilder.Field(a, b)` builds `app "Field" [a, b]`, `==` on a field builds `app "==" […]`, `&` builds `app "AND" […]`;
  `cls k .select(q)` builds `app "select" [cls k, q]`; `results.orderBy(ob)` builds `app "orderBy" [results, ob]`;
  `_ManyToManySelectWrapper(a, b, c)` / `_OneToManySelectWrapper(a, b, c)` build the wrapper value whose `forObject`,
  `join`, `select` are `a`, `b`, `c` (constructors text-checked by the extractor); `queryRows` says which rows such a
  select expression stands for (the SQL engine is not modelled: the harness compares with SQLite);
calls:
* `conn._SO_intermediateInsert(tbl t, lcol c1, v1, lcol c2, v2)` : `C.interInsert` (`modelConn`: one link row appended),
  `conn._SO_intermediateDelete(tbl t, lcol c1, v1, lcol c2, v2)` : `C.interDelete` (`modelConn`: every link row of `t`
  with both values is deleted) — the statement templates are extracted by `vlib/extractors/graph.py`;
* `doSort(…)` inside `doSort` / `_applyOrderBy`, `self._applyOrderBy(…)`, `getID(…)` : the TRANSLATED functions
  (`doSort` recursion: `doSortN n` allows `n` nested calls; the theorems hold for every large enough `n`);
* `cls k (**kw)` in the wrapper's `create` : the parameter `C.createKw`; `self.add(obj)` there: the TRANSLATED `add`;
* `cls k (**{fkattr f: inst _ j})` (SingleJoin's `makeDefault`) : the parameter `C.create` (`modelConn`: a new row with
  the next free id whose key `f` is `j`).
-/
namespace SqlObjVerif.Joins
open SqlObjVerif.Graph
open SqlObjVerif.PyJoins (Iface CallRes R Heap Prog)
open SqlObjVerif.PyJoins.Extracted

inductive Hnd where
  | inst (k j : Nat)
  | imeta (k j : Nat)
  | cls (k : Nat)
  | qns (k : Nat)
  | conn
  | col (f : Nat)
  | pycol (f : Nat)
  | field (k f : Nat)
  | tbl (t : Nat)
  | lcol (first : Bool)
  | min
  | fld (a : Nat)
  | desc (a : Nat)
  | mjoin
  | rjoin
  | cmeta (k : Nat)
  | style
  | fkattr (f : Nat)
  | idfield (k : Nat)
  | ctable (k : Nat)
  | m2m
  | o2m
  | wcls (many : Bool)
deriving DecidableEq, Repr

/-- values of the embedding -/
abbrev PVal := PyJoins.Val Hnd

/-- the join object `self` -/
structure JoinD where
  own : Nat
  other : Nat
  fkcol : Nat
  table : Nat
  ownFirst : Bool
  orderBy : PVal
  makeDefault : Bool
  perConn : Bool

/-- the connection: what the statements answer / do -/
structure Conn where
  selectJoin : DB → Nat → Nat → Nat → List (Option Nat)
  interJoin : DB → Nat → Bool → Bool → Nat → List (Option Nat)
  interInsert : DB → Nat → Bool → Nat → Bool → Nat → DB
  interDelete : DB → Nat → Bool → Nat → Bool → Nat → DB
  /-- `cls k (<key f> = <instance j>)`: the new database and the new row's id -/
  create : DB → Nat → Nat → Nat → DB × Nat
  /-- `cls k (**kw)` for arbitrary keywords (the new-style wrapper's `create`) -/
  createKw : DB → Nat → List (PyJoins.Val Hnd × PyJoins.Val Hnd) → DB × Nat

/-- the model's link-table / foreign-key statements -/
def modelConn : Conn where
  selectJoin db k f owner := (referrers db k f owner).map some
  interJoin db t g c owner := ((db.links.filter fun l => l.table == t && l.col c == owner).map (·.col g)).map some
  interInsert db t c1 v1 _ v2 := { db with links := db.links ++ [if c1 then ⟨t, v1, v2⟩ else ⟨t, v2, v1⟩] }
  interDelete db t c1 v1 c2 v2 := { db with links := db.links.filter fun l => !(l.table == t && l.col c1 == v1 && l.col c2 == v2) }
  create db k f j :=
    let i := (db.rows.map (·.id)).foldl max 0 + 1
    (setFK (Joins.create db k i (f + 1)) k i f (some j), i)
  createKw db k _ :=
    let i := (db.rows.map (·.id)).foldl max 0 + 1
    (Joins.create db k i 0, i)

structure Params where
  pval : Nat → List Char → Option Int
  nm : Nat → List Char
  D : JoinD
  C : Conn

def optVal : Option Int → PVal
  | some z => .int z
  | none => .none

def optId : Option Nat → PVal
  | some j => .int j
  | none => .none

/-- rows of a one-column SELECT -/
def rowsVal (ids : List (Option Nat)) : PVal := PyJoins.Val.ofList (ids.map fun i => .tup (.cons (optId i) .nil))

def jGetAttr (P : Params) (_ : DB) (o : PVal) (a : String) : R PVal :=
  match o with
  | .obj (.inst k j) =>
    if a = "id" then .ok (.int j) else if a = "_connection" then .ok (.obj .conn)
    else if a = "sqlmeta" then .ok (.obj (.imeta k j)) else .stuck
  | .obj (.imeta _ _) => if a = "_perConnection" then .ok (.bool P.D.perConn) else .stuck
  | .obj .mjoin =>
    if a = "otherClass" then .ok (.obj (.cls P.D.other)) else if a = "joinColumn" then .ok (.obj (.col P.D.fkcol))
    else if a = "orderBy" then .ok P.D.orderBy else if a = "makeDefault" then .ok (.bool P.D.makeDefault)
    else if a = "soClass" then .ok (.obj (.cls P.D.own)) else .stuck
  | .obj .rjoin =>
    if a = "otherClass" then .ok (.obj (.cls P.D.other)) else if a = "intermediateTable" then .ok (.obj (.tbl P.D.table))
    else if a = "joinColumn" then .ok (.obj (.lcol P.D.ownFirst)) else if a = "otherColumn" then .ok (.obj (.lcol (!P.D.ownFirst)))
    else if a = "orderBy" then .ok P.D.orderBy else .stuck
  | .obj (.cls k) => if a = "q" then .ok (.obj (.qns k)) else if a = "sqlmeta" then .ok (.obj (.cmeta k)) else .stuck
  | .obj (.cmeta k) => if a = "style" then .ok (.obj .style) else if a = "table" then .ok (.obj (.ctable k)) else .stuck
  | .obj (.qns k) => if a = "id" then .ok (.obj (.idfield k)) else .stuck
  | .obj .m2m =>
    if a = "otherClass" then .ok (.obj (.cls P.D.other)) else if a = "intermediateTable" then .ok (.obj (.tbl P.D.table))
    else if a = "joinColumn" then .ok (.obj (.lcol P.D.ownFirst)) else if a = "otherColumn" then .ok (.obj (.lcol (!P.D.ownFirst)))
    else .stuck
  | .obj .o2m =>
    if a = "otherClass" then .ok (.obj (.cls P.D.other)) else if a = "joinColumn" then .ok (.obj (.col P.D.fkcol)) else .stuck
  | .app tag (.cons fo (.cons jn (.cons sel .nil))) =>
    if tag = "M2MWrapper" ∨ tag = "O2MWrapper" then
      (if a = "forObject" then .ok fo else if a = "join" then .ok jn else if a = "select" then .ok sel else .stuck)
    else .stuck
  | .obj (.fld x) => if a = "original" then .ok (.str (P.nm x)) else .stuck
  | .obj (.desc x) => if a = "expr" then .ok (.obj (.fld x)) else .stuck
  | .int _ => if a = "id" then .exc "AttributeError" else .stuck
  | _ => .stuck

def jGetAttrDyn (P : Params) (_ : DB) (o n : PVal) : R PVal :=
  match o, n with
  | .obj (.inst _ j), .str s => .ok (match P.pval j s with | some z => .int z | none => .none)
  | .obj (.qns k), .obj (.pycol f) => .ok (.obj (.field k f))
  | _, _ => .stuck

def jGlob (name : String) : Option PVal :=
  if name = "Min" then some (.obj .min)
  else if name = "_ManyToManySelectWrapper" then some (.obj (.wcls true))
  else if name = "_OneToManySelectWrapper" then some (.obj (.wcls false))
  else none

def jIsinstance (v : PVal) (c : String) : Option Bool :=
  if c = "sqlbuilder.DESC" then some (match v with | .obj (.desc _) => true | _ => false)
  else if c = "sqlbuilder.SQLObjectField" then some (match v with | .obj (.fld _) => true | _ => false)
  else none

def jEqOver (a b : PVal) : Option PVal :=
  match a with
  | .obj (.field _ _) => some (.app "==" (.cons a (.cons b .nil)))
  | .obj (.idfield _) => some (.app "==" (.cons a (.cons b .nil)))
  | .app tag _ => if tag = "Field" then some (.app "==" (.cons a (.cons b .nil))) else none
  | _ => none

/-- `a & b` on SQL expressions -/
def jBinop (op : String) (a b : PVal) : Option PVal :=
  match a, b with
  | .app _ _, .app _ _ => if op = "&" then some (.app "AND" (.cons a (.cons b .nil))) else none
  | _, _ => none

/-- Python's `<` on the sort keys `doSort` produces -/
def jLt (a b : PVal) : Option Bool :=
  match a, b with
  | .int x, .int y => some (decide (x < y))
  | .obj .min, .int _ => some true
  | .obj .min, .obj .min => some false
  | .int _, .obj .min => some false
  | _, _ => none

/-- the rows a `select(field k f == owner)` result stands for -/
def selRows (P : Params) (db : DB) (v : PVal) : Option (Nat × List (Option Nat)) :=
  match v with
  | .app tag (.cons (.obj (.cls k)) (.cons (.obj (.col f)) (.cons (.int (.ofNat o)) .nil))) =>
    if tag = "select" then some (k, P.C.selectJoin db k f o) else none
  | _ => none

def jIndex (P : Params) (db : DB) (v i : PVal) : R PVal :=
  match selRows P db v, i with
  | some (k, ids), .int (.ofNat n) => PyJoins.idxRes (fun j => .obj (.inst k j)) (ids.filterMap id)[n]?
  | _, _ => .stuck

def jQuery (P : Params) (db : DB) (o : PVal) (m : String) (args : List PVal) (kw : List (String × PVal)) : R PVal :=
  match o, args with
  | .obj .conn, [.obj (.cls k), .obj (.col f), .int (.ofNat v)] =>
    if m = "_SO_selectJoin" ∧ kw = [] then .ok (rowsVal (P.C.selectJoin db k f v)) else .stuck
  | .obj .conn, [.obj (.tbl t), .obj (.lcol g), .obj (.lcol c), .int (.ofNat v)] =>
    if m = "_SO_intermediateJoin" ∧ kw = [] then .ok (rowsVal (P.C.interJoin db t g c v)) else .stuck
  | .obj (.cls k), [.int (.ofNat j), c] =>
    if m = "get" ∧ kw = [] ∧ (c = .none ∨ c = .obj .conn) then .ok (.obj (.inst k j)) else .stuck
  | .obj .mjoin, [] => if m = "_dbNameToPythonName" ∧ kw = [] then .ok (.obj (.pycol P.D.fkcol)) else .stuck
  | .obj .style, [.obj (.pycol f)] => if m = "instanceIDAttrToAttr" ∧ kw = [] then .ok (.obj (.fkattr f)) else .stuck
  | .obj (.cls k), [.app tag (.cons (.obj (.field k' f)) (.cons (.int (.ofNat v)) .nil))] =>
    if m = "select" ∧ tag = "==" ∧ k' = k ∧ (kw = [("connection", .none)] ∨ kw = [("connection", .obj .conn)]) then
      .ok (.app "select" (.cons (.obj (.cls k)) (.cons (.obj (.col f)) (.cons (.int v) .nil))))
    else .stuck
  | .obj (.cls k), [.app tag a] =>
    if m = "select" ∧ kw = [] ∧ (tag = "AND" ∨ tag = "==") then .ok (.app "select" (.cons (.obj (.cls k)) (.cons (.app tag a) .nil)))
    else .stuck
  | .app tag a, [ob] =>
    if m = "orderBy" ∧ kw = [] ∧ tag = "select" then .ok (.app "orderBy" (.cons (.app tag a) (.cons ob .nil))) else .stuck
  | .app _ _, [] => (match selRows P db o with
    | some (_, ids) => if m = "count" ∧ kw = [] then .ok (.int (ids.filterMap id).length) else .stuck
    | none => .stuck)
  | _, _ => .stuck

def jCallConn (P : Params) (db : DB) (heap : Heap Hnd) (o : PVal) (m : String) (args : List PVal) : CallRes Hnd DB :=
  match o, args with
  | .obj .conn, [.obj (.tbl t), .obj (.lcol c1), .int (.ofNat v1), .obj (.lcol c2), .int (.ofNat v2)] =>
    if c1 = c2 then .stuck
    else if m = "_SO_intermediateInsert" then .ret (P.C.interInsert db t c1 v1 c2 v2) heap .none
    else if m = "_SO_intermediateDelete" then .ret (P.C.interDelete db t c1 v1 c2 v2) heap .none
    else .stuck
  | _, _ => .stuck

def CallRes.toR : CallRes Hnd DB → R PVal
  | .ret _ _ v => .ok v
  | .exc _ _ e => .exc e
  | .stuck => .stuck

/-- the interface for the functions that call nothing translated: `int(n)` is the only function -/
@[reducible] def iface0 (P : Params) (self : PVal) : Iface Hnd DB where
  self := self
  getAttr := jGetAttr P
  getAttrDyn := jGetAttrDyn P
  glob := jGlob
  isinstance := jIsinstance
  eqOver := jEqOver
  binop := jBinop
  index := jIndex P
  query := jQuery P
  fn := fun _ name args => match name, args with
    | "int", [.int n] => .ok (.int n)
    | _, _ => .stuck
  lt := jLt
  sort := insSort
  call := fun _ _ _ _ _ _ => .stuck
  callG := fun _ _ _ _ => .stuck
  callV := fun _ _ _ _ _ => .stuck

/-- `getID(v)`: the TRANSLATED function -/
def getIDX (P : Params) (db : DB) (v : PVal) : R PVal :=
  CallRes.toR (PyJoins.run (iface0 P .none) getIDProg [v] db Heap.empty)

def jFn (P : Params) (db : DB) (name : String) (args : List PVal) : R PVal :=
  match args with
  | [v] => if name = "getID" then getIDX P db v else .stuck
  | [a, b] => if name = "sqlbuilder.Field" then .ok (.app "Field" (.cons a (.cons b .nil))) else .stuck
  | _ => .stuck

/-- `cls k (**{<key f>: <instance j>})` -/
def jCallV (P : Params) (db : DB) (heap : Heap Hnd) (f : PVal) (args : List PVal) (kw : List (PVal × PVal)) : CallRes Hnd DB :=
  match f, args, kw with
  | .obj (.cls k), [], [(.obj (.fkattr c), .obj (.inst _ j))] => .ret (P.C.create db k c j).1 heap (.obj (.inst k (P.C.create db k c j).2))
  | .obj (.wcls many), [fo, jn, sel], [] =>
    .ret db heap (.app (if many then "M2MWrapper" else "O2MWrapper") (.cons fo (.cons jn (.cons sel .nil))))
  | _, _, _ => .stuck

/-- `cls k (**kw)` with the caller's keywords -/
def jCallVKw (P : Params) (db : DB) (heap : Heap Hnd) (f : PVal) (args : List PVal) (kw : List (PVal × PVal)) : CallRes Hnd DB :=
  match f, args with
  | .obj (.cls k), [] => .ret (P.C.createKw db k kw).1 heap (.obj (.inst k (P.C.createKw db k kw).2))
  | _, _ => .stuck

/-- the interface of the accessor methods: `doSort(…)` is `rec`, `self._applyOrderBy(…)` is `apply` -/
@[reducible] def jIface (P : Params) (self : PVal) (rec apply : DB → Heap Hnd → List PVal → CallRes Hnd DB) : Iface Hnd DB where
  self := self
  getAttr := jGetAttr P
  getAttrDyn := jGetAttrDyn P
  glob := jGlob
  isinstance := jIsinstance
  eqOver := jEqOver
  binop := jBinop
  index := jIndex P
  query := jQuery P
  fn := jFn P
  lt := jLt
  sort := insSort
  call := fun db heap o m args kw =>
    if o = self ∧ m = "_applyOrderBy" ∧ kw = [] then apply db heap args
    else if kw = [] then jCallConn P db heap o m args else .stuck
  callG := fun db heap f args => if f = "doSort" then rec db heap args else .stuck
  callV := jCallV P

def noCall : DB → Heap Hnd → List PVal → CallRes Hnd DB := fun _ _ _ => .stuck

/-- one level of the TRANSLATED `doSort`, the recursive calls going to `rec` -/
def doSortX (P : Params) (rec : DB → Heap Hnd → List PVal → CallRes Hnd DB) (db : DB) (heap : Heap Hnd) (args : List PVal) :
    CallRes Hnd DB :=
  PyJoins.run (jIface P .none rec noCall) doSortProg args db heap

/-- `doSort` with at most `n` nested calls -/
def doSortN (P : Params) : Nat → DB → Heap Hnd → List PVal → CallRes Hnd DB
  | 0 => noCall
  | n + 1 => doSortX P (doSortN P n)

/-- the TRANSLATED `SOJoin._applyOrderBy` -/
def applyOrderByX (P : Params) (self : PVal) (n : Nat) (db : DB) (heap : Heap Hnd) (args : List PVal) : CallRes Hnd DB :=
  PyJoins.run (jIface P self (doSortN P n) noCall) applyOrderByProg args db heap

/-- the TRANSLATED `SOMultipleJoin.performJoin(inst)` -/
def multiplePerformJoinX (P : Params) (n : Nat) (db : DB) (k j : Nat) : CallRes Hnd DB :=
  PyJoins.run (jIface P (.obj .mjoin) noCall (applyOrderByX P (.obj .mjoin) n)) multiplePerformJoinProg [.obj (.inst k j)] db Heap.empty

/-- the TRANSLATED `SORelatedJoin.performJoin(inst)` -/
def relatedPerformJoinX (P : Params) (n : Nat) (db : DB) (k j : Nat) : CallRes Hnd DB :=
  PyJoins.run (jIface P (.obj .rjoin) noCall (applyOrderByX P (.obj .rjoin) n)) relatedPerformJoinProg [.obj (.inst k j)] db Heap.empty

/-- the TRANSLATED `SORelatedJoin.add(inst, other)` / `remove(inst, other)`: the arguments are instances or plain ids -/
def relatedAddX (P : Params) (db : DB) (inst other : PVal) : CallRes Hnd DB :=
  PyJoins.run (jIface P (.obj .rjoin) noCall noCall) relatedAddProg [inst, other] db Heap.empty

def relatedRemoveX (P : Params) (db : DB) (inst other : PVal) : CallRes Hnd DB :=
  PyJoins.run (jIface P (.obj .rjoin) noCall noCall) relatedRemoveProg [inst, other] db Heap.empty

/-- the TRANSLATED `SOSingleJoin.performJoin(inst)` -/
def singlePerformJoinX (P : Params) (db : DB) (k j : Nat) : CallRes Hnd DB :=
  PyJoins.run (jIface P (.obj .mjoin) noCall noCall) singlePerformJoinProg [.obj (.inst k j)] db Heap.empty

/-- the TRANSLATED `SOSQLMultipleJoin.performJoin(inst)` -/
def sqlMultiplePerformJoinX (P : Params) (db : DB) (k j : Nat) : CallRes Hnd DB :=
  PyJoins.run (jIface P (.obj .mjoin) noCall noCall) sqlMultiplePerformJoinProg [.obj (.inst k j)] db Heap.empty

/-- the TRANSLATED `SOManyToMany.__get__(obj, type)` / `SOOneToMany.__get__(obj, type)` -/
def m2mGetX (P : Params) (db : DB) (obj ty : PVal) : CallRes Hnd DB :=
  PyJoins.run (jIface P (.obj .m2m) noCall noCall) m2mGetProg [obj, ty] db Heap.empty

def o2mGetX (P : Params) (db : DB) (obj ty : PVal) : CallRes Hnd DB :=
  PyJoins.run (jIface P (.obj .o2m) noCall noCall) o2mGetProg [obj, ty] db Heap.empty

/-- the TRANSLATED `_ManyToManySelectWrapper.add(obj)` / `remove(obj)`; `self` is the wrapper -/
def m2mAddX (P : Params) (self : PVal) (db : DB) (heap : Heap Hnd) (args : List PVal) : CallRes Hnd DB :=
  PyJoins.run (jIface P self noCall noCall) m2mAddProg args db heap

def m2mRemoveX (P : Params) (self : PVal) (db : DB) (heap : Heap Hnd) (args : List PVal) : CallRes Hnd DB :=
  PyJoins.run (jIface P self noCall noCall) m2mRemoveProg args db heap

/-- the interface of the wrapper's `create(**kw)`: `self.add(…)` is the TRANSLATED `add`, `otherClass(**kw)` is `C.createKw` -/
@[reducible] def wIface (P : Params) (self : PVal) : Iface Hnd DB :=
  { jIface P self noCall noCall with
    call := fun db heap o m args kw => if o = self ∧ m = "add" ∧ kw = [] then m2mAddX P self db heap args else .stuck
    callV := jCallVKw P }

/-- the TRANSLATED `_ManyToManySelectWrapper.create(**kw)` -/
def m2mCreateX (P : Params) (self : PVal) (db : DB) (kw : List (PVal × PVal)) : CallRes Hnd DB :=
  PyJoins.run (wIface P self) m2mCreateProg [.dict (PyJoins.Val.ofList (kw.map fun p => .pair p.1 p.2))] db Heap.empty

/-! ### the SQL expressions the query-flavoured accessors build, and the rows they stand for -/

/-- `other.id == Field(t, g) & Field(t, c) == owner` -/
def m2mQuery (k t : Nat) (g c : Bool) (owner : Nat) : PVal :=
  .app "AND" (.cons (.app "==" (.cons (.obj (.idfield k)) (.cons (.app "Field" (.cons (.obj (.tbl t)) (.cons (.obj (.lcol g)) .nil))) .nil)))
    (.cons (.app "==" (.cons (.app "Field" (.cons (.obj (.tbl t)) (.cons (.obj (.lcol c)) .nil))) (.cons (.int owner) .nil))) .nil))

/-- `Field(<table of k>, f) == owner` -/
def o2mQuery (k f owner : Nat) : PVal :=
  .app "==" (.cons (.app "Field" (.cons (.obj (.ctable k)) (.cons (.obj (.col f)) .nil))) (.cons (.int owner) .nil))

/-- the ids a select expression of the query-flavoured accessors stands for (multiset; the order is the database's):
    * `cls k .select(k.q.<f> == owner)` and `cls k .select(Field(<table of k>, f) == owner)` : `C.selectJoin db k f owner`;
    * `cls k .select(k.q.id == Field(t, g) & Field(t, c) == owner)` : `C.interJoin db t g c owner` — one result per
      link row (the other table is joined on its primary key) -/
def whereRows (C : Conn) (db : DB) (k : Nat) : PVal → Option (List (Option Nat))
  | .app t1 (.cons (.app t2 (.cons (.obj (.ctable k')) (.cons (.obj (.col f)) .nil))) (.cons (.int (.ofNat o)) .nil)) =>
    if t1 = "==" ∧ t2 = "Field" ∧ k' = k then some (C.selectJoin db k f o) else none
  | .app t1 (.cons (.app t2 (.cons (.obj (.idfield k')) (.cons (.app t3 (.cons (.obj (.tbl t)) (.cons (.obj (.lcol g)) .nil))) .nil)))
      (.cons (.app t4 (.cons (.app t5 (.cons (.obj (.tbl t')) (.cons (.obj (.lcol c)) .nil))) (.cons (.int (.ofNat o)) .nil))) .nil)) =>
    if t1 = "AND" ∧ t2 = "==" ∧ t3 = "Field" ∧ t4 = "==" ∧ t5 = "Field" ∧ k' = k ∧ t' = t then some (C.interJoin db t g c o) else none
  | _ => none

def queryRows (C : Conn) (db : DB) : PVal → Option (List (Option Nat))
  | .app tag (.cons (.obj (.cls k)) (.cons (.obj (.col f)) (.cons (.int (.ofNat o)) .nil))) =>
    if tag = "select" then some (C.selectJoin db k f o) else none
  | .app tag (.cons (.obj (.cls k)) (.cons q .nil)) => if tag = "select" then whereRows C db k q else none
  | _ => none

/-- what a finished accessor call returned: the ids of the instances in the returned list object -/
def resultIds : CallRes Hnd DB → Option (DB × List PVal)
  | .ret db heap (.ref r) => (heap.cells r).map fun l => (db, l)
  | _ => none

/-! ### the images of the hand model's data -/

/-- the Python spelling of one sort key -/
def keyStr (nm : Nat → List Char) (k : SortKey) : List Char := if k.desc then '-' :: nm k.attr else nm k.attr

/-- a single sort key: a name with an optional `-`, an `SQLObjectField`, a `DESC(SQLObjectField)` -/
inductive Leaf (nm : Nat → List Char) : PVal → SortKey → Prop where
  | str (k : SortKey) : Leaf nm (.str (keyStr nm k)) k
  | fld (a : Nat) : Leaf nm (.obj (.fld a)) ⟨a, false⟩
  | desc (a : Nat) : Leaf nm (.obj (.desc a)) ⟨a, true⟩

/-- `v` is an `orderBy` value denoting the key list `ks`: a single key, a list / tuple of one single key, or a list /
    tuple of two or more such values (these may be nested lists: `doSort` calls itself on the first item and on the rest) -/
inductive Denotes (nm : Nat → List Char) : PVal → List SortKey → Prop where
  | leaf (v : PVal) (k : SortKey) : Leaf nm v k → Denotes nm v [k]
  | list1 (v : PVal) (k : SortKey) : Leaf nm v k → Denotes nm (PyJoins.Val.ofList [v]) [k]
  | listN (v v' : PVal) (vs : List PVal) (ks1 ks2 : List SortKey) :
      Denotes nm v ks1 → Denotes nm (PyJoins.Val.ofList (v' :: vs)) ks2 →
      Denotes nm (PyJoins.Val.ofList (v :: v' :: vs)) (ks1 ++ ks2)
  | tup1 (v : PVal) (k : SortKey) : Leaf nm v k → Denotes nm (.tup (PyJoins.Val.ofList [v])) [k]
  | tupN (v v' : PVal) (vs : List PVal) (ks1 ks2 : List SortKey) :
      Denotes nm v ks1 → Denotes nm (.tup (PyJoins.Val.ofList (v' :: vs))) ks2 →
      Denotes nm (.tup (PyJoins.Val.ofList (v :: v' :: vs))) (ks1 ++ ks2)

/-- the usual spelling: a list of names -/
def keysVal (nm : Nat → List Char) (ks : List SortKey) : PVal := PyJoins.Val.ofList (ks.map fun k => .str (keyStr nm k))

/-- the instances of class `k` with the given ids -/
def instList (k : Nat) (l : List Nat) : List PVal := l.map fun j => .obj (.inst k j)

end SqlObjVerif.Joins
