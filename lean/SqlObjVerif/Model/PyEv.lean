import SqlObjVerif.Model.Events
import SqlObjVerif.Model.PyMain
/-!
# PyEv — the deep embedding the row-signal paths of `sqlobject/main.py:SQLObject` are translated into (C19)

`vlib/extractors/pyevmain.py` TRANSLATES `__init__`, `_create`, `_SO_finishCreate` (with its nested
`_send_RowCreatedSignal`), `_init`, `_SO_setValue`, `set`, `syncUpdate` and the signal frame of `destroySelf` from
/repo's AST into `Block`s of this language on every run (`Extracted/PyEvMain.lean`).  The language is
`Model/PyMain.lean` (C05/C16: dynamic names, dict / list locals, comprehensions, `sorted` / `filter`,
`try/except/finally`; its pure helpers `R`, `mapR`, `dget`, `dset`, `sortByKey`, … are imported) with what the
signal paths need ON TOP — and with the signals NOT ignored:

* `send sig args`         `self.sqlmeta.send(events.<sig>, self, <dict> , <list>)`: the dict / list ARGUMENTS are
                          the caller's own objects — what the listeners leave in them is written back;
* `callPost e`            `func(self)` for a collected post-callback;
* `postponed…`            the thread-local `_postponed_local.postponed_calls`: attribute read (raises AttributeError
                          when absent), `= []`, `del`, `.append(<nested def>)` (a closure over the current frame),
                          the `for func in _postponed_local.postponed_calls:` loop — by INDEX over the live list, so
                          thunks appended while it runs are reached (needs `Ops.fuel` steps) — and `func()`;
* `continue`, `del self._SO_createValues`, `del self.sqlmeta._creating`, `self.id = …`, the INSERT / DELETE calls.

State: `World` = the class constants (`Events.Cfg`: columns, lazyUpdate, defaults, LISTENERS AS DATA), the table,
`self` (`Obj`), the thread-local list, and the ghost log of listener calls / statements / callback runs, each
entry tagged with the level of the class of `self` (0 for a plain class; inheritance chains use the tag).
Locals live in three function-valued spaces (values / lists / dicts), numbered in order of first binding.
Everything done by OTHER objects is a parameter: `Ops` (connection, dispatcher, the cascade of `destroySelf`) and
`Calls` (methods of `self`, postponed thunks).
-/
namespace SqlObjVerif.PyEv
open SqlObjVerif.Events (Val Kw Key Sig Listener Entry Cfg)
open SqlObjVerif.PyMain (R mapR ofOpt dget dhas dset dupdate dictOf sortByKey Exc FnKind)

inductive PV where
  | none
  | bool (b : Bool)
  | int (i : Int)
  | nat (n : Nat)
  /-- an application value the column's validator rejects -/
  | bad
  /-- keyword / attribute name number `c` (a column's name iff `c < ncols`) -/
  | name (c : Nat)
  /-- a string constant that is not one of the numbered names (`'connection'`, `'id'`, …) -/
  | str (s : String)
  | dbName (c : Nat)
  /-- `'_SO_val_<name c>'` -/
  | valName (c : Nat)
  | col (c : Nat)
  | fn (k : FnKind) (c : Nat)
  | row (r : List Val)
  | pair (a b : PV)
  /-- callback number `p` a listener appended to `post_funcs` -/
  | post (p : Nat)
  /-- entry `i` of the thread-local postponed list -/
  | thunkAt (i : Nat)
  /-- `self.__class__` -/
  | selfClass
  /-- the marker `NoDefault` -/
  | noDefault
  /-- a `dict([...])` of constant string keys: an immutable record -/
  | sdict (body : PV)
deriving Repr

def ofVal : Val → PV
  | .null => .none
  | .int i => .int i
  | .bad => .bad

def toVal? : PV → Option Val
  | .none => some .null
  | .int i => some (.int i)
  | .bad => some .bad
  | _ => Option.none

abbrev PDict := List (Nat × PV)

abbrev Env (α : Type) := Nat → Option α
def Env.put {α : Type} (e : Env α) (x : Nat) (v : α) : Env α := fun y => if y = x then some v else e y
def Env.empty {α : Type} : Env α := fun _ => Option.none

/-- the locals of a frame -/
structure Frame where
  vars : Env PV
  lists : Env (List PV)
  dicts : Env PDict

structure Obj where
  /-- `self.id` (`none`: not set yet) -/
  id : Option Nat
  /-- the attributes `_SO_val_<col>` -/
  vals : Nat → Option Val
  /-- `_SO_createValues` (`none`: the attribute does not exist) -/
  cv : Option Kw
  /-- `sqlmeta._creating` is set on the instance -/
  creating : Bool
  dirty : Bool
  obsolete : Bool
  /-- `sqlmeta.row_update_sig_suppress` exists -/
  sigSuppress : Bool
  /-- `_SO_writeLock` is held -/
  lock : Bool

/-- a nested `def` appended to the postponed list: the number of its body, the frame it closes over and the
    instance `self` is in it (class constants, level tag, id) -/
structure Thunk where
  fid : Nat
  cfg : Cfg
  lvl : Nat
  selfId : Option Nat
  frame : Frame

structure World where
  c : Cfg
  /-- level tag of the class of `self` -/
  lvl : Nat
  rows : List (Nat × List Val)
  nextId : Nat
  o : Obj
  /-- `_postponed_local.postponed_calls` (`none`: the attribute does not exist) -/
  postponed : Option (List Thunk)
  log : List (Nat × Entry)

structure St where
  w : World
  vars : Env PV
  lists : Env (List PV)
  dicts : Env PDict

def St.frame (st : St) : Frame := ⟨st.vars, st.lists, st.dicts⟩

inductive DRef where
  | createValues
  | loc (n : Nat)
deriving Repr, DecidableEq

inductive ColAttr where
  | name | dbName | toPython | fromPython | creationOrder | default | defaultSQL | foreignName
deriving Repr, DecidableEq

inductive Flag where
  | dirty | lazyUpdate | cacheValues | creating | obsolete
deriving Repr, DecidableEq

inductive Expr where
  | var (x : Nat)
  | none
  | true
  | false
  | str (s : String)
  | flag (f : Flag)                       -- `self.sqlmeta.<f>`
  | sigSuppress                           -- `getattr(self.sqlmeta, "row_update_sig_suppress", False)`
  | instName (e : Expr)                   -- `instanceName(e)`
  | getattrSelf (e : Expr)                -- `getattr(self, e)`
  | validator (k : FnKind) (e : Expr)     -- `getattr(self, '_SO_from_python_%s' % e, None)`
  | column (e : Expr)                     -- `self.sqlmeta.columns[e]`
  | colAttr (e : Expr) (a : ColAttr)      -- `e.name`, `e.dbName`, `e.default`, …
  | call (f a : Expr)                     -- `f(a, self._SO_validatorState)`
  | idx (e : Expr) (i : Nat)              -- `e[0]`, `e[1]`
  | dictIdx (d : DRef) (k : Expr)         -- `d[k]`
  | pair (a b : Expr)                     -- `(a, b)`
  | getattrCls (e : Expr)                 -- `getattr(self.__class__, e)` (value unused)
  | postponed                             -- `_postponed_local.postponed_calls` (value unused)
  | selfClass                             -- `self.__class__`
  | selfId                                -- `self.id`
  | noDefault                             -- `NoDefault`
  | sdict (e : Expr)                      -- `dict([('k1', v1), ('k2', v2)])`, the pairs nested in `e`
deriving Repr

inductive Cond where
  | truthy (e : Expr)
  | isNone (e : Expr)
  | isNotNone (e : Expr)
  | isNoDefault (e : Expr)                -- `e is NoDefault`
  | not (c : Cond)
  | and (c d : Cond)
  | or (c d : Cond)
  | dictTruthy (d : DRef)
  | listTruthy (l : Nat)
  | columnsTruthy
  | inDict (k : Expr) (d : DRef)
  | inColumns (k : Expr)
  | inPlainSetters (k : Expr)
  | hasattrCls (k : Expr)
  | lenNe (d : DRef) (n : Nat)
  | opaque (src : String)                 -- outside the modelled interface
deriving Repr

inductive Target where
  | one (x : Nat)
  | two (x y : Nat)
deriving Repr, DecidableEq

inductive LExpr where
  | var (l : Nat)
  | lit (es : List Expr)
  | columnList
  | ofRow (e : Expr)
  | items (d : DRef)
  | keys (d : DRef)
  | zip (a b : LExpr)
  | comp (t : Target) (src : LExpr) (e : Expr)
  | sortedBy (x : Nat) (src : LExpr) (key : Expr)
  | filter (x : Nat) (src : LExpr) (c : Cond)
deriving Repr

/-- an argument of `sqlmeta.send` after the signal -/
inductive SArg where
  | self
  | dict (d : DRef)       -- a dict of the caller, passed by reference
  | list (l : Nat)        -- a list of the caller, passed by reference
  | val (e : Expr)        -- an immutable value
deriving Repr

mutual
inductive Stmt where
  | assign (x : Nat) (e : Expr)
  | setFlag (f : Flag) (b : Bool)
  | delCreating                                      -- `del self.sqlmeta._creating`
  | setSigSuppress
  | delSigSuppress
  | setattrSelf (n v : Expr)
  | listAssign (l : Nat) (le : LExpr)
  | dictNew (d : DRef)
  | delCreateValues                                  -- `del self._SO_createValues`
  | dictLit1 (d : DRef) (k v : Expr)
  | dictSet (d : DRef) (k v : Expr)
  | dictUpdate (d src : DRef)
  | dictOfList (d : DRef) (le : LExpr)
  | acquire
  | release
  | newLock                                          -- `self._SO_writeLock = threading.Lock()`
  | newMeta                                          -- `self.sqlmeta = self.__class__.sqlmeta(self)`
  | ghost (what : String)                            -- a call / attribute the model has no state for (cache bookkeeping, validator state)
  | setId (e : Expr)                                 -- `self.id = e`
  | selectOne (x : Nat) (le : LExpr)
  | update (le : LExpr)
  | insert (x : Nat) (id : Expr) (names vals : LExpr) -- `x = self._connection.queryInsertID(self, id, names, vals)`
  | delete                                           -- `self._connection._SO_delete(self)`
  | cascade                                          -- the joins / dependents part of `destroySelf` (a parameter)
  | send (sig : Sig) (args : List SArg)
  | callPost (e : Expr)                              -- `e(self)`
  | postponedNew                                     -- `_postponed_local.postponed_calls = []`
  | delPostponed                                     -- `del _postponed_local.postponed_calls`
  | postponedAppend (fid : Nat)                      -- `_postponed_local.postponed_calls.append(<nested def fid>)`
  | forPostponed (x : Nat) (body : Block)            -- `for x in _postponed_local.postponed_calls: body`
  | callThunk (e : Expr)                             -- `e()`
  | callSelf (m : String) (args : List Expr)
  | callSelfKw (m : String) (args : List Expr) (d : DRef)   -- `self.m(args, **d)`
  | exprStmt (e : Expr)
  | assert (c : Cond)
  | raise (e : Exc)
  | ite (c : Cond) (t e : Block)
  | for (t : Target) (le : LExpr) (body : Block)
  | tryExcept (body : Block) (exc : Exc) (handler orelse : Block)
  | tryFinally (body fin : Block)
  | ret (e : Expr)
  | retNone
  | continue
  | pass
  | opaque (src : String)                            -- outside the modelled interface (only under a test the model never passes)
inductive Block where
  | nil
  | cons (s : Stmt) (rest : Block)
end

/-! ### state access -/

def St.setVar (st : St) (x : Nat) (v : PV) : St := { st with vars := st.vars.put x v }
def St.setList (st : St) (l : Nat) (vs : List PV) : St := { st with lists := st.lists.put l vs }
def St.setW (st : St) (w : World) : St := { st with w := w }
def St.setObj (st : St) (o : Obj) : St := { st with w := { st.w with o := o } }

def kwPV (kw : Kw) : PDict := kw.map fun e => (e.1, ofVal e.2)

def kwOf : PDict → Option Kw
  | [] => some []
  | e :: l => match toVal? e.2, kwOf l with
    | some v, some r => some ((e.1, v) :: r)
    | _, _ => Option.none

def St.getDict (st : St) : DRef → Option PDict
  | .createValues => st.w.o.cv.map kwPV
  | .loc n => st.dicts n

def St.setDict (st : St) : DRef → PDict → Option St
  | .createValues, d => (kwOf d).map fun cv => st.setObj { st.w.o with cv := some cv }
  | .loc n, d => some { st with dicts := st.dicts.put n d }

def Target.bind (st : St) : Target → PV → Option St
  | .one x, v => some (st.setVar x v)
  | .two x y, .pair a b => some ((st.setVar x a).setVar y b)
  | .two _ _, _ => Option.none

def getFlag (w : World) : Flag → Bool
  | .dirty => w.o.dirty
  | .lazyUpdate => w.c.lazy
  | .cacheValues => w.c.cacheValues
  | .creating => w.o.creating
  | .obsolete => w.o.obsolete

def Obj.setFlag (o : Obj) : Flag → Bool → Option Obj
  | .dirty, b => some { o with dirty := b }
  | .creating, b => some { o with creating := b }
  | .obsolete, b => some { o with obsolete := b }
  | _, _ => Option.none

def Obj.setVal (o : Obj) (c : Nat) (v : Option Val) : Obj :=
  { o with vals := fun k => if k = c then v else o.vals k }

/-! ### expressions -/

/-- a validator of an `IntCol`: `from_python` rejects `bad`; otherwise both directions keep the value -/
def callFn : PV → PV → R PV
  | .fn .fromPy _, .bad => .exc .invalid
  | .fn _ _, v => match toVal? v with
    | some x => .ok (ofVal x)
    | Option.none => .stuck
  | _, _ => .stuck

def colAttrOf (c : Cfg) : PV → ColAttr → R PV
  | .col k, .name => .ok (.name k)
  | .col k, .dbName => .ok (.dbName k)
  | .col k, .toPython => .ok (.fn .toPy k)
  | .col k, .fromPython => .ok (.fn .fromPy k)
  | .col k, .creationOrder => .ok (.nat k)
  | .col k, .default => .ok (ofVal (c.dflt k))
  | .col _, .defaultSQL => .ok .none
  | .col _, .foreignName => .ok .none
  | _, _ => .stuck

def pvIdx : PV → Nat → R PV
  | .pair a _, 0 => .ok a
  | .pair _ b, 1 => .ok b
  | .row r, i => match r[i]? with
    | some v => .ok (ofVal v)
    | Option.none => .stuck
  | _, _ => .stuck

def nameOf : PV → Option Nat
  | .name c => some c
  | _ => Option.none

def Expr.eval (st : St) : Expr → R PV
  | .var x => ofOpt (st.vars x)
  | .none => .ok .none
  | .true => .ok (.bool Bool.true)
  | .false => .ok (.bool Bool.false)
  | .str s => .ok (.str s)
  | .flag f => .ok (.bool (getFlag st.w f))
  | .sigSuppress => .ok (.bool st.w.o.sigSuppress)
  | .instName e => (e.eval st).bind fun
    | .name c => .ok (.valName c)
    | _ => .stuck
  | .getattrSelf e => (e.eval st).bind fun
    | .valName c => match st.w.o.vals c with
      | some v => .ok (ofVal v)
      | Option.none => .exc .attributeError
    | _ => .stuck
  | .validator kd e => (e.eval st).bind fun
    | .name c => .ok (if Nat.blt c st.w.c.ncols then .fn kd c else .none)
    | _ => .stuck
  | .column e => (e.eval st).bind fun
    | .name c => if Nat.blt c st.w.c.ncols then .ok (.col c) else .exc .keyError
    | _ => .stuck
  | .colAttr e a => (e.eval st).bind fun v => colAttrOf st.w.c v a
  | .call f a => (f.eval st).bind fun fv => (a.eval st).bind fun av => callFn fv av
  | .idx e i => (e.eval st).bind fun v => pvIdx v i
  | .dictIdx d ke => (ke.eval st).bind fun
    | .name c => match st.getDict d with
      | some l => match dget c l with
        | some v => .ok v
        | Option.none => .exc .keyError
      | Option.none => .stuck
    | _ => .stuck
  | .pair a b => (a.eval st).bind fun av => (b.eval st).bind fun bv => .ok (.pair av bv)
  | .getattrCls e => (e.eval st).bind fun
    | .name c => if Nat.blt c st.w.c.ncols then .ok .none else .exc .attributeError
    | _ => .stuck
  | .postponed => match st.w.postponed with
    | some _ => .ok .none
    | Option.none => .exc .attributeError
  | .selfClass => .ok .selfClass
  | .selfId => match st.w.o.id with
    | some i => .ok (.nat i)
    | Option.none => .exc .attributeError
  | .noDefault => .ok .noDefault
  | .sdict e => (e.eval st).bind fun v => .ok (.sdict v)

def pyBool : PV → Option Bool
  | .none => some false
  | .bool b => some b
  | .int i => some (i != 0)
  | .nat n => some (n != 0)
  | .bad => Option.none
  | .row r => some (!r.isEmpty)
  | _ => some true

def PV.isNone : PV → Bool
  | .none => true
  | _ => false

def PV.isNoDefault : PV → Bool
  | .noDefault => true
  | _ => false

/-- `k in d` for a dict keyed by numbered names: a string constant or `None` is never a key -/
def keyIn (l : PDict) : PV → Option Bool
  | .name c => some (dhas c l)
  | .str _ => some false
  | .none => some false
  | _ => Option.none

def Cond.eval (st : St) : Cond → R Bool
  | .truthy e => (e.eval st).bind fun v => ofOpt (pyBool v)
  | .isNone e => (e.eval st).bind fun v => .ok v.isNone
  | .isNotNone e => (e.eval st).bind fun v => .ok (!v.isNone)
  | .isNoDefault e => (e.eval st).bind fun v => .ok v.isNoDefault
  | .not c => (c.eval st).bind fun b => .ok (!b)
  | .and c d => (c.eval st).bind fun b => if b then d.eval st else .ok false
  | .or c d => (c.eval st).bind fun b => if b then .ok true else d.eval st
  | .dictTruthy d => (ofOpt (st.getDict d)).bind fun l => .ok (!l.isEmpty)
  | .listTruthy l => (ofOpt (st.lists l)).bind fun vs => .ok (!vs.isEmpty)
  | .columnsTruthy => .ok (st.w.c.ncols != 0)
  | .inDict ke d => (ke.eval st).bind fun v => (ofOpt (st.getDict d)).bind fun l => ofOpt (keyIn l v)
  | .inColumns ke => (ke.eval st).bind fun v => (ofOpt (nameOf v)).bind fun c => .ok (Nat.blt c st.w.c.ncols)
  | .inPlainSetters ke => (ke.eval st).bind fun v => (ofOpt (nameOf v)).bind fun c => .ok (Nat.blt c st.w.c.ncols)
  | .hasattrCls ke => (ke.eval st).bind fun v => (ofOpt (nameOf v)).bind fun c => .ok (Nat.blt c st.w.c.ncols)
  | .lenNe d n => (ofOpt (st.getDict d)).bind fun l => .ok (l.length != n)
  | .opaque _ => .stuck

def itemsOf (l : PDict) : List PV := l.map fun e => .pair (.name e.1) e.2

def natOf : PV → Option Nat
  | .nat n => some n
  | _ => Option.none

def LExpr.eval (st : St) : LExpr → R (List PV)
  | .var l => ofOpt (st.lists l)
  | .lit es => mapR (fun e => e.eval st) es
  | .columnList => .ok ((List.range st.w.c.ncols).map .col)
  | .ofRow e => (e.eval st).bind fun
    | .row r => .ok (r.map ofVal)
    | _ => .stuck
  | .items d => (ofOpt (st.getDict d)).bind fun l => .ok (itemsOf l)
  | .keys d => (ofOpt (st.getDict d)).bind fun l => .ok (l.map fun e => .name e.1)
  | .zip a b => (a.eval st).bind fun xs => (b.eval st).bind fun ys => .ok (List.zipWith .pair xs ys)
  | .comp t src e => (src.eval st).bind fun xs =>
      mapR (fun v => (ofOpt (t.bind st v)).bind fun st' => e.eval st') xs
  | .sortedBy x src key => (src.eval st).bind fun xs =>
      (mapR (fun v => ((key.eval (st.setVar x v)).bind fun kv => ofOpt (natOf kv)).bind fun n => .ok (n, v)) xs).bind fun kxs =>
        .ok ((sortByKey kxs).map (·.2))
  | .filter x src c => (src.eval st).bind fun xs =>
      (mapR (fun v => (c.eval (st.setVar x v)).bind fun b => .ok (b, v)) xs).bind fun bxs =>
        .ok ((bxs.filter (·.1)).map (·.2))

/-! ### statements -/

inductive Outcome where
  | ret (w : World) (v : PV)
  | exc (w : World) (e : Exc)
  | deadlock (w : World)
  | stuck

inductive Res where
  | norm (st : St)
  | ret (st : St) (v : PV)
  | exc (st : St) (e : Exc)
  /-- `continue` -/
  | cont (st : St)
  | deadlock (st : St)
  | stuck

/-- the connection, the dispatcher and the cascade of `destroySelf`: PARAMETERS -/
structure Ops where
  /-- `sqlmeta.send(signal, self, kwargs, post_funcs)` on the class's listeners: what they leave in `kwargs` and
      `post_funcs`, and the calls made (`none`: outside the interface) -/
  send : Sig → Option Nat → List Listener → Kw → List Nat → Option (Kw × List Nat × List Entry)
  /-- `_SO_selectOne(self, <all dbNames>)` -/
  selectOne : World → List Nat → Option (Option (List Val))
  /-- `_SO_update(self, values)` -/
  update : World → List (Nat × Val) → Option World
  /-- `queryInsertID(self, id, names, values)` -/
  insert : World → PV → List Nat → List Val → Option (World × Nat)
  /-- `_SO_delete(self)` -/
  delete : World → Option World
  /-- the joins / dependents part of `destroySelf` -/
  cascade : World → Option World
  /-- how many entries of the postponed list a flush may visit -/
  fuel : Nat

/-- methods of `self` and postponed thunks: PARAMETERS -/
structure Calls where
  meth : String → List PV → PDict → World → Outcome
  thunk : Thunk → World → Outcome

def forLoop {α : Type} (f : St → α → Res) : List α → St → Res
  | [], st => .norm st
  | v :: vs, st => match f st v with
    | .norm st' => forLoop f vs st'
    | .cont st' => forLoop f vs st'
    | r => r

/-- `for x in _postponed_local.postponed_calls`: by index over the live list -/
def idxLoop (f : St → Nat → Res) : Nat → Nat → St → Res
  | 0, _, _ => .stuck
  | fuel + 1, i, st => match st.w.postponed with
    | Option.none => .stuck
    | some l => if i < l.length then
        (match f st i with
         | .norm st' => idxLoop f fuel (i + 1) st'
         | .cont st' => idxLoop f fuel (i + 1) st'
         | r => r)
      else .norm st

def bindThen (t : Target) (k : St → Res) (st : St) (v : PV) : Res :=
  match t.bind st v with
  | some st' => k st'
  | Option.none => .stuck

def bindIdx (x : Nat) (k : St → Res) (st : St) (i : Nat) : Res := k (st.setVar x (.thunkAt i))

def afterCall (call : Outcome) (st : St) : Res :=
  match call with
  | .ret w _ => .norm { st with w := w }
  | .exc w e => .exc { st with w := w } e
  | .deadlock w => .deadlock { st with w := w }
  | .stuck => .stuck

def withR {α : Type} (st : St) (r : R α) (f : α → Res) : Res :=
  match r with
  | .ok a => f a
  | .exc e => .exc st e
  | .stuck => .stuck

def ofOptRes {α : Type} (o : Option α) (f : α → Res) : Res :=
  match o with
  | some a => f a
  | Option.none => .stuck

def dbNameOf : PV → Option Nat
  | .dbName c => some c
  | _ => Option.none

def optMap {α β : Type} (f : α → Option β) : List α → Option (List β)
  | [] => some []
  | a :: l => match f a, optMap f l with
    | some b, some bs => some (b :: bs)
    | _, _ => Option.none

def updItemOf : PV → Option (Nat × Val)
  | .pair (.dbName c) v => (toVal? v).map fun x => (c, x)
  | _ => Option.none

def dictItemOf : PV → Option (Nat × PV)
  | .pair (.name c) v => some (c, v)
  | _ => Option.none

def postOf : PV → Option Nat
  | .post p => some p
  | _ => Option.none

/-- the dict / list arguments of a `send` -/
def sargDict : List SArg → Option DRef
  | [] => Option.none
  | .dict d :: _ => some d
  | _ :: r => sargDict r

def sargList : List SArg → Option Nat
  | [] => Option.none
  | .list l :: _ => some l
  | _ :: r => sargList r

def sargsOk : List SArg → Bool
  | .self :: _ => true
  | _ => false

def tagLog (lvl : Nat) (es : List Entry) : List (Nat × Entry) := es.map fun e => (lvl, e)

/-- `self.sqlmeta.send(events.<sig>, self, …)`: the dict / list arguments go to the listeners and come back -/
def doSend (ops : Ops) (st : St) (sig : Sig) (args : List SArg) : Res :=
  if sargsOk args then
    ofOptRes (match sargDict args with
        | some d => (st.getDict d).bind kwOf
        | Option.none => some []) fun kw =>
    ofOptRes (match sargList args with
        | some l => (st.lists l).bind (optMap postOf)
        | Option.none => some []) fun pf =>
    ofOptRes (ops.send sig st.w.o.id st.w.c.listeners kw pf) fun r =>
    ofOptRes (match sargDict args with
        | some d => st.setDict d (kwPV r.1)
        | Option.none => some st) fun st1 =>
      let st2 := match sargList args with
        | some l => st1.setList l (r.2.1.map .post)
        | Option.none => st1
      .norm (st2.setW { st2.w with log := st2.w.log ++ tagLog st2.w.lvl r.2.2 })
  else .stuck

def thunkOf (st : St) (fid : Nat) : Thunk := ⟨fid, st.w.c, st.w.lvl, st.w.o.id, st.frame⟩

/-- the result of a `finally:` block that ran after the body ended with `mk` pending -/
def finishWith (mk : St → Res) (r : Res) : Res :=
  match r with
  | .norm st'' => mk st''
  | .ret st v => .ret st v
  | .exc st e => .exc st e
  | .cont st => .cont st
  | .deadlock st => .deadlock st
  | .stuck => .stuck

/-- `try: body finally: fin` once `body` ended -/
def finish (rb : Res) (fin : St → Res) : Res :=
  match rb with
  | .norm st' => fin st'
  | .ret st' v => finishWith (fun st'' => .ret st'' v) (fin st')
  | .exc st' e => finishWith (fun st'' => .exc st'' e) (fin st')
  | .cont st' => finishWith (fun st'' => .cont st'') (fin st')
  | .deadlock st' => .deadlock st'
  | .stuck => .stuck

/-- `s; rest` -/
def Res.seq (r : Res) (k : St → Res) : Res :=
  match r with
  | .norm st' => k st'
  | .ret st v => .ret st v
  | .exc st e => .exc st e
  | .cont st => .cont st
  | .deadlock st => .deadlock st
  | .stuck => .stuck

mutual
def Stmt.exec (ops : Ops) (call : Calls) (st : St) : Stmt → Res
  | .assign x e => withR st (e.eval st) fun v => .norm (st.setVar x v)
  | .setFlag f b => ofOptRes (st.w.o.setFlag f b) fun o => .norm (st.setObj o)
  | .delCreating =>
    if st.w.o.creating then .norm (st.setObj { st.w.o with creating := false }) else .exc st .attributeError
  | .setSigSuppress => .norm (st.setObj { st.w.o with sigSuppress := true })
  | .delSigSuppress =>
    if st.w.o.sigSuppress then .norm (st.setObj { st.w.o with sigSuppress := false })
    else .exc st .attributeError
  | .setattrSelf n v => withR st (n.eval st) fun
    | .valName c => withR st (v.eval st) fun pv => ofOptRes (toVal? pv) fun x =>
        .norm (st.setObj (st.w.o.setVal c (some x)))
    | _ => .stuck
  | .listAssign l le => withR st (le.eval st) fun vs => .norm (st.setList l vs)
  | .dictNew d => ofOptRes (st.setDict d []) .norm
  | .delCreateValues => match st.w.o.cv with
    | some _ => .norm (st.setObj { st.w.o with cv := Option.none })
    | Option.none => .exc st .attributeError
  | .dictLit1 d k v => withR st (k.eval st) fun kv => ofOptRes (nameOf kv) fun c =>
      withR st (v.eval st) fun pv => ofOptRes (st.setDict d [(c, pv)]) .norm
  | .dictSet d k v => withR st (k.eval st) fun kv => ofOptRes (nameOf kv) fun c =>
      withR st (v.eval st) fun pv => ofOptRes (st.getDict d) fun l => ofOptRes (st.setDict d (dset c pv l)) .norm
  | .dictUpdate d src => ofOptRes (st.getDict d) fun l => ofOptRes (st.getDict src) fun s =>
      ofOptRes (st.setDict d (dupdate s l)) .norm
  | .dictOfList d le => withR st (le.eval st) fun vs => ofOptRes (optMap dictItemOf vs) fun ps =>
      ofOptRes (st.setDict d (dictOf ps)) .norm
  | .acquire => if st.w.o.lock then .deadlock st else .norm (st.setObj { st.w.o with lock := true })
  | .release => if st.w.o.lock then .norm (st.setObj { st.w.o with lock := false }) else .exc st .runtimeError
  | .newLock => .norm (st.setObj { st.w.o with lock := false })
  | .newMeta => .norm (st.setObj { st.w.o with creating := false, dirty := false, obsolete := false, sigSuppress := false })
  | .ghost _ => .norm st
  | .setId e => withR st (e.eval st) fun
    | .nat i => .norm (st.setObj { st.w.o with id := some i })
    | _ => .stuck
  | .selectOne x le => withR st (le.eval st) fun vs => ofOptRes (optMap dbNameOf vs) fun cols =>
      ofOptRes (ops.selectOne st.w cols) fun r =>
        .norm (st.setVar x (match r with | some row => .row row | Option.none => .none))
  | .update le => withR st (le.eval st) fun vs => ofOptRes (optMap updItemOf vs) fun p =>
      ofOptRes (ops.update st.w p) fun w => .norm (st.setW w)
  | .insert x ide names vals => withR st (ide.eval st) fun idv =>
      withR st (names.eval st) fun ns => ofOptRes (optMap dbNameOf ns) fun cols =>
      withR st (vals.eval st) fun vs => ofOptRes (optMap toVal? vs) fun xs =>
      ofOptRes (ops.insert st.w idv cols xs) fun r => .norm ((st.setW r.1).setVar x (.nat r.2))
  | .delete => ofOptRes (ops.delete st.w) fun w => .norm (st.setW w)
  | .cascade => ofOptRes (ops.cascade st.w) fun w => .norm (st.setW w)
  | .send sig args => doSend ops st sig args
  | .callPost e => withR st (e.eval st) fun
    | .post p => ofOptRes st.w.o.id fun i =>
        .norm (st.setW { st.w with log := st.w.log ++ [(st.w.lvl, Entry.post p i)] })
    | _ => .stuck
  | .postponedNew => .norm (st.setW { st.w with postponed := some [] })
  | .delPostponed => match st.w.postponed with
    | some _ => .norm (st.setW { st.w with postponed := Option.none })
    | Option.none => .exc st .attributeError
  | .postponedAppend fid => match st.w.postponed with
    | some l => .norm (st.setW { st.w with postponed := some (l ++ [thunkOf st fid]) })
    | Option.none => .exc st .attributeError
  | .forPostponed x body => match st.w.postponed with
    | some _ => idxLoop (bindIdx x fun st' => body.exec ops call st') ops.fuel 0 st
    | Option.none => .exc st .attributeError
  | .callThunk e => withR st (e.eval st) fun
    | .thunkAt i => ofOptRes (st.w.postponed.bind fun l => l[i]?) fun t => afterCall (call.thunk t st.w) st
    | _ => .stuck
  | .callSelf m args => withR st (mapR (fun e => e.eval st) args) fun vs => afterCall (call.meth m vs [] st.w) st
  | .callSelfKw m args d => withR st (mapR (fun e => e.eval st) args) fun vs =>
      ofOptRes (st.getDict d) fun kw => afterCall (call.meth m vs kw st.w) st
  | .exprStmt e => withR st (e.eval st) fun _ => .norm st
  | .assert c => withR st (c.eval st) fun b => if b then .norm st else .exc st .assertion
  | .raise e => .exc st e
  | .ite c t e => withR st (c.eval st) fun b => if b then t.exec ops call st else e.exec ops call st
  | .for t le body => withR st (le.eval st) fun vs =>
      forLoop (bindThen t fun st' => body.exec ops call st') vs st
  | .tryExcept body exc handler orelse => match body.exec ops call st with
    | .norm st' => orelse.exec ops call st'
    | .exc st' e => if e = exc then handler.exec ops call st' else .exc st' e
    | r => r
  | .tryFinally body fin => finish (body.exec ops call st) fun st' => fin.exec ops call st'
  | .ret e => withR st (e.eval st) fun v => .ret st v
  | .retNone => .ret st .none
  | .continue => .cont st
  | .pass => .norm st
  | .opaque _ => .stuck
def Block.exec (ops : Ops) (call : Calls) (st : St) : Block → Res
  | .nil => .norm st
  | .cons s rest => (s.exec ops call st).seq fun st' => rest.exec ops call st'
end

def Res.toOutcome : Res → Outcome
  | .norm st => .ret st.w .none
  | .ret st v => .ret st.w v
  | .exc st e => .exc st.w e
  | .cont _ => .stuck
  | .deadlock st => .deadlock st.w
  | .stuck => .stuck

def envOfList {α : Type} (l : List α) : Env α := fun x => l[x]?

/-- call a method: `args` are the parameters after `self` (defaults filled in by the caller), `kw` (if the
    method has `**kw`) is dict local 0 -/
def run (ops : Ops) (call : Calls) (prog : Block) (args : List PV) (kw : PDict) (w : World) : Outcome :=
  (prog.exec ops call { w := w, vars := envOfList args, lists := Env.empty, dicts := Env.empty.put 0 kw }).toOutcome

/-- run a nested `def` over the frame it closed over -/
def runFrame (ops : Ops) (call : Calls) (prog : Block) (f : Frame) (w : World) : Outcome :=
  (prog.exec ops call { w := w, vars := f.vars, lists := f.lists, dicts := f.dicts }).toOutcome

end SqlObjVerif.PyEv
