/-!
# Vocabulary of the literal pipeline (`converters.py`, `sqlbuilder.py`, `dbconnection.py`)

The *data* of these types is regenerated from `/repo` by `vlib/extractors/lex.py`
(see `Extracted/Lex.lean`); this file only fixes the vocabulary the extractor may use.
Characters are `Nat` code points, so the whole Unicode range and NUL are ordinary values.
-/
namespace SqlObjVerif.Lex

abbrev Str := List Nat

/-- the seven `dbName`s sqlobject renders for -/
inductive Dialect where
  | sqlite | mysql | postgres | firebird | sybase | maxdb | mssql
deriving DecidableEq, Repr

def Dialect.all : List Dialect := [.sqlite, .mysql, .postgres, .firebird, .sybase, .maxdb, .mssql]

/-- what a branch of `StringLikeConverter` does to the value -/
inductive EscAction where
  | table                          -- `for orig, repl in sqlStringReplace: value = value.replace(orig, repl)`
  | single (orig : Nat) (repl : Str) -- `value = value.replace(orig, repl)`
deriving DecidableEq, Repr

/-- one piece of a `%`-format string -/
inductive FmtPiece where
  | lit (t : Str)                  -- literal text
  | num (width : Nat) (arg : Nat)  -- `%0<width>d` (or `%d` for width 0) of the `arg`-th field
  | arg                            -- `%s`, next string argument
deriving DecidableEq, Repr

/-- right-hand side of one `.replace(orig, …)` of `_quote_like_special` -/
inductive LikeRepl where
  | lit (t : Str)                  -- a constant
  | escPlus (t : Str)              -- `escape + <constant>`
deriving DecidableEq, Repr

/-- `prefix + _LikeQuoted(pattern) + postfix`, `escape=` of STARTSWITH / ENDSWITH / CONTAINSSTRING -/
structure LikeOp where
  pre  : Str
  post : Str
  esc  : Str
deriving DecidableEq, Repr

end SqlObjVerif.Lex
