/-!
# Model `TxLazy` — lazyUpdate instances under a transaction (C07: pending, unsynced assignments)

Mirrors, for a class with `sqlmeta.lazyUpdate = True`: `_SO_setValue` (lazy branch: the value goes to
`_SO_createValues` and to the cached attribute, nothing is sent), `syncUpdate` (one UPDATE of the pending values
through the instance's connection, then the pending set is emptied), `_SO_loadValue` (reload, pending values laid
on top), `expire` (cached attributes, pending values and the dirty flag are dropped; the instance leaves its
connection's cache) and `Transaction.commit / rollback / begin` with their expiry loops.  Cache membership is
reduced to one flag per instance (`attached`: the cache of its connection would hand out this instance), which is
all commit and rollback need.
-/
namespace SqlObjVerif.TxLazy

abbrev Key := Nat
abbrev Col := Nat
abbrev Val := Int
abbrev Row := Col → Val

inductive Side | P | T
  deriving DecidableEq, Repr

def upd {α : Type} (f : Nat → α) (k : Nat) (v : α) : Nat → α := fun x => if x = k then v else f x

@[simp, grind =] theorem upd_apply {α : Type} (f : Nat → α) (k : Nat) (v : α) (x : Nat) :
    upd f k v x = if x = k then v else f x := rfl

structure Inst where
  key : Key
  cached : Col → Option Val
  /-- `_SO_createValues`: assigned, not yet written (`dirty` = some column pending) -/
  pending : Col → Option Val
  attached : Bool

def Inst.blank : Inst := ⟨0, fun _ => none, fun _ => none, false⟩

/-- `expire()` -/
def Inst.expire (i : Inst) : Inst := { i with cached := fun _ => none, pending := fun _ => none, attached := false }

def Inst.detach (i : Inst) : Inst := { i with attached := false }

/-- the row with the pending values laid on top -/
def overlay (r : Row) (p : Col → Option Val) : Row := fun c => match p c with
  | some v => v
  | none => r c

structure Conn where
  insts : Nat → Inst
  n : Nat

structure St where
  db : Key → Option Row
  /-- the transaction's own view (`= db` while it has written nothing) -/
  txv : Key → Option Row
  /-- the transaction has written since the last commit / rollback (SQLite write lock) -/
  lock : Bool
  obsolete : Bool
  /-- `_updatedCache`: rows written through `Transaction._SO_update` since the last commit / rollback / close -/
  updLog : List Key
  p : Conn
  t : Conn

def init : St := ⟨fun _ => none, fun _ => none, false, false, [], ⟨fun _ => Inst.blank, 0⟩, ⟨fun _ => Inst.blank, 0⟩⟩

def St.conn (s : St) : Side → Conn
  | .P => s.p
  | .T => s.t

def St.setConn (s : St) (sd : Side) (c : Conn) : St :=
  match sd with
  | .P => { s with p := c }
  | .T => { s with t := c }

def St.view (s : St) : Side → Key → Option Row
  | .P => s.db
  | .T => s.txv

def Conn.modify (c : Conn) (j : Nat) (f : Inst → Inst) : Conn := { c with insts := upd c.insts j (f (c.insts j)) }

/-- the attached instance of row `k`, if any (lowest index) -/
def Conn.find (c : Conn) (k : Key) : Option Nat :=
  (List.range c.n).find? fun j => (c.insts j).attached && (c.insts j).key == k

inductive Op
  /-- the application puts a row into the table through the parent connection (eager INSERT) -/
  | insert (k : Key) (row : Row)
  | get (sd : Side) (k : Key)
  /-- `inst.col = v` on a lazy instance: pending, nothing is sent -/
  | assign (sd : Side) (j : Nat) (c : Col) (v : Val)
  /-- `inst.syncUpdate()` -/
  | sync (sd : Side) (j : Nat)
  | read (sd : Side) (j : Nat) (c : Col)
  | expire (sd : Side) (j : Nat)
  | commit (close : Bool)
  | rollback
  | begin

inductive Out
  | ok | inst (j : Nat) | val (v : Val) | notFound | dup | locked | assert | bad
  deriving DecidableEq, Repr

def opGet (s : St) (sd : Side) (k : Key) : St × Out :=
  match (s.conn sd).find k with
  | some j => (s, .inst j)
  | none =>
    if sd == .T && s.obsolete then (s, .assert) else
    match s.view sd k with
    | none => (s, .notFound)
    | some row =>
      (s.setConn sd { insts := upd (s.conn sd).insts (s.conn sd).n ⟨k, fun c => some (row c), fun _ => none, true⟩,
                      n := (s.conn sd).n + 1 }, .inst (s.conn sd).n)

def opAssign (s : St) (sd : Side) (j : Nat) (c : Col) (v : Val) : St × Out :=
  if j ≥ (s.conn sd).n then (s, .bad) else
  (s.setConn sd ((s.conn sd).modify j fun i =>
    { i with cached := upd i.cached c (some v), pending := upd i.pending c (some v) }), .ok)

/-- `syncUpdate()`: nothing pending → nothing happens (not even `assertActive`) -/
def hasPending (i : Inst) (ncols : Nat) : Bool := (List.range ncols).any fun c => (i.pending c).isSome

/-- number of columns of the class (the UPDATE lists the pending ones among them) -/
def ncols : Nat := 2

def opSync (s : St) (sd : Side) (j : Nat) : St × Out :=
  if j ≥ (s.conn sd).n then (s, .bad) else
  if !hasPending ((s.conn sd).insts j) ncols then (s, .ok) else
  match sd with
  | .P =>
    if s.lock then (s, .locked) else
    ({ s with db := upd s.db (s.p.insts j).key ((s.db (s.p.insts j).key).map fun r => overlay r (s.p.insts j).pending),
              txv := upd s.txv (s.p.insts j).key ((s.db (s.p.insts j).key).map fun r => overlay r (s.p.insts j).pending),
              p := s.p.modify j fun i => { i with pending := fun _ => none } }, .ok)
  | .T =>
    -- `Transaction._SO_update` logs the row first, then the UPDATE goes through `assertActive`
    if s.obsolete then ({ s with updLog := (s.t.insts j).key :: s.updLog }, .assert) else
    ({ s with lock := true, updLog := (s.t.insts j).key :: s.updLog,
              txv := upd s.txv (s.t.insts j).key ((s.txv (s.t.insts j).key).map fun r => overlay r (s.t.insts j).pending),
              t := s.t.modify j fun i => { i with pending := fun _ => none } }, .ok)

def opRead (s : St) (sd : Side) (j : Nat) (c : Col) : St × Out :=
  if j ≥ (s.conn sd).n then (s, .bad) else
  match ((s.conn sd).insts j).cached c with
  | some v => (s, .val v)
  | none =>
    if sd == .T && s.obsolete then (s, .assert) else
    match s.view sd ((s.conn sd).insts j).key with
    | none => (s, .notFound)
    | some row =>
      (s.setConn sd ((s.conn sd).modify j fun i =>
        { i with cached := fun x => some (overlay row i.pending x) }),
       .val (overlay row ((s.conn sd).insts j).pending c))

def opExpire (s : St) (sd : Side) (j : Nat) : St × Out :=
  if j ≥ (s.conn sd).n then (s, .bad) else
  -- `cache.expire(id)` evicts whatever instance of the row is cached
  (s.setConn sd ⟨fun x =>
      if x = j then ((s.conn sd).insts j).expire
      else if ((s.conn sd).insts x).key = ((s.conn sd).insts j).key then ((s.conn sd).insts x).detach
      else (s.conn sd).insts x, (s.conn sd).n⟩, .ok)

/-- the transaction cache reaches row `k` -/
def St.reached (s : St) (k : Key) : Bool := (s.t.find k).isSome || s.updLog.contains k

def opCommit (s : St) (close : Bool) : St × Out :=
  if s.obsolete then (s, .ok) else
  ({ s with db := s.txv, lock := false, obsolete := close, updLog := [],
            p := ⟨fun j =>
              if (s.reached (s.p.insts j).key && (s.p.find (s.p.insts j).key == some j)) = true then (s.p.insts j).expire
              else s.p.insts j, s.p.n⟩ }, .ok)

def opRollback (s : St) : St × Out :=
  if s.obsolete then (s, .ok) else
  ({ s with txv := s.db, lock := false, obsolete := true, updLog := [],
            t := ⟨fun j =>
              if (s.t.find (s.t.insts j).key == some j) = true then (s.t.insts j).expire else s.t.insts j, s.t.n⟩ }, .ok)

def opBegin (s : St) : St × Out :=
  if s.obsolete then ({ s with obsolete := false }, .ok) else (s, .assert)

def opInsert (s : St) (k : Key) (row : Row) : St × Out :=
  if s.lock then (s, .locked) else
  if (s.db k).isSome then (s, .dup) else
  ({ s with db := upd s.db k (some row), txv := upd s.txv k (some row) }, .ok)

def step (s : St) : Op → St × Out
  | .insert k row => opInsert s k row
  | .get sd k => opGet s sd k
  | .assign sd j c v => opAssign s sd j c v
  | .sync sd j => opSync s sd j
  | .read sd j c => opRead s sd j c
  | .expire sd j => opExpire s sd j
  | .commit close => opCommit s close
  | .rollback => opRollback s
  | .begin => opBegin s

def run (s : St) : List Op → St
  | [] => s
  | op :: ops => run (step s op).1 ops

def outs (s : St) : List Op → List Out
  | [] => []
  | op :: ops => (step s op).2 :: outs (step s op).1 ops

end SqlObjVerif.TxLazy
