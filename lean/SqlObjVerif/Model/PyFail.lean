import SqlObjVerif.Model.Fail
import SqlObjVerif.Model.PyMain
/-!
# PyFail — an EXCEPTION-INJECTING reference semantics for the Python fragment of `Model/PyMain.lean`
(property C06: a write that raises changes nothing)

`vlib/extractors/pymain.py` translates `SQLObject._SO_setValue`, `set`, `syncUpdate` … from /repo's
`main.py` into `PyMain.Block`s on every run (`Extracted/PyMain.lean`).  `Model/PyMain.lean` gives that
syntax a semantics in which ONE input bit says that the UPDATE is refused (C05/C16).  This file gives
the SAME syntax (imported, not copied: the translated programs are shared) a second semantics in
which every call that leaves the method can raise, at the position an oracle says — the interface of
the hand model `Model/Fail.lean` and of harness/c06.py's cursor stub:

* the world `FW` holds the hand model's state `Fail.St` (tables, link tables, instances, registered
  ids; statement counter `n`, statement log, ghost counter `changes`), the schedule `inj` (the
  database error injected at the k-th statement of the operation), and `self` = instance `(c, id)`;
* CONNECTION CALLS (`_SO_update`, `_SO_selectOne`): `sendStmt` = count the statement, log it, raise
  the injected error if this is the k-th statement, else let the database execute it
  (`Fail.exec`: rejected with no effect — duplicate key, NOT NULL, CHECK — or applied completely);
* VALIDATOR CALLS (`from_python(value, state)`, `to_python(dbValue, state)`): the i-th validator call
  of the run takes its outcome from the i-th element of the oracle queue `vq` (`true`: returns its
  argument — the hand model does not distinguish application-side and database-side values —,
  `false`: raises `Invalid`; an exhausted queue answers `true`).  A validator call is a STATEMENT
  `x = f(a, state)`; a validator call anywhere else in an expression is outside the fragment;
  every column has both validators (`col.py`: IntCol / ForeignKey);
* ATTRIBUTES of `self`: `_SO_val_<col>` = entry `col` of the instance's `vals` (`setattr` =
  `Mem.cache` of that one column), `_SO_createValues` = the instance's `pending` (a dict up to
  order: `d[k] = v` / `d.update(…)` = `Fail.updPending`, keys stay distinct; no translated code
  depends on its order except through `sorted`), `sqlmeta.dirty` / `_obsolete` = the instance's
  flags, `sqlmeta.lazyUpdate` = the class's `lazy`, `sqlmeta.cacheValues` = True (the hand model's
  assumption), `sqlmeta.expired` is not modelled (reading it: False; assigning it: outside);
  while `self` is being created (`sqlmeta._creating`) the object is not reachable yet and its
  attributes live in `nobj` (values shown, `_SO_createValues`, dirty);
* `setattr(self, name, value)` for a name that is NOT a column (`name ≥ ncols`) — a property of the
  application or the generated setter of a ForeignKey given by object / of an inherited column — is
  a CALL `self.__setattr__(name, value)` through the call table (the parameter `call`): with
  `propCall` it behaves as the hand model's tree for that kind of keyword
  (`setProp` = `Fail.extras sch c id [props name] .done`, run under the same schedule); other call
  tables run translated setters (`Model/FailPropX.lean`); `hasattr(cls, name)` holds unless
  `props name = .unknown`;
* `cache.expire(id, cls)` = `Mem.unreg`; signals are ignored (no listener: C19's business);
  `_SO_writeLock` is a flag of the world (acquire on a held lock: `deadlock`).

Every in-memory effect goes through `memStep` (= the `.mem` case of `Fail.run`: apply, then count the
step in the ghost counter iff it changed the core), every statement through `sendStmt` (= the `.stmt`
case of `Fail.run`).
-/
namespace SqlObjVerif.PyFail
open SqlObjVerif.PyMain (PV FnKind Flag Expr Cond LExpr Target DRef ColAttr R mapR ofOpt PDict CVal
  dget dhas dset dupdate dictOf sortByKey ofVal toVal? pvIdx pyBool nameOf natOf itemsOf dbNameOf optMap
  updItemOf dictItemOf cvOf Block)
open SqlObjVerif.Fail (Err Schema Inj Extra clsOf hit exec bump applyMem Mem updPending rowVals)

/-- the `.stmt` case of `Fail.run`: one statement under the schedule `inj` -/
def sendStmt (sch : Schema) (inj : Option Inj) (q : Fail.Stmt) (s : Fail.St) : Fail.St × Option Err :=
  let s1 := { s with n := s.n + 1, log := q :: s.log }
  match hit inj s1.n with
  | some e => (s1, some e)
  | none =>
    match exec sch q s1 with
    | .error e => (s1, some e)
    | .ok s2 => (bump s1 s2, none)

/-- the `.mem` case of `Fail.run` -/
def memStep (m : Mem) (s : Fail.St) : Fail.St := bump s { s with core := applyMem m s.core }

/-- what is compared: everything but the ghost counter `changes` -/
structure Obs where
  core : Fail.Core
  seqs : List Nat
  lastId : Nat
  n : Nat
  log : List Fail.Stmt
  deriving DecidableEq, Repr

def obs (s : Fail.St) : Obs := ⟨s.core, s.seqs, s.lastId, s.n, s.log⟩

/-- the object under construction: not reachable, not part of `core` -/
structure NewObj where
  /-- the `_SO_val_*` attributes assigned so far -/
  vals : List (Nat × Fail.Val)
  /-- `_SO_createValues` -/
  cv : List (Nat × Fail.Val)
  dirty : Bool
  deriving DecidableEq, Repr

structure FW where
  sch : Schema
  inj : Option Inj
  /-- what kind of attribute the non-column name `k` is -/
  props : Nat → Extra
  s : Fail.St
  c : Nat
  id : Nat
  creating : Bool
  nobj : NewObj
  sigSuppress : Bool
  lock : Bool
  /-- the validator oracle: outcome of the next, next but one, … validator call -/
  vq : List Bool

def FW.ncols (w : FW) : Nat := (clsOf w.sch w.c).cols.length

def FW.inst (w : FW) : Option Fail.Inst := w.s.core.insts.find? fun i => i.is w.c w.id

def FW.hasAttr (w : FW) (k : Nat) : Bool := Nat.blt k w.ncols || (w.props k != Extra.unknown)

def FW.setS (w : FW) (s : Fail.St) : FW := { w with s := s }

def FW.mem (w : FW) (m : Mem) : FW := { w with s := memStep m w.s }

/-- the exception classes the fragment names, as the hand model's errors -/
def excErr : PyMain.Exc → Option Err
  | .attributeError => some .attrError
  | .typeError => some .typeError
  | .invalid => some .invalid
  | _ => none

structure St where
  w : FW
  vars : List (Option PV)
  lists : List (List PV)
  dicts : List PDict

def St.getVar (st : St) (x : Nat) : Option PV :=
  match st.vars[x]? with
  | some (some v) => some v
  | _ => Option.none

def St.setVar (st : St) (x : Nat) (v : PV) : St := { st with vars := st.vars.set x (some v) }
def St.getList (st : St) (l : Nat) : Option (List PV) := st.lists[l]?
def St.setList (st : St) (l : Nat) (vs : List PV) : St := { st with lists := st.lists.set l vs }
def St.setW (st : St) (w : FW) : St := { st with w := w }

def pvDict (l : List (Nat × Fail.Val)) : PDict := l.map fun e => (e.1, ofVal e.2)

/-- `_SO_createValues` -/
def FW.cv (w : FW) : List (Nat × Fail.Val) :=
  if w.creating then w.nobj.cv else
    match w.inst with
    | some i => i.pending
    | Option.none => []

def St.getDict (st : St) : DRef → Option PDict
  | .createValues => some (pvDict st.w.cv)
  | .loc n => st.dicts[n]?

/-- `_SO_createValues := <what it was, updated with asg>` -/
def FW.updCV (w : FW) (asg : List (Nat × Fail.Val)) : FW :=
  if w.creating then { w with nobj := { w.nobj with cv := updPending w.nobj.cv asg } }
  else { w with s := bump w.s { w.s with core := Fail.mapInst w.s.core w.c w.id fun i =>
          { i with pending := updPending i.pending asg } } }

def FW.clearCV (w : FW) : FW :=
  if w.creating then { w with nobj := { w.nobj with cv := [] } }
  else { w with s := bump w.s { w.s with core := Fail.mapInst w.s.core w.c w.id fun i => { i with pending := [] } } }

def FW.setDirty (w : FW) (b : Bool) : FW :=
  if w.creating then { w with nobj := { w.nobj with dirty := b } } else w.mem (.dirty w.c w.id b)

/-- `setattr(self, '_SO_val_<col>', x)` -/
def FW.setVal (w : FW) (col : Nat) (x : Fail.Val) : FW :=
  if w.creating then { w with nobj := { w.nobj with vals := dset col x w.nobj.vals } }
  else w.mem (.cache w.c w.id [(col, x)])

def FW.getVal (w : FW) (col : Nat) : Option Fail.Val :=
  if w.creating then dget col w.nobj.vals else
    match w.inst with
    | some i => i.vals[col]?
    | Option.none => Option.none

def FW.getFlag (w : FW) : Flag → Bool
  | .expired => false
  | .dirty => if w.creating then w.nobj.dirty else
      (match w.inst with
       | some i => i.dirty
       | Option.none => false)
  | .lazyUpdate => (clsOf w.sch w.c).lazy
  | .cacheValues => true
  | .creating => w.creating
  | .obsolete => if w.creating then false else
      (match w.inst with
       | some i => i.obsolete
       | Option.none => false)

/-! ### expressions (pure) -/

def colAttrOf : PV → ColAttr → R PV
  | .col c, .name => .ok (.name c)
  | .col c, .dbName => .ok (.dbName c)
  | .col c, .toPython => .ok (.fn .toPy c)
  | .col c, .fromPython => .ok (.fn .fromPy c)
  | .col c, .creationOrder => .ok (.nat c)
  | _, _ => .stuck

def instNameOf : PV → R PV
  | .name c => .ok (.valName c)
  | _ => .stuck

def Expr.eval (st : St) : Expr → R PV
  | .var x => ofOpt (st.getVar x)
  | .none => .ok .none
  | .true => .ok (.bool Bool.true)
  | .false => .ok (.bool Bool.false)
  | .flag f => .ok (.bool (st.w.getFlag f))
  | .sigSuppress => .ok (.bool st.w.sigSuppress)
  | .instName e => (Expr.eval st e).bind instNameOf
  | .getattrSelf e => (Expr.eval st e).bind fun
    | .valName c => match st.w.getVal c with
      | some v => .ok (ofVal v)
      | Option.none => .exc .attributeError
    | _ => .stuck
  | .validator kd e => (Expr.eval st e).bind fun
    | .name c => .ok (if Nat.blt c st.w.ncols then .fn kd c else .none)
    | _ => .stuck
  | .column e => (Expr.eval st e).bind fun
    | .name c => if Nat.blt c st.w.ncols then .ok (.col c) else .exc .keyError
    | _ => .stuck
  | .colAttr e a => (Expr.eval st e).bind fun v => colAttrOf v a
  | .call _ _ => .stuck
  | .idx e i => (Expr.eval st e).bind fun v => pvIdx v i
  | .dictIdx d ke => (Expr.eval st ke).bind fun
    | .name c => match st.getDict d with
      | some l => match dget c l with
        | some v => .ok v
        | Option.none => .exc .keyError
      | Option.none => .stuck
    | _ => .stuck
  | .pair a b => (Expr.eval st a).bind fun av => (Expr.eval st b).bind fun bv => .ok (.pair av bv)
  | .getattrCls e => (Expr.eval st e).bind fun
    | .name c => if st.w.hasAttr c then .ok .none else .exc .attributeError
    | _ => .stuck

def Cond.eval (st : St) : Cond → R Bool
  | .truthy e => (Expr.eval st e).bind fun v => ofOpt (pyBool v)
  | .isNone e => (Expr.eval st e).bind fun v => .ok v.isNone
  | .isNotNone e => (Expr.eval st e).bind fun v => .ok (!v.isNone)
  | .not c => (Cond.eval st c).bind fun b => .ok (!b)
  | .and c d => (Cond.eval st c).bind fun b => if b then Cond.eval st d else .ok false
  | .or c d => (Cond.eval st c).bind fun b => if b then .ok true else Cond.eval st d
  | .dictTruthy d => (ofOpt (st.getDict d)).bind fun l => .ok (!l.isEmpty)
  | .listTruthy l => (ofOpt (st.getList l)).bind fun vs => .ok (!vs.isEmpty)
  | .columnsTruthy => .ok (st.w.ncols != 0)
  | .inDict ke d => (Expr.eval st ke).bind fun v => (ofOpt (nameOf v)).bind fun c =>
      (ofOpt (st.getDict d)).bind fun l => .ok (dhas c l)
  | .inColumns ke => (Expr.eval st ke).bind fun v => (ofOpt (nameOf v)).bind fun c => .ok (Nat.blt c st.w.ncols)
  | .inPlainSetters ke => (Expr.eval st ke).bind fun v => (ofOpt (nameOf v)).bind fun c => .ok (Nat.blt c st.w.ncols)
  | .hasattrCls ke => (Expr.eval st ke).bind fun v => (ofOpt (nameOf v)).bind fun c => .ok (st.w.hasAttr c)
  | .lenNe d n => (ofOpt (st.getDict d)).bind fun l => .ok (l.length != n)

def tbind (st : St) : Target → PV → Option St
  | .one x, v => some (st.setVar x v)
  | .two x y, .pair a b => some ((st.setVar x a).setVar y b)
  | .two _ _, _ => Option.none

def LExpr.eval (st : St) : LExpr → R (List PV)
  | .var l => ofOpt (st.getList l)
  | .lit es => mapR (fun e => Expr.eval st e) es
  | .columnList => .ok ((List.range st.w.ncols).map .col)
  | .ofRow e => (Expr.eval st e).bind fun
    | .row r => .ok (r.map ofVal)
    | _ => .stuck
  | .items d => (ofOpt (st.getDict d)).bind fun l => .ok (itemsOf l)
  | .keys d => (ofOpt (st.getDict d)).bind fun l => .ok (l.map fun e => .name e.1)
  | .zip a b => (LExpr.eval st a).bind fun xs => (LExpr.eval st b).bind fun ys => .ok (List.zipWith .pair xs ys)
  | .comp t src e => (LExpr.eval st src).bind fun xs =>
      mapR (fun v => (ofOpt (tbind st t v)).bind fun st' => Expr.eval st' e) xs
  | .sortedBy x src key => (LExpr.eval st src).bind fun xs =>
      (mapR (fun v => ((Expr.eval (st.setVar x v) key).bind fun kv => ofOpt (natOf kv)).bind fun n => .ok (n, v)) xs).bind fun kxs =>
        .ok ((sortByKey kxs).map (·.2))
  | .filter x src c => (LExpr.eval st src).bind fun xs =>
      (mapR (fun v => (Cond.eval (st.setVar x v) c).bind fun b => .ok (b, v)) xs).bind fun bxs =>
        .ok ((bxs.filter (·.1)).map (·.2))

/-! ### statements -/

/-- how a method call ends -/
inductive Outcome where
  | ret (w : FW) (v : PV)
  | exc (w : FW) (e : Err)
  | deadlock (w : FW)
  | stuck

inductive Res where
  | norm (st : St)
  | ret (st : St) (v : PV)
  | exc (st : St) (e : Err)
  | deadlock (st : St)
  | stuck

def forLoop {α : Type} (f : St → α → Res) : List α → St → Res
  | [], st => .norm st
  | v :: vs, st => match f st v with
    | .norm st' => forLoop f vs st'
    | r => r

def bindThen (t : Target) (k : St → Res) (st : St) (v : PV) : Res :=
  match tbind st t v with
  | some st' => k st'
  | Option.none => .stuck

def afterCall (call : Outcome) (st : St) : Res :=
  match call with
  | .ret w _ => .norm { st with w := w }
  | .exc w e => .exc { st with w := w } e
  | .deadlock w => .deadlock { st with w := w }
  | .stuck => .stuck

/-- an exception of the pure fragment, as a statement result (a class the hand model has no name
    for — KeyError, AssertionError …: outside the fragment) -/
def raisePy (st : St) (e : PyMain.Exc) : Res :=
  match excErr e with
  | some x => .exc st x
  | Option.none => .stuck

def withR {α : Type} (st : St) (r : R α) (f : α → Res) : Res :=
  match r with
  | .ok a => f a
  | .exc e => raisePy st e
  | .stuck => .stuck

def ofOptRes {α : Type} (o : Option α) (f : α → Res) : Res :=
  match o with
  | some a => f a
  | Option.none => .stuck

/-- the caller's view of a statement sent / a property assigned -/
def afterSend (st : St) (r : Fail.St × Option Err) (k : St → Res) : Res :=
  match r.2 with
  | some e => .exc (st.setW (st.w.setS r.1)) e
  | Option.none => k (st.setW (st.w.setS r.1))

/-- the validator oracle: the next validator call returns its argument / raises Invalid -/
def callValidator (st : St) (x : Nat) (fv av : PV) : Res :=
  match fv with
  | .fn _ _ =>
    (match toVal? av with
     | some v =>
       let st' := st.setW { st.w with vq := st.w.vq.tail }
       if st.w.vq.headD true then .norm (st'.setVar x (ofVal v)) else .exc st' .invalid
     | Option.none => .stuck)
  | _ => .stuck

/-- `setattr(self, <non-column name k>, value)`: the hand model's tree for that kind of keyword -/
def setProp (w : FW) (k : Nat) : Fail.St × Option Err :=
  Fail.run w.sch w.inj (Fail.extras w.sch w.c w.id [w.props k] .done) w.s

def setDictLoc (st : St) (n : Nat) (d : PDict) : St := { st with dicts := st.dicts.set n d }

abbrev CallT := String → List PV → PDict → FW → Outcome

mutual
def Stmt.exec (call : CallT) (st : St) : PyMain.Stmt → Res
  | .assign x (.call f a) => withR st (Expr.eval st f) fun fv => withR st (Expr.eval st a) fun av =>
      callValidator st x fv av
  | .assign x e => withR st (Expr.eval st e) fun v => .norm (st.setVar x v)
  | .setFlag .dirty b => .norm (st.setW (st.w.setDirty b))
  | .setFlag _ _ => .stuck
  | .setSigSuppress => .norm (st.setW { st.w with sigSuppress := true })
  | .delSigSuppress =>
    if st.w.sigSuppress then .norm (st.setW { st.w with sigSuppress := false })
    else .exc st .attrError
  | .setattrSelf n v => withR st (Expr.eval st n) fun
    | .valName c => withR st (Expr.eval st v) fun pv => ofOptRes (toVal? pv) fun x =>
        .norm (st.setW (st.w.setVal c x))
    | .name k => withR st (Expr.eval st v) fun pv =>
        if Nat.blt k st.w.ncols then .stuck else afterCall (call "__setattr__" [.name k, pv] [] st.w) st
    | _ => .stuck
  | .delattrSelf _ => .stuck
  | .listAssign l le => withR st (LExpr.eval st le) fun vs => .norm (st.setList l vs)
  | .dictNew .createValues => .norm (st.setW st.w.clearCV)
  | .dictNew (.loc n) => .norm (setDictLoc st n [])
  | .dictLit1 (.loc n) k v => withR st (Expr.eval st k) fun kv => ofOptRes (nameOf kv) fun c =>
      withR st (Expr.eval st v) fun pv => .norm (setDictLoc st n [(c, pv)])
  | .dictLit1 .createValues _ _ => .stuck
  | .dictSet d k v => withR st (Expr.eval st k) fun kv => ofOptRes (nameOf kv) fun c =>
      withR st (Expr.eval st v) fun pv =>
        match d with
        | .createValues => ofOptRes (toVal? pv) fun x => .norm (st.setW (st.w.updCV [(c, x)]))
        | .loc n => ofOptRes (st.getDict (.loc n)) fun l => .norm (setDictLoc st n (dset c pv l))
  | .dictUpdate d src => ofOptRes (st.getDict src) fun s =>
      match d with
      | .createValues => ofOptRes (cvOf s) fun asg => .norm (st.setW (st.w.updCV asg))
      | .loc n => ofOptRes (st.getDict (.loc n)) fun l => .norm (setDictLoc st n (dupdate s l))
  | .dictOfList d le => withR st (LExpr.eval st le) fun vs => ofOptRes (optMap dictItemOf vs) fun ps =>
      match d with
      | .createValues => .stuck
      | .loc n => .norm (setDictLoc st n (dictOf ps))
  | .acquire => if st.w.lock then .deadlock st else .norm (st.setW { st.w with lock := true })
  | .release => if st.w.lock then .norm (st.setW { st.w with lock := false }) else .stuck
  | .selectOne x le => withR st (LExpr.eval st le) fun vs => ofOptRes (optMap dbNameOf vs) fun _ =>
      afterSend st (sendStmt st.w.sch st.w.inj (.select st.w.c) st.w.s) fun st' =>
        .norm (st'.setVar x (match rowVals st'.w.s.core st'.w.c st'.w.id with
                              | some row => .row row
                              | Option.none => .none))
  | .update le => withR st (LExpr.eval st le) fun vs => ofOptRes (optMap updItemOf vs) fun p =>
      afterSend st (sendStmt st.w.sch st.w.inj (.update st.w.c st.w.id p) st.w.s) .norm
  | .cacheExpire => .norm (st.setW (st.w.mem (.unreg st.w.c st.w.id)))
  | .send _ => .norm st
  | .callSelf m args => withR st (mapR (fun e => Expr.eval st e) args) fun vs => afterCall (call m vs [] st.w) st
  | .callSelfKw m d => ofOptRes (st.getDict d) fun kw => afterCall (call m [] kw st.w) st
  | .callOpaque _ => .stuck
  | .exprStmt e => withR st (Expr.eval st e) fun _ => .norm st
  | .assert c => withR st (Cond.eval st c) fun b => if b then .norm st else .stuck
  | .raise e => raisePy st e
  | .ite c t e => withR st (Cond.eval st c) fun b => if b then Block.exec call st t else Block.exec call st e
  | .for t le body => withR st (LExpr.eval st le) fun vs =>
      forLoop (bindThen t fun st' => Block.exec call st' body) vs st
  | .tryExcept body exc handler orelse => match Block.exec call st body with
    | .norm st' => Block.exec call st' orelse
    | .exc st' e => if excErr exc = some e then Block.exec call st' handler else .exc st' e
    | r => r
  | .tryFinally body fin => match Block.exec call st body with
    | .norm st' => Block.exec call st' fin
    | .ret st' v => (match Block.exec call st' fin with
      | .norm st'' => .ret st'' v
      | r => r)
    | .exc st' e => (match Block.exec call st' fin with
      | .norm st'' => .exc st'' e
      | r => r)
    | .deadlock st' => .deadlock st'
    | .stuck => .stuck
  | .ret e => withR st (Expr.eval st e) fun v => .ret st v
  | .retNone => .ret st .none
  | .pass => .norm st
def Block.exec (call : CallT) (st : St) : Block → Res
  | .nil => .norm st
  | .cons s rest => match Stmt.exec call st s with
    | .norm st' => Block.exec call st' rest
    | r => r
end

def Res.toOutcome : Res → Outcome
  | .norm st => .ret st.w .none
  | .ret st v => .ret st.w v
  | .exc st e => .exc st.w e
  | .deadlock st => .deadlock st.w
  | .stuck => .stuck

/-- call a method: `args` are the parameters after `self`, `kw` (if the method has `**kw`) is dict local 0 -/
def run (call : CallT) (prog : Block) (args : List PV) (kw : PDict) (nlocals nlists ndicts : Nat) (w : FW) : Outcome :=
  (Block.exec call { w := w, vars := args.map some ++ List.replicate nlocals Option.none,
                     lists := List.replicate nlists [],
                     dicts := kw :: List.replicate ndicts [] } prog).toOutcome

def noCall : CallT := fun _ _ _ _ => .stuck

/-- how an assignment to a property ends, as a method call -/
def propOutcome (w : FW) (r : Fail.St × Option Err) : Outcome :=
  match r.2 with
  | Option.none => .ret (w.setS r.1) .none
  | some e => .exc (w.setS r.1) e

/-- the call table in which `setattr(self, <non-column name k>, value)` is the hand model's tree for that kind of
    keyword (`setProp`) and no other method can be called -/
def propCall : CallT := fun m args _ w =>
  if m = "__setattr__" then
    match args with
    | [.name k, _] => propOutcome w (setProp w k)
    | _ => .stuck
  else .stuck

/-- how the hand model reads the end of a method: the state, and the error if it raised; `none` when
    the method left the lock held, the suppress flag set, or got stuck -/
def Outcome.view : Outcome → Option (Fail.St × Option Err)
  | .ret w _ => if w.lock || w.sigSuppress then Option.none else some (w.s, Option.none)
  | .exc w e => if w.lock || w.sigSuppress then Option.none else some (w.s, some e)
  | _ => Option.none

end SqlObjVerif.PyFail
