import SqlObjVerif.Model.Graph
import SqlObjVerif.Model.PyDestroy
import SqlObjVerif.Extracted.PyDestroy
/-!
# C12 — `SQLObject.destroySelf` (and `findDependantColumns`) as TRANSLATED from the source

`destroySelfX S lz rec w c i` RUNS the PyDestroy program `vlib/extractors/pydestroy.py` translated from /repo's
`main.py` on this very run, for the victim `(c, i)`, on a world `w` = a state `DB` of the hand-written model
(`Model/Graph.lean`) plus the one thing that model leaves out: the pending (lazy) assignments of instances of
`lazyUpdate` classes.  The recursive call `row.destroySelf()` is a PARAMETER (`rec`); `Lemmas/GraphX*.lean` prove that
with `rec := destroy S n` the translated program computes exactly `destroy S (n + 1)`
(`C12_translated_destroySelf_eq_model`), and that the translated `findDependantColumns` computes `depCols`.

## The assumed interface (the parameters of the interpreter) — everything below is ASSUMED, not verified here
objects (handles `Hnd`):
* `self` = `inst c i`; `self.id = i`, `self.__class__ = klass = cls c`, `self._connection = conn`,
  `conn.cache = cache`, `klass.__name__ = cname c`, `k.sqlmeta`, `k.q`, `row.sqlmeta`;
  class names are distinct within the registry (`cname k = cname k'` iff `k = k'`);
* `k.sqlmeta.joins` : the model's `(S.cls k).joins`, in declaration order, every one of them an
  `SORelatedJoin` (`isinstance(join, joins.SORelatedJoin)` is True; MultipleJoins, which destroySelf skips, are not
  in the model); `join.intermediateTable / joinColumn / otherColumn / otherClassName` : the join's table, the column
  of the declaring side (`ownFirst`), the other column, the other class's name;
* `k.sqlmeta.columnList` : the foreign-key columns `col k f` of `k` in declaration order (other columns have
  `foreignKey = None` and are never selected); `col.foreignKey` = name of the target class, `col.cascade` =
  `True / False / 'null' / None` for the model's `cascade / restrict / setNull / keep`, `col.name` = `name f`
  (distinct columns of a class have distinct names);
* `getattr(k.q, name f)` = the SQL field `field k f`; `field == v` builds the SQL expression `app "==" [field, v]`
  (operator overloading of `sqlbuilder.SQLExpression`); every other `==` of the fragment is plain equality;
  `sqlbuilder.OR(*l)` builds `app "OR" l`; `"fmt" % (…)` builds `app "%" [fmt, …]`.
queries (assumed not to change anything):
* `self._SO_depends()` (text-checked to be `findDependencies(cls.__name__, cls.sqlmeta.registry)`) : `destroySelfX`
  takes the model's `dependents S c` — the classes of the registry, in registry order, that have a foreign key with a
  cascade setting to `c` or a related join whose other side is `c`; `fdepsX` runs the TRANSLATED `findDependencies`
  and `fdepsX_eq` proves that it computes exactly that, given that
  `classregistry.registry(name).allClasses()` lists the model's classes `0 … S.length-1` in registry order;
* `findDependantColumns(cname c, cls k)` : `destroySelfX` takes the model's `depCols S c k` (as column objects);
  `fdcX` runs the TRANSLATED function and `fdcX_eq` proves that it computes exactly that;
* `k.select(q, connection=conn)` : a lazy select result `app "select" [cls k, q]` on the victim's OWN connection
  (without `connection=self._connection` the call is outside the interface); `.count()` : the number of rows of
  class `k` in the current database that satisfy `q` (a disjunction of `column = id` tests);
* iterating a select result: the candidates are the rows of class `k` satisfying `q` when the loop is ENTERED, in table
  order, as instances `inst k id`; a candidate whose row has been deleted by the time the cursor reaches it is
  skipped (`live`), one whose row has merely been updated is still yielded;
* `getattr(row, name f)` : the instance's value of column `f` = the pending value if the instance has a pending
  assignment to `f`, else the value in its database row (instances are coherent with their rows: C05 / C07);
  `row.sqlmeta.lazyUpdate` : the class's flag `lz k`.
calls:
* `self._connection.query("DELETE FROM %s WHERE %s=%d" % (table, column, id))` : `delLinks` on that link table —
  only for the statement template extracted by `vlib/extractors/graph.py` (`Extracted.Graph.destroyTemplate`);
* `row.set(**clear)` with every value `None` : class not lazy — the named columns of the row `(k, id)` become NULL
  (one UPDATE; `set()` with no keyword does nothing); lazy — the assignment is recorded as pending;
  `row.syncUpdate()` : the instance's pending assignments are written to its row and forgotten;
* `row.destroySelf()` : the parameter `rec` (on the database; pending assignments of other instances stay);
  `refused` = `SQLObjectIntegrityError`, `fuel` = `RecursionError`;
* `self._connection._SO_delete(self)` : the row `(c, i)` is deleted; `cache.expire(i, cls c)` : the cache entry
  `(c, i)` is dropped;
* `self.sqlmeta.send(signal, self, post_funcs)` : no listener is connected — nothing happens, `post_funcs` stays
  empty (listeners are property C19's business); calling a post-function is outside the interface;
* `self.sqlmeta._obsolete = True` : accepted, no effect on the modelled state (the flag is modelled in C05/C16).
-/
namespace SqlObjVerif.Graph
open SqlObjVerif.PyDestroy (Iface CallRes R)
open SqlObjVerif.PyDestroy.Extracted

inductive Hnd where
  | cls (k : Nat)
  | cmeta (k : Nat)
  | qns (k : Nat)
  | cname (k : Nat)
  | inst (k j : Nat)
  | imeta (k j : Nat)
  | join (j : RJ)
  | tbl (t : Nat)
  | lcol (first : Bool)
  | col (k f : Nat)
  | name (f : Nat)
  | field (k f : Nat)
  | conn
  | cache
  | registry
deriving DecidableEq, Repr

/-- values of the embedding -/
abbrev PVal := PyDestroy.Val Hnd

structure Pend where
  cls : Nat
  id : Nat
  cols : List Nat
deriving DecidableEq, Repr

structure XW where
  db : DB
  /-- pending `row.set(col=None)` assignments of lazyUpdate instances, newest first -/
  pend : List Pend

def polVal : Policy → PVal
  | .cascade => .bool true
  | .restrict => .bool false
  | .setNull => .str "null"
  | .keep => .none

def optVal : Option Nat → PVal
  | some v => .int v
  | none => .none

def rowOf (db : DB) (k j : Nat) : Option Row := db.rows.find? fun r => r.cls == k && r.id == j

def pendHas (p : List Pend) (k j f : Nat) : Bool := p.any fun e => e.cls == k && e.id == j && e.cols.contains f

/-- `UPDATE k SET f = NULL, … WHERE id = j` -/
def clearRow (fs : List Nat) (r : Row) : Row :=
  { r with vals := r.vals.mapIdx fun f v => if fs.contains f then none else v }

def applyNull (db : DB) (k j : Nat) (fs : List Nat) : DB :=
  { db with rows := db.rows.map fun r => if r.cls == k && r.id == j then clearRow fs r else r }

def gSet (lz : Nat → Bool) (w : XW) (k j : Nat) (fs : List Nat) : XW :=
  if fs.isEmpty then w
  else if lz k then { w with pend := ⟨k, j, fs⟩ :: w.pend }
  else { w with db := applyNull w.db k j fs }

def gSync (w : XW) (k j : Nat) : XW :=
  { db := (w.pend.filter fun e => e.cls == k && e.id == j).foldr (fun e db => applyNull db k j e.cols) w.db,
    pend := w.pend.filter fun e => !(e.cls == k && e.id == j) }

/-! ### SQL expressions and select results -/

def atomV (k i : Nat) (f : Nat) : PVal := .app "==" (.cons (.obj (.field k f)) (.cons (.int i) .nil))

/-- `field k f == i` → `(f, i)` -/
def atomOf (k : Nat) : PVal → Option (Nat × Nat)
  | .app t (.cons (.obj (.field k' f)) (.cons (.int i) .nil)) => if t = "==" ∧ k' = k then some (f, i) else none
  | _ => none

def atomsOf (k : Nat) : PVal → Option (List (Nat × Nat))
  | .nil => some []
  | .cons a t => match atomOf k a, atomsOf k t with
    | some x, some l => some (x :: l)
    | _, _ => none
  | _ => none

/-- `OR(field == id, …)` → the list of `(column, id)` tests -/
def whereOf (k : Nat) : PVal → Option (List (Nat × Nat))
  | .app t l => if t = "OR" then atomsOf k l else none
  | _ => none

def rowSat (r : Row) (as : List (Nat × Nat)) : Bool := as.any fun a => r.val a.1 == some a.2

def selRows (db : DB) (k : Nat) (as : List (Nat × Nat)) : List Row :=
  db.rows.filter fun r => r.cls == k && rowSat r as

def selV (k : Nat) (q : PVal) : PVal := .app "select" (.cons (.obj (.cls k)) (.cons q .nil))

def selOf : PVal → Option (Nat × List (Nat × Nat))
  | .app t (.cons (.obj (.cls k)) (.cons q .nil)) =>
    if t = "select" then (whereOf k q).map fun as => (k, as) else none
  | _ => none

/-- the `**clear` of `row.set(**clear)`: every value is `None` -/
def kwCols : List (PVal × PVal) → Option (List Nat)
  | [] => some []
  | (.obj (.name f), .none) :: l => (kwCols l).map (f :: ·)
  | _ => none

/-! ### the interface -/

/-- `getattr(row, name f)` for the instance `(k, j)` -/
def instCol (w : XW) (k j f : Nat) : R PVal :=
  match rowOf w.db k j with
  | some r => .ok (optVal (if pendHas w.pend k j f then none else r.val f))
  | none => .stuck

def gGetAttr (S : Schema) (lz : Nat → Bool) (w : XW) (o n : PVal) : R PVal :=
  match o, n with
  | .obj (.inst k j), .str a =>
    if a = "id" then .ok (.int j)
    else if a = "__class__" then .ok (.obj (.cls k))
    else if a = "_connection" then .ok (.obj .conn)
    else if a = "sqlmeta" then .ok (.obj (.imeta k j))
    else .stuck
  | .obj (.inst k j), .obj (.name f) => instCol w k j f
  | .obj (.cls k), .str a =>
    if a = "sqlmeta" then .ok (.obj (.cmeta k))
    else if a = "__name__" then .ok (.obj (.cname k))
    else if a = "q" then .ok (.obj (.qns k))
    else .stuck
  | .obj (.cmeta k), .str a =>
    if a = "joins" then .ok (PyDestroy.Val.ofList ((S.cls k).joins.map fun j => .obj (.join j)))
    else if a = "columnList" then
      .ok (PyDestroy.Val.ofList ((List.range (S.cls k).fks.length).map fun f => .obj (.col k f)))
    else .stuck
  | .obj (.imeta k _), .str a => if a = "lazyUpdate" then .ok (.bool (lz k)) else .stuck
  | .obj (.join j), .str a =>
    if a = "intermediateTable" then .ok (.obj (.tbl j.table))
    else if a = "joinColumn" then .ok (.obj (.lcol j.ownFirst))
    else if a = "otherColumn" then .ok (.obj (.lcol (!j.ownFirst)))
    else if a = "otherClassName" then .ok (.obj (.cname j.other))
    else .stuck
  | .obj (.col k f), .str a =>
    if a = "name" then .ok (.obj (.name f))
    else if a = "cascade" then .ok (polVal (S.fk k f).policy)
    else if a = "foreignKey" then .ok (.obj (.cname (S.fk k f).target))
    else .stuck
  | .obj (.qns k), .obj (.name f) => .ok (.obj (.field k f))
  | .obj .conn, .str a => if a = "cache" then .ok (.obj .cache) else .stuck
  | _, _ => .stuck

def gSetAttr (w : XW) (o : PVal) (a : String) (v : PVal) : Option XW :=
  match o, v with
  | .obj (.imeta _ _), .bool true => if a = "_obsolete" then some w else none
  | _, _ => none

def gGlob (n : String) : Option PVal :=
  if n = "events.RowDestroySignal" ∨ n = "events.RowDestroyedSignal" then some (.str n) else none

def gIsinstance (v : PVal) (cls : String) : Option Bool :=
  match v with
  | .obj (.join _) => if cls = "joins.SORelatedJoin" then some true else none
  | _ => none

def gEqOver (a b : PVal) : Option PVal :=
  match a with
  | .obj (.field k f) => some (.app "==" (.cons (.obj (.field k f)) (.cons b .nil)))
  | _ => none

def gQuery (S : Schema) (w : XW) (o : PVal) (m : String) (args : List PVal) (kw : List (PVal × PVal)) : R PVal :=
  match o, args with
  | .obj (.inst k _), [] =>
    if m = "_SO_depends" ∧ kw = [] then .ok (PyDestroy.Val.ofList ((dependents S k).map fun d => .obj (.cls d)))
    else .stuck
  | .obj (.cls k), [q] =>
    if m = "select" ∧ kw = [(.str "connection", .obj .conn)] then
      (match whereOf k q with
       | some _ => .ok (selV k q)
       | none => .stuck)
    else .stuck
  | .obj .registry, [] =>
    if m = "allClasses" ∧ kw = [] then .ok (PyDestroy.Val.ofList ((List.range S.length).map fun k => .obj (.cls k)))
    else .stuck
  | .app t a, [] =>
    if m = "count" ∧ kw = [] then
      (match selOf (.app t a) with
       | some (k, as) => .ok (.int (selRows w.db k as).length)
       | none => .stuck)
    else .stuck
  | _, _ => .stuck

/-- module-level functions; `fdc` is the meaning of `findDependantColumns` -/
def gFn (fdc : Nat → Nat → R PVal) (name : String) (args : List PVal) : R PVal :=
  if name = "sqlbuilder.OR" then .ok (.app "OR" (PyDestroy.Val.ofList args))
  else if name = "findDependantColumns" then
    (match args with
     | [.obj (.cname c), .obj (.cls k)] => fdc c k
     | _ => .stuck)
  else if name = "classregistry.registry" then
    (match args with
     | [_] => .ok (.obj .registry)
     | _ => .stuck)
  else .stuck

def gIter (w : XW) (v : PVal) : Option (List PVal) :=
  (selOf v).map fun p => (selRows w.db p.1 p.2).map fun r => .obj (.inst p.1 r.id)

def gLive (w : XW) (_src x : PVal) : Bool :=
  match x with
  | .obj (.inst k j) => present w.db k j
  | _ => false

def recRes (w : XW) : Res → CallRes Hnd XW
  | .ok db => .ret { w with db := db } .none
  | .refused db => .exc { w with db := db } "SQLObjectIntegrityError"
  | .fuel db => .exc { w with db := db } "RecursionError"

def gCall (lz : Nat → Bool) (rec : DB → Nat → Nat → Res) (w : XW) (o : PVal) (m : String) (args : List PVal)
    (kw : List (PVal × PVal)) : CallRes Hnd XW :=
  match o, args with
  | .obj (.imeta _ _), [_, _, _] => if m = "send" ∧ kw = [] then .ret w .none else .stuck
  | .obj .conn, [.app t (.cons (.str s) (.cons (.obj (.tbl tb)) (.cons (.obj (.lcol b)) (.cons (.int i) .nil))))] =>
    if m = "query" ∧ kw = [] ∧ t = "%" ∧ s = Extracted.Graph.destroyTemplate then
      .ret { w with db := { w.db with links := delLinks tb b i w.db.links } } .none
    else .stuck
  | .obj .conn, [.obj (.inst k j)] =>
    if m = "_SO_delete" ∧ kw = [] then
      .ret { w with db := { w.db with rows := w.db.rows.filter fun r => !(r.cls == k && r.id == j) } } .none
    else .stuck
  | .obj .cache, [.int j, .obj (.cls k)] =>
    if m = "expire" ∧ kw = [] then
      .ret { w with db := { w.db with cache := w.db.cache.filter fun x => !(x.1 == k && x.2 == j) } } .none
    else .stuck
  | .obj (.inst k j), [] =>
    if m = "set" then
      (match kwCols kw with
       | some fs => .ret (gSet lz w k j fs) .none
       | none => .stuck)
    else if m = "syncUpdate" ∧ kw = [] then .ret (gSync w k j) .none
    else if m = "destroySelf" ∧ kw = [] then recRes w (rec w.db k j)
    else .stuck
  | _, _ => .stuck

def gIface (S : Schema) (lz : Nat → Bool) (fdc : Nat → Nat → R PVal) (rec : DB → Nat → Nat → Res) (self : PVal) :
    Iface Hnd XW :=
  { self := self
    getAttr := gGetAttr S lz
    setAttr := gSetAttr
    glob := gGlob
    isinstance := gIsinstance
    eqOver := gEqOver
    query := gQuery S
    fn := fun _ => gFn fdc
    iter := gIter
    live := gLive
    call := gCall lz rec
    callFn := fun _ _ _ => .stuck }

/-- the model's `findDependantColumns` -/
def fdcModel (S : Schema) (c k : Nat) : R PVal :=
  .ok (PyDestroy.Val.ofList ((depCols S c k).map fun f => .obj (.col k f)))

/-- the TRANSLATED `findDependantColumns(cname c, cls k)` (it calls nothing) -/
def fdcX (S : Schema) (c k : Nat) : CallRes Hnd XW :=
  PyDestroy.run (gIface S (fun _ => false) (fun _ _ => .stuck) (fun db _ _ => .ok db) .none) findDependantColumnsProg
    [.obj (.cname c), .obj (.cls k)] ⟨⟨[], [], []⟩, []⟩

/-- the TRANSLATED `findDependencies(cname c, <registry name>)`; its call of `findDependantColumns` is the model's -/
def fdepsX (S : Schema) (c : Nat) : CallRes Hnd XW :=
  PyDestroy.run (gIface S (fun _ => false) (fdcModel S) (fun db _ _ => .ok db) .none) findDependenciesProg
    [.obj (.cname c), .none] ⟨⟨[], [], []⟩, []⟩

/-- the interface `destroySelf` runs against: victim `(c, i)`, recursive calls go to `rec` -/
@[reducible] def dIface (S : Schema) (lz : Nat → Bool) (rec : DB → Nat → Nat → Res) (c i : Nat) : Iface Hnd XW :=
  gIface S lz (fdcModel S) rec (.obj (.inst c i))

/-- the TRANSLATED `destroySelf` of the instance `(c, i)` -/
def destroySelfX (S : Schema) (lz : Nat → Bool) (rec : DB → Nat → Nat → Res) (w : XW) (c i : Nat) : CallRes Hnd XW :=
  PyDestroy.run (dIface S lz rec c i) destroySelfProg [] w

/-- the image of the hand model's outcome -/
def resImg : Res → CallRes Hnd XW
  | .ok db => .ret ⟨db, []⟩ .none
  | .refused db => .exc ⟨db, []⟩ "SQLObjectIntegrityError"
  | .fuel db => .exc ⟨db, []⟩ "RecursionError"

end SqlObjVerif.Graph
