import SqlObjVerif.Model.CodecX
/-!
# CodecXChain — the validator chain of a column, from the TRANSLATED methods and the EXTRACTED `createValidators` lists

`SOCol.__init__` joins the list `createValidators()` returns with `compound.All.join` (formencode; ASSUMED INTERFACE:
`from_python` runs the validators in list order, `to_python` in reverse list order, each on the previous result; an
exception ends the chain) and `_set_validator` takes `to_python` / `from_python` of the result.  `ForeignKeyValidator`
defines no `to_python`: it inherits formencode's identity (ASSUMED).  The chain of a column kind is the list
`Extracted.chain<Col>` (read from the `createValidators` methods on every run) looked up in the table of translated
methods below; the keyword arguments `createValidators` passes are the `Cfg` of `Model/CodecX.lean` (`format=` is checked
by the extractor to be the column's format attribute).
-/
namespace SqlObjVerif.PyCodec

open SqlObjVerif.Codec (Str PyVal ColT)
open Extracted

abbrev VFun := PyVal → Option (Codec.Res PyVal)

/-- run the next validator on the result of the previous one -/
def bindT (r : Option (Codec.Res PyVal)) (f : VFun) : Option (Codec.Res PyVal) :=
  match r with
  | some (.ok a) => f a
  | r => r

def runChain : List VFun → VFun
  | [], v => some (.ok v)
  | f :: fs, v => bindT (f v) (runChain fs)

/-- the column kinds all of whose validators are translated: all of them (kept as a predicate so that a kind added to
    the model later has to be listed) -/
def translatedKind : ColT → Bool
  | _ => true

/-- `dataType=Decimal` is what SODecimalStringCol passes to `SOStringCol.createValidators` -/
def strDec : ColT → Bool
  | .decimalString => true
  | _ => false

/-- `createValidators()` of the column class of a kind -/
def chainOf : ColT → List String
  | .string => chainString
  | .unicode => chainUnicode
  | .int | .tinyInt | .smallInt | .mediumInt | .bigInt => chainInt
  | .bool => chainBool
  | .dateTime | .timestamp => chainDateTime
  | .date => chainDate
  | .time => chainTime
  | .decimal | .currency => chainDecimal
  | .enum _ => chainEnum
  | .blob => chainBLOB
  | .fkInt | .fkIntS | .fkStr => chainForeignKey
  | .float => chainFloat
  | .decimalString => chainDecimalString
  | .pickle => chainPickle
  | .uuid => chainUuid
  | .json => chainJSON

/-- `from_python` of a validator class as the column kind configures it -/
def fromOf (T : ColT) (cls : String) : VFun :=
  if cls = "StringValidator" then runV (cfgString (strDec T)) stringFromPython
  else if cls = "UnicodeStringValidator" then runV Cfg.base unicodeFromPython
  else if cls = "IntValidator" then runV cfgInt intFromPython
  else if cls = "BoolValidator" then runV Cfg.base boolFromPython
  else if cls = "EnumValidator" then
    (match T with
     | .enum vals => runV (cfgEnum vals) enumFromPython
     | _ => fun _ => Option.none)
  else if cls = "ForeignKeyValidator" then
    (match T with
     | .fkStr => runV (cfgFkStr true) fkFromPython
     | _ => runV (cfgFkInt true) fkFromPython)
  else if cls = "DateTimeValidator" then runV (cfgDt fmtDateTimeStr) dtFromPython
  else if cls = "DateValidator" then runV (cfgDtSub fmtDateStr) dateFromPython
  else if cls = "TimeValidator" then runV (cfgDtSub fmtTimeStr) timeFromPython
  else if cls = "DecimalValidator" then runV Cfg.base decFromPython
  else if cls = "BinaryValidator" then runV Cfg.base binFromPython
  else if cls = "FloatValidator" then runV Cfg.base floatFromPython
  else if cls = "DecimalStringValidator" then runV cfgDecStr decStrFromPython
  else if cls = "PickleValidator" then runV Cfg.base pickleFromPython
  else if cls = "UuidValidator" then runV Cfg.base uuidFromPython
  else if cls = "JSONValidator" then runV Cfg.base jsonFromPython
  else fun _ => Option.none

def toOf (T : ColT) (cls : String) : VFun :=
  if cls = "StringValidator" then runV (cfgString (strDec T)) stringToPython
  else if cls = "UnicodeStringValidator" then runV Cfg.base unicodeToPython
  else if cls = "IntValidator" then runV cfgInt intToPython
  else if cls = "BoolValidator" then runV Cfg.base boolToPython
  else if cls = "EnumValidator" then
    (match T with
     | .enum vals => runV (cfgEnum vals) enumToPython
     | _ => fun _ => Option.none)
  else if cls = "ForeignKeyValidator" then fun v => some (.ok v)
  else if cls = "DateTimeValidator" then runV (cfgDt fmtDateTimeStr) dtToPython
  else if cls = "DateValidator" then runV (cfgDtSub fmtDateStr) dateToPython
  else if cls = "TimeValidator" then runV (cfgDtSub fmtTimeStr) timeToPython
  else if cls = "DecimalValidator" then runV Cfg.base decToPython
  else if cls = "BinaryValidator" then runV Cfg.base binToPython
  else if cls = "FloatValidator" then runV Cfg.base floatToPython
  else if cls = "DecimalStringValidator" then runV cfgDecStr decStrToPython
  else if cls = "PickleValidator" then runV Cfg.base pickleToPython
  else if cls = "UuidValidator" then runV Cfg.base uuidToPython
  else if cls = "JSONValidator" then runV Cfg.base jsonToPython
  else fun _ => Option.none

/-- `col.from_python`: the chain in list order -/
def chainToDb (T : ColT) : VFun := runChain ((chainOf T).map (fromOf T))

/-- `col.to_python`: the chain in reverse list order -/
def chainToPy (T : ColT) : VFun := runChain ((chainOf T).reverse.map (toOf T))

/-- write through the translated chain, store, fetch, read through the translated chain -/
def readBackT (T : ColT) (x : PyVal) : Option (Codec.Res PyVal) :=
  bindT (chainToDb T x) fun y => bindT (some (Codec.roundtrip T y)) (chainToPy T)

/-! ### `_SO_selectInit`: the read loop over the columns -/

/-- a validator outcome as an interface answer -/
def resToR : Option (Codec.Res PyVal) → R PyVal
  | some (.ok v) => .ok v
  | some .invalid => .exc .invalid
  | some .reject => .exc .other
  | some .unmodelled => .unmodelled
  | Option.none => .stuck

/-- a class whose columns have the given names and kinds; `col.to_python` is the TRANSLATED chain of the kind -/
def cfgSel (cols : List (Str × ColT)) : Cfg :=
  { Cfg.base with
      ncols := cols.length,
      colName := fun i => (cols[i]?.map (·.1)).getD [],
      colHasTo := fun i => (cols[i]?.map fun c => !(chainOf c.2).isEmpty).getD false,
      colToPy := fun i v =>
        match cols[i]? with
        | some c => resToR (chainToPy c.2 v)
        | Option.none => .stuck }

/-- how `_SO_selectInit` ends: the instance attributes it assigned (name, value), in order, and the outcome -/
inductive SelOut where
  | ok (attrs : List (Str × PyVal))
  | invalid (attrs : List (Str × PyVal))
  | reject (attrs : List (Str × PyVal))
  | unmodelled
deriving DecidableEq, Repr

/-- HAND MODEL of the read path: column by column `toPy` of the kind on the fetched value, stored under
    `_SO_val_<name>`; the first failing conversion ends the loop (what was assigned stays); a row shorter or longer
    than the column list is cut to the shorter (`zip`) -/
def selectInitM : List (Str × ColT) → List PyVal → List (Str × PyVal) → SelOut
  | c :: cs, v :: vs, acc =>
    match Codec.toPy c.2 v with
    | .ok y => selectInitM cs vs (acc ++ [(sValPrefix ++ c.1, y)])
    | .invalid => .invalid acc
    | .reject => .reject acc
    | .unmodelled => .unmodelled
  | [], _, acc => .ok acc
  | _ :: _, [], acc => .ok acc

/-- a log entry -/
def encAttr (a : Str × PyVal) : Val := .tuple [.py (.str a.1), .py a.2]

def decAttr : Val → Option (Str × PyVal)
  | .tuple [.py (.str n), .py v] => some (n, v)
  | _ => Option.none

def decLog : List Val → Option (List (Str × PyVal))
  | [] => some []
  | x :: l => (decAttr x).bind fun a => (decLog l).map (a :: ·)

def Res.selView : Res → Option SelOut
  | .norm env => (decLog (logOf env)).map .ok
  | .exc env .invalid => (decLog (logOf env)).map .invalid
  | .exc env _ => (decLog (logOf env)).map .reject
  | .unmodelled => some .unmodelled
  | _ => Option.none

/-- run the translated `_SO_selectInit(self, row)` of a class with the given columns on a fetched row -/
def runSel (cols : List (Str × ColT)) (row : List PyVal) : Option SelOut :=
  (Block.exec (iface (cfgSel cols)) (Env.ofArgs [selfV, .tuple (row.map .py)]) selectInit).selView

end SqlObjVerif.PyCodec
