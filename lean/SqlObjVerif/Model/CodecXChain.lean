import SqlObjVerif.Model.CodecX
/-!
# CodecXChain — the validator chain of a column, from the TRANSLATED methods and the EXTRACTED `createValidators` lists

`SOCol.__init__` joins the list `createValidators()` returns with `compound.All.join` (formencode; ASSUMED INTERFACE:
`from_python` runs the validators in list order, `to_python` in reverse list order, each on the previous result; an
exception ends the chain) and `_set_validator` takes `to_python` / `from_python` of the result.  `ForeignKeyValidator`
defines no `to_python`: it inherits formencode's identity (ASSUMED).  The chain of a column kind is the list
`Extracted.chain<Col>` (read from the `createValidators` methods on every run) looked up in the table of translated
methods below; the keyword arguments `createValidators` passes are the `Cfg` of `Model/CodecX.lean` (`format=` is checked
by the extractor to be the column's format attribute).
-/
namespace SqlObjVerif.PyCodec

open SqlObjVerif.Codec (Str PyVal ColT)
open Extracted

abbrev VFun := PyVal → Option (Codec.Res PyVal)

/-- run the next validator on the result of the previous one -/
def bindT (r : Option (Codec.Res PyVal)) (f : VFun) : Option (Codec.Res PyVal) :=
  match r with
  | some (.ok a) => f a
  | r => r

def runChain : List VFun → VFun
  | [], v => some (.ok v)
  | f :: fs, v => bindT (f v) (runChain fs)

/-- the column kinds all of whose validators are translated -/
def translatedKind : ColT → Bool
  | .float | .decimalString | .pickle | .uuid | .json => false
  | _ => true

/-- `createValidators()` of the column class of a kind -/
def chainOf : ColT → List String
  | .string => chainString
  | .unicode => chainUnicode
  | .int | .tinyInt | .smallInt | .mediumInt | .bigInt => chainInt
  | .bool => chainBool
  | .dateTime | .timestamp => chainDateTime
  | .date => chainDate
  | .time => chainTime
  | .decimal | .currency => chainDecimal
  | .enum _ => chainEnum
  | .blob => chainBLOB
  | .fkInt | .fkIntS | .fkStr => chainForeignKey
  | _ => []

/-- `from_python` of a validator class as the column kind configures it -/
def fromOf (T : ColT) (cls : String) : VFun :=
  if cls = "StringValidator" then runV (cfgString false) stringFromPython
  else if cls = "UnicodeStringValidator" then runV Cfg.base unicodeFromPython
  else if cls = "IntValidator" then runV cfgInt intFromPython
  else if cls = "BoolValidator" then runV Cfg.base boolFromPython
  else if cls = "EnumValidator" then
    (match T with
     | .enum vals => runV (cfgEnum vals) enumFromPython
     | _ => fun _ => Option.none)
  else if cls = "ForeignKeyValidator" then
    (match T with
     | .fkStr => runV (cfgFkStr true) fkFromPython
     | _ => runV (cfgFkInt true) fkFromPython)
  else if cls = "DateTimeValidator" then runV (cfgDt fmtDateTimeStr) dtFromPython
  else if cls = "DateValidator" then runV (cfgDtSub fmtDateStr) dateFromPython
  else if cls = "TimeValidator" then runV (cfgDtSub fmtTimeStr) timeFromPython
  else if cls = "DecimalValidator" then runV Cfg.base decFromPython
  else if cls = "BinaryValidator" then runV Cfg.base binFromPython
  else fun _ => Option.none

def toOf (T : ColT) (cls : String) : VFun :=
  if cls = "StringValidator" then runV (cfgString false) stringToPython
  else if cls = "UnicodeStringValidator" then runV Cfg.base unicodeToPython
  else if cls = "IntValidator" then runV cfgInt intToPython
  else if cls = "BoolValidator" then runV Cfg.base boolToPython
  else if cls = "EnumValidator" then
    (match T with
     | .enum vals => runV (cfgEnum vals) enumToPython
     | _ => fun _ => Option.none)
  else if cls = "ForeignKeyValidator" then fun v => some (.ok v)
  else if cls = "DateTimeValidator" then runV (cfgDt fmtDateTimeStr) dtToPython
  else if cls = "DateValidator" then runV (cfgDtSub fmtDateStr) dateToPython
  else if cls = "TimeValidator" then runV (cfgDtSub fmtTimeStr) timeToPython
  else if cls = "DecimalValidator" then runV Cfg.base decToPython
  else if cls = "BinaryValidator" then runV Cfg.base binToPython
  else fun _ => Option.none

/-- `col.from_python`: the chain in list order -/
def chainToDb (T : ColT) : VFun := runChain ((chainOf T).map (fromOf T))

/-- `col.to_python`: the chain in reverse list order -/
def chainToPy (T : ColT) : VFun := runChain ((chainOf T).reverse.map (toOf T))

/-- write through the translated chain, store, fetch, read through the translated chain -/
def readBackT (T : ColT) (x : PyVal) : Option (Codec.Res PyVal) :=
  bindT (chainToDb T x) fun y => bindT (some (Codec.roundtrip T y)) (chainToPy T)

end SqlObjVerif.PyCodec
