/-!
# C03 — vocabulary shared by the extracted tables and the expression model

`BinOp` / `PreOp` / `Fn` are the SQL operators the well-typed fragment can emit, identified by their
*SQL meaning*; `spell` gives the text `sqlbuilder.py` passes to `SQLOp` / `SQLPrefix` for them.
`vlib/extractors/expr.py` reads the strings from the Python AST and maps them back through the same
table, so `Extracted/Expr.lean` says, per overloaded operator / builder function, which SQL operator
the current source emits.
-/
namespace SqlObjVerif.Expr

inductive BinOp where
  | add | sub | mul | div | mod | lt | le | gt | ge | eq | ne | and | or | is | isNot
deriving DecidableEq, Repr

inductive PreOp where
  | neg | pos | not
deriving DecidableEq, Repr

inductive Fn where
  | mod
deriving DecidableEq, Repr

def BinOp.spell : BinOp → String
  | .add => "+" | .sub => "-" | .mul => "*" | .div => "/" | .mod => "%"
  | .lt => "<" | .le => "<=" | .gt => ">" | .ge => ">=" | .eq => "=" | .ne => "<>"
  | .and => "AND" | .or => "OR" | .is => "IS" | .isNot => "IS NOT"

def PreOp.spell : PreOp → String
  | .neg => "-" | .pos => "+" | .not => "NOT"

def Fn.spell : Fn → String
  | .mod => "MOD"

/-- an overloaded binary operator: `return SQLOp(op, self, other)` (`swapped = false`) or
    `return SQLOp(op, other, self)` (`swapped = true`) -/
structure OvBin where
  op : BinOp
  swapped : Bool
deriving DecidableEq, Repr

/-- what `__eq__` / `__ne__` do when the other side `is None` -/
inductive NoneRule where
  | isNull        -- `return ISNULL(self)`
  | isNotNull     -- `return ISNOTNULL(self)`
  | fallThrough   -- no special case: the comparison operator is applied to `None`
deriving DecidableEq, Repr

/-- `AND(*ops)` / `OR(*ops)`: `SQLOp(op, ops[0], F(*ops[1:]))` or `SQLOp(op, F(*ops[:-1]), ops[-1])` -/
inductive Fold where
  | right | left
deriving DecidableEq, Repr

end SqlObjVerif.Expr
