import SqlObjVerif.Extracted.Expr
/-!
# C03 — model of sqlbuilder's expression construction and rendering

Three layers:
* `E s` (`NumE` / `BoolE` / `Items`) — the well-typed expression tree the Python code *means*
  (source trees; `b2i` = a boolean subexpression used as a number); `eval` (`evalN` / `evalB`) gives
  its value on a row under SQL three-valued logic.
* `Node` — the object graph the overloaded operators and builder functions construct
  (`SQLOp`, `SQLModulo`, `SQLPrefix`, `Field`, Python ints, `None`, Python lists); `buildN` / `buildB`
  mirror the constructors (using the tables in `Extracted/Expr.lean`), `render d` mirrors
  `__sqlrepr__` for dialect `d` down to tokens.
* `T` — abstract syntax of SQL expression text; `rend` is its concrete syntax, `parseExpr` a
  fuel-based precedence-climbing reference parser parametric in the binding powers of every operator
  (`Prec`), `ev` an SQLite-style evaluator (booleans are 0/1, NULL is `none`).
* `Sym` — what a lexer sees (operators / keywords as spelled words); `retag` classifies a word as
  binary or prefix operator by its position, `parseText = parse ∘ retag`.

Hand-modelled (tied by the token correspondence of `harness/c03.py`): the paren rule of
`SQLOp.__sqlrepr__`, `SQLPrefix` / sequence / `MOD(a, b)` text, Python's reflected dispatch
(`int <op> expr`, and `SQLOp <cmp> SQLModulo` because `SQLModulo` subclasses `SQLOp`).
Extracted (`Extracted/Expr.lean`): which SQL operator each overload / builder emits and in which
operand order, the `None` rules of `__eq__` / `__ne__`, `ISNULL` / `ISNOTNULL`, the fold direction of
`AND` / `OR`, whether `NOTIN` negates, `SQLModulo`'s infix dialects.
-/
namespace SqlObjVerif.Expr

/-- numeric literals: a non-negative integer, or the (non-negative) float literal number `i` of the
    run's literal table.  What double a float literal's TEXT denotes is Python's / the database's
    business; the harness checks that the text `sqlrepr` emits decodes to exactly the constant and is
    a REAL literal, and the model treats the literal as an atom. -/
inductive Lit where
  | int (n : Nat)
  | flt (i : Nat)
deriving DecidableEq, Repr

instance : OfNat Lit n := ⟨.int n⟩

inductive ArOp where
  | add | sub | mul | div | mod
deriving DecidableEq, Repr

inductive CmpOp where
  | lt | le | gt | ge | eq | ne
deriving DecidableEq, Repr

def CmpOp.flip : CmpOp → CmpOp
  | .lt => .gt | .le => .ge | .gt => .lt | .ge => .le | .eq => .eq | .ne => .ne

inductive Tok where
  | lp | rp | comma | null | kwIn
  | col (c : Nat)
  | num (n : Lit)
  | op (o : BinOp)
  | pre (p : PreOp)
  | fn (f : Fn)
deriving DecidableEq, Repr

/-- abstract syntax of SQL expression text (what a parser recovers) -/
inductive T where
  | col (c : Nat)
  | num (n : Lit)
  | null
  | bin (o : BinOp) (l r : T)
  | un (p : PreOp) (t : T)
  | isin (x l : T)
  | call (f : Fn) (args : T)
  | nil
  | cons (h t : T)
deriving DecidableEq, Repr

def wrapS (s : List Tok) : List Tok :=
  match s with
  | Tok.lp :: _ => s
  | [Tok.null] => s
  | _ => Tok.lp :: s ++ [Tok.rp]

/-- `rend false t`: text of an expression, or of a full list `( … )`; `rend true t`: the rest of a
    list after one of its items (`, item … )`). -/
def rend : Bool → T → List Tok
  | _, .col c => [Tok.col c]
  | _, .num n => [Tok.num n]
  | _, .null => [Tok.null]
  | _, .bin o l r => Tok.lp :: (wrapS (rend false l) ++ Tok.op o :: wrapS (rend false r)) ++ [Tok.rp]
  | _, .un p t => Tok.pre p :: rend false t
  | _, .isin x l => Tok.lp :: (wrapS (rend false x) ++ Tok.kwIn :: rend false l) ++ [Tok.rp]
  | _, .call f a => Tok.fn f :: rend false a
  | false, .nil => [Tok.lp, Tok.rp]
  | true, .nil => [Tok.rp]
  | false, .cons h t => Tok.lp :: (rend false h ++ rend true t)
  | true, .cons h t => Tok.comma :: (rend false h ++ rend true t)

structure Prec where
  bin : BinOp → Nat
  rhs : BinOp → Nat
  pre : PreOp → Nat
  inp : Nat

mutual
def parseExpr (P : Prec) : Nat → Nat → List Tok → Option (T × List Tok)
  | 0, _, _ => none
  | fuel+1, m, ts =>
    match parsePrim P fuel ts with
    | none => none
    | some (lhs, rest) => parseLoop P fuel m lhs rest
def parsePrim (P : Prec) : Nat → List Tok → Option (T × List Tok)
  | 0, _ => none
  | fuel+1, ts =>
    match ts with
    | Tok.col c :: rest => some (T.col c, rest)
    | Tok.num n :: rest => some (T.num n, rest)
    | Tok.null :: rest => some (T.null, rest)
    | Tok.lp :: rest =>
      match parseExpr P fuel 0 rest with
      | some (e, Tok.rp :: rest') => some (e, rest')
      | _ => none
    | Tok.pre p :: rest =>
      match parseExpr P fuel (P.pre p) rest with
      | some (e, rest') => some (T.un p e, rest')
      | none => none
    | Tok.fn f :: Tok.lp :: rest =>
      match parseList P fuel rest with
      | some (a, rest') => some (T.call f a, rest')
      | none => none
    | _ => none
def parseLoop (P : Prec) : Nat → Nat → T → List Tok → Option (T × List Tok)
  | 0, _, _, _ => none
  | fuel+1, m, lhs, ts =>
    match ts with
    | Tok.op o :: rest =>
      if P.bin o ≥ m then
        match parseExpr P fuel (P.rhs o) rest with
        | some (rhs, rest') => parseLoop P fuel m (T.bin o lhs rhs) rest'
        | none => none
      else some (lhs, ts)
    | Tok.kwIn :: Tok.lp :: rest =>
      if P.inp ≥ m then
        match parseList P fuel rest with
        | some (l, rest') => parseLoop P fuel m (T.isin lhs l) rest'
        | none => none
      else some (lhs, ts)
    | _ => some (lhs, ts)
def parseList (P : Prec) : Nat → List Tok → Option (T × List Tok)
  | 0, _ => none
  | fuel+1, ts =>
    match ts with
    | Tok.rp :: rest => some (T.nil, rest)
    | _ =>
      match parseExpr P fuel 0 ts with
      | some (e, rest) =>
        match parseTail P fuel rest with
        | some (t, rest') => some (T.cons e t, rest')
        | none => none
      | none => none
def parseTail (P : Prec) : Nat → List Tok → Option (T × List Tok)
  | 0, _ => none
  | fuel+1, ts =>
    match ts with
    | Tok.rp :: rest => some (T.nil, rest)
    | Tok.comma :: rest =>
      match parseExpr P fuel 0 rest with
      | some (e, rest1) =>
        match parseTail P fuel rest1 with
        | some (t, rest') => some (T.cons e t, rest')
        | none => none
      | none => none
    | _ => none
end

def T.size : T → Nat
  | .col _ => 1 | .num _ => 1 | .null => 1 | .nil => 1
  | .bin _ l r => l.size + r.size + 1
  | .un _ t => t.size + 1
  | .isin x l => x.size + l.size + 1
  | .call _ a => a.size + 1
  | .cons h t => h.size + t.size + 1

/-- shape: `wf false t` = t is an expression, `wf true t` = t is a list of expressions -/
def wf : Bool → T → Bool
  | false, .col _ => true
  | false, .num _ => true
  | false, .null => true
  | false, .bin _ l r => wf false l && wf false r
  | false, .un _ t => wf false t
  | false, .isin x l => wf false x && wf true l
  | false, .call _ a => wf true a
  | true, .nil => true
  | true, .cons h t => wf false h && wf true t
  | _, _ => false


/-- the reference parser run on a whole token list (fuel from the length) -/
def parse (P : Prec) (ts : List Tok) : Option T :=
  match parseExpr P (6 * ts.length) 0 ts with
  | some (t, []) => some t
  | _ => none

/-! ## SQL semantics of parsed text (SQLite style: booleans are numbers, NULL is `none`)

The number domain is a parameter: `Dom` is ANY set of values with an embedding of the integers, a
value for every float literal, negation, (partial) arithmetic, comparisons and a truth test,
subject to four laws.  SQLite's dynamically typed INTEGER/REAL values with IEEE arithmetic are such a
domain (real vs. integer division included); `intDom` is the all-integer instance used for the
differential run and the examples.  Every theorem holds for every domain. -/

structure Dom where
  V : Type
  ofInt : Int → V
  /-- the value of float literal number `i` -/
  flt : Nat → V
  neg : V → V
  /-- `none`: the operation yields NULL (division by zero, NaN) -/
  ar : ArOp → V → V → Option V
  cmp : CmpOp → V → V → Bool
  isTrue : V → Bool
  cmp_flip : ∀ o x y, cmp o.flip y x = cmp o x y
  neg_ofNat : ∀ n : Nat, neg (ofInt n) = ofInt (-(n : Int))
  isTrue_one : isTrue (ofInt 1) = true
  isTrue_zero : isTrue (ofInt 0) = false

def intDom : Dom where
  V := Int
  ofInt := id
  flt := fun _ => 0
  neg := fun a => -a
  ar := fun o a b => match o with
    | .add => some (a + b)
    | .sub => some (a - b)
    | .mul => some (a * b)
    | .div => if b = 0 then none else some (a.tdiv b)
    | .mod => if b = 0 then none else some (a.tmod b)
  cmp := fun o a b => match o with
    | .lt => decide (a < b)
    | .le => decide (a ≤ b)
    | .gt => decide (a > b)
    | .ge => decide (a ≥ b)
    | .eq => a == b
    | .ne => a != b
  isTrue := fun a => a != 0
  cmp_flip := by
    intro o x y
    cases o <;> simp [CmpOp.flip, Bool.beq_comm, bne]
  neg_ofNat := by intro n; rfl
  isTrue_one := by decide
  isTrue_zero := by decide

abbrev Row (D : Dom) := Nat → Option D.V

/-- a boolean as a number: 1 / 0 -/
def b2i (D : Dom) (b : Bool) : D.V := D.ofInt (if b then 1 else 0)

def Lit.val (D : Dom) : Lit → D.V
  | .int n => D.ofInt n
  | .flt i => D.flt i

def truth (D : Dom) : Option D.V → Option Bool
  | none => none
  | some v => some (D.isTrue v)

def and3 : Option Bool → Option Bool → Option Bool
  | some false, _ => some false
  | _, some false => some false
  | some true, some true => some true
  | _, _ => none

def or3 : Option Bool → Option Bool → Option Bool
  | some true, _ => some true
  | _, some true => some true
  | some false, some false => some false
  | _, _ => none

def not3 : Option Bool → Option Bool
  | none => none
  | some b => some (!b)

def eq3 (D : Dom) : Option D.V → Option D.V → Option Bool
  | some a, some b => some (D.cmp .eq a b)
  | _, _ => none

/-- `x IN (y₁, …, yₙ)` as the three-valued disjunction of `x = yᵢ` (empty list: false) -/
def in3 (D : Dom) (x : Option D.V) : List (Option D.V) → Option Bool
  | [] => some false
  | y :: ys => or3 (eq3 D x y) (in3 D x ys)

def lift2 {α β : Type} (f : α → α → Option β) : Option α → Option α → Option β
  | some a, some b => f a b
  | _, _ => none

/-- `x IS y` -/
def isSame (D : Dom) : Option D.V → Option D.V → Bool
  | none, none => true
  | some a, some b => D.cmp .eq a b
  | _, _ => false

def binSem (D : Dom) (o : BinOp) (x y : Option D.V) : Option D.V :=
  match o with
  | .add => lift2 (D.ar .add) x y
  | .sub => lift2 (D.ar .sub) x y
  | .mul => lift2 (D.ar .mul) x y
  | .div => lift2 (D.ar .div) x y
  | .mod => lift2 (D.ar .mod) x y
  | .lt => lift2 (fun a b => some (b2i D (D.cmp .lt a b))) x y
  | .le => lift2 (fun a b => some (b2i D (D.cmp .le a b))) x y
  | .gt => lift2 (fun a b => some (b2i D (D.cmp .gt a b))) x y
  | .ge => lift2 (fun a b => some (b2i D (D.cmp .ge a b))) x y
  | .eq => lift2 (fun a b => some (b2i D (D.cmp .eq a b))) x y
  | .ne => lift2 (fun a b => some (b2i D (D.cmp .ne a b))) x y
  | .and => (and3 (truth D x) (truth D y)).map (b2i D)
  | .or => (or3 (truth D x) (truth D y)).map (b2i D)
  | .is => some (b2i D (isSame D x y))
  | .isNot => some (b2i D (!isSame D x y))

def preSem (D : Dom) (p : PreOp) (x : Option D.V) : Option D.V :=
  match p with
  | .neg => x.map D.neg
  | .pos => x
  | .not => (not3 (truth D x)).map (b2i D)

inductive Sem (V : Type) where
  | v (x : Option V)
  | l (xs : List (Option V))

def ev (D : Dom) (r : Row D) : T → Sem D.V
  | .col c => .v (r c)
  | .num n => .v (some (n.val D))
  | .null => .v none
  | .bin o a b =>
    match ev D r a, ev D r b with
    | .v x, .v y => .v (binSem D o x y)
    | _, _ => .v none
  | .un p a =>
    match ev D r a with
    | .v x => .v (preSem D p x)
    | _ => .v none
  | .isin a l =>
    match ev D r a, ev D r l with
    | .v x, .l ys => .v ((in3 D x ys).map (b2i D))
    | _, _ => .v none
  | .call .mod a =>
    match ev D r a with
    | .l [x, y] => .v (binSem D .mod x y)
    | _ => .v none
  | .nil => .l []
  | .cons h t =>
    match ev D r h, ev D r t with
    | .v x, .l ys => .l (x :: ys)
    | _, _ => .l []

/-- used as a WHERE clause, the parsed text selects the row -/
def selects (D : Dom) (t : T) (r : Row D) : Bool :=
  match ev D r t with
  | .v x => truth D x == some true
  | _ => false

/-! ## The object graph built by sqlbuilder.py and its rendering -/

inductive Node where
  | field (c : Nat)                      -- `Table.q.col` (`SQLObjectField`)
  | int (i : Int)                        -- a Python int
  | flt (neg : Bool) (i : Nat)           -- a Python float: sign and literal number of its magnitude
  | none                                 -- `None`
  | sqlop (o : BinOp) (l r : Node)       -- `SQLOp(op, l, r)`
  | sqlin (x l : Node)                   -- `SQLOp("IN", x, list)`
  | modulo (l r : Node)                  -- `SQLModulo(l, r)`
  | «prefix» (p : PreOp) (x : Node)        -- `SQLPrefix(p, x)`
  | lnil                                 -- `[]`
  | lcons (h t : Node)                   -- `[h] + t`
deriving DecidableEq, Repr

def moduloInfix (d : String) : Bool := Extracted.moduloInfixDialects.contains d

/-- `SQLOp.__sqlrepr__`: `(s1 op s2)` where an operand is wrapped unless it starts with `(` or is `NULL` -/
def renderOp (o : Tok) (s1 s2 : List Tok) : List Tok :=
  Tok.lp :: (wrapS s1 ++ o :: wrapS s2) ++ [Tok.rp]

/-- `sqlrepr(node, d)` as tokens.  The flag is `true` for the remainder of a Python sequence
    (`", ".join(items) + ")"` after the first item). -/
def render (d : String) : Bool → Node → List Tok
  | _, .field c => [Tok.col c]
  | _, .int i => if i < 0 then [Tok.pre .neg, Tok.num (.int i.natAbs)] else [Tok.num (.int i.natAbs)]
  | _, .flt neg i => if neg then [Tok.pre .neg, Tok.num (.flt i)] else [Tok.num (.flt i)]
  | _, .none => [Tok.null]
  | _, .sqlop o l r => renderOp (Tok.op o) (render d false l) (render d false r)
  | _, .sqlin x l => Tok.lp :: (wrapS (render d false x) ++ Tok.kwIn :: render d false l) ++ [Tok.rp]
  | _, .modulo l r =>
    if moduloInfix d then renderOp (Tok.op Extracted.moduloOp) (render d false l) (render d false r)
    else Tok.fn Extracted.moduloFn :: Tok.lp :: (render d false l ++ Tok.comma :: (render d false r ++ [Tok.rp]))
  | _, .prefix p x => Tok.pre p :: render d false x
  | false, .lnil => [Tok.lp, Tok.rp]
  | true, .lnil => [Tok.rp]
  | false, .lcons h t => Tok.lp :: (render d false h ++ render d true t)
  | true, .lcons h t => Tok.comma :: (render d false h ++ render d true t)

/-- the abstract syntax the rendering of a node stands for -/
def toT (d : String) : Node → T
  | .field c => .col c
  | .int i => if i < 0 then .un .neg (.num (.int i.natAbs)) else .num (.int i.natAbs)
  | .flt neg i => if neg then .un .neg (.num (.flt i)) else .num (.flt i)
  | .none => .null
  | .sqlop o l r => .bin o (toT d l) (toT d r)
  | .sqlin x l => .isin (toT d x) (toT d l)
  | .modulo l r =>
    if moduloInfix d then .bin Extracted.moduloOp (toT d l) (toT d r)
    else .call Extracted.moduloFn (.cons (toT d l) (.cons (toT d r) .nil))
  | .prefix p x => .un p (toT d x)
  | .lnil => .nil
  | .lcons h t => .cons (toT d h) (toT d t)

/-! ## Source trees: what the Python expression means -/

/-- sorts of source trees: numeric expressions, boolean expressions, IN-lists -/
inductive Srt where
  | num | bool | items
deriving DecidableEq, Repr

/-- Well-typed source trees, indexed by their sort.  `b2i` lets a boolean expression stand where a
    number is expected (Python builds it happily: `(a == None) == (b == None)`,
    `(a == None) + (b == None) >= 1`); SQL reads it as 1 / 0 / NULL. -/
inductive E : Srt → Type where
  | col (c : Nat) : E .num                     -- `Cls.q.<IntCol>`
  | rcol (c : Nat) : E .num                    -- `Cls.q.<FloatCol>`
  | const (i : Int) : E .num
  | fconst (neg : Bool) (i : Nat) : E .num     -- a float constant: sign, literal number of its magnitude
  | wconst (neg : Bool) (i n : Nat) : E .num   -- a float constant whose magnitude is the whole number `n`
  | ar (o : ArOp) (l r : E .num) : E .num      -- `l + r`, `l - r`, `l * r`, `l / r`, `l % r`
  | neg (x : E .num) : E .num                  -- `-x`
  | pos (x : E .num) : E .num                  -- `+x`
  | b2i (b : E .bool) : E .num                 -- a boolean expression used as a number
  | cmp (o : CmpOp) (l r : E .num) : E .bool   -- `l < r` … `l == r`, `l != r`
  | andOp (l r : E .bool) : E .bool            -- `l & r`
  | orOp (l r : E .bool) : E .bool             -- `l | r`
  | andFn (l r : E .bool) : E .bool            -- `AND(l, r)`  (n-ary calls: `andN`)
  | orFn (l r : E .bool) : E .bool             -- `OR(l, r)`
  | notOp (x : E .bool) : E .bool              -- `~x`
  | notFn (x : E .bool) : E .bool              -- `NOT(x)`
  | isin (x : E .num) (l : E .items) : E .bool     -- `IN(x, [..])`
  | notin (x : E .num) (l : E .items) : E .bool    -- `NOTIN(x, [..])`
  | isnull (x : E .num) : E .bool              -- `ISNULL(x)`
  | isnotnull (x : E .num) : E .bool           -- `ISNOTNULL(x)`
  | eqNone (x : E .num) : E .bool              -- `x == None`
  | neNone (x : E .num) : E .bool              -- `x != None`
  | inil : E .items                            -- `[]`
  | inull (t : E .items) : E .items            -- `[None] + t`
  | icons (h : E .num) (t : E .items) : E .items   -- `[h] + t`

abbrev NumE := E .num
abbrev BoolE := E .bool
abbrev Items := E .items

/-- a Python list of numeric expressions and `None`s -/
def items : List (Option NumE) → Items
  | [] => .inil
  | none :: t => .inull (items t)
  | some e :: t => .icons e (items t)

/-- right fold `mk e₀ (mk e₁ (… eₙ))` -/
def foldR (mk : BoolE → BoolE → BoolE) (e : BoolE) : List BoolE → BoolE
  | [] => e
  | e' :: es => mk e (foldR mk e' es)

/-- `AND(e, e₁, …, eₙ)` / `OR(…)` in the fold direction the source has -/
def foldFn (f : Fold) (mk : BoolE → BoolE → BoolE) (e : BoolE) (es : List BoolE) : BoolE :=
  match f with
  | .right => foldR mk e es
  | .left => es.foldl mk e

def andN (e : BoolE) (es : List BoolE) : BoolE := foldFn Extracted.andFold .andFn e es
def orN (e : BoolE) (es : List BoolE) : BoolE := foldFn Extracted.orFold .orFn e es

/-! ### three-valued meaning of source trees -/

/-- the list item is a non-NULL value equal to `a` -/
def eqItem (D : Dom) (a : D.V) : Option D.V → Bool
  | some b => D.cmp .eq a b
  | none => false

/-- textbook `x IN (ys)`: false on the empty list (SQLite), unknown if `x` is NULL, true if some
    `y = x`, unknown if no match but a NULL among the `ys`, false otherwise -/
def inSpec (D : Dom) (x : Option D.V) (ys : List (Option D.V)) : Option Bool :=
  if ys.isEmpty then some false else
  match x with
  | none => none
  | some a =>
    if ys.any (eqItem D a) then some true
    else if ys.any Option.isNone then none else some false

/-- n-ary three-valued conjunction, stated without a fold -/
def all3 (xs : List (Option Bool)) : Option Bool :=
  if some false ∈ xs then some false else if none ∈ xs then none else some true

/-- n-ary three-valued disjunction, stated without a fold -/
def any3 (xs : List (Option Bool)) : Option Bool :=
  if some true ∈ xs then some true else if none ∈ xs then none else some false

/-- the value of a (signed) float constant -/
def litVal (D : Dom) (neg : Bool) (i : Nat) : D.V := if neg then D.neg (D.flt i) else D.flt i

/-- values of the three sorts -/
@[reducible] def Val (D : Dom) : Srt → Type
  | .num => Option D.V
  | .bool => Option Bool
  | .items => List (Option D.V)

/-- the value of a source tree on a row; a boolean used as a number is 1 / 0 / NULL -/
def eval (D : Dom) (r : Row D) : {s : Srt} → E s → Val D s
  | _, .col c => r c
  | _, .rcol c => r c
  | _, .const i => some (D.ofInt i)
  | _, .fconst neg i => some (litVal D neg i)
  | _, .wconst neg i _ => some (litVal D neg i)
  | _, .ar o l x => lift2 (D.ar o) (eval D r l) (eval D r x)
  | _, .neg x => (eval D r x : Option D.V).map D.neg
  | _, .pos x => eval D r x
  | _, .b2i b => (eval D r b : Option Bool).map (b2i D)
  | _, .cmp o l x => lift2 (fun a b => some (D.cmp o a b)) (eval D r l) (eval D r x)
  | _, .andOp l x => and3 (eval D r l) (eval D r x)
  | _, .andFn l x => and3 (eval D r l) (eval D r x)
  | _, .orOp l x => or3 (eval D r l) (eval D r x)
  | _, .orFn l x => or3 (eval D r l) (eval D r x)
  | _, .notOp x => not3 (eval D r x)
  | _, .notFn x => not3 (eval D r x)
  | _, .isin x l => inSpec D (eval D r x) (eval D r l)
  | _, .notin x l => not3 (inSpec D (eval D r x) (eval D r l))
  | _, .isnull x => some (eval D r x : Option D.V).isNone
  | _, .isnotnull x => some (eval D r x : Option D.V).isSome
  | _, .eqNone x => some (eval D r x : Option D.V).isNone
  | _, .neNone x => some (eval D r x : Option D.V).isSome
  | _, .inil => ([] : List (Option D.V))
  | _, .inull t => (none : Option D.V) :: (eval D r t : List (Option D.V))
  | _, .icons h t => (eval D r h : Option D.V) :: (eval D r t : List (Option D.V))

abbrev evalN (D : Dom) (r : Row D) (e : NumE) : Option D.V := eval D r e
abbrev evalB (D : Dom) (r : Row D) (e : BoolE) : Option Bool := eval D r e

/-- how a source value appears to the untyped SQLite-style evaluator -/
def embed (D : Dom) : (s : Srt) → Val D s → Sem D.V
  | .num, x => .v x
  | .bool, x => .v (x.map (b2i D))
  | .items, l => .l l

/-! ### the constructors: Python operators and builder functions -/

/-- the operand is a plain Python number (int or float), not an `SQLExpression` -/
def isConst : NumE → Bool
  | .const _ => true
  | .fconst _ _ => true
  | .wconst _ _ _ => true
  | _ => false

def isCol : NumE → Bool
  | .col _ => true
  | .rcol _ => true
  | _ => false

/-- `self.<method>(other)` for a method whose body is `SQLOp(op, self, other)` / `SQLOp(op, other, self)` -/
def applyOv (ov : OvBin) (self other : Node) : Node :=
  if ov.swapped then .sqlop ov.op other self else .sqlop ov.op self other

def arOv : ArOp → OvBin
  | .add => Extracted.add | .sub => Extracted.sub | .mul => Extracted.mul | .div => Extracted.div
  | .mod => ⟨Extracted.moduloOp, false⟩

def arRov : ArOp → OvBin
  | .add => Extracted.radd | .sub => Extracted.rsub | .mul => Extracted.rmul | .div => Extracted.rdiv
  | .mod => ⟨Extracted.moduloOp, true⟩

/-- the comparison method of an expression (`field = true`: of a `Table.q.col` field) -/
def cmpOv (field : Bool) : CmpOp → OvBin
  | .lt => Extracted.lt | .le => Extracted.le | .gt => Extracted.gt | .ge => Extracted.ge
  | .eq => if field then Extracted.fieldEq else Extracted.exprEq
  | .ne => if field then Extracted.fieldNe else Extracted.exprNe

/-- the boolean expression is built as an instance of exactly `SQLOp` (not `SQLPrefix`) -/
def boolIsPlainOp : BoolE → Bool
  | .notOp _ => false
  | .notFn _ => false
  | .notin _ _ => !Extracted.notinNegates
  | _ => true

/-- the operand is an instance of exactly `SQLOp` -/
def isPlainOp : NumE → Bool
  | .ar o _ _ => o != .mod
  | .b2i b => boolIsPlainOp b
  | _ => false

/-- the operand is a `SQLModulo` (a subclass of `SQLOp`) -/
def isModulo : NumE → Bool
  | .ar o _ _ => o == .mod
  | _ => false

/-- Python evaluates `l <cmp> r` as `r.<reflected cmp>(l)` when `l` is a plain int, and also when
    `type(r)` is a proper subclass of `type(l)` (`SQLOp` vs `SQLModulo`) -/
def cmpReflected (l r : NumE) : Bool :=
  (isConst l && !isConst r) || (isPlainOp l && isModulo r)

def noneRule (rule : NoneRule) (ov : OvBin) (a : Node) : Node :=
  match rule with
  | .isNull => .sqlop Extracted.isnullOp a .none
  | .isNotNull => .sqlop Extracted.isnotnullOp a .none
  | .fallThrough => applyOv ov a .none

/-- The object graph the Python expression constructs.
    `l <op> r`: `int <op> expr` is dispatched by Python to the reflected method of `expr`; two plain
    ints never reach sqlbuilder (the harness then calls the node constructor directly), and `%` always
    stands for a `SQLModulo(l, r)` node (`int % expr` would be `MOD(…)` via `__rmod__`, which is
    outside the fragment).  A boolean expression used as a number is the same object. -/
def build : {s : Srt} → E s → Node
  | _, .col c => .field c
  | _, .rcol c => .field c
  | _, .const i => .int i
  | _, .fconst neg i => .flt neg i
  | _, .wconst neg i _ => .flt neg i
  | _, .ar o l r =>
    if o = .mod then .modulo (build l) (build r)
    else if isConst l && !isConst r then applyOv (arRov o) (build r) (build l)
    else applyOv (arOv o) (build l) (build r)
  | _, .neg x => .prefix Extracted.negOp (build x)
  | _, .pos x => .prefix Extracted.posOp (build x)
  | _, .b2i b => build b
  | _, .cmp o l r =>
    if cmpReflected l r then applyOv (cmpOv (isCol r) o.flip) (build r) (build l)
    else applyOv (cmpOv (isCol l) o) (build l) (build r)
  | _, .andOp l r => applyOv Extracted.andOp (build l) (build r)
  | _, .orOp l r => applyOv Extracted.orOp (build l) (build r)
  | _, .andFn l r => .sqlop Extracted.andFn (build l) (build r)
  | _, .orFn l r => .sqlop Extracted.orFn (build l) (build r)
  | _, .notOp x => .prefix Extracted.invertOp (build x)
  | _, .notFn x => .prefix Extracted.notFn (build x)
  | _, .isin x l => .sqlin (build x) (build l)
  | _, .notin x l =>
    if Extracted.notinNegates then .prefix Extracted.notFn (.sqlin (build x) (build l))
    else .sqlin (build x) (build l)
  | _, .isnull x => .sqlop Extracted.isnullOp (build x) .none
  | _, .isnotnull x => .sqlop Extracted.isnotnullOp (build x) .none
  | _, .eqNone x =>
    if isCol x then noneRule Extracted.fieldEqNone Extracted.fieldEq (build x)
    else noneRule Extracted.exprEqNone Extracted.exprEq (build x)
  | _, .neNone x =>
    if isCol x then noneRule Extracted.fieldNeNone Extracted.fieldNe (build x)
    else noneRule Extracted.exprNeNone Extracted.exprNe (build x)
  | _, .inil => .lnil
  | _, .inull t => .lcons .none (build t)
  | _, .icons h t => .lcons (build h) (build t)

abbrev buildN (e : NumE) : Node := build e
abbrev buildB (e : BoolE) : Node := build e

/-! ### what the constructors do to a constant before building: `IntCol == <float>` -/

def wholeVal (neg : Bool) (n : Nat) : Int := if neg then -(n : Int) else n

/-- `Cls.q.<IntCol> == x` / `!= x` (also written `x == Cls.q.<IntCol>`: Python reflects it) pass a
    plain constant through the column's `from_python` (`IntValidator`): a float that is a whole number
    becomes that int, a float with a fractional part is refused (`Invalid`, `none` here); every other
    comparison and every other left operand leaves the constant alone. -/
def coerceCmp (o : CmpOp) (l r : NumE) : Option BoolE :=
  if o = .eq ∨ o = .ne then
    match l, r with
    | .col c, .wconst neg _ n => some (.cmp o (.col c) (.const (wholeVal neg n)))
    | .col _, .fconst _ _ => none
    | .wconst neg _ n, .col c => some (.cmp o (.const (wholeVal neg n)) (.col c))
    | .fconst _ _, .col _ => none
    | _, _ => some (.cmp o l r)
  else some (.cmp o l r)

/-- the tree after the constructors' constant normalisation; `none`: construction raises `Invalid` -/
def coerce : {s : Srt} → E s → Option (E s)
  | _, .col c => some (.col c)
  | _, .rcol c => some (.rcol c)
  | _, .const i => some (.const i)
  | _, .fconst neg i => some (.fconst neg i)
  | _, .wconst neg i n => some (.wconst neg i n)
  | _, .ar o l r => do let l' ← coerce l; let r' ← coerce r; pure (.ar o l' r')
  | _, .neg x => do let x' ← coerce x; pure (.neg x')
  | _, .pos x => do let x' ← coerce x; pure (.pos x')
  | _, .b2i b => do let b' ← coerce b; pure (.b2i b')
  | _, .cmp o l r => do let l' ← coerce l; let r' ← coerce r; coerceCmp o l' r'
  | _, .andOp l r => do let l' ← coerce l; let r' ← coerce r; pure (.andOp l' r')
  | _, .orOp l r => do let l' ← coerce l; let r' ← coerce r; pure (.orOp l' r')
  | _, .andFn l r => do let l' ← coerce l; let r' ← coerce r; pure (.andFn l' r')
  | _, .orFn l r => do let l' ← coerce l; let r' ← coerce r; pure (.orFn l' r')
  | _, .notOp x => do let x' ← coerce x; pure (.notOp x')
  | _, .notFn x => do let x' ← coerce x; pure (.notFn x')
  | _, .isin x l => do let x' ← coerce x; let l' ← coerce l; pure (.isin x' l')
  | _, .notin x l => do let x' ← coerce x; let l' ← coerce l; pure (.notin x' l')
  | _, .isnull x => do let x' ← coerce x; pure (.isnull x')
  | _, .isnotnull x => do let x' ← coerce x; pure (.isnotnull x')
  | _, .eqNone x => do let x' ← coerce x; pure (.eqNone x')
  | _, .neNone x => do let x' ← coerce x; pure (.neNone x')
  | _, .inil => some .inil
  | _, .inull t => do let t' ← coerce t; pure (.inull t')
  | _, .icons h t => do let h' ← coerce h; let t' ← coerce t; pure (.icons h' t')

/-- in comparisons the float literal and the whole number it stands for are interchangeable -/
def Agrees (D : Dom) (neg : Bool) (i n : Nat) : Prop :=
  ∀ o x, D.cmp o x (litVal D neg i) = D.cmp o x (D.ofInt (wholeVal neg n)) ∧
         D.cmp o (litVal D neg i) x = D.cmp o (D.ofInt (wholeVal neg n)) x

/-- every whole-number float constant of the tree really is that whole number in the domain -/
def WholeOk (D : Dom) : {s : Srt} → E s → Prop
  | _, .wconst neg i n => Agrees D neg i n
  | _, .ar _ l r => WholeOk D l ∧ WholeOk D r
  | _, .neg x => WholeOk D x
  | _, .pos x => WholeOk D x
  | _, .b2i b => WholeOk D b
  | _, .cmp _ l r => WholeOk D l ∧ WholeOk D r
  | _, .andOp l r => WholeOk D l ∧ WholeOk D r
  | _, .orOp l r => WholeOk D l ∧ WholeOk D r
  | _, .andFn l r => WholeOk D l ∧ WholeOk D r
  | _, .orFn l r => WholeOk D l ∧ WholeOk D r
  | _, .notOp x => WholeOk D x
  | _, .notFn x => WholeOk D x
  | _, .isin x l => WholeOk D x ∧ WholeOk D l
  | _, .notin x l => WholeOk D x ∧ WholeOk D l
  | _, .isnull x => WholeOk D x
  | _, .isnotnull x => WholeOk D x
  | _, .eqNone x => WholeOk D x
  | _, .neNone x => WholeOk D x
  | _, .inull t => WholeOk D t
  | _, .icons h t => WholeOk D h ∧ WholeOk D t
  | _, _ => True

/-- the filter `Cls.select(e)` sends, read back by the reference parser with binding powers `P`,
    selects row `r` -/
def selected (D : Dom) (P : Prec) (d : String) (e : BoolE) (r : Row D) : Bool :=
  match parse P (render d false (buildB e)) with
  | some t => selects D t r
  | none => false

/-! ### spelling (for the token-level correspondence and the `= NULL` statement) -/

def Tok.spell : Tok → String
  | .lp => "(" | .rp => ")" | .comma => "," | .null => "NULL" | .kwIn => "IN"
  | .col c => "c" ++ toString c
  | .num (.int n) => toString n
  | .num (.flt i) => "f" ++ toString i
  | .op o => o.spell
  | .pre p => p.spell
  | .fn f => f.spell

/-- the token is an (in)equality comparison operator as spelled in SQL -/
def Tok.isEqLike (t : Tok) : Bool :=
  match t with
  | .op o => o.spell == "=" || o.spell == "<>" || o.spell == "!=" || o.spell == "=="
  | _ => false

/-- some (in)equality operator token is immediately followed by the `NULL` token -/
def hasEqNull : List Tok → Bool
  | [] => false
  | t :: ts => (t.isEqLike && ts.head? == some Tok.null) || hasEqNull ts

/-! ### the lexical level: binary and prefix operators are told apart by position -/

/-- what a lexer sees: operator and keyword tokens are just spelled words -/
inductive Sym where
  | lp | rp | comma | null | kwIn
  | col (c : Nat)
  | num (n : Lit)
  | fn (f : Fn)
  | word (s : String)
deriving DecidableEq, Repr

def Tok.erase : Tok → Sym
  | .lp => .lp | .rp => .rp | .comma => .comma | .null => .null | .kwIn => .kwIn
  | .col c => .col c | .num n => .num n | .fn f => .fn f
  | .op o => .word o.spell
  | .pre p => .word p.spell

def BinOp.all : List BinOp :=
  [.add, .sub, .mul, .div, .mod, .lt, .le, .gt, .ge, .eq, .ne, .and, .or, .is, .isNot]

def BinOp.ofSpell (s : String) : Option BinOp := BinOp.all.find? (fun o => o.spell == s)
def PreOp.ofSpell (s : String) : Option PreOp := [PreOp.neg, .pos, .not].find? (fun p => p.spell == s)

/-- Position-based classification, as every SQL parser does it: a word that follows a complete
    operand (`afterOperand = true`) is a binary operator, any other word is a prefix operator. -/
def retag : Bool → List Sym → Option (List Tok)
  | _, [] => some []
  | _, .lp :: rest => (retag false rest).map (Tok.lp :: ·)
  | _, .rp :: rest => (retag true rest).map (Tok.rp :: ·)
  | _, .comma :: rest => (retag false rest).map (Tok.comma :: ·)
  | _, .null :: rest => (retag true rest).map (Tok.null :: ·)
  | _, .kwIn :: rest => (retag false rest).map (Tok.kwIn :: ·)
  | _, .col c :: rest => (retag true rest).map (Tok.col c :: ·)
  | _, .num n :: rest => (retag true rest).map (Tok.num n :: ·)
  | _, .fn f :: rest => (retag false rest).map (Tok.fn f :: ·)
  | true, .word s :: rest =>
    match BinOp.ofSpell s with
    | some o => (retag false rest).map (Tok.op o :: ·)
    | none => none
  | false, .word s :: rest =>
    match PreOp.ofSpell s with
    | some p => (retag false rest).map (Tok.pre p :: ·)
    | none => none

/-- lexical symbols → typed tokens (by position) → syntax tree -/
def parseText (P : Prec) (syms : List Sym) : Option T :=
  match retag false syms with
  | some ts => parse P ts
  | none => none

end SqlObjVerif.Expr
