import SqlObjVerif.Model.Lex
/-!
# `Like` — `startswith` / `endswith` / `contains` (sqlbuilder `_LikeQuoted`, `_quote_like_special`, `LIKE`)

Model of the code over the extracted constants (`likeChain`, escape choice, the three wrappers,
`LIKE.__sqlrepr__` formats), and the specification side: a reference LIKE matcher with ESCAPE,
parametric in the character equivalence the engine uses.
-/
namespace SqlObjVerif.Like
open Lex Lex.Extracted

/-- the `escape` variable of `_quote_like_special` -/
def likeEsc (d : Dialect) : Str :=
  if likeEscSpecialDialects.contains d then likeEscSpecial else likeEscDefault

def likeReplOf (d : Dialect) : LikeRepl → Str
  | .lit t => t
  | .escPlus t => likeEsc d ++ t

/-- `_quote_like_special(s, d)`: the extracted `.replace` chain, in order -/
def likeSpecial (d : Dialect) (s : Str) : Str :=
  likeChain.foldl (fun v p => replace1 p.1 (likeReplOf d p.2) v) s

/-- `converters.unquote_str` -/
def unquoteStr (s : Str) : Str :=
  match s with
  | e :: q :: _ =>
    if (e = 69 ∨ e = 101) ∧ q = 39 ∧ s.getLast? = some 39 then (s.drop 2).dropLast
    else if e = 39 ∧ s.getLast? = some 39 then (s.drop 1).dropLast
    else s
  | [q] => if q = 39 then [] else s
  | [] => s

/-- `_LikeQuoted(a).__sqlrepr__(d)` for a plain string `a`, with the wrapper's prefix / postfix -/
def likePattern (d : Dialect) (op : LikeOp) (a : Str) : Str :=
  quoteStr d (op.pre ++ likeSpecial d (unquoteStr (renderString d a)) ++ op.post)

/-- `LIKE(expr, pattern, escape=op.esc).__sqlrepr__(d)`; `expr` is the rendered left operand -/
def likeClause (d : Dialect) (op : LikeOp) (expr a : Str) : Str :=
  fmt likeEscFmt [] [fmt likeFmt [] [expr, likeOpName, likePattern d op a], renderString d op.esc]

/-! ## specification -/

/-- `f` holds of some suffix of the string (the empty one included) -/
def existsSuffix (f : Str → Bool) : Str → Bool
  | [] => f []
  | c :: cs => f (c :: cs) || existsSuffix f cs

/-- reference `s LIKE pat ESCAPE esc`: `%` any sequence, `_` any one character, `esc x` the character
    `x` itself, anything else itself; characters are compared with the engine's equivalence `eqv`
    (pattern character on the left).  A pattern ending in a lone escape matches nothing (engines raise). -/
def likeMatch (eqv : Nat → Nat → Bool) (esc : Nat) : Str → Str → Bool
  | [], s => s.isEmpty
  | p :: ps, s =>
    if p = esc then
      match ps with
      | [] => false
      | q :: ps' =>
        match s with
        | [] => false
        | c :: cs => eqv q c && likeMatch eqv esc ps' cs
    else if p = 37 then existsSuffix (likeMatch eqv esc ps) s
    else if p = 95 then
      match s with
      | _ :: cs => likeMatch eqv esc ps cs
      | [] => false
    else
      match s with
      | c :: cs => eqv p c && likeMatch eqv esc ps cs
      | [] => false

/-- `s` starts with `a`, modulo `eqv` -/
def prefixMod (eqv : Nat → Nat → Bool) : Str → Str → Bool
  | [], _ => true
  | _ :: _, [] => false
  | a :: as, c :: cs => eqv a c && prefixMod eqv as cs

/-- `s` equals `a`, modulo `eqv` -/
def eqMod (eqv : Nat → Nat → Bool) : Str → Str → Bool
  | [], s => s.isEmpty
  | _ :: _, [] => false
  | a :: as, c :: cs => eqv a c && eqMod eqv as cs

def suffixMod (eqv : Nat → Nat → Bool) (a s : Str) : Bool := existsSuffix (eqMod eqv a) s
def containsMod (eqv : Nat → Nat → Bool) (a s : Str) : Bool := existsSuffix (prefixMod eqv a) s

/-- SQLite's LIKE compares ASCII letters case-insensitively -/
def asciiFold (c : Nat) : Nat := if 65 ≤ c ∧ c ≤ 90 then c + 32 else c
def eqvAscii (a b : Nat) : Bool := asciiFold a == asciiFold b
def eqvExact (a b : Nat) : Bool := a == b

/-- the pattern and the escape character the server sees: both literals decoded by the reference lexer -/
def decodedPattern (d : Dialect) (op : LikeOp) (a : Str) : Option Str :=
  match lexString d (likePattern d op a) with
  | some (p, []) => some p
  | _ => none

def decodedEscape (d : Dialect) (op : LikeOp) : Option Str :=
  match lexString d (renderString d op.esc) with
  | some (p, []) => some p
  | _ => none

end SqlObjVerif.Like
