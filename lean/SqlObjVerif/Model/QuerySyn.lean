/-!
# Vocabulary of the data that `vlib/extractors/query.py` reads from the query code

`Extracted/Query.lean` is regenerated from `/repo` on every run and may use only these
constructors; `Model/Query.lean` gives them their meaning.
-/
namespace SqlObjVerif.Query

/-- the operator text `_SO_columnClause` puts between the column and the literal -/
inductive CondOp where
  | is      -- `IS`
  | eq      -- `=`
  | ne      -- `<>` (never produced by the unchanged code; here so that an edit is expressible)
deriving DecidableEq, Repr

/-- SQL aggregate function names used by `SelectResults.sum/min/max/avg` -/
inductive AggFn where
  | SUM | MIN | MAX | AVG | COUNT
deriving DecidableEq, Repr

/-- the expression `SelectResults.count()` accumulates -/
inductive CountItem where
  | star          -- `COUNT(*)`
  | distinctId    -- `COUNT(DISTINCT <id column>)`
deriving DecidableEq, Repr

/-- the guards of `getOne` -/
inductive OneGuard where
  | empty               -- `if not results:`
  | lenGt (n : Nat)     -- `if len(results) > n:`
  | always              -- fall-through `return`
deriving DecidableEq, Repr

/-- what `getOne` does in one of its three cases -/
inductive OneAction where
  | defaultOrNotFound    -- `raise SQLObjectNotFound` unless a default was given
  | integrityError       -- `raise SQLObjectIntegrityError`
  | first                -- `return results[0]`
deriving DecidableEq, Repr

/-- what `_SO_fetchAlternateID` does when the row query found nothing -/
inductive MissAction where
  | raiseNotFound
  | returnNone
deriving DecidableEq, Repr

/-- the Python container an order specification with several keys is given in -/
inductive SeqKind where
  | list | tuple
deriving DecidableEq, Repr

/-- the two boolean connectives the n-ary helpers `AND(*ops)` / `OR(*ops)` can build / recurse through -/
inductive BoolOp where
  | and | or
deriving DecidableEq, Repr

/-- the test `Iteration.next` applies to the id column of a fetched row before it returns None for it -/
inductive IdGuard where
  | isNone      -- `result[0] is None`   (NULL id: an outer-join artefact)
  | falsy       -- `not result[0]`       (would also drop id 0 and id '')
deriving DecidableEq, Repr

end SqlObjVerif.Query
