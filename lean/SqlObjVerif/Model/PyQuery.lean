/-!
# PyQuery — a deep embedding of the Python fragment the query-planning code of sqlobject is written in

`vlib/extractors/pyquery.py` TRANSLATES, on every run, from /repo's AST into `Block`s of this language
(`Extracted/PyQuery.lean`): `SelectResults.__init__ / _mungeOrderBy / clone / orderBy / reversed / distinct / newClause /
filter / count / accumulate / accumulateMany / accumulateOne / sum / min / max / avg / getOne / __iter__ / lazyIter /
_getConnection / queryForSelect` (sresults.py), `Select.__init__ / clone / newItems / unlimited / orderBy`, the ORDER BY
statement of `Select.__sqlrepr__`, `_str_or_sqlrepr`, `DESC.__sqlrepr__`, `AND`, `OR` (sqlbuilder.py),
`DBAPI.accumulateSelect / _SO_columnClause / _SO_selectOneAlt`, `Iteration.next` (dbconnection.py), `SQLObject.selectBy /
_SO_fetchAlternateID` (main.py), `SODatabaseIndex.get` (index.py).  This file is the fixed vocabulary and its reference
semantics (total functions, no fuel: loops and comprehensions iterate over list values).  Design of `Model/PyUri.lean`.

Values: `None`, `bool`, `int`, `str` (list of characters), tuples, lists, dicts with `str` keys (association list in
insertion order), objects (a class tag and the stored attributes), `glob n` (a module-level object with an identity:
`sqlbuilder.NoDefault`, a class such as `DESC`) and `ident` (the local function `def reverser(x): return x`).
Values are immutable; the mutating statements of the fragment (`x[k] = v`, `del x[k]`, `t = x.pop(k)`, `x.append(v)`,
`x.update(d)`, `x.a = v`, `x.a[k] = v` on a local `x`) REBIND the local.  One alias is supported, because
`SelectResults.__init__` needs it: after `self.ops = ops` the dict is shared between the local and the attribute; the
translator attaches the link `(0, "ops")` to every later mutation of that local and the semantics writes the new dict
through to the attribute (`syncLink`).  The translator refuses every other way of creating a second reference to a
value that is mutated afterwards; a dict PARAMETER mutated by the callee (`kw` of `_SO_columnClause`) is not seen
changed by the caller (the translated callers do not use it again).

Everything that is not Python itself is a PARAMETER of the interpreter (`Iface`):
* `fn`         : a call of a module-level name (`sqlbuilder.DESC(x)`, `AND(*ops)`, `sqlrepr(v, db)`, `repr(v)`, `list(v)` /
                 `iter(v)` of something that is not a list, tuple or dict);
* `getAttr`    : attributes of an object that are not stored fields (`cls.sqlmeta`, `cls.q`, `self.__class__`, …);
* `getAttrDyn` : `getattr(v, name)` with a computed name;
* `callMethod` : a method call on an object (`self.clone(orderBy=o)`, `conn.queryOne(q)`, `self.__class__(…)` — the
                 call of an attribute is a method call): returns a value or raises, changes nothing the fragment sees;
* `callVal`    : a call of a local that holds a `glob` (`reverser(x)` with `reverser = DESC`);
* `isA`        : `isinstance(v, C)` for a class `C` other than `str`, `tuple`, `list`, `dict`;
* `mutate`     : `x.m(args)` as a statement on a local holding a foreign container (`tablesSet.add(t)`): the new value;
* `fmt`        : `'%s' % v` for a `v` that is not a `str`.
Built into the semantics: truthiness, `and`/`or`/`not`, `==`/`!=` on scalars, integer order and `+ -`, `in` on dicts /
lists / tuples, `%`-formatting with `%s`, indexing and slicing, `len`, `list`, `iter`, `min`, `range`,
`list(map(o.m, l))`, comprehensions, `str.startswith / join`, `dict.get / copy`, tuple unpacking, `assert`, `raise`.
`stuck` = outside the fragment.  `assert c, msg` is executed as `assert c` and `raise E(msg)` as `raise E`: the message
expression is not evaluated.  `from . import main` inside a function is `pass` (`main.X` is the module-level name).
Locals are numbered in order of first binding, parameters first: renaming a local does not change the translation.
-/
namespace SqlObjVerif.PyQ

abbrev Str := List Char

inductive Val where
  | none
  | bool (b : Bool)
  | int (i : Int)
  | str (s : Str)
  | tuple (vs : List Val)
  | list (vs : List Val)
  | dict (kvs : List (Str × Val))
  | obj (cls : String) (fields : List (String × Val))
  | glob (name : String)
  | ident

inductive Exc where
  | typeError | assertionError | keyError | indexError | attributeError | valueError | stopIteration
  /-- `SQLObjectNotFound` -/
  | notFound
  /-- `SQLObjectIntegrityError` -/
  | integrityError
  | other
deriving Repr, DecidableEq

inductive R (α : Type) where
  | ok (a : α)
  | exc (e : Exc)
  | stuck

def R.bind {α β : Type} : R α → (α → R β) → R β
  | .ok a, f => f a
  | .exc e, _ => .exc e
  | .stuck, _ => .stuck

@[simp] theorem R.bind_ok {α β : Type} (a : α) (f : α → R β) : (R.ok a).bind f = f a := by rw [R.bind]
@[simp] theorem R.bind_exc {α β : Type} (e : Exc) (f : α → R β) : (R.exc e : R α).bind f = .exc e := by rw [R.bind]
@[simp] theorem R.bind_stuck {α β : Type} (f : α → R β) : (R.stuck : R α).bind f = .stuck := by rw [R.bind]

def ofOpt {α : Type} : Option α → R α
  | some a => .ok a
  | Option.none => .stuck

@[simp] theorem ofOpt_some {α : Type} (a : α) : ofOpt (some a) = .ok a := rfl
@[simp] theorem ofOpt_none {α : Type} : ofOpt (Option.none : Option α) = .stuck := rfl

structure Iface where
  fn : String → List Val → List (Str × Val) → R Val
  getAttr : Val → String → R Val
  getAttrDyn : Val → Str → R Val
  callMethod : Val → String → List Val → List (Str × Val) → R Val
  callVal : Val → List Val → R Val
  isA : Val → String → Bool
  mutate : Val → String → List Val → R Val
  fmt : Val → Option Str

/-! ### association lists -/

def aget {κ α : Type} [BEq κ] (k : κ) : List (κ × α) → Option α
  | [] => Option.none
  | e :: l => if e.1 == k then some e.2 else aget k l

/-- `d[k] = v`: a present key keeps its position -/
def aset {κ α : Type} [BEq κ] (d : List (κ × α)) (k : κ) (v : α) : List (κ × α) :=
  if d.any (fun e => e.1 == k) then d.map (fun e => if e.1 == k then (e.1, v) else e) else d ++ [(k, v)]

/-- `o.a = v` on the stored attributes of an object (same as `aset`, kept apart so that proofs can unfold it alone) -/
def fset (fs : List (String × Val)) (a : String) (v : Val) : List (String × Val) :=
  if fs.any (fun e => e.1 == a) then fs.map (fun e => if e.1 == a then (e.1, v) else e) else fs ++ [(a, v)]

/-- `del d[k]` -/
def adel {κ α : Type} [BEq κ] (d : List (κ × α)) (k : κ) : List (κ × α) := d.filter fun e => !(e.1 == k)

/-- `d.update(e)` -/
def aupdate {κ α : Type} [BEq κ] (d : List (κ × α)) : List (κ × α) → List (κ × α)
  | [] => d
  | e :: l => aupdate (aset d e.1 e.2) l

/-! ### Python's own operations -/

/-- `bool(v)`; an object without `__bool__` / `__len__` is true -/
def truthy : Val → Bool
  | .none => false
  | .bool b => b
  | .int i => i != 0
  | .str [] => false
  | .str (_ :: _) => true
  | .tuple [] => false
  | .tuple (_ :: _) => true
  | .list [] => false
  | .list (_ :: _) => true
  | .dict [] => false
  | .dict (_ :: _) => true
  | .obj _ _ => true
  | .glob _ => true
  | .ident => true

@[simp] theorem truthy_none : truthy .none = false := rfl
@[simp] theorem truthy_bool (b : Bool) : truthy (.bool b) = b := rfl
@[simp] theorem truthy_int (i : Int) : truthy (.int i) = (i != 0) := rfl
@[simp] theorem truthy_str_nil : truthy (.str []) = false := rfl
@[simp] theorem truthy_str_cons (c : Char) (s : Str) : truthy (.str (c :: s)) = true := rfl
@[simp] theorem truthy_tuple_nil : truthy (.tuple []) = false := rfl
@[simp] theorem truthy_tuple_cons (c : Val) (s : List Val) : truthy (.tuple (c :: s)) = true := rfl
@[simp] theorem truthy_list_nil : truthy (.list []) = false := rfl
@[simp] theorem truthy_list_cons (c : Val) (s : List Val) : truthy (.list (c :: s)) = true := rfl
@[simp] theorem truthy_dict_nil : truthy (.dict []) = false := rfl
@[simp] theorem truthy_dict_cons (e : Str × Val) (d : List (Str × Val)) : truthy (.dict (e :: d)) = true := rfl
@[simp] theorem truthy_obj (c : String) (f : List (String × Val)) : truthy (.obj c f) = true := rfl
@[simp] theorem truthy_glob (n : String) : truthy (.glob n) = true := rfl

def isNoneV : Val → Bool
  | .none => true
  | _ => false

@[simp] theorem isNoneV_none : isNoneV .none = true := rfl
@[simp] theorem isNoneV_bool (b : Bool) : isNoneV (.bool b) = false := rfl
@[simp] theorem isNoneV_int (b : Int) : isNoneV (.int b) = false := rfl
@[simp] theorem isNoneV_str (b : Str) : isNoneV (.str b) = false := rfl
@[simp] theorem isNoneV_tuple (b : List Val) : isNoneV (.tuple b) = false := rfl
@[simp] theorem isNoneV_list (b : List Val) : isNoneV (.list b) = false := rfl
@[simp] theorem isNoneV_dict (b : List (Str × Val)) : isNoneV (.dict b) = false := rfl
@[simp] theorem isNoneV_obj (c : String) (f : List (String × Val)) : isNoneV (.obj c f) = false := rfl
@[simp] theorem isNoneV_glob (n : String) : isNoneV (.glob n) = false := rfl
@[simp] theorem isNoneV_ident : isNoneV .ident = false := rfl
@[simp] theorem truthy_ident : truthy .ident = true := rfl

/-- `v is <module-level object n>` -/
def isGlobV (n : String) : Val → Bool
  | .glob m => m == n
  | _ => false

@[simp] theorem isGlobV_glob (n m : String) : isGlobV n (.glob m) = (m == n) := rfl
@[simp] theorem isGlobV_none (n : String) : isGlobV n .none = false := rfl
@[simp] theorem isGlobV_bool (n : String) (b : Bool) : isGlobV n (.bool b) = false := rfl
@[simp] theorem isGlobV_int (n : String) (b : Int) : isGlobV n (.int b) = false := rfl
@[simp] theorem isGlobV_str (n : String) (b : Str) : isGlobV n (.str b) = false := rfl
@[simp] theorem isGlobV_tuple (n : String) (b : List Val) : isGlobV n (.tuple b) = false := rfl
@[simp] theorem isGlobV_list (n : String) (b : List Val) : isGlobV n (.list b) = false := rfl
@[simp] theorem isGlobV_dict (n : String) (b : List (Str × Val)) : isGlobV n (.dict b) = false := rfl
@[simp] theorem isGlobV_obj (n : String) (c : String) (f : List (String × Val)) : isGlobV n (.obj c f) = false := rfl

def isStrV : Val → Bool
  | .str _ => true
  | _ => false

def isTupleV : Val → Bool
  | .tuple _ => true
  | _ => false

def isListV : Val → Bool
  | .list _ => true
  | _ => false

def isDictV : Val → Bool
  | .dict _ => true
  | _ => false

@[simp] theorem isStrV_str (s : Str) : isStrV (.str s) = true := rfl
@[simp] theorem isStrV_none : isStrV .none = false := rfl
@[simp] theorem isStrV_bool (b : Bool) : isStrV (.bool b) = false := rfl
@[simp] theorem isStrV_int (b : Int) : isStrV (.int b) = false := rfl
@[simp] theorem isStrV_tuple (b : List Val) : isStrV (.tuple b) = false := rfl
@[simp] theorem isStrV_list (b : List Val) : isStrV (.list b) = false := rfl
@[simp] theorem isStrV_dict (b : List (Str × Val)) : isStrV (.dict b) = false := rfl
@[simp] theorem isStrV_obj (c : String) (f : List (String × Val)) : isStrV (.obj c f) = false := rfl
@[simp] theorem isStrV_glob (n : String) : isStrV (.glob n) = false := rfl
@[simp] theorem isStrV_ident : isStrV .ident = false := rfl
@[simp] theorem isTupleV_tuple (b : List Val) : isTupleV (.tuple b) = true := rfl
@[simp] theorem isTupleV_str (s : Str) : isTupleV (.str s) = false := rfl
@[simp] theorem isTupleV_none : isTupleV .none = false := rfl
@[simp] theorem isTupleV_list (b : List Val) : isTupleV (.list b) = false := rfl
@[simp] theorem isTupleV_obj (c : String) (f : List (String × Val)) : isTupleV (.obj c f) = false := rfl
@[simp] theorem isTupleV_glob (n : String) : isTupleV (.glob n) = false := rfl
@[simp] theorem isListV_list (b : List Val) : isListV (.list b) = true := rfl
@[simp] theorem isListV_str (s : Str) : isListV (.str s) = false := rfl
@[simp] theorem isListV_none : isListV .none = false := rfl
@[simp] theorem isListV_tuple (b : List Val) : isListV (.tuple b) = false := rfl
@[simp] theorem isListV_obj (c : String) (f : List (String × Val)) : isListV (.obj c f) = false := rfl
@[simp] theorem isListV_glob (n : String) : isListV (.glob n) = false := rfl

/-- `isinstance(v, C)` for one class name; the builtin container / string types are decided by the constructor -/
def isA1 (I : Iface) (v : Val) (c : String) : Bool :=
  if c = "str" then isStrV v
  else if c = "tuple" then isTupleV v
  else if c = "list" then isListV v
  else if c = "dict" then isDictV v
  else I.isA v c

/-- `isinstance(v, (C1, C2, …))` -/
def isAny (I : Iface) (v : Val) (cs : List String) : Bool := cs.any (isA1 I v)

/-- `a == b` on scalars of the same kind and against `None`; anything else is outside the fragment -/
def pyEq : Val → Val → Option Bool
  | .none, .none => some true
  | .str a, .str b => some (a == b)
  | .int a, .int b => some (a == b)
  | .bool a, .bool b => some (a == b)
  | .none, .str _ => some false
  | .str _, .none => some false
  | .none, .int _ => some false
  | .int _, .none => some false
  | .str _, .int _ => some false
  | .int _, .str _ => some false
  | _, _ => Option.none

@[simp] theorem pyEq_str (a b : Str) : pyEq (.str a) (.str b) = some (a == b) := rfl
@[simp] theorem pyEq_int (a b : Int) : pyEq (.int a) (.int b) = some (a == b) := rfl
@[simp] theorem pyEq_none_none : pyEq .none .none = some true := rfl
@[simp] theorem pyEq_none_str (b : Str) : pyEq .none (.str b) = some false := rfl
@[simp] theorem pyEq_str_none (b : Str) : pyEq (.str b) .none = some false := rfl
@[simp] theorem pyEq_none_int (b : Int) : pyEq .none (.int b) = some false := rfl
@[simp] theorem pyEq_int_none (b : Int) : pyEq (.int b) .none = some false := rfl

/-- `x in <list of values>` (scalars) -/
def memV (x : Val) : List Val → Option Bool
  | [] => some false
  | v :: l => match pyEq v x with
    | some true => some true
    | some false => memV x l
    | Option.none => Option.none

inductive CmpOp where
  | eq | ne | lt | le | gt | ge | isIn | notIn
deriving Repr, DecidableEq

def pyCmp : CmpOp → Val → Val → R Val
  | .eq, a, b => (ofOpt (pyEq a b)).bind fun r => .ok (.bool r)
  | .ne, a, b => (ofOpt (pyEq a b)).bind fun r => .ok (.bool (!r))
  | .lt, .int a, .int b => .ok (.bool (a < b))
  | .le, .int a, .int b => .ok (.bool (a ≤ b))
  | .gt, .int a, .int b => .ok (.bool (a > b))
  | .ge, .int a, .int b => .ok (.bool (a ≥ b))
  | .isIn, .str k, .dict d => .ok (.bool (aget k d).isSome)
  | .notIn, .str k, .dict d => .ok (.bool (!(aget k d).isSome))
  | .isIn, .none, .dict _ => .ok (.bool false)          -- `None in d`: a dict of the fragment has `str` keys
  | .notIn, .none, .dict _ => .ok (.bool true)
  | .isIn, x, .list l => (ofOpt (memV x l)).bind fun r => .ok (.bool r)
  | .notIn, x, .list l => (ofOpt (memV x l)).bind fun r => .ok (.bool (!r))
  | .isIn, x, .tuple l => (ofOpt (memV x l)).bind fun r => .ok (.bool r)
  | .notIn, x, .tuple l => (ofOpt (memV x l)).bind fun r => .ok (.bool (!r))
  | _, _, _ => .stuck

@[simp] theorem pyCmp_eq (a b : Val) : pyCmp .eq a b = (ofOpt (pyEq a b)).bind fun r => .ok (.bool r) := by
  rw [pyCmp]
@[simp] theorem pyCmp_ne (a b : Val) : pyCmp .ne a b = (ofOpt (pyEq a b)).bind fun r => .ok (.bool (!r)) := by
  rw [pyCmp]
@[simp] theorem pyCmp_gt (a b : Int) : pyCmp .gt (.int a) (.int b) = .ok (.bool (a > b)) := rfl
@[simp] theorem pyCmp_lt (a b : Int) : pyCmp .lt (.int a) (.int b) = .ok (.bool (a < b)) := rfl
@[simp] theorem pyCmp_none_in_dict (d : List (Str × Val)) : pyCmp .isIn .none (.dict d) = .ok (.bool false) := rfl
@[simp] theorem pyCmp_in_dict (k : Str) (d : List (Str × Val)) :
    pyCmp .isIn (.str k) (.dict d) = .ok (.bool (aget k d).isSome) := rfl
@[simp] theorem pyCmp_notIn_dict (k : Str) (d : List (Str × Val)) :
    pyCmp .notIn (.str k) (.dict d) = .ok (.bool (!(aget k d).isSome)) := rfl

/-- `a + b` -/
def pyAdd : Val → Val → R Val
  | .str a, .str b => .ok (.str (a ++ b))
  | .int a, .int b => .ok (.int (a + b))
  | .list a, .list b => .ok (.list (a ++ b))
  | .tuple a, .tuple b => .ok (.tuple (a ++ b))
  | _, _ => .stuck

@[simp] theorem pyAdd_str (a b : Str) : pyAdd (.str a) (.str b) = .ok (.str (a ++ b)) := rfl
@[simp] theorem pyAdd_int (a b : Int) : pyAdd (.int a) (.int b) = .ok (.int (a + b)) := rfl
@[simp] theorem pyAdd_list (a b : List Val) : pyAdd (.list a) (.list b) = .ok (.list (a ++ b)) := rfl

/-- `a - b` -/
def pySub : Val → Val → R Val
  | .int a, .int b => .ok (.int (a - b))
  | _, _ => .stuck

/-- `str(v)` as the conversion `%s` computes it -/
def strOf (I : Iface) : Val → Option Str
  | .str s => some s
  | v => I.fmt v

@[simp] theorem strOf_str (I : Iface) (s : Str) : strOf I (.str s) = some s := rfl

/-- `fmt % args` (conversions `%s`, `%%`; a wrong number of arguments is a TypeError: `stuck`) -/
def pyFormat (I : Iface) : Str → List Val → R Str
  | [], [] => .ok []
  | [], _ :: _ => .stuck
  | c :: rest, vs =>
    if c = '%' then
      match rest, vs with
      | '%' :: rest', vs => (pyFormat I rest' vs).bind fun r => .ok ('%' :: r)
      | 's' :: rest', v :: vs' =>
        (ofOpt (strOf I v)).bind fun s => (pyFormat I rest' vs').bind fun r => .ok (s ++ r)
      | _, _ => .stuck
    else (pyFormat I rest vs).bind fun r => .ok (c :: r)

/-- the arguments of `%`: the elements of a tuple, or the single value -/
def fmtArgs : Val → List Val
  | .tuple vs => vs
  | v => [v]

def pyMod (I : Iface) : Val → Val → R Val
  | .str f, a => (pyFormat I f (fmtArgs a)).bind fun s => .ok (.str s)
  | _, _ => .stuck

/-- position denoted by the index `i` in a sequence of length `n` -/
def normIdx (n : Nat) (i : Int) : Option Nat :=
  if 0 ≤ i then (if i.toNat < n then some i.toNat else Option.none)
  else if (-i).toNat ≤ n then some (n - (-i).toNat) else Option.none

/-- slice bound -/
def clampIdx (n : Nat) (i : Int) : Nat :=
  if 0 ≤ i then min i.toNat n else n - min (-i).toNat n

def idxRes (o : Option Val) : R Val :=
  match o with
  | some v => .ok v
  | Option.none => .exc .indexError

def keyRes (o : Option Val) : R Val :=
  match o with
  | some v => .ok v
  | Option.none => .exc .keyError

@[simp] theorem idxRes_some (v : Val) : idxRes (some v) = .ok v := rfl
@[simp] theorem idxRes_none : idxRes Option.none = .exc .indexError := rfl
@[simp] theorem keyRes_some (v : Val) : keyRes (some v) = .ok v := rfl
@[simp] theorem keyRes_none : keyRes Option.none = .exc .keyError := rfl

/-- `v[i]` -/
def pyIndex : Val → Val → R Val
  | .str s, .int i => idxRes (((normIdx s.length i).bind (s[·]?)).map fun c => .str [c])
  | .tuple vs, .int i => idxRes ((normIdx vs.length i).bind (vs[·]?))
  | .list vs, .int i => idxRes ((normIdx vs.length i).bind (vs[·]?))
  | .dict d, .str k => keyRes (aget k d)
  | _, _ => .stuck

@[simp] theorem pyIndex_dict (d : List (Str × Val)) (k : Str) : pyIndex (.dict d) (.str k) = keyRes (aget k d) := rfl
@[simp] theorem pyIndex_tuple (vs : List Val) (i : Int) :
    pyIndex (.tuple vs) (.int i) = idxRes ((normIdx vs.length i).bind (vs[·]?)) := rfl
@[simp] theorem pyIndex_list (vs : List Val) (i : Int) :
    pyIndex (.list vs) (.int i) = idxRes ((normIdx vs.length i).bind (vs[·]?)) := rfl

def sliceBound (n : Nat) (dflt : Nat) : Option Val → Option Nat
  | Option.none => some dflt
  | some (.int i) => some (clampIdx n i)
  | some .none => some dflt
  | _ => Option.none

def sliceL {α : Type} (l : List α) (lo hi : Option Val) : Option (List α) :=
  match sliceBound l.length 0 lo, sliceBound l.length l.length hi with
  | some a, some b => some ((l.drop a).take (b - a))
  | _, _ => Option.none

/-- `s[lo:hi]` (`none` = bound omitted) -/
def pySlice : Val → Option Val → Option Val → R Val
  | .str s, lo, hi => ofOpt ((sliceL s lo hi).map .str)
  | .tuple s, lo, hi => ofOpt ((sliceL s lo hi).map .tuple)
  | .list s, lo, hi => ofOpt ((sliceL s lo hi).map .list)
  | _, _, _ => .stuck

/-- `sep.join(l)` -/
def joinStrs (sep : Str) : List Val → Option Str
  | [] => some []
  | [.str a] => some a
  | .str a :: b :: l => (joinStrs sep (b :: l)).map fun r => a ++ sep ++ r
  | _ => Option.none

def seqOf : Val → Option (List Val)
  | .list vs => some vs
  | .tuple vs => some vs
  | _ => Option.none

@[simp] theorem seqOf_list (vs : List Val) : seqOf (.list vs) = some vs := rfl
@[simp] theorem seqOf_tuple (vs : List Val) : seqOf (.tuple vs) = some vs := rfl

/-- the methods of `str` the fragment uses -/
def strMethod (s : Str) (m : String) (args : List Val) : R Val :=
  if m = "startswith" then
    match args with
    | [.str p] => .ok (.bool (p.isPrefixOf s))
    | _ => .stuck
  else if m = "join" then
    match args with
    | [v] => ofOpt (((seqOf v).bind (joinStrs s)).map .str)
    | _ => .stuck
  else .stuck

/-- the (non-mutating) methods of `dict` the fragment uses -/
def dictMethod (d : List (Str × Val)) (m : String) (args : List Val) : R Val :=
  if m = "get" then
    match args with
    | [.str k] => .ok ((aget k d).getD .none)
    | [.str k, dflt] => .ok ((aget k d).getD dflt)
    | _ => .stuck
  else if m = "copy" then
    match args with
    | [] => .ok (.dict d)
    | _ => .stuck
  else if m = "keys" then
    match args with
    | [] => .ok (.list (d.map fun e => .str e.1))
    | _ => .stuck
  else .stuck

/-- `r.m(args, k=v)`: a method of `str` / `dict`, or a method call on an object -/
def methodOf (I : Iface) (r : Val) (m : String) (args : List Val) (kw : List (Str × Val)) : R Val :=
  match r, kw with
  | .str s, [] => strMethod s m args
  | .dict d, [] => dictMethod d m args
  | _, _ => I.callMethod r m args kw

@[simp] theorem methodOf_str (I : Iface) (s : Str) (m : String) (args : List Val) :
    methodOf I (.str s) m args [] = strMethod s m args := rfl
@[simp] theorem methodOf_dict (I : Iface) (d : List (Str × Val)) (m : String) (args : List Val) :
    methodOf I (.dict d) m args [] = dictMethod d m args := rfl
@[simp] theorem methodOf_obj (I : Iface) (c : String) (fs : List (String × Val)) (m : String) (args : List Val)
    (kw : List (Str × Val)) : methodOf I (.obj c fs) m args kw = I.callMethod (.obj c fs) m args kw := by
  cases kw <;> rfl
@[simp] theorem methodOf_glob (I : Iface) (c : String) (m : String) (args : List Val)
    (kw : List (Str × Val)) : methodOf I (.glob c) m args kw = I.callMethod (.glob c) m args kw := by
  cases kw <;> rfl

def intRange : Nat → List Val
  | 0 => []
  | n + 1 => intRange n ++ [.int (n : Int)]

/-- the builtins; every other name is a module-level function / class of the library -/
def callFn (I : Iface) (f : String) (args : List Val) (kw : List (Str × Val)) : R Val :=
  if f = "len" then
    match args, kw with
    | [.str s], [] => .ok (.int s.length)
    | [.tuple vs], [] => .ok (.int vs.length)
    | [.list vs], [] => .ok (.int vs.length)
    | [.dict d], [] => .ok (.int d.length)
    | _, _ => .stuck
  else if f = "list" ∨ f = "iter" then
    match args, kw with
    | [.tuple vs], [] => .ok (.list vs)
    | [.list vs], [] => .ok (.list vs)
    | [.dict d], [] => .ok (.list (d.map fun e => .str e.1))
    | _, _ => I.fn f args kw
  else if f = "min" then
    match args, kw with
    | [.int a, .int b], [] => .ok (.int (if b < a then b else a))
    | _, _ => .stuck
  else if f = "range" then
    match args, kw with
    | [.int n], [] => .ok (.list (intRange n.toNat))
    | _, _ => .stuck
  else I.fn f args kw

/-- `v.a`: a stored attribute, else what the interface says -/
def attrOf (I : Iface) (v : Val) (a : String) : R Val :=
  match v with
  | .obj _ fs =>
    match aget a fs with
    | some x => .ok x
    | Option.none => I.getAttr v a
  | _ => I.getAttr v a

/-- `getattr(v, n)` -/
def getattrDynOf (I : Iface) (v n : Val) : R Val :=
  match n with
  | .str s => I.getAttrDyn v s
  | _ => .stuck

@[simp] theorem getattrDynOf_str (I : Iface) (v : Val) (s : Str) : getattrDynOf I v (.str s) = I.getAttrDyn v s := rfl

/-- a call of a local: the identity function, or a module-level callable -/
def callValOf (I : Iface) (f : Val) (args : List Val) : R Val :=
  match f, args with
  | .ident, [v] => .ok v
  | .ident, _ => .stuck
  | f, args => I.callVal f args

@[simp] theorem callValOf_ident (I : Iface) (v : Val) : callValOf I .ident [v] = .ok v := rfl
@[simp] theorem callValOf_glob (I : Iface) (n : String) (args : List Val) :
    callValOf I (.glob n) args = I.callVal (.glob n) args := by
  unfold callValOf; split <;> simp_all

def mapR {α β : Type} (f : α → R β) : List α → R (List β)
  | [] => .ok []
  | a :: l => (f a).bind fun b => (mapR f l).bind fun bs => .ok (b :: bs)

def filterMapR {α β : Type} (f : α → R (Option β)) : List α → R (List β)
  | [] => .ok []
  | a :: l => (f a).bind fun b => (filterMapR f l).bind fun bs => .ok (match b with
    | some x => x :: bs
    | Option.none => bs)

/-! ### syntax -/

inductive Target where
  | one (x : Nat)
  | tup (xs : List Nat)
deriving Repr, DecidableEq

mutual
inductive Expr where
  | var (x : Nat)
  | none
  | true
  | false
  | int (i : Int)
  | str (s : Str)
  | glob (name : String)                                 -- `sqlbuilder.NoDefault`, `DESC`
  | ident                                                -- the local function `def f(x): return x`
  | attr (e : Expr) (a : String)                         -- `e.a`
  | getattrDyn (e n : Expr)                              -- `getattr(e, n)`
  | tuple (es : Exprs)
  | list (es : Exprs)
  | emptyDict
  | not (e : Expr)
  | and (a b : Expr)
  | or (a b : Expr)
  | ifExp (c a b : Expr)                                 -- `a if c else b`
  | isNone (e : Expr)                                    -- `e is None`
  | isNotNone (e : Expr)
  | isGlob (e : Expr) (name : String)                    -- `e is sqlbuilder.NoDefault`
  | isNotGlob (e : Expr) (name : String)
  | isinstance (e : Expr) (cs : List String)
  | cmp (op : CmpOp) (a b : Expr)
  | add (a b : Expr)
  | sub (a b : Expr)
  | mod (f a : Expr)                                     -- `f % a`
  | index (e i : Expr)                                   -- `e[i]`
  | sliceFrom (e lo : Expr)                              -- `e[lo:]`
  | sliceTo (e hi : Expr)                                -- `e[:hi]`
  | call (f : String) (args : Exprs) (pstar : Expr) (kwn : List Str) (kwv : Exprs)   -- `f(args, *pstar, k=v)`
  | method (recv : Expr) (m : String) (args : Exprs) (pstar : Expr) (kwn : List Str) (kwv : Exprs) (kstar : Expr)
                                                         -- `recv.m(args, *pstar, k=v, **kstar)`
  | callVal (f : Expr) (args : Exprs)                    -- `f(args)` for a local `f`
  | mapMethod (recv : Expr) (m : String) (e : Expr)      -- `list(map(recv.m, e))`
  | comp (t : Target) (it cond elt : Expr)               -- `[elt for t in it if cond]`
inductive Exprs where
  | nil
  | cons (e : Expr) (rest : Exprs)
end

/-- a link `(y, a)`: the attribute `a` of the object held by local `y` shares the mutated dict -/
abbrev Link := Option (Nat × String)

mutual
inductive Stmt where
  | assign (t : Target) (e : Expr)
  | setAttr (x : Nat) (a : String) (e : Expr)            -- `x.a = e`
  | setItem (x : Nat) (k v : Expr) (l : Link)            -- `x[k] = v` (a dict local)
  | delItem (x : Nat) (k : Expr) (l : Link)              -- `del x[k]`
  | pop (t : Nat) (x : Nat) (k : Expr) (d : Expr) (hasD : Bool) (l : Link)   -- `t = x.pop(k[, d])`
  | mutate (x : Nat) (m : String) (args : Exprs) (l : Link)                  -- `x.append(e)`, `x.update(d)`, `x.add(e)`
  | setAttrItem (x : Nat) (a : String) (k v : Expr)      -- `x.a[k] = v`
  | seq (a b : Stmt)
  | ite (c : Expr) (t e : Block)
  | for (t : Target) (it : Expr) (body : Block)
  | assert (c : Expr)
  | raise (e : Exc)
  | ret (e : Expr)
  | expr (e : Expr)
  | pass
inductive Block where
  | nil
  | cons (s : Stmt) (rest : Block)
end

/-! ### semantics -/

abbrev Env := Nat → Option Val

def Env.empty : Env := fun _ => Option.none

def Env.put (env : Env) (x : Nat) (v : Val) : Env := fun y => if y = x then some v else env y

@[simp] theorem Env.put_apply (env : Env) (x : Nat) (v : Val) (y : Nat) :
    (env.put x v) y = if y = x then some v else env y := rfl

def Env.ofArgs : List Val → Env
  | [] => Env.empty
  | v :: l => fun y => match y with
    | 0 => some v
    | y + 1 => Env.ofArgs l y

def zipKw {κ : Type} : List κ → List Val → List (κ × Val)
  | n :: ns, v :: vs => (n, v) :: zipKw ns vs
  | _, _ => []

def bindAll (env : Env) : List Nat → List Val → Option Env
  | [], [] => some env
  | x :: xs, v :: vs => bindAll (env.put x v) xs vs
  | _, _ => Option.none

/-- bind an assignment / loop target; a value that does not unpack to the right number of items is outside the
    fragment (`stuck`) -/
def Target.bind (env : Env) : Target → Val → Option Env
  | .one x, v => some (env.put x v)
  | .tup xs, .tuple vs => bindAll env xs vs
  | .tup xs, .list vs => bindAll env xs vs
  | .tup _, _ => Option.none

def dictOf : Val → Option (List (Str × Val))
  | .dict d => some d
  | _ => Option.none

@[simp] theorem dictOf_dict (d : List (Str × Val)) : dictOf (.dict d) = some d := rfl

/-- one element of a comprehension: `some elt` when the condition holds -/
def compStep (t : Target) (env : Env) (cond elt : Env → R Val) (v : Val) : R (Option Val) :=
  match t.bind env v with
  | some env' => (cond env').bind fun c => if truthy c then (elt env').bind fun x => .ok (some x) else .ok Option.none
  | Option.none => .stuck

mutual
def Expr.eval (I : Iface) (env : Env) : Expr → R Val
  | .var x => ofOpt (env x)
  | .none => .ok .none
  | .true => .ok (.bool Bool.true)
  | .false => .ok (.bool Bool.false)
  | .int i => .ok (.int i)
  | .str s => .ok (.str s)
  | .glob name => .ok (.glob name)
  | .ident => .ok .ident
  | .attr e a => (e.eval I env).bind fun v => attrOf I v a
  | .getattrDyn e n => (e.eval I env).bind fun v => (n.eval I env).bind fun nv => getattrDynOf I v nv
  | .tuple es => (es.eval I env).bind fun vs => .ok (.tuple vs)
  | .list es => (es.eval I env).bind fun vs => .ok (.list vs)
  | .emptyDict => .ok (.dict [])
  | .not e => (e.eval I env).bind fun v => .ok (.bool (!truthy v))
  | .and a b => (a.eval I env).bind fun v => if truthy v then b.eval I env else .ok v
  | .or a b => (a.eval I env).bind fun v => if truthy v then .ok v else b.eval I env
  | .ifExp c a b => (c.eval I env).bind fun v => if truthy v then a.eval I env else b.eval I env
  | .isNone e => (e.eval I env).bind fun v => .ok (.bool (isNoneV v))
  | .isNotNone e => (e.eval I env).bind fun v => .ok (.bool (!isNoneV v))
  | .isGlob e name => (e.eval I env).bind fun v => .ok (.bool (isGlobV name v))
  | .isNotGlob e name => (e.eval I env).bind fun v => .ok (.bool (!isGlobV name v))
  | .isinstance e cs => (e.eval I env).bind fun v => .ok (.bool (isAny I v cs))
  | .cmp op a b => (a.eval I env).bind fun x => (b.eval I env).bind fun y => pyCmp op x y
  | .add a b => (a.eval I env).bind fun x => (b.eval I env).bind fun y => pyAdd x y
  | .sub a b => (a.eval I env).bind fun x => (b.eval I env).bind fun y => pySub x y
  | .mod f a => (f.eval I env).bind fun x => (a.eval I env).bind fun y => pyMod I x y
  | .index e i => (e.eval I env).bind fun x => (i.eval I env).bind fun y => pyIndex x y
  | .sliceFrom e lo => (e.eval I env).bind fun x => (lo.eval I env).bind fun a => pySlice x (some a) Option.none
  | .sliceTo e hi => (e.eval I env).bind fun x => (hi.eval I env).bind fun b => pySlice x Option.none (some b)
  | .call f args pstar kwn kwv => (args.eval I env).bind fun as => (pstar.eval I env).bind fun ps =>
      (ofOpt (seqOf ps)).bind fun pl => (kwv.eval I env).bind fun ks => callFn I f (as ++ pl) (zipKw kwn ks)
  | .method recv m args pstar kwn kwv kstar => (recv.eval I env).bind fun r => (args.eval I env).bind fun as =>
      (pstar.eval I env).bind fun ps => (ofOpt (seqOf ps)).bind fun pl => (kwv.eval I env).bind fun ks =>
      (kstar.eval I env).bind fun sv => (ofOpt (dictOf sv)).bind fun sd => methodOf I r m (as ++ pl) (zipKw kwn ks ++ sd)
  | .callVal f args => (f.eval I env).bind fun fv => (args.eval I env).bind fun as => callValOf I fv as
  | .mapMethod recv m e => (recv.eval I env).bind fun r => (e.eval I env).bind fun v => (ofOpt (seqOf v)).bind fun l =>
      (mapR (fun x => methodOf I r m [x] []) l).bind fun vs => .ok (.list vs)
  | .comp t it cond elt => (it.eval I env).bind fun v => (ofOpt (seqOf v)).bind fun l =>
      (filterMapR (compStep t env (fun env' => cond.eval I env') (fun env' => elt.eval I env')) l).bind fun vs =>
        .ok (.list vs)
def Exprs.eval (I : Iface) (env : Env) : Exprs → R (List Val)
  | .nil => .ok []
  | .cons e rest => (e.eval I env).bind fun v => (rest.eval I env).bind fun vs => .ok (v :: vs)
end

/-- how a statement ends -/
inductive Res where
  | norm (env : Env)
  | ret (env : Env) (v : Val)
  | exc (env : Env) (e : Exc)
  | stuck

def Res.seq (r : Res) (k : Env → Res) : Res :=
  match r with
  | .norm env => k env
  | r => r

theorem Res.seq_norm (env : Env) (k : Env → Res) : (Res.norm env).seq k = k env := by rw [Res.seq]
@[simp] theorem Res.seq_ret (env : Env) (v : Val) (k : Env → Res) : (Res.ret env v).seq k = .ret env v := by simp [Res.seq]
@[simp] theorem Res.seq_exc (env : Env) (e : Exc) (k : Env → Res) : (Res.exc env e).seq k = .exc env e := by simp [Res.seq]
@[simp] theorem Res.seq_stuck (k : Env → Res) : Res.stuck.seq k = .stuck := by simp [Res.seq]

/-- go on with `k` when the expression has a value -/
def withR {α : Type} (env : Env) (r : R α) (k : α → Res) : Res :=
  match r with
  | .ok v => k v
  | .exc e => .exc env e
  | .stuck => .stuck

@[simp] theorem withR_ok {α : Type} (env : Env) (v : α) (k : α → Res) : withR env (.ok v) k = k v := by rw [withR]
@[simp] theorem withR_exc {α : Type} (env : Env) (e : Exc) (k : α → Res) : withR env (.exc e : R α) k = .exc env e := by
  rw [withR]
@[simp] theorem withR_stuck {α : Type} (env : Env) (k : α → Res) : withR env (.stuck : R α) k = .stuck := by rw [withR]

def normOpt : Option Env → Res
  | some env => .norm env
  | Option.none => .stuck

@[simp] theorem normOpt_some (env : Env) : normOpt (some env) = .norm env := rfl
@[simp] theorem normOpt_none : normOpt Option.none = .stuck := rfl

def forLoop (f : Env → Val → Res) : List Val → Env → Res
  | [], env => .norm env
  | v :: vs, env => match f env v with
    | .norm env' => forLoop f vs env'
    | r => r

/-- one iteration: bind the target, run the body -/
def loopStep (t : Target) (body : Env → Res) (env : Env) (v : Val) : Res :=
  match t.bind env v with
  | some env' => body env'
  | Option.none => .stuck

/-- write the new value of local `x` through to the attribute that shares it -/
def syncLink (env : Env) (x : Nat) : Link → Env
  | Option.none => env
  | some (y, a) =>
    match env y, env x with
    | some (.obj c fs), some v => env.put y (.obj c (fset fs a v))
    | _, _ => env

@[simp] theorem syncLink_none (env : Env) (x : Nat) : syncLink env x Option.none = env := rfl

/-- rebind the local `x` (a mutation of the value it holds) -/
def rebind (env : Env) (x : Nat) (v : Val) (l : Link) : Env := syncLink (env.put x v) x l

/-- `x[k] = v` -/
def setItemOf (env : Env) (x : Nat) (k v : Val) (l : Link) : Option Env :=
  match env x, k with
  | some (.dict d), .str ks => some (rebind env x (.dict (aset d ks v)) l)
  | _, _ => Option.none

/-- `del x[k]` -/
def delItemOf (env : Env) (x : Nat) (k : Val) (l : Link) : Res :=
  match env x, k with
  | some (.dict d), .str ks =>
    if (aget ks d).isSome then .norm (rebind env x (.dict (adel d ks)) l) else .exc env .keyError
  | _, _ => .stuck

/-- `t = x.pop(k[, dflt])` -/
def popOf (env : Env) (t x : Nat) (k dflt : Val) (hasD : Bool) (l : Link) : Res :=
  match env x, k with
  | some (.dict d), .str ks =>
    match aget ks d with
    | some v => .norm ((rebind env x (.dict (adel d ks)) l).put t v)
    | Option.none => if hasD then .norm (env.put t dflt) else .exc env .keyError
  | _, _ => .stuck

/-- `x.m(args)` as a statement: `append` on a list, `update` on a dict, else the interface -/
def mutateOf (I : Iface) (env : Env) (x : Nat) (m : String) (args : List Val) (l : Link) : Res :=
  match env x with
  | some (.list vs) =>
    if m = "append" then
      match args with
      | [v] => .norm (rebind env x (.list (vs ++ [v])) l)
      | _ => .stuck
    else .stuck
  | some (.dict d) =>
    if m = "update" then
      match args with
      | [.dict d'] => .norm (rebind env x (.dict (aupdate d d')) l)
      | _ => .stuck
    else .stuck
  | some v => withR env (I.mutate v m args) fun v' => .norm (rebind env x v' l)
  | Option.none => .stuck

/-- `x.a = v` -/
def setAttrOf (env : Env) (x : Nat) (a : String) (v : Val) : Option Env :=
  match env x with
  | some (.obj c fs) => some (env.put x (.obj c (fset fs a v)))
  | _ => Option.none

/-- `x.a[k] = v` -/
def setAttrItemOf (env : Env) (x : Nat) (a : String) (k v : Val) : Option Env :=
  match env x, k with
  | some (.obj c fs), .str ks =>
    match aget a fs with
    | some (.dict d) => some (env.put x (.obj c (fset fs a (.dict (aset d ks v)))))
    | _ => Option.none
  | _, _ => Option.none

mutual
def Stmt.exec (I : Iface) (env : Env) : Stmt → Res
  | .assign t e => withR env (e.eval I env) fun v => normOpt (t.bind env v)
  | .setAttr x a e => withR env (e.eval I env) fun v => normOpt (setAttrOf env x a v)
  | .setItem x k v l => withR env (v.eval I env) fun vv => withR env (k.eval I env) fun kv =>
      normOpt (setItemOf env x kv vv l)
  | .delItem x k l => withR env (k.eval I env) fun kv => delItemOf env x kv l
  | .pop t x k d hasD l => withR env (k.eval I env) fun kv => withR env (d.eval I env) fun dv =>
      popOf env t x kv dv hasD l
  | .mutate x m args l => withR env (args.eval I env) fun as => mutateOf I env x m as l
  | .setAttrItem x a k v => withR env (v.eval I env) fun vv => withR env (k.eval I env) fun kv =>
      normOpt (setAttrItemOf env x a kv vv)
  | .seq a b => (a.exec I env).seq fun env' => b.exec I env'
  | .ite c t e => withR env (c.eval I env) fun v => if truthy v then t.exec I env else e.exec I env
  | .for t it body => withR env (it.eval I env) fun v =>
      match seqOf v with
      | some l => forLoop (loopStep t fun env' => body.exec I env') l env
      | Option.none => .stuck
  | .assert c => withR env (c.eval I env) fun v => if truthy v then .norm env else .exc env .assertionError
  | .raise e => .exc env e
  | .ret e => withR env (e.eval I env) fun v => .ret env v
  | .expr e => withR env (e.eval I env) fun _ => .norm env
  | .pass => .norm env
def Block.exec (I : Iface) (env : Env) : Block → Res
  | .nil => .norm env
  | .cons s rest => (s.exec I env).seq fun env' => rest.exec I env'
end

theorem exec_cons (I : Iface) (env : Env) (s : Stmt) (rest : Block) :
    Block.exec I env (.cons s rest) = (s.exec I env).seq fun env' => rest.exec I env' := by rw [Block.exec]

theorem exec_nil (I : Iface) (env : Env) : Block.exec I env .nil = .norm env := by rw [Block.exec]

/-- what the caller of a function sees -/
inductive Out where
  | ret (v : Val)
  | exc (e : Exc)
  | stuck

def Res.out : Res → Out
  | .norm _ => .ret .none                -- falling off the end returns None
  | .ret _ v => .ret v
  | .exc _ e => .exc e
  | .stuck => .stuck

/-- the state of the first parameter (`self`) when the call ends -/
def Res.self : Res → Option Val
  | .norm env => env 0
  | .ret env _ => env 0
  | .exc env _ => env 0
  | .stuck => Option.none

/-- call a translated function on its arguments -/
def run (I : Iface) (prog : Block) (args : List Val) : Out := (prog.exec I (Env.ofArgs args)).out

def Res.view (r : Res) : Out × Option Val := (r.out, r.self)

/-- the same for a method that changes `self` (`__init__`) -/
def runSelf (I : Iface) (prog : Block) (args : List Val) : Out × Option Val := (prog.exec I (Env.ofArgs args)).view

def toR : Out → R Val
  | .ret v => .ok v
  | .exc e => .exc e
  | .stuck => .stuck

def ofR : R Val → Out
  | .ok v => .ret v
  | .exc e => .exc e
  | .stuck => .stuck

/-- a constructor call: run `__init__` on a fresh object of the class, the result is the object -/
def construct (I : Iface) (cls : String) (init : Block) (args : List Val) : R Val :=
  match runSelf I init (.obj cls [] :: args) with
  | (.ret _, some o) => .ok o
  | (.exc e, _) => .exc e
  | _ => .stuck

/-- bind the parameters `names` of a call with positional arguments `pos` and keywords `kw`; `dflts` are the default
    values (`none` = required); an unknown or doubly given keyword is a TypeError, `rest` = a `**kw` parameter takes the
    other keywords -/
def bindParams (names : List Str) (dflts : List (Option Val)) (pos : List Val) (kw : List (Str × Val)) : Option (List Val) :=
  match names, dflts, pos with
  | [], _, [] => some []
  | [], _, _ :: _ => Option.none
  | n :: ns, _ :: ds, p :: ps => if (aget n kw).isSome then Option.none else (bindParams ns ds ps kw).map (p :: ·)
  | n :: ns, d :: ds, [] =>
    match aget n kw, d with
    | some v, _ => (bindParams ns ds [] kw).map (v :: ·)
    | Option.none, some v => (bindParams ns ds [] kw).map (v :: ·)
    | Option.none, Option.none => Option.none
  | _ :: _, [], _ => Option.none

/-- the keywords a `**kw` parameter receives: those that name no parameter -/
def restKw (names : List Str) (kw : List (Str × Val)) : List (Str × Val) := kw.filter fun e => !names.contains e.1

end SqlObjVerif.PyQ
