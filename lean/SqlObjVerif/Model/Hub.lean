/-!
# Model `Hub` — `ConnectionHub.doInTransaction` (C08)

Mirrors `dbconnection.py` `ConnectionHub.getConnection / doInTransaction / threadConnection`,
`Transaction.__init__ / commit(close=True) / rollback / _makeObsolete / __del__`:

* the hub has one binding per thread (`threadingLocal.connection`) and one process-level binding; a thread
  resolves its own binding first, then the process binding;
* `doInTransaction` reads the binding *and its level*, opens a transaction on it (one low-level connection
  checked out of that connection's pool), binds the transaction at the same level, runs the body — whose steps
  go through whatever the hub resolves to for the calling thread —, then: body returned → `commit(close=True)`;
  body raised an `Exception` → `rollback()` and re-raise; in every case (`finally`) the old binding is written
  back at the same level;
* a `BaseException` that is not an `Exception` (KeyboardInterrupt, SystemExit, GeneratorExit) is caught by
  nobody: the `finally` restores the hub, the open transaction stays referenced by the traceback only
  (`zombies`) and is rolled back by `Transaction.__del__` once that reference dies (`collect`);
* rows are `key ↦ value`; the body's steps are create / update / delete through the class-level API
  (`Cls(id=k, v=x)`, `Cls.get(k).v = x`, `Cls.get(k).destroySelf()`), so create of an existing key raises a
  duplicate error and update/delete of a missing key raise not-found — exceptions from the middle of the body.
-/
namespace SqlObjVerif.Hub

abbrev Key := Nat
abbrev View := Key → Option Int

def upd {α : Type} (f : Nat → α) (k : Nat) (v : α) : Nat → α := fun x => if x = k then v else f x

@[simp, grind =] theorem upd_apply {α : Type} (f : Nat → α) (k : Nat) (v : α) (x : Nat) :
    upd f k v x = if x = k then v else f x := rfl

/-- what a binding can be: a database connection, or a transaction opened on one -/
inductive CRef
  | base (c : Nat)
  | tx (c : Nat)
  deriving DecidableEq, Repr

inductive Level | thread | process
  deriving DecidableEq, Repr

structure Hub where
  thread : Nat → Option CRef
  proc : Option CRef

/-- `getConnection()` as seen from thread `tid`, with the level the answer came from -/
def Hub.resolve (h : Hub) (tid : Nat) : Option (Level × CRef) :=
  match h.thread tid with
  | some c => some (.thread, c)
  | none =>
    match h.proc with
    | some c => some (.process, c)
    | none => none

/-- `hub.threadConnection = c` (from thread `tid`) / `hub.processConnection = c` -/
def Hub.bind (h : Hub) (lvl : Level) (tid : Nat) (c : CRef) : Hub :=
  match lvl with
  | .thread => { h with thread := upd h.thread tid (some c) }
  | .process => { h with proc := some c }

inductive Kind
  /-- subclass of `Exception` -/
  | exc
  /-- `BaseException` only (KeyboardInterrupt, SystemExit, GeneratorExit) -/
  | baseOnly
  deriving DecidableEq, Repr

/-- an exception object: its kind and its identity -/
structure Exc where
  kind : Kind
  id : Nat
  deriving DecidableEq, Repr

/-- identities of the exceptions the library raises inside the body -/
def dupExc : Exc := ⟨.exc, 1000001⟩
def notFoundExc : Exc := ⟨.exc, 1000002⟩
def noConnExc : Exc := ⟨.exc, 1000003⟩

inductive Step
  | create (k : Key) (v : Int)
  /-- `Cls.get(k).v = x` inside the body (not-found when the row is gone) -/
  | update (k : Key) (v : Int)
  /-- `Cls.get(k).destroySelf()` inside the body -/
  | delete (k : Key)
  /-- `inst.v = x` on an instance the program obtained BEFORE the call (by `get` or from a `select`): it follows the
      hub into the transaction; an UPDATE that matches no row is not an error -/
  | updateInst (k : Key) (v : Int)
  /-- `inst.destroySelf()` on such an instance (a DELETE that matches no row is not an error) -/
  | deleteInst (k : Key)
  /-- `list(Cls.select())` inside the body: a read through the transaction, no effect on the rows -/
  | select
  deriving DecidableEq, Repr

structure Body where
  steps : List Step
  /-- raise `e` after the first `n` steps (`n ≤ steps.length`; larger `n`: never) -/
  raiseAt : Option (Nat × Exc)
  /-- the value the body returns -/
  ret : Nat

def applyStep (v : View) : Step → Except Exc View
  | .create k x => if (v k).isSome then .error dupExc else .ok (upd v k (some x))
  | .update k x => if (v k).isSome then .ok (upd v k (some x)) else .error notFoundExc
  | .delete k => if (v k).isSome then .ok (upd v k none) else .error notFoundExc
  | .updateInst k x => .ok (if (v k).isSome then upd v k (some x) else v)
  | .deleteInst k => .ok (upd v k none)
  | .select => .ok v

def applySteps (v : View) : List Step → Except Exc View
  | [] => .ok v
  | st :: rest =>
    match applyStep v st with
    | .ok v' => applySteps v' rest
    | .error e => .error e

/-- **specification**: what the body does to a database it has all to itself -/
def specRun (v : View) (b : Body) : Except Exc View :=
  match b.raiseAt with
  | some (n, e) =>
    if n ≤ b.steps.length then
      match applySteps v (b.steps.take n) with
      | .ok _ => .error e
      | .error e' => .error e'
    else applySteps v b.steps
  | none => applySteps v b.steps

structure World where
  db : View
  hub : Hub
  /-- low-level connections checked out of connection `c`'s pool by open transactions -/
  inUse : Nat → Nat
  /-- open transactions only a traceback still references (base connection ids) -/
  zombies : List Nat
  /-- `DBConnection.autoCommit` of connection `c` (`'exception'` is truthy) -/
  ac : Nat → Bool
  /-- autocommit mode of the pooled low-level connection of `c` (`Transaction.__init__` switches it off;
      `_makeObsolete` switches it back on only `if self._dbConnection.autoCommit`, and releases it in any case) -/
  poolAuto : Nat → Bool

inductive Outcome
  | returned (v : Nat)
  | raised (e : Exc)
  deriving DecidableEq, Repr

/-- running state of the body: committed rows, the transaction's view -/
structure Run where
  db : View
  txv : View

/-- one step of the body, routed by what the hub resolves to for the calling thread *at that moment* -/
def runStep (h : Hub) (tid : Nat) (r : Run) (st : Step) : Except Exc Run :=
  match h.resolve tid with
  | some (_, .tx _) =>
    match applyStep r.txv st with
    | .ok v => .ok { r with txv := v }
    | .error e => .error e
  | some (_, .base _) =>
    -- not inside the transaction: autocommit, straight to the committed rows
    match applyStep r.db st with
    | .ok v => .ok { r with db := v }
    | .error e => .error e
  | none => .error noConnExc

def runSteps (h : Hub) (tid : Nat) (r : Run) : List Step → Run × Option Exc
  | [] => (r, none)
  | st :: rest =>
    match runStep h tid r st with
    | .ok r' => runSteps h tid r' rest
    | .error e => (r, some e)

def runBody (h : Hub) (tid : Nat) (r : Run) (b : Body) : Run × Option Exc :=
  match b.raiseAt with
  | some (n, e) =>
    if n ≤ b.steps.length then
      match runSteps h tid r (b.steps.take n) with
      | (r', none) => (r', some e)
      | (r', some e') => (r', some e')
    else runSteps h tid r b.steps
  | none => runSteps h tid r b.steps

/-- `hub.doInTransaction(body)` called from thread `tid` -/
def doInTx (w : World) (tid : Nat) (b : Body) : World × Outcome :=
  match w.hub.resolve tid with
  | none => (w, .raised noConnExc)
  | some (lvl, old) =>
    match old with
    | .tx _ => (w, .raised noConnExc)            -- nested use is outside the model
    | .base c =>
      -- conn = old_conn.transaction(); bind at the level the old binding was read from
      let hub1 := w.hub.bind lvl tid (.tx c)
      let r := runBody hub1 tid ⟨w.db, w.db⟩ b
      -- `finally`: the old binding goes back to the same level
      let hub2 := hub1.bind lvl tid old
      match r.2 with
      | none =>
        -- commit(close=True): the view becomes the committed state, the low-level connection is released
        ({ w with db := r.1.txv, hub := hub2, poolAuto := upd w.poolAuto c (w.ac c) }, .returned b.ret)
      | some e =>
        match e.kind with
        | .exc =>
          -- rollback(): the write set is dropped, the low-level connection is released
          ({ w with db := r.1.db, hub := hub2, poolAuto := upd w.poolAuto c (w.ac c) }, .raised e)
        | .baseOnly =>
          -- nobody catches it: the transaction stays open until its last reference dies
          ({ w with db := r.1.db, hub := hub2, inUse := upd w.inUse c (w.inUse c + 1), zombies := c :: w.zombies,
                    poolAuto := upd w.poolAuto c false },
           .raised e)

/-- the traceback is dropped: `Transaction.__del__` rolls the open transactions back and releases their
    low-level connections -/
def collect (w : World) : World :=
  { w with inUse := w.zombies.foldl (fun f c => upd f c (f c - 1)) w.inUse, zombies := [],
           poolAuto := w.zombies.foldl (fun f c => upd f c (w.ac c)) w.poolAuto }


/-! ### overlapping calls: several threads inside `doInTransaction` at the same time

`doInTransaction` keeps what it has to put back — the old binding and the level it was read from — in LOCAL
variables of the call (one `Frame` per running call); entering and leaving are the only moments a call touches the
hub.  Calls of different threads interleave at the granularity enter / (body) / leave. -/

structure Frame where
  lvl : Level
  old : CRef
  c : Nat

structure HS where
  hub : Hub
  /-- the running call of each thread, if any -/
  frames : Nat → Option Frame

inductive Ev
  | enter (tid : Nat)
  | leave (tid : Nat)
  deriving DecidableEq, Repr

def Ev.tid : Ev → Nat
  | .enter t | .leave t => t

/-- the prologue of `doInTransaction` (read binding and level, open the transaction, bind it at that level) -/
def HS.enter (s : HS) (tid : Nat) : HS :=
  match s.frames tid, s.hub.resolve tid with
  | none, some (lvl, .base c) =>
    { hub := s.hub.bind lvl tid (.tx c), frames := upd s.frames tid (some ⟨lvl, .base c, c⟩) }
  | _, _ => s

/-- the `finally` clause: the call's own saved binding goes back to the call's own saved level -/
def HS.leave (s : HS) (tid : Nat) : HS :=
  match s.frames tid with
  | some f => { hub := s.hub.bind f.lvl tid f.old, frames := upd s.frames tid none }
  | none => s

def HS.step (s : HS) : Ev → HS
  | .enter t => s.enter t
  | .leave t => s.leave t

def HS.run (s : HS) (evs : List Ev) : HS := evs.foldl HS.step s

end SqlObjVerif.Hub
