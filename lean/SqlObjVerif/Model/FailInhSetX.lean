import SqlObjVerif.Model.FailPropX
import SqlObjVerif.Model.PyInhSet
import SqlObjVerif.Extracted.PyInhSet
/-!
# C06 — `InheritableSQLObject.set` and the setter of an inherited column, as TRANSLATED from the source

`vlib/extractors/pyinhset.py` translates `InheritableSQLObject.set` and the body of `setfunc` (the setter that
`InheritableSQLMeta.addColumn` installs on a child class for every column of its parent class) from /repo's
`sqlobject/inheritance/__init__.py` into `PyInhSet.Block`s on every run (`Extracted/PyInhSet.lean`).  This file RUNS
them over the worlds `PyFail.FW` of the exception-injecting semantics (`Model/PyFail.lean`): `FW.c` is the class of
`self`, `FW.id` its id.

INTERFACE (everything the two translated bodies touch outside their own locals):
* `self._parent`: `None` for an instance of a class without parent; otherwise the instance of the parent class
  `(clsOf sch c).parent` with the SAME id (`InheritableSQLObject._create` / `_SO_fetch…` bind it so), an object: truthy;
* `self.sqlmeta._creating` = the world's `creating`; `getattr(self.sqlmeta, "row_update_sig_suppress", False)` = `True`
  while the world's `sigSuppress` is set (the attribute exists only between `sqlmeta.row_update_sig_suppress = True` and
  its `del`), else the default;
* `self.sqlmeta.send(…)`: evaluates its arguments, nothing else (no listener is modelled: C19's business); `events`,
  `events.RowUpdateSignal` and the literal `{cname: val}` are opaque values only handed to `send`;
* the explicit class call `SQLObject.set(self, _suppress_set_sig=b, **kw)` = the TRANSLATED `SQLObject.set`
  (`PyFail.setFWith … b w kw`, `Extracted/PyMain.lean`) on this very `self`, with the call table `propCallT parentSetT`:
  the setters of its extra keywords are translated code too (a ForeignKey given by object: `_SO_setValue`; an inherited
  column: `setfunc`, below).  The keyword SPLIT between the child's own columns and the inherited ones happens inside
  that translated `set` (an inherited column is not a plain setter of the child, so it is an extra keyword);
* `cname` (free variable of `setfunc`) = the attribute name of column `col` declared by the ancestor class `p`
  (`Val.attrName p col`): `addColumn` closes one `setfunc` over each name (`make_setfunc(cname)`, checked by the
  translator) and installs it as `_set_<cname>`, which `makeProperties` turns into the property `<cname>` — so
  `setattr(obj, cname, val)` on an instance of a child class CALLS `setfunc(obj, val)`: Python's property protocol, assumed;
* `setattr(self._parent, cname, val)` (`assignOnParent`): Python looks the name up on the class of the parent instance
  `(p', id)`.  If `p'` itself declares the column (`p' = p`), the attribute is the column property whose generated setter
  `lambda self, val: self._SO_setValue('<cname>', val, from_python, to_python)` is a string handed to `eval` in
  `main.py:addColumn` (not translatable as a function body: interface) calling the TRANSLATED `_SO_setValue`
  (`PyFail.setValueF`, validator outcomes from the oracle queue) in the world of the parent instance `{ w with c := p' }`:
  validation, UPDATE of the PARENT's row, the parent instance's cached value.  Otherwise the name is itself an inherited
  column of `p'`, whose setter is `p'`'s own `setfunc` closed over the same name (class attributes are inherited along
  the Python class hierarchy): the same translated body again, one level up — a recursion along the ancestor chain,
  bounded by the number of classes (`setfuncN`, fuel `sch.length`; `isAnc sch n c p`: `p` is reached from `c` in at
  most `n` parent steps).  Afterwards `self` is the child again (`backTo`).  The flags `lock` / `sigSuppress` of the
  world are those of the child instance; the parent's path never takes the lock or assigns the suppress flag, and reads
  the latter only to guard a `send`.
-/
namespace SqlObjVerif.FailInhSet
open SqlObjVerif.PyInhSet (Expr Cond Stmt Block)
open SqlObjVerif.PyInhSet.Extracted
open SqlObjVerif.PyMain (PDict)
open SqlObjVerif.PyFail (FW Outcome setFWith propCallT setValueF)
open SqlObjVerif.Fail (Err Schema In clsOf)

inductive Val where
  | none
  | bool (b : Bool)
  | str (s : String)
  /-- `self` -/
  | selfObj
  /-- `self.sqlmeta` -/
  | sqlmeta
  /-- `self._parent` of an instance of a child class -/
  | parent
  /-- the attribute name of column `col` declared by class `p` -/
  | attrName (p col : Nat)
  /-- a value handed to a column setter -/
  | inp (v : In)
  /-- a `**kw` dict -/
  | kwd (d : PDict)
  /-- a module, a signal class, a literal dict: only handed on to `send` -/
  | opaque

structure Iface where
  /-- `SQLObject.set(self, _suppress_set_sig=b, **kw)` -/
  baseSet : Bool → FW → PDict → Outcome
  /-- `setattr(self._parent, <attribute name of column col of class p>, v)` -/
  setParentAttr : FW → Nat → Nat → In → Outcome
  /-- the closure cells -/
  free : List Val

def attrOf (w : FW) (v : Val) (a : String) : Option Val :=
  match v with
  | .selfObj =>
    if a = "_parent" then some (if (clsOf w.sch w.c).parent.isSome then .parent else .none)
    else if a = "sqlmeta" then some .sqlmeta else Option.none
  | .sqlmeta => if a = "_creating" then some (.bool w.creating) else Option.none
  | .opaque => some .opaque
  | _ => Option.none

def getattr3Of (w : FW) (v : Val) (name : String) (dflt : Val) : Option Val :=
  match v with
  | .sqlmeta => if name = "row_update_sig_suppress" then some (if w.sigSuppress then .bool true else dflt) else Option.none
  | _ => Option.none

abbrev Env := List (Option Val)

def Env.get (env : Env) (x : Nat) : Option Val :=
  match env[x]? with
  | some (some v) => some v
  | _ => Option.none

def evalE (I : Iface) (w : FW) (env : Env) : Expr → Option Val
  | .self => some .selfObj
  | .var x => env.get x
  | .free i => I.free[i]?
  | .glob _ => some .opaque
  | .none => some .none
  | .true => some (.bool true)
  | .false => some (.bool false)
  | .str s => some (.str s)
  | .attr e a => (evalE I w env e).bind fun v => attrOf w v a
  | .getattr3 e name d => (evalE I w env e).bind fun v => (evalE I w env d).bind fun dv => getattr3Of w v name dv
  | .dict1 k v => (evalE I w env k).bind fun _ => (evalE I w env v).bind fun _ => some .opaque

def evalEs (I : Iface) (w : FW) (env : Env) : List Expr → Option (List Val)
  | [] => some []
  | e :: es => (evalE I w env e).bind fun v => (evalEs I w env es).bind fun vs => some (v :: vs)

/-- `bool(v)`; the truthiness of a value on its way to a column setter is never asked -/
def pyBool : Val → Option Bool
  | .none => some false
  | .bool b => some b
  | .str s => some (s != "")
  | .kwd d => some (!d.isEmpty)
  | .inp _ => Option.none
  | _ => some true

def evalC (I : Iface) (w : FW) (env : Env) : Cond → Option Bool
  | .truthy e => (evalE I w env e).bind pyBool
  | .not c => (evalC I w env c).map (!·)
  | .and c d => (evalC I w env c).bind fun b => if b then evalC I w env d else some false
  | .or c d => (evalC I w env c).bind fun b => if b then some true else evalC I w env d

structure St where
  w : FW
  env : Env

inductive Res where
  | norm (st : St)
  | exc (w : FW) (e : Err)
  | deadlock (w : FW)
  | stuck

def afterCall (o : Outcome) (st : St) : Res :=
  match o with
  | .ret w _ => .norm { st with w := w }
  | .exc w e => .exc w e
  | .deadlock w => .deadlock w
  | .stuck => .stuck

/-- the keywords of the class call: `_suppress_set_sig` (default `False`) and nothing else -/
def supOf (kwn : List String) (kwv : List Val) : Option Bool :=
  match kwn, kwv with
  | [], [] => some false
  | [n], [v] => if n = "_suppress_set_sig" then pyBool v else Option.none
  | _, _ => Option.none

def classCallOf (I : Iface) (st : St) (cls m : String) (args : List Val) (kwn : List String) (kwv : List Val)
    (star : Option Val) : Res :=
  if cls = "SQLObject" ∧ m = "set" then
    match args, star with
    | [.selfObj], some (.kwd d) =>
      (match supOf kwn kwv with
       | some b => afterCall (I.baseSet b st.w d) st
       | Option.none => .stuck)
    | _, _ => .stuck
  else .stuck

def setattrOf (I : Iface) (st : St) (obj name v : Val) : Res :=
  match obj, name, v with
  | .parent, .attrName p col, .inp x => afterCall (I.setParentAttr st.w p col x) st
  | _, _, _ => .stuck

def optRes {α : Type} (o : Option α) (f : α → Res) : Res :=
  match o with
  | some a => f a
  | Option.none => .stuck

mutual
def execS (I : Iface) (st : St) : Stmt → Res
  | .assign x e => optRes (evalE I st.w st.env e) fun v => .norm { st with env := st.env.set x (some v) }
  | .ite c t e => optRes (evalC I st.w st.env c) fun b => if b then execB I st t else execB I st e
  | .send args => optRes (evalEs I st.w st.env args) fun _ => .norm st
  | .classCall cls m args kwn kwv star =>
    optRes (evalEs I st.w st.env args) fun as => optRes (evalEs I st.w st.env kwv) fun ks =>
      match star with
      | Option.none => classCallOf I st cls m as kwn ks Option.none
      | some se => optRes (evalE I st.w st.env se) fun sv => classCallOf I st cls m as kwn ks (some sv)
  | .setattr obj name v =>
    optRes (evalE I st.w st.env obj) fun ov => optRes (evalE I st.w st.env name) fun nv =>
      optRes (evalE I st.w st.env v) fun vv => setattrOf I st ov nv vv
  | .pass => .norm st
def execB (I : Iface) (st : St) : Block → Res
  | .nil => .norm st
  | .cons s rest => match execS I st s with
    | .norm st' => execB I st' rest
    | r => r
end

def Res.toOutcome : Res → Outcome
  | .norm st => .ret st.w .none
  | .exc w e => .exc w e
  | .deadlock w => .deadlock w
  | .stuck => .stuck

/-- call a translated function: `args` = the parameters after `self`, `nlocals` = parameters + other locals -/
def run (I : Iface) (prog : Block) (args : List Val) (nlocals : Nat) (w : FW) : Outcome :=
  (execB I { w := w, env := args.map some ++ List.replicate (nlocals - args.length) Option.none } prog).toOutcome

/-- `self` is the child instance again -/
def backTo (c : Nat) : Outcome → Outcome
  | .ret w v => .ret { w with c := c } v
  | .exc w e => .exc { w with c := c } e
  | .deadlock w => .deadlock { w with c := c }
  | .stuck => .stuck

/-- `setattr(self._parent, <name of column col of class p>, v)`; `rec`: the parent class's own `setfunc` of that name -/
def assignOnParent (rec : FW → Nat → Nat → In → Outcome) (w : FW) (p col : Nat) (v : In) : Outcome :=
  match (clsOf w.sch w.c).parent with
  | Option.none => .stuck
  | some p' => backTo w.c (if p' = p then setValueF { w with c := p' } col v else rec { w with c := p' } p col v)

/-- the translated `setfunc(self, v)` closed over the name of column `col` of class `p`, at most `n` levels up -/
def setfuncN : Nat → FW → Nat → Nat → In → Outcome
  | 0, _, _, _, _ => .stuck
  | n + 1, w, p, col, v =>
    run { baseSet := fun _ _ _ => .stuck, setParentAttr := assignOnParent (setfuncN n), free := [.attrName p col] }
      setfuncProg [.inp v] setfunc_nlocals w

/-- the setter of an inherited column: the translated `setfunc` -/
def parentSetT (w : FW) (p col : Nat) (v : In) : Outcome := setfuncN w.sch.length w p col v

/-- the translated `InheritableSQLObject.set(self, **kw)` -/
def inhSetF (w : FW) (kw : PDict) : Outcome :=
  run { baseSet := fun b w kw => setFWith (propCallT parentSetT) b w kw, setParentAttr := fun _ _ _ _ => .stuck, free := [] }
    inhSetProg [.kwd kw] inhSet_nlocals w

/-- `p` is reached from `c` in at most `n` parent steps (the first ancestor that declares the name wins) -/
def isAnc (sch : Schema) : Nat → Nat → Nat → Bool
  | 0, _, _ => false
  | n + 1, c, p =>
    match (clsOf sch c).parent with
    | some p' => p' == p || isAnc sch n p' p
    | Option.none => false

/-- what the theorems assume of the kind of an extra keyword of class `c`: column numbers in range for the class they
    belong to, an inherited column belongs to an ancestor -/
def exOk (sch : Schema) (c : Nat) : Fail.Extra → Prop
  | .fk col _ => col < (clsOf sch c).cols.length
  | .parentAttr p col _ => col < (clsOf sch p).cols.length ∧ isAnc sch sch.length c p = true
  | _ => True

end SqlObjVerif.FailInhSet
