import SqlObjVerif.Extracted.Query
/-!
# C11 — model of query planning (`sresults.py`, `sqlbuilder.Select`, `_SO_columnClause`,
`accumulateSelect`, `getOne`, alternate-id / unique-index lookups) and a reference SQL evaluator

Two levels.

* **Plan level** (mirrors the code, tied to it by the extractor and by the text correspondence):
  `mungeOrderBy`, `OExpr.key` (`DESC.__sqlrepr__`), `applyReverser` (`Select.__sqlrepr__`),
  `columnClause` (`_SO_columnClause`), `Sel.*` (`SelectResults` methods), `queryForSelect`,
  `accumulatePlan` (`count` / `accumulateMany` / `accumulateSelect`), `getOne`,
  `fetchAlternateID`, `indexGet`.
* **Reference level** (specification side, written from the SQL standard / SQLite documentation,
  cross-checked by execution): three-valued logic, `source` (FROM + WHERE), `dedup` (DISTINCT),
  `leKeys` + `sortBy` (ORDER BY, NULLs first ascending), `aggOf` (SUM/MIN/MAX/AVG/COUNT).

A table is a `List Row`; values are `Option Int` (`none` = NULL); strings of the harness's string
column are sent as their code (order preserving).  The second table `oth` (one column `g`) exists
so that a filter can be a join, which is what makes DISTINCT observable.
-/
namespace SqlObjVerif.Query

abbrev Val := Option Int
abbrev Name := List Char

structure Row where
  id : Int
  cols : List Val
deriving DecidableEq, Repr

inductive ColRef where
  | id
  | col (i : Nat)
deriving DecidableEq, Repr

def Row.get (r : Row) : ColRef → Val
  | .id => some r.id
  | .col i => r.cols.getD i none

structure ColSpec where
  name : Name                   -- key of `sqlmeta.columns` (Python attribute; `fkID` for a ForeignKey `fk`)
  dbName : Name
  foreignName : Option Name     -- `fk` for the column `fkID`
deriving DecidableEq, Repr

structure Db where
  rows : List Row
  oth : List Val := []
deriving Repr

/-! ## Three-valued logic and filter expressions (reference level) -/

abbrev TV := Option Bool      -- `none` = UNKNOWN

def and3 : TV → TV → TV
  | some false, _ => some false
  | _, some false => some false
  | some true, some true => some true
  | _, _ => none

def or3 : TV → TV → TV
  | some true, _ => some true
  | _, some true => some true
  | some false, some false => some false
  | _, _ => none

def not3 : TV → TV
  | some b => some (!b)
  | none => none

inductive CmpOp where
  | eq | ne | lt | le | gt | ge
deriving DecidableEq, Repr

def CmpOp.holds : CmpOp → Int → Int → Bool
  | .eq, x, y => x == y
  | .ne, x, y => x != y
  | .lt, x, y => x < y
  | .le, x, y => x ≤ y
  | .gt, x, y => x > y
  | .ge, x, y => x ≥ y

def cmp3 (op : CmpOp) : Val → Val → TV
  | some x, some y => some (op.holds x y)
  | _, _ => none

/-- one `column <op> literal` of the string clause `_SO_columnClause` builds -/
structure Cond where
  col : ColRef
  op : CondOp
  lit : Val
deriving DecidableEq, Repr

/-- SQL meaning of `col IS lit` / `col = lit` / `col <> lit` (SQLite: `IS` is null-safe equality) -/
def Cond.eval (c : Cond) (r : Row) : TV :=
  match c.op with
  | .is => some (r.get c.col == c.lit)
  | .eq => cmp3 .eq (r.get c.col) c.lit
  | .ne => cmp3 .ne (r.get c.col) c.lit

inductive Operand where
  | col (c : ColRef)     -- `T.q.<col>`
  | lit (v : Int)
  | othG                 -- `Oth.q.g`
deriving DecidableEq, Repr

inductive Expr where
  | tt                                      -- `SQLTrueClause` (`1 = 1`)
  | cmp (op : CmpOp) (a b : Operand)
  | isNull (a : Operand)                    -- `x == None`
  | notNull (a : Operand)                   -- `x != None`
  | and (a b : Expr)
  | or (a b : Expr)
  | not (a : Expr)
  | kw (conds : List Cond)                  -- the string clause of `selectBy`
deriving Repr

structure Env where
  g : Val
  row : Row

def Operand.eval (e : Env) : Operand → Val
  | .col c => e.row.get c
  | .lit v => some v
  | .othG => e.g

def condsEval (r : Row) : List Cond → TV
  | [] => some true
  | c :: cs => and3 (c.eval r) (condsEval r cs)

def Expr.eval (e : Env) : Expr → TV
  | .tt => some true
  | .cmp op a b => cmp3 op (a.eval e) (b.eval e)
  | .isNull a => some ((a.eval e).isNone)
  | .notNull a => some ((a.eval e).isSome)
  | .and a b => and3 (a.eval e) (b.eval e)
  | .or a b => or3 (a.eval e) (b.eval e)
  | .not a => not3 (a.eval e)
  | .kw conds => condsEval e.row conds

/-! ### plan level: the n-ary helpers `AND(*ops)` / `OR(*ops)` of sqlbuilder -/

def mkBool : BoolOp → Expr → Expr → Expr
  | .and, a, b => .and a b
  | .or, a, b => .or a b

/-- (connective built, helper called on the tail) of `AND` / `OR`, as extracted -/
def fnSpec : BoolOp → BoolOp × BoolOp
  | .and => Extracted.andFn
  | .or => Extracted.orFn

/-- `AND(*ops)` / `OR(*ops)`: no operand ↦ None, one ↦ itself, else `SQLOp(op, op1, F(*rest))` -/
def nary : BoolOp → List Expr → Option Expr
  | _, [] => none
  | _, [a] => some a
  | f, a :: b :: rest =>
    match nary (fnSpec f).2 (b :: rest) with
    | some t => some (mkBool (fnSpec f).1 a t)
    | none => none

/-- reference: conjunction / disjunction of a list of truth values -/
def and3L : List TV → TV
  | [] => some true
  | x :: xs => and3 x (and3L xs)

def or3L : List TV → TV
  | [] => some false
  | x :: xs => or3 x (or3L xs)

def Operand.usesOth : Operand → Bool
  | .othG => true
  | _ => false

def Expr.usesOth : Expr → Bool
  | .cmp _ a b => a.usesOth || b.usesOth
  | .isNull a => a.usesOth
  | .notNull a => a.usesOth
  | .and a b => a.usesOth || b.usesOth
  | .or a b => a.usesOth || b.usesOth
  | .not a => a.usesOth
  | _ => false

/-- WHERE keeps the rows for which the clause is TRUE (not FALSE, not UNKNOWN) -/
def holds (c : Expr) (e : Env) : Bool := c.eval e == some true

/-- FROM + WHERE.  Without `oth` in the clause: the table filtered.  With it: the cross product
    `oth × table` filtered, projected to the table's columns (so a row may repeat). -/
def source (db : Db) (c : Expr) : List Row :=
  if c.usesOth then
    db.rows.flatMap fun r => (db.oth.filter fun g => holds c ⟨g, r⟩).map fun _ => r
  else
    db.rows.filter fun r => holds c ⟨none, r⟩

/-- DISTINCT -/
def dedup {α} [DecidableEq α] : List α → List α
  | [] => []
  | a :: l => if a ∈ l then dedup l else a :: dedup l

/-! ## ORDER BY (reference level) -/

/-- strict order on SQL values as SQLite sorts them ascending: NULL first, then integers -/
def ltVal : Val → Val → Bool
  | none, some _ => true
  | some x, some y => x < y
  | _, _ => false

/-- resolved sort key: column and direction (`true` = descending) -/
abbrev Key := ColRef × Bool

/-- lexicographic "a may come before b" for an ORDER BY key list -/
def leKeys : List Key → Row → Row → Bool
  | [], _, _ => true
  | (c, d) :: ks, a, b =>
    if a.get c = b.get c then leKeys ks a b
    else if d then ltVal (b.get c) (a.get c) else ltVal (a.get c) (b.get c)

def insertBy {α} (le : α → α → Bool) (a : α) : List α → List α
  | [] => [a]
  | b :: l => if le a b then a :: b :: l else b :: insertBy le a l

/-- reference sort (stable insertion sort; any sorted permutation is an admissible SQL answer) -/
def sortBy {α} (le : α → α → Bool) : List α → List α
  | [] => []
  | a :: l => insertBy le a (sortBy le l)

/-! ## Aggregates (reference level) -/

def sumL : List Int → Int
  | [] => 0
  | a :: l => a + sumL l

def minL : List Int → Option Int
  | [] => none
  | a :: l => match minL l with
    | none => some a
    | some m => some (if a ≤ m then a else m)

def maxL : List Int → Option Int
  | [] => none
  | a :: l => match maxL l with
    | none => some a
    | some m => some (if m ≤ a then a else m)

inductive AggVal where
  | int (v : Option Int)                 -- NULL or an integer
  | ratio (v : Option (Int × Nat))       -- AVG: NULL or sum / count
deriving DecidableEq, Repr

/-- SQL aggregate over the non-NULL values `vals` of the argument: SUM/MIN/MAX/AVG of nothing is
    NULL, COUNT of nothing is 0 -/
def aggOf : AggFn → List Int → AggVal
  | .SUM, vals => .int (if vals.isEmpty then none else some (sumL vals))
  | .MIN, vals => .int (minL vals)
  | .MAX, vals => .int (maxL vals)
  | .AVG, vals => .ratio (if vals.isEmpty then none else some (sumL vals, vals.length))
  | .COUNT, vals => .int (some vals.length)

/-! ## Plan level: ordering -/

inductive OExpr where
  | field (c : ColRef)      -- `T.q.<col>` / `T.q.id`
  | const (s : Name)        -- `SQLConstant(s)`
  | desc (e : OExpr)        -- `DESC(e)`
deriving DecidableEq, Repr

/-- what the user passes for one key -/
inductive OrderArg where
  | str (s : Name)          -- a Python string
  | expr (e : OExpr)        -- an sqlbuilder expression
deriving DecidableEq, Repr

/-- Python `None` / a single key / a list or tuple of keys -/
inductive OrderBy where
  | none
  | one (a : OrderArg)
  | many (k : SeqKind) (l : List OrderArg)      -- a list `[…]` or a tuple `(…)` of keys
deriving DecidableEq, Repr

inductive DbOrder where
  | none
  | one (e : OExpr)
  | many (l : List OExpr)
deriving DecidableEq, Repr

structure Schema where
  table : Name
  othTable : Name
  cols : List ColSpec
  defaultOrder : OrderBy := .none
deriving Repr

def findCol (p : ColSpec → Bool) : List ColSpec → Nat → Option Nat
  | [], _ => none
  | c :: cs, i => if p c then some i else findCol p cs (i + 1)

/-- `orderBy in sqlmeta.columns` -/
def Schema.lookupPy (sch : Schema) (s : Name) : Option Nat := findCol (fun c => c.name = s) sch.cols 0

def wrapIf (b : Bool) (e : OExpr) : OExpr := if b then .desc e else e

/-- the prefix test of `_mungeOrderBy`: (rest, desc) -/
def splitPrefix (s : Name) : Name × Bool :=
  match s with
  | c :: t => if c = Extracted.descPrefix then (t, Extracted.descWhenPrefixed) else (s, Extracted.descWhenPlain)
  | [] => (s, Extracted.descWhenPlain)

/-- `SelectResults._mungeOrderBy` -/
def mungeOrderBy (sch : Schema) : OrderArg → OExpr
  | .expr e => e
  | .str s =>
    let (s', desc) := splitPrefix s
    match sch.lookupPy s' with
    | some i => wrapIf (if desc then Extracted.mungeColumn.1 else Extracted.mungeColumn.2) (.field (.col i))
    | none => wrapIf (if desc then Extracted.mungeRaw.1 else Extracted.mungeRaw.2) (.const s')

/-- what `_mungeOrderBy` does to a key when it is handed the whole (unrecognised) container: nothing;
    `Select.__sqlrepr__` then pastes a string key verbatim -/
def verbatim : OrderArg → OExpr
  | .expr e => e
  | .str s => .const s

/-- `SelectResults.__init__`: a container of a recognised kind is translated key by key -/
def mungeSeq (sch : Schema) (k : SeqKind) (l : List OrderArg) : List OExpr :=
  if k ∈ Extracted.mungedSeqKinds then l.map (mungeOrderBy sch) else l.map verbatim

def mungeAll (sch : Schema) : OrderBy → DbOrder
  | .none => .none
  | .one a => .one (mungeOrderBy sch a)
  | .many k l => .many (mungeSeq sch k l)

inductive Term where
  | field (c : ColRef)
  | const (s : Name)
deriving DecidableEq, Repr

/-- one rendered ORDER BY key: the term text and how many times the DESC format was appended -/
structure SqlKey where
  term : Term
  suffixes : Nat
deriving DecidableEq, Repr

def SqlKey.bump (k : SqlKey) : SqlKey := { k with suffixes := k.suffixes + 1 }

/-- `sqlrepr` of an order expression; the `desc` case is `DESC.__sqlrepr__` -/
def OExpr.key : OExpr → SqlKey
  | .field c => ⟨.field c, 0⟩
  | .const s => ⟨.const s, 0⟩
  | .desc (.desc e) => if Extracted.descOfDescCancels then e.key else (OExpr.desc e).key.bump
  | .desc (.field c) => ⟨.field c, 1⟩
  | .desc (.const s) => ⟨.const s, 1⟩

/-- `reverser` of `Select.__sqlrepr__` -/
def applyReverser (reversed : Bool) (e : OExpr) : OExpr :=
  if (if reversed then Extracted.reverserWhenReversed else Extracted.reverserWhenNot) then .desc e else e

/-! ## Plan level: `SelectResults` and the `Select` it renders -/

structure Sel where
  clause : Expr
  order : DbOrder
  reversed : Bool := false
  distinct : Bool := false
deriving Repr

/-- `SelectResults.__init__` via `cls.select(clause, orderBy=…, reversed=…, distinct=…)`;
    `orderBy = none` is NoDefault (→ `sqlmeta.defaultOrder`), `clause = none` is None (→ all rows) -/
def Sel.new (sch : Schema) (clause : Option Expr) (orderBy : Option OrderBy) (reversed distinct : Bool) : Sel :=
  { clause := clause.getD .tt
    order := mungeAll sch (orderBy.getD sch.defaultOrder)
    reversed := reversed
    distinct := distinct }

def Sel.orderBy (sch : Schema) (s : Sel) (o : OrderBy) : Sel := { s with order := mungeAll sch o }
def Sel.rev (s : Sel) : Sel := { s with reversed := !s.reversed }
def Sel.dist (s : Sel) : Sel := { s with distinct := true }
def Sel.filter (s : Sel) : Option Expr → Sel
  | none => s
  | some c => { s with clause := .and s.clause c }

/-- the chainable `SelectResults` methods -/
inductive SelOp where
  | orderBy (o : OrderBy)
  | rev
  | dist
  | filter (c : Option Expr)
deriving Repr

def Sel.apply (sch : Schema) (s : Sel) : SelOp → Sel
  | .orderBy o => s.orderBy sch o
  | .rev => s.rev
  | .dist => s.dist
  | .filter c => s.filter c

inductive Items where
  | columns
  | count (c : CountItem)
  | agg (f : AggFn) (distinct : Bool) (t : Term)
deriving DecidableEq, Repr

/-- the `sqlbuilder.Select` (window left out: C10) -/
structure Plan where
  items : Items
  distinct : Bool
  where_ : Expr
  order : Option (List SqlKey)       -- `none`: no ORDER BY clause
deriving Repr

def orderKeys (s : Sel) : Option (List SqlKey) :=
  match s.order with
  | .none => none
  | .one e => some [(applyReverser s.reversed e).key]
  | .many l => some (l.map fun e => (applyReverser s.reversed e).key)

/-- `SelectResults.queryForSelect` -/
def queryForSelect (s : Sel) : Plan :=
  { items := .columns, distinct := s.distinct, where_ := s.clause, order := orderKeys s }

/-- `accumulateSelect`: `queryForSelect().newItems(exprs).unlimited().orderBy(None)` -/
def accumulatePlan (s : Sel) (it : Items) : Plan :=
  { queryForSelect s with items := it, order := if Extracted.accOrderNone then none else orderKeys s }

/-- `SelectResults.count` -/
def countPlan (s : Sel) : Plan :=
  accumulatePlan s (.count (if s.distinct then Extracted.countWhenDistinct else Extracted.countWhenPlain))

inductive AggMethod where
  | sum | min | max | avg
deriving DecidableEq, Repr

def AggMethod.fn : AggMethod → AggFn
  | .sum => Extracted.sumFn
  | .min => Extracted.minFn
  | .max => Extracted.maxFn
  | .avg => Extracted.avgFn

/-- `SelectResults.sum/min/max/avg` → `accumulateOne` → `accumulateMany` -/
def aggPlan (s : Sel) (m : AggMethod) (t : Term) : Plan :=
  accumulatePlan s (.agg m.fn (if s.distinct then Extracted.aggDistinctWhenDistinct else Extracted.aggDistinctWhenPlain) t)

/-! ## Reference evaluation of a plan -/

def splitAtDot : Name → Option (Name × Name)
  | [] => none
  | c :: t => if c = '.' then some ([], t) else (splitAtDot t).map fun (a, b) => (c :: a, b)

def Schema.lookupDb (sch : Schema) (s : Name) : Option ColRef :=
  if s = ['i', 'd'] then some .id else (findCol (fun c => c.dbName = s) sch.cols 0).map .col

/-- a raw ORDER BY string means a column of the table when it is one of its db names (possibly
    qualified); an unqualified `id` is ambiguous when `oth` is joined in -/
def Schema.resolveRaw (sch : Schema) (joined : Bool) (s : Name) : Option ColRef :=
  match splitAtDot s with
  | some (t, n) => if t = sch.table then sch.lookupDb n else none
  | none => if joined && s = ['i', 'd'] then none else sch.lookupDb s

def Schema.resolveTerm (sch : Schema) (joined : Bool) : Term → Option ColRef
  | .field c => some c
  | .const s => sch.resolveRaw joined s

/-- direction of a rendered key; two DESC words are a syntax error -/
def SqlKey.dir (k : SqlKey) : Option Bool :=
  match k.suffixes with
  | 0 => some false
  | 1 => some Extracted.descFormatDescending
  | _ => none

def resolveKeys (sch : Schema) (joined : Bool) : List SqlKey → Option (List Key)
  | [] => some []
  | k :: ks =>
    match sch.resolveTerm joined k.term, k.dir, resolveKeys sch joined ks with
    | some c, some d, some rest => some ((c, d) :: rest)
    | _, _, _ => none

/-- rows of a `SELECT [DISTINCT] <columns>` plan; `none` = the statement is rejected -/
def evalRows (sch : Schema) (db : Db) (p : Plan) : Option (List Row) :=
  let src := source db p.where_
  let src := if p.distinct then dedup src else src
  match p.order with
  | none => some src
  | some [] => none
  | some ks => (resolveKeys sch p.where_.usesOth ks).map fun keys => sortBy (leKeys keys) src

/-- value of a one-item aggregate plan (`SELECT DISTINCT` over the single result row changes nothing) -/
def evalAgg (sch : Schema) (db : Db) (p : Plan) : Option AggVal :=
  let rows := source db p.where_
  match p.items with
  | .columns => none
  | .count .star => some (.int (some rows.length))
  | .count .distinctId => some (.int (some (dedup (rows.map (·.id))).length))
  | .agg f d t =>
    (sch.resolveTerm p.where_.usesOth t).map fun c =>
      let vals := rows.filterMap (·.get c)
      aggOf f (if d then dedup vals else vals)

def evalSelect (sch : Schema) (db : Db) (s : Sel) : Option (List Row) := evalRows sch db (queryForSelect s)

/-- `Iteration.next`: a fetched row becomes an object unless the guard on its id column fires -/
def deliver (g : IdGuard) (r : Row) : Option Row :=
  match g with
  | .isNone => some r                                  -- an id of the table is never NULL
  | .falsy => if r.id = 0 then none else some r

/-- `list(select)`: what iteration hands out for the fetched rows (`none` = Python None) -/
def iterSelect (rows : List Row) : List (Option Row) := rows.map (deliver Extracted.iterNullGuard)

/-! ## Several connections: one database per connection object

`SelectResults._getConnection` = the `connection=` given to select / selectBy / `.connection(c)`, else the
class's own; the statement is executed on THAT connection's database. -/

/-- the databases behind the connection objects of a process (connection objects numbered) -/
abbrev Store := Nat → Db

/-- everything written through connection `c` so far amounts to its database being `d` -/
def Store.write (s : Store) (c : Nat) (d : Db) : Store := fun c' => if c' = c then d else s c'

/-- `_getConnection`: explicit connection if given, else the class's -/
def connOf (explicit : Option Nat) (classConn : Nat) : Nat := explicit.getD classConn

def selectOn (sch : Schema) (s : Store) (explicit : Option Nat) (classConn : Nat) (sel : Sel) : Option (List Row) :=
  evalSelect sch (s (connOf explicit classConn)) sel

def aggOn (sch : Schema) (s : Store) (explicit : Option Nat) (classConn : Nat) (p : Plan) : Option AggVal :=
  evalAgg sch (s (connOf explicit classConn)) p

/-! ## Plan level: keyword equalities -/

inductive KwVal where
  | none                -- Python None
  | int (v : Int)
  | obj (id : Int)      -- an SQLObject instance
deriving DecidableEq, Repr

def KwVal.toVal : KwVal → Val
  | .none => Option.none
  | .int v => some v
  | .obj id => some id

abbrev Kw := List (Name × KwVal)

def kwLookup (kw : Kw) (k : Name) : Option KwVal :=
  match kw with
  | [] => none
  | (k', v) :: rest => if k' = k then some v else kwLookup rest k

def idKey : Name := ['i', 'd']

def mkCond (c : ColRef) (v : KwVal) : Cond :=
  ⟨c, if v.toVal.isNone then Extracted.clauseOpNone else Extracted.clauseOpValue, v.toVal⟩

/-- the value `_SO_columnClause` takes for column `c`: under its name, else under its foreign name -/
def colVal (kw : Kw) (c : ColSpec) : Option KwVal :=
  match kwLookup kw c.name with
  | some v => some v
  | none => match c.foreignName with
    | some f => kwLookup kw f
    | none => none

def colConds (kw : Kw) : List ColSpec → Nat → List Cond
  | [], _ => []
  | c :: cs, i =>
    match colVal kw c with
    | some v => mkCond (.col i) v :: colConds kw cs (i + 1)
    | none => colConds kw cs (i + 1)

/-- is the keyword `k` popped by the loop of `_SO_columnClause` -/
def consumed (kw : Kw) (cols : List ColSpec) (k : Name) : Bool :=
  k = idKey || cols.any fun c => c.name = k || (c.foreignName = some k && (kwLookup kw c.name).isNone)

def kwData (sch : Schema) (kw : Kw) : List Cond :=
  (match kwLookup kw idKey with
   | some v => [mkCond .id v]
   | none => []) ++ colConds kw sch.cols 0

/-- `_SO_columnClause`: `none` = TypeError (unexpected keyword); no data = no clause (all rows) -/
def columnClause (sch : Schema) (kw : Kw) : Option (Option Expr) :=
  if kw.all fun (k, _) => consumed kw sch.cols k then
    let data := kwData sch kw
    some (if data.isEmpty then none else some (.kw data))
  else none

/-- `cls.selectBy(**kw)` -/
def selectBy (sch : Schema) (kw : Kw) : Option Sel :=
  (columnClause sch kw).map fun c => Sel.new sch c none false false

/-! ## Plan level: `getOne`, alternate ids, unique indexes -/

inductive OneRes (α : Type) where
  | value (x : α)
  | default
  | notFound
  | integrity
  | pyNone           -- falls off the end / returns None
  | indexError
  | typeError
deriving DecidableEq, Repr

def OneGuard.holds {α} : OneGuard → List α → Bool
  | .empty, l => l.isEmpty
  | .lenGt n, l => decide (l.length > n)
  | .always, _ => true

def OneAction.run {α} (hasDefault : Bool) (l : List α) : OneAction → OneRes α
  | .defaultOrNotFound => if hasDefault then .default else .notFound
  | .integrityError => .integrity
  | .first => match l with
    | x :: _ => .value x
    | [] => .indexError

def getOneWith {α} (hasDefault : Bool) (l : List α) : List (OneGuard × OneAction) → OneRes α
  | [] => .pyNone
  | (g, a) :: rest => if g.holds l then a.run hasDefault l else getOneWith hasDefault l rest

/-- `SelectResults.getOne` applied to the list of results -/
def getOne {α} (hasDefault : Bool) (l : List α) : OneRes α := getOneWith hasDefault l Extracted.getOneBranches

/-- `cls.q.<col> == value` as `_findAlternateID` builds it (`== None` is IS NULL) -/
def eqOrNull (c : ColRef) : Val → Expr
  | none => .isNull (.col c)
  | some v => .cmp .eq (.col c) (.lit v)

/-- `_SO_fetchAlternateID`: `queryOne` takes the first matching row -/
def fetchAlternateID (db : Db) (c : ColRef) (v : Val) : OneRes Int :=
  match source db (eqOrNull c v) with
  | r :: _ => .value r.id
  | [] => match Extracted.altMiss with
    | .raiseNotFound => .notFound
    | .returnNone => .pyNone

/-- `SODatabaseIndex.get(**kw)` of an index over `ncols` columns: arity check, then
    `selectBy(**kw).getOne()` -/
def indexGet (sch : Schema) (db : Db) (ncols : Nat) (kw : Kw) : OneRes Int :=
  if !kw.isEmpty && kw.length != ncols then .typeError else
  match selectBy sch kw with
  | none => .typeError
  | some s => match evalSelect sch db s with
    | none => .typeError
    | some rows => getOne false (rows.map (·.id))

/-! ## SQL text of a plan (used by the correspondence only; mirrors the `__sqlrepr__` methods) -/

def nameStr (n : Name) : String := String.ofList n

def Schema.dbOf (sch : Schema) : ColRef → String
  | .id => "id"
  | .col i => match sch.cols[i]? with
    | some c => nameStr c.dbName
    | none => "?"

def Schema.qual (sch : Schema) (c : ColRef) : String := nameStr sch.table ++ "." ++ sch.dbOf c

def CmpOp.text : CmpOp → String
  | .eq => "=" | .ne => "<>" | .lt => "<" | .le => "<=" | .gt => ">" | .ge => ">="

def CondOp.text : CondOp → String
  | .is => "IS" | .eq => "=" | .ne => "<>"

def valText : Val → String
  | none => "NULL"
  | some v => toString v

def Operand.text (sch : Schema) : Operand → String
  | .col c => "(" ++ sch.qual c ++ ")"
  | .lit v => "(" ++ toString v ++ ")"
  | .othG => "(" ++ nameStr sch.othTable ++ ".g)"

/-- `SQLOp.__sqlrepr__` puts an operand in parentheses unless it starts with one -/
def wrapParen (s : String) : String := if s.startsWith "(" then s else "(" ++ s ++ ")"

def Cond.text (sch : Schema) (c : Cond) : String := sch.dbOf c.col ++ " " ++ c.op.text ++ " " ++ valText c.lit

def Expr.text (sch : Schema) : Expr → String
  | .tt => "1 = 1"
  | .cmp op a b => "(" ++ a.text sch ++ " " ++ op.text ++ " " ++ b.text sch ++ ")"
  | .isNull a => "(" ++ a.text sch ++ " IS NULL)"
  | .notNull a => "(" ++ a.text sch ++ " IS NOT NULL)"
  | .and a b => "(" ++ wrapParen (a.text sch) ++ " AND " ++ wrapParen (b.text sch) ++ ")"
  | .or a b => "(" ++ wrapParen (a.text sch) ++ " OR " ++ wrapParen (b.text sch) ++ ")"
  | .not a => "NOT " ++ a.text sch
  | .kw conds => "(" ++ " AND ".intercalate (conds.map (Cond.text sch)) ++ ")"   -- a text clause is grouped by `__init__`

def Term.text (sch : Schema) : Term → String
  | .field c => sch.qual c
  | .const s => nameStr s

def AggFn.text : AggFn → String
  | .SUM => "SUM" | .MIN => "MIN" | .MAX => "MAX" | .AVG => "AVG" | .COUNT => "COUNT"

def Items.text (sch : Schema) : Items → String
  | .columns => "*"
  | .count .star => "COUNT(*)"
  | .count .distinctId => "COUNT(DISTINCT " ++ sch.qual .id ++ ")"
  | .agg f d t => f.text ++ "(" ++ (if d then "DISTINCT " else "") ++ t.text sch ++ ")"

def SqlKey.text (sch : Schema) (k : SqlKey) : String :=
  k.term.text sch ++ String.join (List.replicate k.suffixes Extracted.descSuffix)

def Plan.text (sch : Schema) (p : Plan) : String :=
  let tables :=
    if p.where_.usesOth then
      (if nameStr sch.othTable < nameStr sch.table then nameStr sch.othTable ++ ", " ++ nameStr sch.table
       else nameStr sch.table ++ ", " ++ nameStr sch.othTable)
    else nameStr sch.table
  "SELECT " ++ (if p.distinct then "DISTINCT " else "") ++ p.items.text sch ++ " FROM " ++ tables
    ++ " WHERE " ++ p.where_.text sch
    ++ (match p.order with
        | none => ""
        | some ks => " ORDER BY " ++ ", ".intercalate (ks.map (SqlKey.text sch)))

end SqlObjVerif.Query
