import SqlObjVerif.Model.Events
import SqlObjVerif.Model.PyVersion
import SqlObjVerif.Extracted.PyEvents
/-!
# C19 — the delivery path of the row signals as TRANSLATED from the source

`listenX` / `sendX` RUN the PyVersion programs `vlib/extractors/pyevents.py` translated from /repo's
`sqlobject/events.py:listen` and `sqlobject/main.py:sqlmeta.send` on this very run; the extractor also checks that
`events.send` IS `dispatcher.send`.

## The assumed interface (pydispatch is a PARAMETER)
* `dispatcher.connect(receiver, signal=s, sender=c, weak=b)` appends the connection `(receiver, s, c, b)` to the
  dispatcher's table (`LW.conns`, connection order); `ref(receiver)` is a weak reference value;
  `subclassClones.setdefault(c, [])` is the list registered for `c` (created empty when missing) and `.append` adds to it;
* `dispatcher.send(signal, sender, *args)` calls every receiver connected for `(sender, signal)` exactly once, in
  connection order, with `args` — with the listeners read as data (`Model/Events.lean`: `Listener`, `actKw`, `actPost`)
  that is `deliver signal id 0 listeners kwargs post_funcs`: the world `SW` holds the class's listeners, the mutable
  `kwargs` dict and `post_funcs` list the arguments refer to, and the log of calls.  `sqlmeta.soClass` is the class.
-/
namespace SqlObjVerif.Events
open SqlObjVerif.PyVer (Iface CallRes ProcRes R Args)

abbrev PVal := PyVer.Val
open SqlObjVerif.PyVer.ExtractedEvents

def gl (n : String) : PVal := .obj "global" (.str n) .none
def weakOf (r : PVal) : PVal := .obj "weakref" r .none

/-- the world of `events.listen` -/
structure LW where
  /-- pydispatch's connections `(receiver, signal, sender, weak)`, in connection order -/
  conns : List (PVal × PVal × PVal × PVal)
  /-- `subclassClones`: class ↦ the `(weak receiver, signal)` pairs, in insertion order -/
  clones : List (PVal × List PVal)

def hasClones (cl : List (PVal × List PVal)) (c : PVal) : Bool := cl.any fun p => decide (p.1 = c)

def addClone (c x : PVal) : List (PVal × List PVal) → List (PVal × List PVal)
  | [] => []
  | p :: ps => if p.1 = c then (p.1, p.2 ++ [x]) :: ps else p :: addClone c x ps

def lCall (w : LW) (recv : PVal) (m : String) (a : Args) : CallRes LW :=
  match recv with
  | .obj t c _ =>
    if t = "global" ∧ c = .str "dispatcher" ∧ m = "connect" ∧ a.star = .none then
      (match a.pos, a.kw with
       | [r], [("signal", s), ("sender", c), ("weak", b)] => .ret { w with conns := w.conns ++ [(r, s, c, b)] } .none
       | _, _ => .stuck)
    else if t = "global" ∧ c = .str "subclassClones" ∧ m = "setdefault" ∧ a.kw = [] ∧ a.star = .none then
      (match a.pos with
       | [c, .nil] => .ret (if hasClones w.clones c then w else { w with clones := w.clones ++ [(c, [])] }) (.obj "clonelist" c .none)
       | _ => .stuck)
    else if t = "clonelist" ∧ m = "append" ∧ a.kw = [] ∧ a.star = .none then
      (match a.pos with
       | [x] => .ret { w with clones := addClone c x w.clones } .none
       | _ => .stuck)
    else .stuck
  | _ => .stuck

def lCallFn (w : LW) (f : PVal) (a : Args) : CallRes LW :=
  match f, a.pos, a.kw, a.star with
  | .obj "global" (.str "ref") _, [r], [], .none => .ret w (weakOf r)
  | _, _, _, _ => .stuck

def lIface : Iface LW where
  self := .none
  attr := fun _ _ _ => .stuck
  setAttr := fun _ _ _ _ => none
  global := fun n => if n = "dispatcher" ∨ n = "ref" ∨ n = "subclassClones" then some (gl n) else none
  isinstance := fun _ _ _ => none
  contains := fun _ _ _ => none
  getItem := fun _ _ _ => .stuck
  setItem := fun _ _ _ _ => none
  delItem := fun _ _ _ => .stuck
  iter := fun _ _ => none
  items := fun _ _ => none
  dictOf := fun _ _ => none
  call := lCall
  callFn := lCallFn
  super := fun _ _ _ _ => .stuck
  proc := fun _ _ _ => .stuck

/-- `events.listen(receiver, soClass, signal, alsoSubclasses, weak)`, the translated program -/
def listenX (w : LW) (recv cls sig also weak : PVal) : ProcRes LW :=
  PyVer.run lIface listenProg [recv, cls, sig, also, weak] listen_nlocals w

/-- what `listen` leaves: one more connection, one more clone entry -/
def listened (w : LW) (recv cls sig weak : PVal) : LW :=
  { conns := w.conns ++ [(recv, sig, cls, weak)],
    clones := addClone cls (.pair (weakOf recv) sig) (if hasClones w.clones cls then w.clones else w.clones ++ [(cls, [])]) }

/-! ### `sqlmeta.send` -/

def sigCode : Sig → Nat
  | .create => 0 | .created => 1 | .update => 2 | .updated => 3 | .destroy => 4 | .destroyed => 5

def sigVal (s : Sig) : PVal := .obj "signal" (.nat (sigCode s)) .none

def sigOf : PVal → Option Sig
  | .obj "signal" (.nat 0) _ => some .create
  | .obj "signal" (.nat 1) _ => some .created
  | .obj "signal" (.nat 2) _ => some .update
  | .obj "signal" (.nat 3) _ => some .updated
  | .obj "signal" (.nat 4) _ => some .destroy
  | .obj "signal" (.nat 5) _ => some .destroyed
  | _ => none

/-- the world of one `send`: the class's listeners (data), the mutable `kwargs` / `post_funcs` the arguments refer to, the log -/
structure SW where
  L : List Listener
  kw : Kw
  pf : List Nat
  log : List Entry

/-- the row id the first argument carries (`RowCreateSignal` sends the class) -/
def idOfArgs : List PVal → Option Nat
  | .inst _ _ i :: _ => some i
  | _ => none

/-- `dispatcher.send(signal, sender, *args)` with the listeners read as data -/
def dispSend (w : SW) (sig : Sig) (id : Option Nat) : SW :=
  let r := deliver sig id 0 w.L w.kw w.pf
  { w with kw := r.1, pf := r.2.1, log := w.log ++ r.2.2 }

def sCall (w : SW) (recv : PVal) (m : String) (a : Args) : CallRes SW :=
  match recv with
  | .obj t (.str g) _ =>
    if t = "global" ∧ g = "events" ∧ m = "send" ∧ a.kw = [] ∧ (a.star = .none ∨ a.star = .dictv .nil) then
      (match a.pos with
       | s :: .cls 0 :: args => (match sigOf s with
         | some sig => .ret (dispSend w sig (idOfArgs args)) .none
         | none => .stuck)
       | _ => .stuck)
    else .stuck
  | _ => .stuck

def sIface : Iface SW where
  self := .obj "sqlmeta" (.cls 0) .none
  attr := fun _ v n => match v with
    | .obj t c _ => if t = "sqlmeta" ∧ n = "soClass" then .ok c else .stuck
    | _ => .stuck
  setAttr := fun _ _ _ _ => none
  global := fun n => if n = "events" then some (gl n) else none
  isinstance := fun _ _ _ => none
  contains := fun _ _ _ => none
  getItem := fun _ _ _ => .stuck
  setItem := fun _ _ _ _ => none
  delItem := fun _ _ _ => .stuck
  iter := fun _ _ => none
  items := fun _ _ => none
  dictOf := fun _ _ => none
  call := sCall
  callFn := fun _ _ _ => .stuck
  super := fun _ _ _ _ => .stuck
  proc := fun _ _ _ => .stuck

/-- `cls.sqlmeta.send(signal, *args, **kw)`, the translated program (`args` a list value, `kw` a dict value) -/
def sendX (w : SW) (sig args kw : PVal) : ProcRes SW :=
  PyVer.run sIface sendProg [sig, args, kw] send_nlocals w

end SqlObjVerif.Events
