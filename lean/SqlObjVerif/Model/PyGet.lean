/-!
# PyGet — a deep embedding of the Python fragment the CALLERS of the identity map are written in

`vlib/extractors/pyget.py` TRANSLATES, from /repo's AST on every run (`Extracted/PyGet.lean`):
* `sqlobject/main.py:SQLObject` — `get`, `_init`, `_SO_finishCreate`, the tail of `destroySelf` (from
  `self._connection._SO_delete(self)` on), `expire`, `__getstate__`, `__setstate__`, `_SO_fetchAlternateID`,
  `_SO_foreignKey`, `delete`; `sqlmeta.expireAll`;
* `sqlobject/dbconnection.py:Iteration.next`, `DBConnection.expireAll`;
* `sqlobject/cache.py:CacheSet` — `get`, `put`, `finishPut`, `created`, `expire`, `clear`, `tryGet`,
  `tryGetByName`, `allIDs`, `allSubCaches`, `allSubCachesByClassNames`, `weakrefAll`, `getAll`.
This file is the fixed vocabulary and its reference semantics (same design as `Model/PyTx.lean` /
`Model/PyInherit.lean`): the interpreter is generic in the type `W` of worlds, and everything the translated code
does to objects other than its own locals goes through an `Iface W` — the PARAMETERS of the interpreter:
* `self`                  : the value of `self` (instance methods) / `cls` (class methods);
* `attrOf / setAttrOf`    : `v.a.b` read / `v.a.b = x`;  `getattrD`: `getattr(v, 'name', default)`;
* `global`                : module-level names (`sqlbuilder.SQLObjectState`, `threading.Lock`, `CacheFactory`);
* `subscript / contains / values` : `d[k]`, `k in d`, `d.values()` for a dict OBJECT reached through an attribute
                            (`self.caches`);
* `truthy`                : `bool(v)` of an object;
* `call`                  : a method call `recv.m(args, k=v)`;
* `callFn`                : a call `f(args, k=v, *star, **dstar)` of a value (a class: its constructor);
  both may change the world, return a value or raise;
* `opaqS` / `opaqE`      : a statement / an expression that mentions none of the identity-relevant names (the
                            translator's CRIT list: cache, get, put, finishPut, created, expire, tryGet, _init, id
                            (as a target), _obsolete, expired, …), kept as its source text with the locals
                            normalised to their slot numbers; what a given text does is up to the instantiation
                            (an unknown text is `stuck`, so an edit of such a statement breaks the proofs as well).
`Model/GetX.lean` instantiates the interface: the database is the hand model's table, and a call of a
`CacheFactory` method RUNS the PyCache program translated from cache.py (`Model/CacheX.lean`).

Python features covered: locals (numbered in order of first binding, parameters first; temporaries of hoisted
calls last), constants, `e[0]` / `e[1:]` of a tuple value (cons cells), `a, b = CALL`, `if` / `elif`, `for x in e`
(the iterated list is computed when the loop is entered), `try/except KeyError`, `try/finally`, `assert`,
`raise C(…)` / `raise C` (the class only; the message must be pure), `return`, `a or b` as a value,
`x.extend(e)` on a list local bound only by `x = []`.
-/
namespace SqlObjVerif.PyGet

inductive Val where
  | none
  | bool (b : Bool)
  | int (n : Nat)
  | str (s : String)
  /-- a row id -/
  | key (k : Nat)
  /-- a class object -/
  | cls (c : Nat)
  /-- `cls.__name__` -/
  | name (c : Nat)
  /-- (a reference to) the instance with handle `h` -/
  | obj (h : Nat)
  /-- any other object: `kind` says what it is (the instantiation decides), `i` which one -/
  | ref (kind : String) (i : Nat)
  /-- a value the fragment only passes around -/
  | opq
  | pair (a b : Val)
  | nil
  | cons (h t : Val)
deriving Repr, DecidableEq

def Val.ofList : List Val → Val
  | [] => .nil
  | v :: l => .cons v (Val.ofList l)

def Val.toList : Val → Option (List Val)
  | .nil => some []
  | .cons h t => match Val.toList t with
    | some l => some (h :: l)
    | Option.none => Option.none
  | _ => Option.none

def Val.isNone : Val → Bool
  | .none => true
  | _ => false

/-- exception classes, as far as the fragment (and the hand model's outcomes) distinguish them -/
inductive Exc where
  | assertionError | keyError | valueError | runtimeError
  /-- `SQLObjectNotFound` -/
  | notFound
  | stopIteration
  /-- `pickle.PicklingError` -/
  | picklingError
  /-- `sqlite3.IntegrityError` & co: the INSERT hit an existing id -/
  | duplicate
  | other
deriving Repr, DecidableEq

inductive R (α : Type) where
  | ok (a : α)
  | exc (e : Exc)
  /-- outside the fragment / outside the interface -/
  | stuck

/-- how a call into another object ends -/
inductive CallRes (W : Type) where
  | ret (w : W) (v : Val)
  | exc (w : W) (e : Exc)
  | stuck

structure Iface (W : Type) where
  self : Val
  attrOf : W → Val → List String → R Val
  getattrD : W → Val → String → Val → R Val
  setAttrOf : W → Val → List String → Val → Option W
  global : String → Option Val
  subscript : W → Val → Val → R Val
  contains : W → Val → Val → Option Bool
  values : W → Val → Option (List Val)
  truthy : W → Val → Option Bool
  opaqS : String → W → Option W
  opaqE : String → Option Val
  call : W → Val → String → List Val → List (String × Val) → CallRes W
  callFn : W → Val → List Val → List (String × Val) → Val → Val → CallRes W

inductive Expr where
  | var (x : Nat)
  | const (v : Val)
  /-- `self` / `cls` -/
  | self
  | attrOf (e : Expr) (path : List String)              -- `e.a.b`
  | getattrD (e : Expr) (name : String) (d : Expr)      -- `getattr(e, 'name', d)`
  | global (name : String)
  | subscript (d k : Expr)                              -- `d[k]` of a dict object (KeyError)
  | idx0 (e : Expr)                                     -- `e[0]`
  | tail (e : Expr)                                     -- `e[1:]`
  | valuesOf (e : Expr)                                 -- `e.values()`
  | opaq (src : String)
  | orElse (a b : Expr)                                 -- `a or b` as a value
  | emptyDict
  | emptyList
deriving Repr

inductive Cond where
  | truthy (e : Expr)
  | isNone (e : Expr)
  | isNotNone (e : Expr)
  | is (a b : Expr)
  | inE (k d : Expr)                                    -- `k in d` for a dict object
  | not (c : Cond)
  | and (c d : Cond)
  | or (c d : Cond)
deriving Repr

inductive ExcPat where
  | keyError
deriving Repr, DecidableEq

def ExcPat.catches : ExcPat → Exc → Bool
  | .keyError, e => e == .keyError

mutual
inductive Stmt where
  | assign (x : Nat) (e : Expr)
  | unpack2 (x y : Nat) (e : Expr)                             -- `x, y = e`
  | setAttr (obj : Expr) (path : List String) (e : Expr)       -- `obj.a.b = e`
  | call (x : Option Nat) (recv : Expr) (m : String) (args : List Expr) (kwn : List String) (kwv : List Expr)
  | callFn (x : Option Nat) (f : Expr) (args : List Expr) (kwn : List String) (kwv : List Expr)
      (star dstar : Option Expr)
  | opaq (binds : List Nat) (src : String)
  | extend (x : Nat) (e : Expr)                                -- `x.extend(e)` for a list local nothing else aliases
  | ite (c : Cond) (t e : Block)
  | for1 (x : Nat) (it : Expr) (body : Block)
  | tryExcept (body : Block) (pat : ExcPat) (handler : Block)
  | tryFinally (body fin : Block)
  | assert (c : Cond)
  | raise (e : Exc)
  | ret (e : Expr)
  | retNone
  | pass
inductive Block where
  | nil
  | cons (s : Stmt) (rest : Block)
end

abbrev Env := List (Option Val)

def Env.get (env : Env) (x : Nat) : Option Val :=
  match env[x]? with
  | some (some v) => some v
  | _ => Option.none

/-- `bool(v)`: values by Python's rules, objects through the interface -/
def pyBool {W : Type} (I : Iface W) (w : W) : Val → Option Bool
  | .none => some false
  | .bool b => some b
  | .int n => some (n != 0)
  | .str s => some (s != "")
  | .nil => some false
  | .cons _ _ => some true
  | .pair _ _ => some true
  | v => I.truthy w v

def Expr.eval {W : Type} (I : Iface W) (w : W) (env : Env) : Expr → R Val
  | .var x => match env.get x with
    | some v => .ok v
    | Option.none => .stuck
  | .const v => .ok v
  | .self => .ok I.self
  | .attrOf e path => match e.eval I w env with
    | .ok v => I.attrOf w v path
    | r => r
  | .getattrD e name d => match e.eval I w env with
    | .ok v => (match d.eval I w env with
      | .ok dv => I.getattrD w v name dv
      | r => r)
    | r => r
  | .global name => match I.global name with
    | some v => .ok v
    | Option.none => .stuck
  | .subscript d k => match d.eval I w env with
    | .ok dv => (match k.eval I w env with
      | .ok kv => I.subscript w dv kv
      | r => r)
    | r => r
  | .idx0 e => match e.eval I w env with
    | .ok (.cons h _) => .ok h
    | .ok _ => .stuck
    | r => r
  | .tail e => match e.eval I w env with
    | .ok (.cons _ t) => .ok t
    | .ok _ => .stuck
    | r => r
  | .valuesOf e => match e.eval I w env with
    | .ok v => (match I.values w v with
      | some l => .ok (Val.ofList l)
      | Option.none => .stuck)
    | r => r
  | .opaq src => match I.opaqE src with
    | some v => .ok v
    | Option.none => .stuck
  | .orElse a b => match a.eval I w env with
    | .ok v => (match pyBool I w v with
      | some true => .ok v
      | some false => b.eval I w env
      | Option.none => .stuck)
    | r => r
  | .emptyDict => .ok .nil
  | .emptyList => .ok .nil

def evalList {W : Type} (I : Iface W) (w : W) (env : Env) : List Expr → R (List Val)
  | [] => .ok []
  | e :: rest => match e.eval I w env with
    | .ok v => (match evalList I w env rest with
      | .ok vs => .ok (v :: vs)
      | r => r)
    | .exc e => .exc e
    | .stuck => .stuck

def evalOpt {W : Type} (I : Iface W) (w : W) (env : Env) : Option Expr → R Val
  | Option.none => .ok .none
  | some e => e.eval I w env

def eval2 {W : Type} (I : Iface W) (w : W) (env : Env) (a b : Expr) : R (Val × Val) :=
  match a.eval I w env with
  | .ok x => (match b.eval I w env with
    | .ok y => .ok (x, y)
    | .exc e => .exc e
    | .stuck => .stuck)
  | .exc e => .exc e
  | .stuck => .stuck

def Cond.eval {W : Type} (I : Iface W) (w : W) (env : Env) : Cond → R Bool
  | .truthy e => match e.eval I w env with
    | .ok v => (match pyBool I w v with
      | some b => .ok b
      | Option.none => .stuck)
    | .exc e => .exc e
    | .stuck => .stuck
  | .isNone e => match e.eval I w env with
    | .ok v => .ok v.isNone
    | .exc e => .exc e
    | .stuck => .stuck
  | .isNotNone e => match e.eval I w env with
    | .ok v => .ok (!v.isNone)
    | .exc e => .exc e
    | .stuck => .stuck
  | .is a b => match eval2 I w env a b with
    | .ok p => .ok (decide (p.1 = p.2))
    | .exc e => .exc e
    | .stuck => .stuck
  | .inE k d => match eval2 I w env k d with
    | .ok p => (match I.contains w p.2 p.1 with
      | some b => .ok b
      | Option.none => .stuck)
    | .exc e => .exc e
    | .stuck => .stuck
  | .not c => match c.eval I w env with
    | .ok b => .ok (!b)
    | r => r
  | .and c d => match c.eval I w env with
    | .ok true => d.eval I w env
    | r => r
  | .or c d => match c.eval I w env with
    | .ok false => d.eval I w env
    | r => r

structure St (W : Type) where
  w : W
  vars : Env

def St.setVar {W : Type} (st : St W) (x : Nat) (v : Val) : St W := { st with vars := st.vars.set x (some v) }

def St.setOpt {W : Type} (st : St W) (x : Option Nat) (v : Val) : St W :=
  match x with
  | some x => st.setVar x v
  | Option.none => st

def St.setAll {W : Type} (st : St W) (xs : List Nat) (v : Val) : St W :=
  xs.foldl (fun st x => st.setVar x v) st

/-- how a statement ends -/
inductive Res (W : Type) where
  | norm (st : St W)
  | ret (st : St W) (v : Val)
  | exc (st : St W) (e : Exc)
  | stuck

def forLoop {W α : Type} (f : St W → α → Res W) : List α → St W → Res W
  | [], st => .norm st
  | v :: vs, st => match f st v with
    | .norm st' => forLoop f vs st'
    | r => r

/-- the caller's view of a finished call -/
def afterCall {W : Type} (r : CallRes W) (st : St W) (x : Option Nat) : Res W :=
  match r with
  | .ret w v => .norm ({ st with w := w }.setOpt x v)
  | .exc w e => .exc { st with w := w } e
  | .stuck => .stuck

def zipKw : List String → List Val → List (String × Val)
  | n :: ns, v :: vs => (n, v) :: zipKw ns vs
  | _, _ => []

mutual
def Stmt.exec {W : Type} (I : Iface W) (st : St W) : Stmt → Res W
  | .assign x e => match e.eval I st.w st.vars with
    | .ok v => .norm (st.setVar x v)
    | .exc e => .exc st e
    | .stuck => .stuck
  | .unpack2 x y e => match e.eval I st.w st.vars with
    | .ok (.pair a b) => .norm ((st.setVar x a).setVar y b)
    | .exc e => .exc st e
    | _ => .stuck
  | .setAttr obj path e => match eval2 I st.w st.vars obj e with
    | .ok p => (match I.setAttrOf st.w p.1 path p.2 with
      | some w' => .norm { st with w := w' }
      | Option.none => .stuck)
    | .exc e => .exc st e
    | .stuck => .stuck
  | .call x recv m args kwn kwv =>
    match recv.eval I st.w st.vars with
    | .ok r => (match evalList I st.w st.vars args with
      | .ok as => (match evalList I st.w st.vars kwv with
        | .ok ks => afterCall (I.call st.w r m as (zipKw kwn ks)) st x
        | .exc e => .exc st e
        | .stuck => .stuck)
      | .exc e => .exc st e
      | .stuck => .stuck)
    | .exc e => .exc st e
    | .stuck => .stuck
  | .callFn x f args kwn kwv star dstar =>
    match f.eval I st.w st.vars with
    | .ok fv => (match evalList I st.w st.vars args with
      | .ok as => (match evalList I st.w st.vars kwv with
        | .ok ks => (match evalOpt I st.w st.vars star, evalOpt I st.w st.vars dstar with
          | .ok sv, .ok dv => afterCall (I.callFn st.w fv as (zipKw kwn ks) sv dv) st x
          | .exc e, _ => .exc st e
          | .ok _, .exc e => .exc st e
          | _, _ => .stuck)
        | .exc e => .exc st e
        | .stuck => .stuck)
      | .exc e => .exc st e
      | .stuck => .stuck)
    | .exc e => .exc st e
    | .stuck => .stuck
  | .opaq binds src => match I.opaqS src st.w with
    | some w' => .norm ({ st with w := w' }.setAll binds .opq)
    | Option.none => .stuck
  | .extend x e => match st.vars.get x, e.eval I st.w st.vars with
    | some l, .ok v => (match l.toList, v.toList with
      | some a, some b => .norm (st.setVar x (Val.ofList (a ++ b)))
      | _, _ => .stuck)
    | some _, .exc e => .exc st e
    | _, _ => .stuck
  | .ite c t e => match c.eval I st.w st.vars with
    | .ok true => t.exec I st
    | .ok false => e.exec I st
    | .exc e => .exc st e
    | .stuck => .stuck
  | .for1 x it body => match it.eval I st.w st.vars with
    | .ok v => (match v.toList with
      | some vs => forLoop (fun st v => body.exec I (st.setVar x v)) vs st
      | Option.none => .stuck)
    | .exc e => .exc st e
    | .stuck => .stuck
  | .tryExcept body pat handler => match body.exec I st with
    | .exc st' e => if pat.catches e then handler.exec I st' else .exc st' e
    | r => r
  | .tryFinally body fin => match body.exec I st with
    | .norm st' => fin.exec I st'
    | .ret st' v => (match fin.exec I st' with
      | .norm st'' => .ret st'' v
      | r => r)
    | .exc st' e => (match fin.exec I st' with
      | .norm st'' => .exc st'' e
      | r => r)
    | .stuck => .stuck
  | .assert c => match c.eval I st.w st.vars with
    | .ok true => .norm st
    | .ok false => .exc st .assertionError
    | .exc e => .exc st e
    | .stuck => .stuck
  | .raise e => .exc st e
  | .ret e => match e.eval I st.w st.vars with
    | .ok v => .ret st v
    | .exc e => .exc st e
    | .stuck => .stuck
  | .retNone => .ret st .none
  | .pass => .norm st
def Block.exec {W : Type} (I : Iface W) (st : St W) : Block → Res W
  | .nil => .norm st
  | .cons s rest => match s.exec I st with
    | .norm st' => rest.exec I st'
    | r => r
end

def Res.toCall {W : Type} : Res W → CallRes W
  | .norm st => .ret st.w .none          -- falling off the end returns None
  | .ret st v => .ret st.w v
  | .exc st e => .exc st.w e
  | .stuck => .stuck

/-- call a function: `args` are the parameters after `self` / `cls` (already bound: positional, keyword, defaults),
    `nlocals` the unbound locals -/
def run {W : Type} (I : Iface W) (prog : Block) (args : List Val) (nlocals : Nat) (w : W) : CallRes W :=
  (prog.exec I { w := w, vars := args.map some ++ List.replicate nlocals Option.none }).toCall

/-! ### binding the arguments of a call to the parameters of a translated function -/

def kwGet (n : String) : List (String × Val) → Option Val
  | [] => Option.none
  | (m, v) :: l => if m = n then some v else kwGet n l

/-- parameters `i, i+1, …` (names `ps`) of a function whose last `ds.length` parameters have defaults `ds`:
    positional first, then keyword, then default; `none` = TypeError (missing argument) -/
def bindFrom (pos : List Val) (kw : List (String × Val)) (ndef : Nat) (ds : List Val) : Nat → List String → Option (List Val)
  | _, [] => some []
  | i, p :: ps =>
    let v : Option Val :=
      match pos[i]? with
      | some v => some v
      | Option.none => match kwGet p kw with
        | some v => some v
        | Option.none => if i < ndef then Option.none else ds[i - ndef]?
    match v, bindFrom pos kw ndef ds (i + 1) ps with
    | some v, some vs => some (v :: vs)
    | _, _ => Option.none

/-- `f(*pos, **kw)` for a function with parameters `params` (after `self` / `cls`) and defaults `ds` -/
def bindArgs (params : List String) (ds : List Val) (pos : List Val) (kw : List (String × Val)) : Option (List Val) :=
  if pos.length > params.length then Option.none
  else if kw.any (fun e => !params.contains e.1) then Option.none
  else bindFrom pos kw (params.length - ds.length) ds 0 params

end SqlObjVerif.PyGet
