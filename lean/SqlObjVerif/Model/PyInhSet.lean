/-!
# PyInhSet — the small Python fragment `InheritableSQLObject.set` and the generated setter `setfunc` of an inherited
column are written in (property C06)

`vlib/extractors/pyinhset.py` TRANSLATES, on every run, from /repo's `sqlobject/inheritance/__init__.py`
* `InheritableSQLObject.set(self, **kw)` and
* the body of `setfunc(self, val)` — the function nested in `make_setfunc(cname)` nested in
  `InheritableSQLMeta.addColumn`; `cname` is a free variable of the closure (the attribute name)
statement by statement into `Block`s of this syntax (`Extracted/PyInhSet.lean`).  This file is the vocabulary only;
the semantics over the worlds of `Model/PyFail.lean` is `Model/FailInhSetX.lean`.

Conventions of the translator: `self` is `.self`; the other parameters (a `**kw` parameter counts as one) and the
locals are numbered in order of first binding, parameters first, so renaming a local gives the same term; a name that
is neither is a free variable of the closure (`.free i`, only `cname` = 0) or a module global (`.glob`: `SQLObject`, `events`).
-/
namespace SqlObjVerif.PyInhSet

inductive Expr where
  | self
  | var (x : Nat)
  /-- a free variable of the nested function (a closure cell), the i-th parameter of the enclosing function:
      `cname` = 0 -/
  | free (i : Nat)
  /-- a module global: `events`, `SQLObject` -/
  | glob (name : String)
  | none
  | true
  | false
  | str (s : String)
  /-- `e.a` -/
  | attr (e : Expr) (a : String)
  /-- `getattr(e, "name", dflt)` -/
  | getattr3 (e : Expr) (name : String) (dflt : Expr)
  /-- `{k: v}` -/
  | dict1 (k v : Expr)
deriving Repr, DecidableEq

inductive Cond where
  | truthy (e : Expr)
  | not (c : Cond)
  | and (c d : Cond)
  | or (c d : Cond)
deriving Repr, DecidableEq

mutual
inductive Stmt where
  | assign (x : Nat) (e : Expr)
  | ite (c : Cond) (t e : Block)
  /-- `self.sqlmeta.send(args…)` -/
  | send (args : List Expr)
  /-- the explicit class call `Cls.m(args…, k=v…, **star)`: `SQLObject.set(self, _suppress_set_sig=True, **kw)` -/
  | classCall (cls m : String) (args : List Expr) (kwn : List String) (kwv : List Expr) (star : Option Expr)
  /-- `setattr(obj, name, v)` -/
  | setattr (obj name v : Expr)
  | pass
inductive Block where
  | nil
  | cons (s : Stmt) (rest : Block)
end

end SqlObjVerif.PyInhSet
