import SqlObjVerif.Model.Lex
/-!
# PyLex — a deep embedding of the Python fragment the literal pipeline of sqlobject is written in

`vlib/extractors/pylex.py` TRANSLATES `converters.StringLikeConverter / quote_str / unquote_str / IntConverter /
BoolConverter / NoneConverter / FloatConverter / DecimalConverter / SequenceConverter / DateTimeConverterMS /
DateConverter / TimeConverterMS / sqlrepr`, `sqlbuilder._quote_like_special / _LikeQuoted.__init__ / __add__ / __radd__ /
__sqlrepr__ / LIKE.__init__ / __sqlrepr__ / STARTSWITH / ENDSWITH / CONTAINSSTRING`, `SQLObject.__sqlrepr__` and
`DBConnection.sqlrepr / DBAPI._insertSQL / _SO_update` from /repo's AST into `Block`s of this language on every run
(`Extracted/PyLex.lean`).  This file is the fixed vocabulary and its reference semantics (total functions, no fuel:
loops and comprehensions iterate over a list value; the design of `Model/PyUri.lean`).

Values: `None`, `bool`, `int`, `str` (list of code points, any `Nat`), tuples, lists, objects (a class tag and the
stored attributes), module-level functions as values (`.fn`) and bound methods (`.bound`).  Values are immutable; the
mutating statements of the fragment (`x.a = v` on an object held by a local, `x.append(v)` on a list local bound to a
fresh `[]`) rebind the local — the translator checks that no alias of the mutated value exists (for `self.a = v` the
method must `return self` or be `__init__`, whose caller takes the final `self`).

## What is built in (Python itself, CPython 3.12 semantics; each cross-checked by the text-equality streams of
   harness/c02.py / c17.py, which compare the real functions with the hand model the translation is proved equal to)

* truthiness; `and` / `or` / `not`; `is None`; `==` / `!=` on `None` / `bool` / `int` / `str`;
  `x in (a, b, …)` on tuples / lists (by `==`); `t in s` on `str` (substring);
* `+` on `str` and on `int`; `str + obj` = `obj.__radd__(str)` and `obj + x` = `obj.__add__(x)` (method calls);
* `s.replace(old, new)` (`pyReplace`: leftmost non-overlapping occurrences, left to right; empty `old`: `new` before
  every character and at the end), `s.startswith(p)` (`List.isPrefixOf`), `s.endswith(p)` (`List.isSuffixOf`),
  `s.upper()` (`flatMap` of the per-character full upper-case mapping — the PARAMETER `Iface.upper`, see below),
  `sep.join(l)` for a list / tuple of `str` (`pyJoin`), slicing `s[a:b]` with negative bounds (`clampIdx`);
* `fmt % args` (`pyFormat`): `%s` (of `str`, `int`, `bool`, `None`), `%d` / `%i` with optional `0` flag and width
  (`%04d`; sign first, then zero padding; without the flag: spaces) and `%%`; a tuple gives several arguments, any
  other value one; too few / too many arguments or another conversion: `stuck`;
* `repr(i)` / `'%d' % i` / `'%s' % i` of an `int`: `Lex.renderInt` (optional `-`, decimal digits without leading zeros);
  `int(i)` of an `int`, `int(b)` of a `bool`; `len`;
* `isinstance(v, C)`: the class name of the value (`str`, `int`, `bool`, `NoneType`, `tuple`, `list`, an object's tag)
  tested against the name `C` as written in the source through the PARAMETER `Iface.isSub`;
* list displays, list comprehensions `[e for t in it]` (no condition), tuple unpacking, `for`, `assert`, `return`,
  `raise E(..)`, `try: … except E: … else: …` (one handler, matching the exception class exactly);
* calling a value: `.fn name` = the module-level function `name` (`Iface.fn`), `.bound recv m` = the method call.

`assert c, msg` is executed as `assert c` and `raise E(msg)` as `raise E`: the message expression is not evaluated (it
has no effect on the outcome class unless building the message itself raises).

## PARAMETERS of the interpreter (`Iface`) — everything that is not Python itself
* `glob name`            : module-level constants (`sqlStringReplace`);
* `fn name args kw`      : a call of a module-level function or class by name (`sqlrepr`, `quote_str`, `LIKE`, …);
* `getAttr v a`          : an attribute that is not a stored field (class attributes such as `LIKE.op`, bound methods
                           such as `obj.__sqlrepr__`, `AttributeError` for a value without the attribute);
* `callMethod v m args`  : a method call on an object (`self.query(text)`, `value.to_eng_string()`, `s.__sqlrepr__(db)`);
* `isSub c C`            : is the class named `c` a subclass of (or equal to) what the source calls `C`;
* `upper c`              : the full upper-case mapping of one character (`str.upper` is per character in CPython);
* `reprOf v`             : `repr(v)` of a value that is not an `int` (a `float`);
* `strOfObj v`           : `str(v)` of a value that is neither `str` nor `int` (a `memoryview`).
`stuck` = outside the fragment (a `TypeError` / `NameError` of the real interpreter, or a construct the semantics does
not cover): a theorem `translated = model` shows in particular that this never happens.
Locals are numbered in order of first binding, parameters first: renaming a local does not change the translation.
-/
namespace SqlObjVerif.PyLex
open SqlObjVerif.Lex (Str)

inductive Val where
  | none
  | bool (b : Bool)
  | int (i : Int)
  | str (s : Str)
  | tuple (vs : List Val)
  | list (vs : List Val)
  | obj (cls : String) (fields : List (String × Val))
  | fn (name : String)
  | bound (recv : Val) (m : String)

inductive Exc where
  | valueError | assertionError | attributeError | typeError
  /-- raised by an interface function the model has no answer for -/
  | unmodelled
deriving Repr, DecidableEq

inductive R (α : Type) where
  | ok (a : α)
  | exc (e : Exc)
  | stuck

def R.bind {α β : Type} : R α → (α → R β) → R β
  | .ok a, f => f a
  | .exc e, _ => .exc e
  | .stuck, _ => .stuck

@[simp] theorem R.bind_ok {α β : Type} (a : α) (f : α → R β) : (R.ok a).bind f = f a := by rw [R.bind]
@[simp] theorem R.bind_exc {α β : Type} (e : Exc) (f : α → R β) : (R.exc e : R α).bind f = .exc e := by rw [R.bind]
@[simp] theorem R.bind_stuck {α β : Type} (f : α → R β) : (R.stuck : R α).bind f = .stuck := by rw [R.bind]

def ofOpt {α : Type} : Option α → R α
  | some a => .ok a
  | Option.none => .stuck

@[simp] theorem ofOpt_some {α : Type} (a : α) : ofOpt (some a) = .ok a := rfl
@[simp] theorem ofOpt_none {α : Type} : ofOpt (Option.none : Option α) = .stuck := rfl

structure Iface where
  glob : String → Option Val
  fn : String → List Val → List (String × Val) → R Val
  getAttr : Val → String → R Val
  callMethod : Val → String → List Val → R Val
  isSub : String → String → Bool
  upper : Nat → Str
  reprOf : Val → R Str
  strOfObj : Val → R Str

def aget {κ α : Type} [BEq κ] (k : κ) : List (κ × α) → Option α
  | [] => Option.none
  | e :: l => if e.1 == k then some e.2 else aget k l

/-- `x.a = v`: replace a stored attribute, or add it at the end -/
def fset (fs : List (String × Val)) (a : String) (v : Val) : List (String × Val) :=
  if fs.any (fun e => e.1 == a) then fs.map (fun e => if e.1 == a then (e.1, v) else e) else fs ++ [(a, v)]

/-! ### Python's own operations -/

def truthy : Val → Bool
  | .none => false
  | .bool b => b
  | .int i => i != 0
  | .str [] => false
  | .str (_ :: _) => true
  | .tuple [] => false
  | .tuple (_ :: _) => true
  | .list [] => false
  | .list (_ :: _) => true
  | .obj _ _ => true
  | .fn _ => true
  | .bound _ _ => true

@[simp] theorem truthy_none : truthy .none = false := rfl
@[simp] theorem truthy_bool (b : Bool) : truthy (.bool b) = b := rfl
@[simp] theorem truthy_int (i : Int) : truthy (.int i) = (i != 0) := rfl
@[simp] theorem truthy_str_nil : truthy (.str []) = false := rfl
@[simp] theorem truthy_str_cons (c : Nat) (s : Str) : truthy (.str (c :: s)) = true := rfl
@[simp] theorem truthy_list_nil : truthy (.list []) = false := rfl
@[simp] theorem truthy_list_cons (v : Val) (l : List Val) : truthy (.list (v :: l)) = true := rfl
@[simp] theorem truthy_tuple_nil : truthy (.tuple []) = false := rfl
@[simp] theorem truthy_tuple_cons (v : Val) (l : List Val) : truthy (.tuple (v :: l)) = true := rfl
@[simp] theorem truthy_obj (c : String) (f : List (String × Val)) : truthy (.obj c f) = true := rfl
@[simp] theorem truthy_fn (n : String) : truthy (.fn n) = true := rfl
@[simp] theorem truthy_bound (r : Val) (m : String) : truthy (.bound r m) = true := rfl

theorem truthy_str (s : Str) : truthy (.str s) = !s.isEmpty := by cases s <;> rfl

/-- the class name of a value -/
def typeName : Val → String
  | .none => "NoneType"
  | .bool _ => "bool"
  | .int _ => "int"
  | .str _ => "str"
  | .tuple _ => "tuple"
  | .list _ => "list"
  | .obj c _ => c
  | .fn _ => "function"
  | .bound _ _ => "method"

@[simp] theorem typeName_none : typeName .none = "NoneType" := rfl
@[simp] theorem typeName_bool (b : Bool) : typeName (.bool b) = "bool" := rfl
@[simp] theorem typeName_int (i : Int) : typeName (.int i) = "int" := rfl
@[simp] theorem typeName_str (s : Str) : typeName (.str s) = "str" := rfl
@[simp] theorem typeName_tuple (l : List Val) : typeName (.tuple l) = "tuple" := rfl
@[simp] theorem typeName_list (l : List Val) : typeName (.list l) = "list" := rfl
@[simp] theorem typeName_obj (c : String) (f : List (String × Val)) : typeName (.obj c f) = c := rfl

/-- `a == b` on `None` / `bool` / `int` / `str`; values of different kinds are unequal (`True == 1` is outside) -/
def pyEq : Val → Val → Option Bool
  | .none, .none => some true
  | .str a, .str b => some (a == b)
  | .int a, .int b => some (a == b)
  | .bool a, .bool b => some (a == b)
  | .none, .str _ => some false
  | .str _, .none => some false
  | .none, .int _ => some false
  | .int _, .none => some false
  | .str _, .int _ => some false
  | .int _, .str _ => some false
  | .none, .bool _ => some false
  | .bool _, .none => some false
  | .str _, .bool _ => some false
  | .bool _, .str _ => some false
  | _, _ => Option.none

@[simp] theorem pyEq_str (a b : Str) : pyEq (.str a) (.str b) = some (a == b) := rfl
@[simp] theorem pyEq_int (a b : Int) : pyEq (.int a) (.int b) = some (a == b) := rfl
@[simp] theorem pyEq_none_none : pyEq .none .none = some true := rfl
@[simp] theorem pyEq_none_str (b : Str) : pyEq .none (.str b) = some false := rfl
@[simp] theorem pyEq_str_none (b : Str) : pyEq (.str b) .none = some false := rfl

/-- `x in (a, b, …)` -/
def tupIn (x : Val) : List Val → Option Bool
  | [] => some false
  | v :: vs =>
    match pyEq x v with
    | some true => some true
    | some false => tupIn x vs
    | Option.none => Option.none

/-- first position at which `t` occurs in `s`, counting from `i` -/
def findFrom (t : Str) : Str → Nat → Option Nat
  | [], i => if t.isEmpty then some i else Option.none
  | c :: cs, i => if t.isPrefixOf (c :: cs) then some i else findFrom t cs (i + 1)

/-- `t in s` -/
def strIn (t s : Str) : Bool := (findFrom t s 0).isSome

/-- `s.replace(old, new)` for a non-empty `old`; `k` = characters of a matched occurrence still to skip -/
def replGo (old new : Str) : Nat → Str → Str
  | _, [] => []
  | k + 1, _ :: cs => replGo old new k cs
  | 0, c :: cs =>
    if old.isPrefixOf (c :: cs) then new ++ replGo old new (old.length - 1) cs else c :: replGo old new 0 cs

/-- `s.replace(old, new)` -/
def pyReplace (old new s : Str) : Str :=
  if old.isEmpty then new ++ s.flatMap (fun c => c :: new) else replGo old new 0 s

/-- `sep.join(l)` -/
def pyJoin (sep : Str) : List Str → Str
  | [] => []
  | [a] => a
  | a :: b :: t => a ++ sep ++ pyJoin sep (b :: t)

def strsOf : List Val → Option (List Str)
  | [] => some []
  | .str s :: vs => (strsOf vs).map (s :: ·)
  | _ :: _ => Option.none

inductive CmpOp where
  | eq | ne | lt | le | gt | ge | isIn | notIn
deriving Repr, DecidableEq

def pyCmp : CmpOp → Val → Val → R Val
  | .eq, a, b => (ofOpt (pyEq a b)).bind fun r => .ok (.bool r)
  | .ne, a, b => (ofOpt (pyEq a b)).bind fun r => .ok (.bool (!r))
  | .lt, .int a, .int b => .ok (.bool (a < b))
  | .le, .int a, .int b => .ok (.bool (a ≤ b))
  | .gt, .int a, .int b => .ok (.bool (a > b))
  | .ge, .int a, .int b => .ok (.bool (a ≥ b))
  | .isIn, .str t, .str s => .ok (.bool (strIn t s))
  | .notIn, .str t, .str s => .ok (.bool (!strIn t s))
  | .isIn, x, .tuple vs => (ofOpt (tupIn x vs)).bind fun r => .ok (.bool r)
  | .notIn, x, .tuple vs => (ofOpt (tupIn x vs)).bind fun r => .ok (.bool (!r))
  | .isIn, x, .list vs => (ofOpt (tupIn x vs)).bind fun r => .ok (.bool r)
  | .notIn, x, .list vs => (ofOpt (tupIn x vs)).bind fun r => .ok (.bool (!r))
  | _, _, _ => .stuck

@[simp] theorem pyCmp_eq (a b : Val) : pyCmp .eq a b = (ofOpt (pyEq a b)).bind fun r => .ok (.bool r) := by
  rw [pyCmp]
@[simp] theorem pyCmp_ne (a b : Val) : pyCmp .ne a b = (ofOpt (pyEq a b)).bind fun r => .ok (.bool (!r)) := by
  rw [pyCmp]
@[simp] theorem pyCmp_in_str (t s : Str) : pyCmp .isIn (.str t) (.str s) = .ok (.bool (strIn t s)) := rfl
@[simp] theorem pyCmp_in_tuple_str (x : Str) (vs : List Val) :
    pyCmp .isIn (.str x) (.tuple vs) = (ofOpt (tupIn (.str x) vs)).bind fun r => .ok (.bool r) := rfl
@[simp] theorem pyCmp_in_tuple_none (vs : List Val) :
    pyCmp .isIn .none (.tuple vs) = (ofOpt (tupIn .none vs)).bind fun r => .ok (.bool r) := rfl

/-- `str(v)` as the conversion `%s` computes it -/
def strOf : Val → Option Str
  | .str s => some s
  | .int i => some (Lex.renderInt i)
  | .none => some [78, 111, 110, 101]
  | .bool true => some [84, 114, 117, 101]
  | .bool false => some [70, 97, 108, 115, 101]
  | _ => Option.none

@[simp] theorem strOf_str (s : Str) : strOf (.str s) = some s := rfl
@[simp] theorem strOf_int (i : Int) : strOf (.int i) = some (Lex.renderInt i) := rfl

/-- `'%0<w>d' % i` (`zero`) / `'%<w>d' % i` -/
def padInt (zero : Bool) (w : Nat) (i : Int) : Str :=
  if zero then
    (if i < 0 then 45 :: Lex.padZero (w - 1) (Lex.digits (-i).toNat) else Lex.padZero w (Lex.digits i.toNat))
  else List.replicate (w - (Lex.renderInt i).length) 32 ++ Lex.renderInt i

/-- one conversion: `c` the conversion character, `zero` / `w` the flag and the width -/
def convOf (c : Nat) (zero : Bool) (w : Nat) (v : Val) : Option Str :=
  if c = 115 then (if zero = false ∧ w = 0 then strOf v else Option.none)
  else if c = 100 ∨ c = 105 then
    match v with
    | .int i => some (padInt zero w i)
    | .bool b => some (padInt zero w (if b then 1 else 0))
    | _ => Option.none
  else Option.none

@[simp] theorem convOf_s (v : Val) : convOf 115 false 0 v = strOf v := rfl
@[simp] theorem convOf_d (z : Bool) (w : Nat) (i : Int) : convOf 100 z w (.int i) = some (padInt z w i) := rfl

/-- scanner state of `%`-formatting: literal text, or inside a conversion specifier -/
inductive FmtSt where
  | lit
  | spec (zero : Bool) (w : Nat)

/-- `fmt % args` -/
def fmtGo : FmtSt → Str → List Val → R Str
  | .lit, [], [] => .ok []
  | .lit, [], _ :: _ => .stuck
  | .lit, c :: r, vs =>
    if c = 37 then fmtGo (.spec false 0) r vs else (fmtGo .lit r vs).bind fun t => .ok (c :: t)
  | .spec _ _, [], _ => .stuck
  | .spec z w, c :: r, vs =>
    if c = 37 then (if z = false ∧ w = 0 then (fmtGo .lit r vs).bind fun t => .ok (37 :: t) else .stuck)
    else if c = 48 ∧ z = false ∧ w = 0 then fmtGo (.spec true 0) r vs
    else if 48 ≤ c ∧ c ≤ 57 then fmtGo (.spec z (w * 10 + (c - 48))) r vs
    else
      match vs with
      | v :: vs' => (ofOpt (convOf c z w v)).bind fun s => (fmtGo .lit r vs').bind fun t => .ok (s ++ t)
      | [] => .stuck

def pyFormat (f : Str) (vs : List Val) : R Str := fmtGo .lit f vs

/-- the arguments of `%`: the elements of a tuple, or the single value -/
def fmtArgs : Val → List Val
  | .tuple vs => vs
  | v => [v]

def pyMod : Val → Val → R Val
  | .str f, a => (pyFormat f (fmtArgs a)).bind fun s => .ok (.str s)
  | _, _ => .stuck

/-- slice bound -/
def clampIdx (n : Nat) (i : Int) : Nat :=
  if 0 ≤ i then min i.toNat n else n - min (-i).toNat n

/-- `s[lo:hi]` of a `str` (`none` = bound omitted) -/
def pySlice : Val → Option Val → Option Val → R Val
  | .str s, lo, hi =>
    let n := s.length
    let a : Option Nat := match lo with
      | Option.none => some 0
      | some (.int i) => some (clampIdx n i)
      | some .none => some 0
      | _ => Option.none
    let b : Option Nat := match hi with
      | Option.none => some n
      | some (.int i) => some (clampIdx n i)
      | some .none => some n
      | _ => Option.none
    match a, b with
    | some a, some b => .ok (.str ((s.drop a).take (b - a)))
    | _, _ => .stuck
  | _, _, _ => .stuck

/-- the methods of `str` the fragment uses -/
def strMethod (I : Iface) (s : Str) (m : String) (args : List Val) : R Val :=
  if m = "replace" then
    match args with
    | [.str o, .str n] => .ok (.str (pyReplace o n s))
    | _ => .stuck
  else if m = "startswith" then
    match args with
    | [.str p] => .ok (.bool (p.isPrefixOf s))
    | _ => .stuck
  else if m = "endswith" then
    match args with
    | [.str p] => .ok (.bool (p.isSuffixOf s))
    | _ => .stuck
  else if m = "upper" then
    match args with
    | [] => .ok (.str (s.flatMap I.upper))
    | _ => .stuck
  else if m = "join" then
    match args with
    | [.list vs] => (ofOpt (strsOf vs)).bind fun l => .ok (.str (pyJoin s l))
    | [.tuple vs] => (ofOpt (strsOf vs)).bind fun l => .ok (.str (pyJoin s l))
    | _ => .stuck
  else .stuck

/-- `r.m(args)`: a method of `str`, or a method call on an object -/
def methodOf (I : Iface) (r : Val) (m : String) (args : List Val) : R Val :=
  match r with
  | .str s => strMethod I s m args
  | _ => I.callMethod r m args

@[simp] theorem methodOf_str (I : Iface) (s : Str) (m : String) (args : List Val) :
    methodOf I (.str s) m args = strMethod I s m args := rfl
@[simp] theorem methodOf_obj (I : Iface) (c : String) (fs : List (String × Val)) (m : String) (args : List Val) :
    methodOf I (.obj c fs) m args = I.callMethod (.obj c fs) m args := rfl

/-- `a + b` -/
def pyAdd (I : Iface) : Val → Val → R Val
  | .str a, .str b => .ok (.str (a ++ b))
  | .int a, .int b => .ok (.int (a + b))
  | .obj c fs, b => I.callMethod (.obj c fs) "__add__" [b]
  | .str a, .obj c fs => I.callMethod (.obj c fs) "__radd__" [.str a]
  | _, _ => .stuck

@[simp] theorem pyAdd_str (I : Iface) (a b : Str) : pyAdd I (.str a) (.str b) = .ok (.str (a ++ b)) := rfl
@[simp] theorem pyAdd_obj (I : Iface) (c : String) (fs : List (String × Val)) (b : Val) :
    pyAdd I (.obj c fs) b = I.callMethod (.obj c fs) "__add__" [b] := rfl
@[simp] theorem pyAdd_str_obj (I : Iface) (a : Str) (c : String) (fs : List (String × Val)) :
    pyAdd I (.str a) (.obj c fs) = I.callMethod (.obj c fs) "__radd__" [.str a] := rfl

/-- the builtins `repr`, `str`, `int`, `len`; every other name is a module-level function / class -/
def callFn (I : Iface) (f : String) (args : List Val) (kw : List (String × Val)) : R Val :=
  if f = "repr" then
    match args, kw with
    | [.int i], [] => .ok (.str (Lex.renderInt i))
    | [v], [] => (I.reprOf v).bind fun s => .ok (.str s)
    | _, _ => .stuck
  else if f = "str" then
    match args, kw with
    | [.str s], [] => .ok (.str s)
    | [.int i], [] => .ok (.str (Lex.renderInt i))
    | [v], [] => (I.strOfObj v).bind fun s => .ok (.str s)
    | _, _ => .stuck
  else if f = "int" then
    match args, kw with
    | [.int i], [] => .ok (.int i)
    | [.bool b], [] => .ok (.int (if b then 1 else 0))
    | _, _ => .stuck
  else if f = "len" then
    match args, kw with
    | [.str s], [] => .ok (.int s.length)
    | [.tuple vs], [] => .ok (.int vs.length)
    | [.list vs], [] => .ok (.int vs.length)
    | _, _ => .stuck
  else I.fn f args kw

/-- calling a value -/
def callValOf (I : Iface) (f : Val) (args : List Val) : R Val :=
  match f with
  | .fn name => callFn I name args []
  | .bound recv m => methodOf I recv m args
  | _ => .stuck

@[simp] theorem callValOf_fn (I : Iface) (n : String) (args : List Val) :
    callValOf I (.fn n) args = callFn I n args [] := rfl
@[simp] theorem callValOf_bound (I : Iface) (r : Val) (m : String) (args : List Val) :
    callValOf I (.bound r m) args = methodOf I r m args := rfl

/-- `v.a`: a stored attribute, else what the interface says -/
def attrOf (I : Iface) (v : Val) (a : String) : R Val :=
  match v with
  | .obj _ fs =>
    match aget a fs with
    | some x => .ok x
    | Option.none => I.getAttr v a
  | _ => I.getAttr v a

/-! ### syntax -/

inductive Target where
  | one (x : Nat)
  | tup (xs : List Nat)
deriving Repr, DecidableEq

mutual
inductive Expr where
  | var (x : Nat)
  | none
  | true
  | false
  | int (i : Int)
  | str (s : Str)
  | glob (name : String)                                 -- a module-level constant
  | attr (e : Expr) (a : String)                         -- `e.a`
  | tuple (es : Exprs)
  | list (es : Exprs)
  | not (e : Expr)
  | and (a b : Expr)
  | or (a b : Expr)
  | isNone (e : Expr)                                    -- `e is None`
  | isNotNone (e : Expr)
  | cmp (op : CmpOp) (a b : Expr)
  | add (a b : Expr)
  | mod (f a : Expr)                                     -- `f % a`
  | slice (e lo hi : Expr)                               -- `e[lo:hi]`
  | sliceFrom (e lo : Expr)                              -- `e[lo:]`
  | sliceTo (e hi : Expr)                                -- `e[:hi]`
  | isinstance (e : Expr) (cls : String)                 -- `isinstance(e, cls)`
  | call (f : String) (args : Exprs) (kwn : List String) (kwv : Exprs)   -- `f(args, k=v)`, `f` a module-level name
  | method (recv : Expr) (m : String) (args : Exprs)     -- `recv.m(args)`
  | callVal (f : Expr) (args : Exprs)                    -- `f(args)`, `f` a local
  | comp (elt : Expr) (t : Target) (it : Expr)           -- `[elt for t in it]`
inductive Exprs where
  | nil
  | cons (e : Expr) (rest : Exprs)
end

mutual
inductive Stmt where
  | assign (t : Target) (e : Expr)
  | setAttr (x : Nat) (a : String) (e : Expr)            -- `x.a = e`
  | append (x : Nat) (e : Expr)                          -- `x.append(e)` (a list local)
  | ite (c : Expr) (t e : Block)
  | for (t : Target) (it : Expr) (body : Block)
  | assert (c : Expr)
  | ret (e : Expr)
  | expr (e : Expr)
  | pass
  | raise (e : Exc)
  | tryExcept (body : Block) (exc : Exc) (handler orelse : Block)
inductive Block where
  | nil
  | cons (s : Stmt) (rest : Block)
end

/-! ### semantics -/

abbrev Env := Nat → Option Val

def Env.empty : Env := fun _ => Option.none

def Env.put (env : Env) (x : Nat) (v : Val) : Env := fun y => if y = x then some v else env y

@[simp] theorem Env.put_apply (env : Env) (x : Nat) (v : Val) (y : Nat) :
    (env.put x v) y = if y = x then some v else env y := rfl

def Env.ofArgs : List Val → Env
  | [] => Env.empty
  | v :: l => fun y => match y with
    | 0 => some v
    | y + 1 => Env.ofArgs l y

def zipKw {κ : Type} : List κ → List Val → List (κ × Val)
  | n :: ns, v :: vs => (n, v) :: zipKw ns vs
  | _, _ => []

def bindAll (env : Env) : List Nat → List Val → Option Env
  | [], [] => some env
  | x :: xs, v :: vs => bindAll (env.put x v) xs vs
  | _, _ => Option.none

/-- bind an assignment / loop target; a value that does not unpack to the right number of items is `stuck` -/
def Target.bind (env : Env) : Target → Val → Option Env
  | .one x, v => some (env.put x v)
  | .tup xs, .tuple vs => bindAll env xs vs
  | .tup xs, .list vs => bindAll env xs vs
  | .tup _, _ => Option.none

def iterOf : Val → Option (List Val)
  | .list vs => some vs
  | .tuple vs => some vs
  | _ => Option.none

/-- evaluate `f` on every element, left to right, stopping at the first that raises -/
def mapR {α β : Type} (f : α → R β) : List α → R (List β)
  | [] => .ok []
  | a :: l => (f a).bind fun b => (mapR f l).bind fun bs => .ok (b :: bs)

/-- one element of a comprehension: bind the target, evaluate the element expression -/
def compStep (t : Target) (elt : Env → R Val) (env : Env) (v : Val) : R Val :=
  match t.bind env v with
  | some env' => elt env'
  | Option.none => .stuck

def isNoneB : Val → Bool
  | .none => Bool.true
  | _ => Bool.false

mutual
def Expr.eval (I : Iface) (env : Env) : Expr → R Val
  | .var x => ofOpt (env x)
  | .none => .ok .none
  | .true => .ok (.bool Bool.true)
  | .false => .ok (.bool Bool.false)
  | .int i => .ok (.int i)
  | .str s => .ok (.str s)
  | .glob name => ofOpt (I.glob name)
  | .attr e a => (e.eval I env).bind fun v => attrOf I v a
  | .tuple es => (es.eval I env).bind fun vs => .ok (.tuple vs)
  | .list es => (es.eval I env).bind fun vs => .ok (.list vs)
  | .not e => (e.eval I env).bind fun v => .ok (.bool (!truthy v))
  | .and a b => (a.eval I env).bind fun v => if truthy v then b.eval I env else .ok v
  | .or a b => (a.eval I env).bind fun v => if truthy v then .ok v else b.eval I env
  | .isNone e => (e.eval I env).bind fun v => .ok (.bool (isNoneB v))
  | .isNotNone e => (e.eval I env).bind fun v => .ok (.bool (!isNoneB v))
  | .cmp op a b => (a.eval I env).bind fun x => (b.eval I env).bind fun y => pyCmp op x y
  | .add a b => (a.eval I env).bind fun x => (b.eval I env).bind fun y => pyAdd I x y
  | .mod f a => (f.eval I env).bind fun x => (a.eval I env).bind fun y => pyMod x y
  | .slice e lo hi => (e.eval I env).bind fun x => (lo.eval I env).bind fun a => (hi.eval I env).bind fun b =>
      pySlice x (some a) (some b)
  | .sliceFrom e lo => (e.eval I env).bind fun x => (lo.eval I env).bind fun a => pySlice x (some a) Option.none
  | .sliceTo e hi => (e.eval I env).bind fun x => (hi.eval I env).bind fun b => pySlice x Option.none (some b)
  | .isinstance e cls => (e.eval I env).bind fun v => .ok (.bool (I.isSub (typeName v) cls))
  | .call f args kwn kwv => (args.eval I env).bind fun as => (kwv.eval I env).bind fun ks =>
      callFn I f as (zipKw kwn ks)
  | .method recv m args => (recv.eval I env).bind fun r => (args.eval I env).bind fun as => methodOf I r m as
  | .callVal f args => (f.eval I env).bind fun fv => (args.eval I env).bind fun as => callValOf I fv as
  | .comp elt t it => (it.eval I env).bind fun v =>
      match iterOf v with
      | some l => (mapR (compStep t (fun env' => elt.eval I env') env) l).bind fun vs => .ok (.list vs)
      | Option.none => .stuck
def Exprs.eval (I : Iface) (env : Env) : Exprs → R (List Val)
  | .nil => .ok []
  | .cons e rest => (e.eval I env).bind fun v => (rest.eval I env).bind fun vs => .ok (v :: vs)
end

/-- how a statement ends -/
inductive Res where
  | norm (env : Env)
  | ret (env : Env) (v : Val)
  | exc (env : Env) (e : Exc)
  | stuck

def Res.seq (r : Res) (k : Env → Res) : Res :=
  match r with
  | .norm env => k env
  | r => r

theorem Res.seq_norm (env : Env) (k : Env → Res) : (Res.norm env).seq k = k env := by rw [Res.seq]
@[simp] theorem Res.seq_ret (env : Env) (v : Val) (k : Env → Res) : (Res.ret env v).seq k = .ret env v := by simp [Res.seq]
@[simp] theorem Res.seq_exc (env : Env) (e : Exc) (k : Env → Res) : (Res.exc env e).seq k = .exc env e := by simp [Res.seq]
@[simp] theorem Res.seq_stuck (k : Env → Res) : Res.stuck.seq k = .stuck := by simp [Res.seq]

/-- go on with `k` when the expression has a value -/
def withR (env : Env) (r : R Val) (k : Val → Res) : Res :=
  match r with
  | .ok v => k v
  | .exc e => .exc env e
  | .stuck => .stuck

@[simp] theorem withR_ok (env : Env) (v : Val) (k : Val → Res) : withR env (.ok v) k = k v := by rw [withR]
@[simp] theorem withR_exc (env : Env) (e : Exc) (k : Val → Res) : withR env (.exc e) k = .exc env e := by rw [withR]
@[simp] theorem withR_stuck (env : Env) (k : Val → Res) : withR env .stuck k = .stuck := by rw [withR]

def normOpt : Option Env → Res
  | some env => .norm env
  | Option.none => .stuck

@[simp] theorem normOpt_some (env : Env) : normOpt (some env) = .norm env := rfl
@[simp] theorem normOpt_none : normOpt Option.none = .stuck := rfl

def forLoop (f : Env → Val → Res) : List Val → Env → Res
  | [], env => .norm env
  | v :: vs, env => match f env v with
    | .norm env' => forLoop f vs env'
    | r => r

/-- one iteration: bind the target, run the body -/
def loopStep (t : Target) (body : Env → Res) (env : Env) (v : Val) : Res :=
  match t.bind env v with
  | some env' => body env'
  | Option.none => .stuck

/-- `x.a = v` -/
def setAttrOf (env : Env) (x : Nat) (a : String) (v : Val) : Option Env :=
  match env x with
  | some (.obj c fs) => some (env.put x (.obj c (fset fs a v)))
  | _ => Option.none

/-- `x.append(v)` -/
def appendOf (env : Env) (x : Nat) (v : Val) : Option Env :=
  match env x with
  | some (.list l) => some (env.put x (.list (l ++ [v])))
  | _ => Option.none

/-- `try: … except exc: handler else: orelse` applied to the outcome of the `try` body -/
def tryRes (exc : Exc) (handler orelse : Env → Res) : Res → Res
  | .norm env => orelse env
  | .exc env e => if e = exc then handler env else .exc env e
  | r => r

mutual
def Stmt.exec (I : Iface) (env : Env) : Stmt → Res
  | .assign t e => withR env (e.eval I env) fun v => normOpt (t.bind env v)
  | .setAttr x a e => withR env (e.eval I env) fun v => normOpt (setAttrOf env x a v)
  | .append x e => withR env (e.eval I env) fun v => normOpt (appendOf env x v)
  | .ite c t e => withR env (c.eval I env) fun v => if truthy v then t.exec I env else e.exec I env
  | .for t it body => withR env (it.eval I env) fun v =>
      match iterOf v with
      | some l => forLoop (loopStep t fun env' => body.exec I env') l env
      | Option.none => .stuck
  | .assert c => withR env (c.eval I env) fun v => if truthy v then .norm env else .exc env .assertionError
  | .ret e => withR env (e.eval I env) fun v => .ret env v
  | .expr e => withR env (e.eval I env) fun _ => .norm env
  | .pass => .norm env
  | .raise e => .exc env e
  | .tryExcept body exc handler orelse =>
      tryRes exc (fun env' => handler.exec I env') (fun env' => orelse.exec I env') (body.exec I env)
def Block.exec (I : Iface) (env : Env) : Block → Res
  | .nil => .norm env
  | .cons s rest => (s.exec I env).seq fun env' => rest.exec I env'
end

theorem exec_cons (I : Iface) (env : Env) (s : Stmt) (rest : Block) :
    Block.exec I env (.cons s rest) = (s.exec I env).seq fun env' => rest.exec I env' := by rw [Block.exec]

theorem exec_nil (I : Iface) (env : Env) : Block.exec I env .nil = .norm env := by rw [Block.exec]

/-- what the caller of a function sees -/
inductive Out where
  | ret (v : Val)
  | exc (e : Exc)
  | stuck

def Res.out : Res → Out
  | .norm _ => .ret .none                -- falling off the end returns None
  | .ret _ v => .ret v
  | .exc _ e => .exc e
  | .stuck => .stuck

@[simp] theorem Res.out_norm (env : Env) : (Res.norm env).out = .ret .none := rfl
@[simp] theorem Res.out_ret (env : Env) (v : Val) : (Res.ret env v).out = .ret v := rfl
@[simp] theorem Res.out_exc (env : Env) (e : Exc) : (Res.exc env e).out = .exc e := rfl
@[simp] theorem Res.out_stuck : Res.stuck.out = .stuck := rfl

/-- call a translated function on its arguments -/
def run (I : Iface) (prog : Block) (args : List Val) : Out := (prog.exec I (Env.ofArgs args)).out

/-- the outcome as the value of a call expression -/
def Out.toR : Out → R Val
  | .ret v => .ok v
  | .exc e => .exc e
  | .stuck => .stuck

@[simp] theorem Out.toR_ret (v : Val) : (Out.ret v).toR = .ok v := rfl
@[simp] theorem Out.toR_exc (e : Exc) : (Out.exc e).toR = .exc e := rfl
@[simp] theorem Out.toR_stuck : Out.stuck.toR = .stuck := rfl

/-- a constructor call `C(args)`: run `__init__` on an empty object of class `C`; the value is the final `self` -/
def Res.selfOut : Res → R Val
  | .norm env => ofOpt (env 0)
  | .ret env _ => ofOpt (env 0)
  | .exc _ e => .exc e
  | .stuck => .stuck

def construct (I : Iface) (cls : String) (init : Block) (args : List Val) : R Val :=
  (init.exec I (Env.ofArgs (.obj cls [] :: args))).selfOut

end SqlObjVerif.PyLex
