import SqlObjVerif.Model.PyFail
/-!
# PyCreate — a deep embedding of the Python fragment `SQLObject.__init__`, `_create` and
`_SO_finishCreate` (sqlobject/main.py) are written in, with an EXCEPTION-INJECTING reference semantics
(property C06: a write that raises changes nothing — operation CREATE)

`vlib/extractors/pycreate.py` TRANSLATES the three bodies statement by statement from /repo's AST into
`Block`s of this language on every run (`Extracted/PyCreate.lean`); this file is the fixed vocabulary and
its semantics (total functions, no fuel: a loop iterates over a list computed when it is entered; a method
may call another method of `self`, whose meaning is the parameter `call` of the interpreter).

## The world
`XW` = the world `PyFail.FW` of `Model/PyFail.lean` (the hand model's state `Fail.St`, the schedule `inj`,
`self = (c, id)`, the object under construction `nobj` used while `sqlmeta._creating` is set, the
validator oracle `vq`) plus: `born` (`cache.created` has registered `self`: from then on `self` is the
instance `(c, id)` of the core), `cvAbsent` (`del self._SO_createValues`), the thread-local
`_postponed_local.postponed_calls` (`postponed`, `none` = the attribute does not exist) and the heap of the
closures created so far.  Per-run constants `Ctx`: the column defaults (`dflt j = none`: `NoDefault`, else
the value handed to the validators), `dsql j` (the column has a `defaultSQL`), the table of nested
function bodies of the translated program.

## The interface (every item is an ASSUMPTION about code that is not translated here)
* `self.set(**kw)`, `self._create(id, **kw)`, `self._SO_finishCreate(id)`, `self._init(id)`: the
  parameter `call`; `Model/FailCreateX.lean` instantiates `_create` and `_SO_finishCreate` with the
  translated programs themselves, `set` with the translated `set` run under `PyFail`, and `_init` with
  `initIface`: `sendStmt (.select c)` (raises the error it yields), then `memStep (.reload c id)`,
  `_SO_createValues = {}` (only for the `id` `cache.created` registered; anything else: stuck);
* `self._connection.queryInsertID(self, id, names, values)` = `sendStmt sch inj (.insert c id? vals)` with
  `vals = Fail.valsOf ncols (names zip values)` (`names`: database names of columns, `values`: column values),
  `id? = none` for `id=None`; returns `cursor.lastrowid` (`s.lastId`), raises the error `sendStmt` yields;
* `cache.created(id, cls, self)` = `memStep (.addInst c id (Fail.valsOf ncols nobj.vals))`: the object is
  registered showing the values it was given; from then on `self` is instance `(c, id)`.  `Mem.addInst`
  registers a clean instance without pending values: a call while the object is dirty, has pending
  `_SO_createValues`, is still `_creating`, or is registered already, is outside (stuck);
* `sqlmeta.send(...)`: ignored (no listener is connected: C19's business); hence a list of post-functions
  is empty unless somebody else filled it, and calling any function value other than a closure of the
  translated program is outside (stuck).  A closure (`def _send_RowCreatedSignal()`) captures the frame
  BY VALUE at its `def` (the translator checks that no captured name is rebound afterwards); its body is
  in the closure language `CStmt` (a signal; `for func in <captured list>: func(self)`);
* `threading.Lock()` (a new, free lock), `sqlbuilder.SQLObjectState(self)`, `self.__class__.sqlmeta(self)`:
  opaque constructors without effect on the world;
* the Python `**kw` of `__init__` = a dict with column-name keys (`Dict.cols`, names are numbers, a
  column's name iff `< ncols`) and string-constant keys (`Dict.strs`: `'id'`, `'connection'`,
  `'_SO_fetch_no_create'`); `sqlmeta.idType` = `int` on an id; a `connection=` keyword is outside (the
  model has ONE connection: reading / assigning `self._connection` is stuck); string keys still present
  when `set(**kw)` is reached are outside (stuck at that call);
* column attributes: `column.name`, `column.dbName`, `column.creationOrder`, `column.default`
  (`NoDefault` or a value), `column.defaultSQL` (`None` or an opaque value), `column.foreignName`:
  `None` for a plain column, for a ForeignKey column (`Fail.Col.fk`) number `c` a name that is NOT a column name —
  `<that name> in kw` holds iff some key `k` of `kw` is not a column name and names the by-object setter of
  column `c` (`w.props k = .fk c _`: `fkKeyFor`, `fkIn`); in particular it is `False` when all keys are column names.
-/
namespace SqlObjVerif.PyCreate
open SqlObjVerif.PyMain (PV R mapR ofOpt PDict dget dhas dset sortByKey ofVal toVal? pvIdx pyBool optMap)
open SqlObjVerif.Fail (Err Schema Inj In clsOf colOf Mem valsOf)
open SqlObjVerif.PyFail (FW sendStmt memStep excErr)

inductive Val where
  | pv (v : PV)
  /-- `sqlbuilder.NoDefault` -/
  | noDefault
  /-- `column.foreignName` of the ForeignKey column `c` -/
  | fname (c : Nat)
  /-- an object the fragment only passes around: the connection cache, the class, `self`, a `defaultSQL` -/
  | opaque (tag : String)
  /-- the k-th closure created in this run -/
  | clos (k : Nat)

/-- a Python dict with keyword-name keys: column(-like) names and string constants -/
structure Dict where
  cols : PDict
  strs : List (String × Val)

def Dict.empty : Dict := ⟨[], []⟩

structure Frame where
  vars : Nat → Option Val
  lists : Nat → Option (List Val)
  dicts : Nat → Option Dict

def Frame.setVar (f : Frame) (x : Nat) (v : Val) : Frame := { f with vars := fun y => if y = x then some v else f.vars y }
def Frame.setList (f : Frame) (x : Nat) (v : List Val) : Frame := { f with lists := fun y => if y = x then some v else f.lists y }
def Frame.setDict (f : Frame) (x : Nat) (v : Dict) : Frame := { f with dicts := fun y => if y = x then some v else f.dicts y }

/-- the closure language: the body of a nested `def` without parameters -/
inductive CStmt where
  | send (sig : String)               -- `self.sqlmeta.send(events.sig, self, …)`: ignored
  | forCallSelf (l : Nat)             -- `for func in <captured list l>: func(self)`

structure XW where
  w : FW
  /-- `cache.created` has registered `self` as instance `(w.c, w.id)` -/
  born : Bool
  /-- `del self._SO_createValues` -/
  cvAbsent : Bool
  /-- `_postponed_local.postponed_calls` -/
  postponed : Option (List Val)
  /-- closures: index of the body in the program's table, captured frame -/
  heap : List (Nat × Frame)

structure Ctx where
  /-- `column.default`: `none` = `NoDefault` -/
  dflt : Nat → Option In
  /-- `column.defaultSQL is not None` -/
  dsql : Nat → Bool
  /-- the nested function bodies of the program -/
  clos : Nat → List CStmt

inductive ColAttr where
  | name | dbName | creationOrder | foreignName | default | defaultSQL
deriving Repr, DecidableEq

inductive Expr where
  | var (x : Nat)
  | none
  | true
  | false
  | lazyUpdate                             -- `self.sqlmeta.lazyUpdate`
  | column (e : Expr)                      -- `self.sqlmeta.columns[e]`
  | colAttr (e : Expr) (a : ColAttr)       -- `e.name`, `e.default`, …
  | idx (e : Expr) (i : Nat)               -- `e[0]`, `e[1]`
  | strIdx (d : Nat) (s : String)          -- `d['s']`
  | idType (e : Expr)                      -- `self.sqlmeta.idType(e)`
  | getattrSelfOr (attr : String) (d : Expr) -- `getattr(self, 'attr', d)`
  | connCache                              -- `self._connection.cache`
  | selfClass                              -- `self.__class__`
  | self
deriving Repr

inductive Cond where
  | truthy (e : Expr)
  | isNone (e : Expr)
  | isNoDefault (e : Expr)                 -- `e is NoDefault`
  | isNot (a b : Expr)                     -- `a is not b` (object identity: outside)
  | not (c : Cond)
  | and (c d : Cond)
  | or (c d : Cond)
  | inDict (k : Expr) (d : Nat)            -- `k in d`
  | strInDict (s : String) (d : Nat)       -- `'s' in d`
deriving Repr

inductive LExpr where
  | var (l : Nat)
  | lit (es : List Expr)
  | columnList                                       -- `self.sqlmeta.columnList`
  | cvItems                                          -- `self._SO_createValues.items()`
  | postponed                                        -- `_postponed_local.postponed_calls`
  | comp (x : Nat) (src : LExpr) (e : Expr)          -- `[e for x in src]`
  | sortedBy (x : Nat) (src : LExpr) (key : Expr)    -- `sorted(src, key=lambda x: key)`
deriving Repr

mutual
inductive Stmt where
  | assign (x : Nat) (e : Expr)
  | listAssign (l : Nat) (le : LExpr)
  | readPostponed                                    -- `_postponed_local.postponed_calls` (its value unused)
  | setPostponedEmpty                                -- `_postponed_local.postponed_calls = []`
  | delPostponed                                     -- `del _postponed_local.postponed_calls`
  | postponedAppend (e : Expr)                       -- `_postponed_local.postponed_calls.append(e)`
  | setAttrOpaque (attr ctor : String)               -- `self.attr = <ctor>(self)`: no effect on the world
  | newLock                                          -- `self._SO_writeLock = threading.Lock()`
  | send (sig : String)                              -- `self.sqlmeta.send(events.sig, self, …)`: ignored
  | strPop (x d : Nat) (s : String)                  -- `x = d.pop('s')`
  | strDel (d : Nat) (s : String)                    -- `del d['s']`
  | setConnection (e : Expr)                         -- `self._connection = e`
  | setPerConnection                                 -- `self.sqlmeta._perConnection = True`
  | setCreating                                      -- `self.sqlmeta._creating = True`
  | delCreating                                      -- `del self.sqlmeta._creating`
  | cvNew                                            -- `self._SO_createValues = {}`
  | cvDel                                            -- `del self._SO_createValues`
  | setDirty (b : Bool)                              -- `self.sqlmeta.dirty = b`
  | dictSet (d : Nat) (k v : Expr)                   -- `d[k] = v`
  | sdictOfPairs (d : Nat) (ps : List (String × Expr)) -- `d = dict([('s', e), …])`
  | callSelf (m : String) (args : List Expr) (kw : Option Nat) -- `self.m(args, **kw)` (result unused)
  | callVal (f : Expr) (args : List Expr)            -- `f(args)` (result unused)
  | queryInsertID (x : Nat) (id : Expr) (names values : LExpr) -- `x = self._connection.queryInsertID(self, id, names, values)`
  | cacheCreated (cache id : Expr)                   -- `cache.created(id, self.__class__, self)`
  | defClos (x fid : Nat)                            -- `def x(): <body fid of the table>`
  | raise (e : PyMain.Exc)
  | continue
  | ite (c : Cond) (t e : Block)
  | for (x : Nat) (le : LExpr) (body : Block)
  | tryExcept (body : Block) (exc : PyMain.Exc) (handler : Block)
  | tryFinally (body fin : Block)
  | ret (e : Expr)
  | retNone
  | pass
inductive Block where
  | nil
  | cons (s : Stmt) (rest : Block)
end

structure St where
  xw : XW
  fr : Frame

def St.setVar (st : St) (x : Nat) (v : Val) : St := { st with fr := st.fr.setVar x v }
def St.setList (st : St) (x : Nat) (v : List Val) : St := { st with fr := st.fr.setList x v }
def St.setDict (st : St) (x : Nat) (v : Dict) : St := { st with fr := st.fr.setDict x v }
def St.setXW (st : St) (xw : XW) : St := { st with xw := xw }
def St.setW (st : St) (w : FW) : St := { st with xw := { st.xw with w := w } }

/-! ### expressions (pure) -/

def colAttrOf (ctx : Ctx) (w : FW) : Val → ColAttr → R Val
  | .pv (.col c), .name => .ok (.pv (.name c))
  | .pv (.col c), .dbName => .ok (.pv (.dbName c))
  | .pv (.col c), .creationOrder => .ok (.pv (.nat c))
  | .pv (.col c), .foreignName =>
      .ok (if (colOf (clsOf w.sch w.c).cols c).fk.isSome then .fname c else .pv .none)
  | .pv (.col c), .default => .ok (match ctx.dflt c with
      | some v => .pv (ofVal v.val)
      | Option.none => .noDefault)
  | .pv (.col c), .defaultSQL => .ok (if ctx.dsql c then .opaque "defaultSQL" else .pv .none)
  | _, _ => .stuck

def columnOf (w : FW) : Val → R Val
  | .pv (.name c) => if Nat.blt c w.ncols then .ok (.pv (.col c)) else .exc .keyError
  | _ => .stuck

def valIdx : Val → Nat → R Val
  | .pv (.pair a _), 0 => .ok (.pv a)
  | .pv (.pair _ b), 1 => .ok (.pv b)
  | _, _ => .stuck

def idTypeOf : Val → R Val
  | .pv (.nat i) => .ok (.pv (.nat i))
  | _ => .stuck

def strGet (s : String) : List (String × Val) → Option Val
  | [] => Option.none
  | e :: l => if e.1 = s then some e.2 else strGet s l

def strHas (s : String) (l : List (String × Val)) : Bool := l.any fun e => decide (e.1 = s)

def strErase (s : String) (l : List (String × Val)) : List (String × Val) := l.filter fun e => !decide (e.1 = s)

def Expr.eval (ctx : Ctx) (st : St) : Expr → R Val
  | .var x => ofOpt (st.fr.vars x)
  | .none => .ok (.pv .none)
  | .true => .ok (.pv (.bool Bool.true))
  | .false => .ok (.pv (.bool Bool.false))
  | .lazyUpdate => .ok (.pv (.bool (clsOf st.xw.w.sch st.xw.w.c).lazy))
  | .column e => (Expr.eval ctx st e).bind fun v => columnOf st.xw.w v
  | .colAttr e a => (Expr.eval ctx st e).bind fun v => colAttrOf ctx st.xw.w v a
  | .idx e i => (Expr.eval ctx st e).bind fun v => valIdx v i
  | .strIdx d s => (ofOpt (st.fr.dicts d)).bind fun D => match strGet s D.strs with
      | some v => .ok v
      | Option.none => .exc .keyError
  | .idType e => (Expr.eval ctx st e).bind idTypeOf
  | .getattrSelfOr _ _ => .stuck
  | .connCache => .ok (.opaque "cache")
  | .selfClass => .ok (.opaque "class")
  | .self => .ok (.opaque "self")

def valBool : Val → Option Bool
  | .pv v => pyBool v
  | _ => some true

def valIsNone : Val → Bool
  | .pv .none => true
  | _ => false

def valIsNoDefault : Val → Bool
  | .noDefault => true
  | _ => false

/-- the attribute is the by-object setter of the ForeignKey column `c` -/
def fkTo : Fail.Extra → Nat → Bool
  | .fk c' _, c => c' == c
  | _, _ => false

/-- the keyword `k` is the `foreignName` of the ForeignKey column `c`: not a column name, and the attribute it names is
    the by-object setter of column `c` (`Fail.Extra.fk c _`) -/
def fkKeyFor (w : FW) (c k : Nat) : Bool := !Nat.blt k w.ncols && fkTo (w.props k) c

/-- `<foreignName of column c> in kw` -/
def fkIn (w : FW) (c : Nat) (l : PDict) : Bool := l.any fun e => fkKeyFor w c e.1

/-- `k in d` for a keyword dict -/
def keyIn (w : FW) (D : Dict) : Val → R Bool
  | .pv (.name c) => .ok (dhas c D.cols)
  | .pv .none => .ok false
  | .fname c => .ok (fkIn w c D.cols)
  | _ => .stuck

def Cond.eval (ctx : Ctx) (st : St) : Cond → R Bool
  | .truthy e => (Expr.eval ctx st e).bind fun v => ofOpt (valBool v)
  | .isNone e => (Expr.eval ctx st e).bind fun v => .ok (valIsNone v)
  | .isNoDefault e => (Expr.eval ctx st e).bind fun v => .ok (valIsNoDefault v)
  | .isNot _ _ => .stuck
  | .not c => (Cond.eval ctx st c).bind fun b => .ok (!b)
  | .and c d => (Cond.eval ctx st c).bind fun b => if b then Cond.eval ctx st d else .ok false
  | .or c d => (Cond.eval ctx st c).bind fun b => if b then .ok true else Cond.eval ctx st d
  | .inDict ke d => (Expr.eval ctx st ke).bind fun v => (ofOpt (st.fr.dicts d)).bind fun D => keyIn st.xw.w D v
  | .strInDict s d => (ofOpt (st.fr.dicts d)).bind fun D => .ok (strHas s D.strs)

/-- `_SO_createValues.items()` -/
def cvItemsOf (cv : List (Nat × Fail.Val)) : List Val := cv.map fun e => .pv (.pair (.name e.1) (ofVal e.2))

def natOfVal : Val → Option Nat
  | .pv (.nat n) => some n
  | _ => Option.none

def LExpr.eval (ctx : Ctx) (st : St) : LExpr → R (List Val)
  | .var l => ofOpt (st.fr.lists l)
  | .lit es => mapR (fun e => Expr.eval ctx st e) es
  | .columnList => .ok ((List.range st.xw.w.ncols).map fun j => .pv (.col j))
  | .cvItems => if st.xw.cvAbsent then .exc .attributeError else .ok (cvItemsOf st.xw.w.cv)
  | .postponed => match st.xw.postponed with
      | some l => .ok l
      | Option.none => .exc .attributeError
  | .comp x src e => (LExpr.eval ctx st src).bind fun xs => mapR (fun v => Expr.eval ctx (st.setVar x v) e) xs
  | .sortedBy x src key => (LExpr.eval ctx st src).bind fun xs =>
      (mapR (fun v => ((Expr.eval ctx (st.setVar x v) key).bind fun kv => ofOpt (natOfVal kv)).bind fun n => .ok (n, v)) xs).bind
        fun kxs => .ok ((sortByKey kxs).map (·.2))

/-! ### statements -/

/-- how a method call ends -/
inductive Outcome where
  | ret (xw : XW) (v : Val)
  | exc (xw : XW) (e : Err)
  | deadlock (xw : XW)
  | stuck

inductive Res where
  | norm (st : St)
  | ret (st : St) (v : Val)
  | exc (st : St) (e : Err)
  /-- `continue` -/
  | cont (st : St)
  | deadlock (st : St)
  | stuck

def Res.seq (r : Res) (k : St → Res) : Res :=
  match r with
  | .norm st => k st
  | r => r

def forLoop (f : St → Val → Res) : List Val → St → Res
  | [], st => .norm st
  | v :: vs, st => match f st v with
    | .norm st' => forLoop f vs st'
    | .cont st' => forLoop f vs st'
    | r => r

def afterCall (o : Outcome) (st : St) : Res :=
  match o with
  | .ret xw _ => .norm (st.setXW xw)
  | .exc xw e => .exc (st.setXW xw) e
  | .deadlock xw => .deadlock (st.setXW xw)
  | .stuck => .stuck

def raisePy (st : St) (e : PyMain.Exc) : Res :=
  match excErr e with
  | some x => .exc st x
  | Option.none => .stuck

def withR {α : Type} (st : St) (r : R α) (f : α → Res) : Res :=
  match r with
  | .ok a => f a
  | .exc e => raisePy st e
  | .stuck => .stuck

def ofOptRes {α : Type} (o : Option α) (f : α → Res) : Res :=
  match o with
  | some a => f a
  | Option.none => .stuck

def afterSend (st : St) (r : Fail.St × Option Err) (k : St → Res) : Res :=
  match r.2 with
  | some e => .exc (st.setW (st.xw.w.setS r.1)) e
  | Option.none => k (st.setW (st.xw.w.setS r.1))

/-- `try: body  except exc: handler` -/
def catchRes (exc : PyMain.Exc) (handler : St → Res) : Res → Res
  | .exc st' e => if excErr exc = some e then handler st' else .exc st' e
  | r => r

/-- `try: body  finally: fin` -/
def finallyRes (fin : St → Res) : Res → Res
  | .norm st' => fin st'
  | .ret st' v => (fin st').seq fun st'' => .ret st'' v
  | .exc st' e => (fin st').seq fun st'' => .exc st'' e
  | .cont st' => (fin st').seq fun st'' => .cont st''
  | .deadlock st' => .deadlock st'
  | .stuck => .stuck

def nameOfVal : Val → Option Nat
  | .pv (.name c) => some c
  | _ => Option.none

def pvOfVal : Val → Option PV
  | .pv v => some v
  | _ => Option.none

def dbNameOfVal : Val → Option Nat
  | .pv (.dbName c) => some c
  | _ => Option.none

def cvalOfVal : Val → Option Fail.Val
  | .pv v => toVal? v
  | _ => Option.none

/-- `id` argument of `queryInsertID` -/
def idArg : Val → Option (Option Nat)
  | .pv .none => some Option.none
  | .pv (.nat i) => some (some i)
  | _ => Option.none

def closOk (fr : Frame) : List CStmt → Bool
  | [] => true
  | .send _ :: r => closOk fr r
  | .forCallSelf l :: r => (match fr.lists l with
      | some [] => true
      | _ => false) && closOk fr r

/-- call a function value without arguments: a closure of the program (whose body, without listeners,
    changes nothing) -/
def callClos (ctx : Ctx) (st : St) : Val → List Val → Res
  | .clos k, [] => (match st.xw.heap[k]? with
      | some (fid, fr) => if closOk fr (ctx.clos fid) then .norm st else .stuck
      | Option.none => .stuck)
  | _, _ => .stuck

def XW.setDirty (xw : XW) (b : Bool) : Option XW :=
  if xw.w.creating then some { xw with w := { xw.w with nobj := { xw.w.nobj with dirty := b } } }
  else if xw.born then some { xw with w := xw.w.mem (.dirty xw.w.c xw.w.id b) }
  else Option.none

def XW.cvNew (xw : XW) : Option XW :=
  if xw.w.creating then some { xw with w := { xw.w with nobj := { xw.w.nobj with cv := [] } }, cvAbsent := false }
  else Option.none

def XW.cvDel (xw : XW) : Option XW :=
  if xw.w.creating then some { xw with w := { xw.w with nobj := { xw.w.nobj with cv := [] } }, cvAbsent := true }
  else Option.none

/-- `cache.created(id, cls, self)` -/
def XW.created (xw : XW) (id : Nat) : Option XW :=
  if !xw.born && !xw.w.creating && !xw.w.nobj.dirty && xw.w.nobj.cv.isEmpty then
    some { xw with w := { xw.w with s := memStep (.addInst xw.w.c id (valsOf xw.w.ncols xw.w.nobj.vals)) xw.w.s, id := id },
                   born := true }
  else Option.none

abbrev CallT := String → List Val → Dict → XW → Outcome

def dictArg (st : St) : Option Nat → Option Dict
  | Option.none => some Dict.empty
  | some d => st.fr.dicts d

mutual
def Stmt.exec (ctx : Ctx) (call : CallT) (st : St) : Stmt → Res
  | .assign x e => withR st (Expr.eval ctx st e) fun v => .norm (st.setVar x v)
  | .listAssign l le => withR st (LExpr.eval ctx st le) fun vs => .norm (st.setList l vs)
  | .readPostponed => withR st (LExpr.eval ctx st .postponed) fun _ => .norm st
  | .setPostponedEmpty => .norm (st.setXW { st.xw with postponed := some [] })
  | .delPostponed => (match st.xw.postponed with
      | some _ => .norm (st.setXW { st.xw with postponed := Option.none })
      | Option.none => raisePy st .attributeError)
  | .postponedAppend e => withR st (Expr.eval ctx st e) fun v => withR st (LExpr.eval ctx st .postponed) fun l =>
      .norm (st.setXW { st.xw with postponed := some (l ++ [v]) })
  | .setAttrOpaque _ _ => .norm st
  | .newLock => .norm (st.setW { st.xw.w with lock := false })
  | .send _ => .norm st
  | .strPop x d s => ofOptRes (st.fr.dicts d) fun D => (match strGet s D.strs with
      | some v => .norm ((st.setDict d { D with strs := strErase s D.strs }).setVar x v)
      | Option.none => .stuck)
  | .strDel d s => ofOptRes (st.fr.dicts d) fun D =>
      if strHas s D.strs then .norm (st.setDict d { D with strs := strErase s D.strs }) else .stuck
  | .setConnection _ => .stuck
  | .setPerConnection => .stuck
  | .setCreating => if st.xw.born then .stuck else .norm (st.setW { st.xw.w with creating := true })
  | .delCreating => if st.xw.w.creating then .norm (st.setW { st.xw.w with creating := false })
      else raisePy st .attributeError
  | .cvNew => ofOptRes st.xw.cvNew fun xw => .norm (st.setXW xw)
  | .cvDel => ofOptRes st.xw.cvDel fun xw => .norm (st.setXW xw)
  | .setDirty b => ofOptRes (st.xw.setDirty b) fun xw => .norm (st.setXW xw)
  | .dictSet d k v => withR st (Expr.eval ctx st k) fun kv => ofOptRes (nameOfVal kv) fun c =>
      withR st (Expr.eval ctx st v) fun vv => ofOptRes (pvOfVal vv) fun p =>
        ofOptRes (st.fr.dicts d) fun D => .norm (st.setDict d { D with cols := dset c p D.cols })
  | .sdictOfPairs d ps => withR st (mapR (fun p => (Expr.eval ctx st p.2).bind fun v => .ok (p.1, v)) ps) fun l =>
      .norm (st.setDict d ⟨[], l⟩)
  | .callSelf m args kw => withR st (mapR (fun e => Expr.eval ctx st e) args) fun vs =>
      ofOptRes (dictArg st kw) fun D => afterCall (call m vs D st.xw) st
  | .callVal f args => withR st (Expr.eval ctx st f) fun fv => withR st (mapR (fun e => Expr.eval ctx st e) args) fun vs =>
      callClos ctx st fv vs
  | .queryInsertID x id names values => withR st (Expr.eval ctx st id) fun iv => ofOptRes (idArg iv) fun id? =>
      withR st (LExpr.eval ctx st names) fun ns => ofOptRes (optMap dbNameOfVal ns) fun cols =>
        withR st (LExpr.eval ctx st values) fun vs => ofOptRes (optMap cvalOfVal vs) fun xs =>
          afterSend st (sendStmt st.xw.w.sch st.xw.w.inj
              (.insert st.xw.w.c id? (valsOf st.xw.w.ncols (List.zip cols xs))) st.xw.w.s) fun st' =>
            .norm (st'.setVar x (.pv (.nat st'.xw.w.s.lastId)))
  | .cacheCreated cache id => withR st (Expr.eval ctx st cache) fun
      | .opaque _ => withR st (Expr.eval ctx st id) fun
        | .pv (.nat i) => ofOptRes (st.xw.created i) fun xw => .norm (st.setXW xw)
        | _ => .stuck
      | _ => .stuck
  | .defClos x fid => .norm ((st.setXW { st.xw with heap := st.xw.heap ++ [(fid, st.fr)] }).setVar x (.clos st.xw.heap.length))
  | .raise e => raisePy st e
  | .continue => .cont st
  | .ite c t e => withR st (Cond.eval ctx st c) fun b => if b then Block.exec ctx call st t else Block.exec ctx call st e
  | .for x le body => withR st (LExpr.eval ctx st le) fun vs =>
      forLoop (fun st' v => Block.exec ctx call (st'.setVar x v) body) vs st
  | .tryExcept body exc handler => catchRes exc (fun st' => Block.exec ctx call st' handler) (Block.exec ctx call st body)
  | .tryFinally body fin => finallyRes (fun st' => Block.exec ctx call st' fin) (Block.exec ctx call st body)
  | .ret e => withR st (Expr.eval ctx st e) fun v => .ret st v
  | .retNone => .ret st (.pv .none)
  | .pass => .norm st
def Block.exec (ctx : Ctx) (call : CallT) (st : St) : Block → Res
  | .nil => .norm st
  | .cons s rest => (Stmt.exec ctx call st s).seq fun st' => Block.exec ctx call st' rest
end

def Res.toOutcome : Res → Outcome
  | .norm st => .ret st.xw (.pv .none)
  | .ret st v => .ret st.xw v
  | .exc st e => .exc st.xw e
  | .cont _ => .stuck
  | .deadlock st => .deadlock st.xw
  | .stuck => .stuck

/-- parameters after `self`: `none` = required, `some v` = default `v` -/
def bindVars (params : List (Option Val)) (args : List Val) (x : Nat) : Option Val :=
  match args[x]? with
  | some a => some a
  | Option.none => (params[x]?).join

def argsOk (params : List (Option Val)) (args : List Val) : Bool :=
  Nat.ble args.length params.length && ((params.drop args.length).all Option.isSome)

/-- call a method; `kw` is dict local 0 (a method without `**kw` must get none) -/
def run (ctx : Ctx) (call : CallT) (prog : Block) (params : List (Option Val)) (hasKw : Bool) (args : List Val) (kw : Dict)
    (xw : XW) : Outcome :=
  if argsOk params args && (hasKw || (kw.cols.isEmpty && kw.strs.isEmpty)) then
    (Block.exec ctx call { xw := xw, fr := ⟨bindVars params args, fun _ => Option.none,
                                             fun d => if d = 0 then some kw else Option.none⟩ } prog).toOutcome
  else .stuck

def noCall : CallT := fun _ _ _ _ => .stuck

end SqlObjVerif.PyCreate
