import SqlObjVerif.Model.FailX
/-!
# C06 — property setters of the extra keywords as TRANSLATED code (instead of the hand model's trees)

`PyFail.Stmt.exec` hands `setattr(self, <non-column name k>, value)` to the call table as
`self.__setattr__(k, value)`.  `PyFail.propCall` answers with the hand model's tree for the kind of keyword
(`setProp`).  `propCallT` answers with the code the library really runs:

* `props k = .fk col v` — a ForeignKey given by object, `obj.x = other`: the generated setter
  `lambda self, val: setattr(self, 'xID', self._SO_getID(val))` (a string handed to `eval` in `main.py:addColumn`, not
  translatable as a function body: INTERFACE, with `_SO_getID(other) = v`) assigns the column attribute `xID`, whose
  generated setter `lambda self, val: self._SO_setValue('xID', val, from_python, to_python)` (same remark) calls the
  TRANSLATED `_SO_setValue` (`setValueProg`) — in the same world, so while `self` is being created the value goes
  to the object under construction and its `_SO_createValues`, exactly as for a plain column;
* `props k = .parentAttr p col v` — a column inherited from the ancestor class `p`: the parameter `parentSet`
  (`Model/FailInhSetX.lean` instantiates it with the translated `setfunc` of `InheritableSQLMeta.addColumn`, which
  assigns the attribute on `self._parent`);
* `.okProp` / `.badProp` — properties of the application: still `setProp` (nothing / `AttributeError`);
  `.unknown` is never assigned (`set` refuses it first).

The validator calls of these setters take their outcomes from the oracle queue like every other validator call:
`vqEx ex` is what the setters of the extra keywords `ex` consume, in keyword order.
-/
namespace SqlObjVerif.PyFail
open SqlObjVerif.PyMain (PV FnKind PDict ofVal)
open SqlObjVerif.PyMain.Extracted
open SqlObjVerif.Fail (Err Schema Inj Extra In)

/-- `self._SO_setValue('<col>', v, from_python, to_python)` for a database-side value `v` -/
def setValueV (w : FW) (col : Nat) (v : Fail.Val) : Outcome :=
  run noCall setValueProg [.name col, ofVal v, .fn .fromPy col, .fn .toPy col] [] setValue_nlocals setValue_nlists
    setValue_ndicts w

/-- the validator oracle entries the setters of the extra keywords consume -/
def vqEx : List Extra → List Bool
  | [] => []
  | .fk _ _ :: ex => true :: true :: vqEx ex
  | .parentAttr _ _ v :: ex => v.fromOk :: v.toOk :: vqEx ex
  | _ :: ex => vqEx ex

/-- the call table with translated setters; `parentSet w p col v`: the setter of a column inherited from class `p` -/
def propCallT (parentSet : FW → Nat → Nat → In → Outcome) : CallT := fun m args _ w =>
  if m = "__setattr__" then
    match args with
    | [.name k, _] =>
      (match w.props k with
       | .fk col v => setValueV w col v
       | .parentAttr p col v => parentSet w p col v
       | _ => propOutcome w (setProp w k))
    | _ => .stuck
  else .stuck

end SqlObjVerif.PyFail
