import SqlObjVerif.Model.FailInhXT
/-!
# C06 — `Fail.Op.createChild` / `Fail.Op.createChain` TIED to the translated source

`stepXInh sch s op inj` runs, for `op = .createChain levels` / `.createChild c pkw ckw`, the COMPOSED translated
programs of `Model/FailInhXT.lean` (`createNT`: the translated `InheritableSQLObject._create` calling itself through the
parent class's constructor, its `super()._create` = the translated `SQLObject._create` → `set` → `_SO_finishCreate`,
its clean-up = the translated `destroySelf`) from the hand model's state `s` (statement counter and log reset, as
`Fail.step` does) under the schedule `inj`, and reads the end of the run as a `Fail.St` and the error, if it raised.

The hand model's `levels` (leaf first: class, keywords in validation order — "keywords given, then the `childName` the
level below hands over, then the defaulted columns") do not say which keyword is which; `infosOf` reads a level as
* leaf: every keyword is GIVEN by the application (no defaults);
* non-leaf: `given ++ [(tagCol, .ok (some tagVal))] ++ defaulted` for the LAST position at which this reading
  reproduces the level (`levelCheck`: the defaulted tail is in column order, on columns not given);
and builds from it the Python call: the keyword dict `esB` (`.name a j ↦ encIn v` for the given keywords of every
level), the class chain, the `childName` tables (`tagCol`, `tagVal`), the defaults tables `trB` (`childName` has
`default=None`, a defaulted column its value, every other column `NoDefault`; every column has a `defaultSQL`, so no
keyword is "missing" for `SQLObject._create`), fuel `fuelOf s0`, depth bound = the chain's length.
`TiedInh` (decidable by evaluation) ASKS that this reading reproduces the operation
(`levelsOf X chain es none = levels`) and that the call is one the theorem covers: a real class chain of the schema,
keyword names distinct, required keywords of non-root levels present (`reqB`), per-level keywords in range and distinct
(`LevelsOk`).  `.createChild c …` of a class without parent is the plain create of `c` (a chain of length 1).
-/
namespace SqlObjVerif.Fail.InhX

/-- the levels of the operation -/
def levelsOp (sch : Schema) : Op → List (Nat × List (Nat × In))
  | .createChain levels => levels
  | .createChild c pkw ckw =>
    (match (clsOf sch c).parent with
     | some p => [(c, ckw), (p, pkw)]
     | none => [(c, ckw)])
  | _ => []

def isInhOp : Op → Bool
  | .createChain _ => true
  | .createChild _ _ _ => true
  | _ => false

/-- one level, read: given keywords, the `childName` entry, the defaulted tail -/
structure LevInfo where
  cls : Nat
  given : List (Nat × In)
  tagCol : Nat
  tagVal : Int
  dfl : List (Nat × In)

/-- `column.default` of a level read that way -/
def dfltOf (tagCol : Nat) (dfl : List (Nat × In)) (j : Nat) : Option In :=
  if j = tagCol then some (.ok none) else (dfl.find? fun a => a.1 == j).map (·.2)

/-- reading the non-leaf level `kw` with the `childName` entry at position `pos` reproduces it -/
def levelCheck (ncols : Nat) (kw : List (Nat × In)) (pos : Nat) : Bool :=
  match kw[pos]? with
  | some (tc, .ok (some _)) =>
    decide (PyCreate.kwFullOf (dfltOf tc (kw.drop (pos + 1))) ncols (kw.take (pos + 1)) = kw)
  | _ => false

def infoOf (sch : Schema) (leaf : Bool) (l : Nat × List (Nat × In)) : LevInfo :=
  if leaf then ⟨l.1, l.2, (clsOf sch l.1).cols.length, 0, []⟩ else
  match (List.range l.2.length).reverse.find? (levelCheck (clsOf sch l.1).cols.length l.2) with
  | some pos =>
    (match l.2[pos]? with
     | some (tc, .ok (some tv)) => ⟨l.1, l.2.take pos, tc, tv, l.2.drop (pos + 1)⟩
     | _ => ⟨l.1, l.2, (clsOf sch l.1).cols.length, 0, []⟩)
  | none => ⟨l.1, l.2, (clsOf sch l.1).cols.length, 0, []⟩

def infosOf (sch : Schema) : List (Nat × List (Nat × In)) → List LevInfo
  | [] => []
  | l :: rest => infoOf sch true l :: rest.map (infoOf sch false)

def infoFor (infos : List LevInfo) (a : Nat) : Option LevInfo := infos.find? fun i => i.cls == a

/-- the application's keyword dict -/
def esB (sch : Schema) (levels : List (Nat × List (Nat × In))) : List (PVal × PVal) :=
  (infosOf sch levels).flatMap fun i => i.given.map fun kv => (PyInh.Val.name i.cls kv.1, encIn kv.2)

def trB (sch : Schema) (levels : List (Nat × List (Nat × In))) : Tr :=
  { dflt := fun a j => match infoFor (infosOf sch levels) a with
      | some i => dfltOf i.tagCol i.dfl j
      | none => none
    dsql := fun _ _ => true
    props := fun _ _ => .unknown
    isInh := fun c => (clsOf sch c).parent.isSome }

def ctxB (sch : Schema) (levels : List (Nat × List (Nat × In))) (fuel : Nat) (inj : Option Inj) : Ctx :=
  ctxOf sch inj fuel levels.length
    (fun a => ((infoFor (infosOf sch levels) a).map (·.tagCol)).getD 0)
    (fun c => (((clsOf sch c).parent.bind (infoFor (infosOf sch levels))).map (·.tagVal)).getD 0)
    (trB sch levels)

/-- `Chain`, decidably -/
def chainB (sch : Schema) : List Nat → Bool
  | [] => true
  | [r] => (clsOf sch r).parent.isNone
  | c :: p :: rest => decide ((clsOf sch c).parent = some p) && chainB sch (p :: rest)

/-- `Required`, decidably: a column without default of a non-root level has its keyword -/
def reqB (X : Ctx) (L : List Nat) (es : List (PVal × PVal)) : Bool :=
  L.all fun c => (clsOf X.sch c).parent.isNone ||
    (List.range (clsOf X.sch c).cols.length).all fun j => !X.nodefault c j || es.any fun e => e.1 == PyInh.Val.name c j

/-- what a Python call `Leaf(**kw)` can express of `.createChain levels` / `.createChild c pkw ckw` -/
def TiedInhL (sch : Schema) (levels : List (Nat × List (Nat × In))) : Prop :=
  levels ≠ [] ∧ chainB sch (levels.map (·.1)) = true ∧ ((esB sch levels).map (·.1)).Nodup ∧
  reqB (ctxB sch levels 0 none) (levels.map (·.1)) (esB sch levels) = true ∧
  LevelsOk (ctxB sch levels 0 none) (trB sch levels) (levels.map (·.1)) (esB sch levels) none ∧
  levelsOf (ctxB sch levels 0 none) (levels.map (·.1)) (esB sch levels) none = levels ∧
  (esB sch levels).all (fun e => keyIn (levels.map (·.1)) e.1) = true

instance (sch : Schema) (levels : List (Nat × List (Nat × In))) : Decidable (TiedInhL sch levels) := by
  unfold TiedInhL; infer_instance

/-- `s` is not read: whether the operation is expressible does not depend on the state -/
def TiedInh (sch : Schema) (_s : St) (op : Op) : Prop := isInhOp op = true ∧ TiedInhL sch (levelsOp sch op)

instance (sch : Schema) (s : St) (op : Op) : Decidable (TiedInh sch s op) := by
  unfold TiedInh; infer_instance

/-- the COMPOSED translated programs of the operation, run from `s` (counter and log reset) under `inj` -/
def stepXInh (sch : Schema) (s : St) (op : Op) (inj : Option Inj) : Option (St × Option Err) :=
  if isInhOp op then
    match (levelsOp sch op).map (·.1) with
    | [] => none
    | c :: rest =>
      outOf (createNT (ctxB sch (levelsOp sch op) (fuelOf { s with n := 0, log := [] }) inj) (trB sch (levelsOp sch op))
        (c :: rest).length { st := { s with n := 0, log := [] }, par := fun _ => .none } c .none
        (PyInh.Val.ofList (pairsOf (esB sch (levelsOp sch op)))))
  else none

end SqlObjVerif.Fail.InhX
