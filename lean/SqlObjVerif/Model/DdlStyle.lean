/-!
# `DdlStyle` — the name-mapping functions of `sqlobject/styles.py`

Executable, import-free model of `mixedToUnder`, `mixedToUnderSub`, `underToMixed`, `capword`,
`lowerword` and of the three style classes `MixedCaseUnderscoreStyle` (the default), `MixedCaseStyle`
and the base `Style`.

Strings are lists of Unicode code points, `List Nat` (the abbreviation `Str` of this namespace
lives in `Model/DdlRead.lean`; this file is import-free and spells the type out).  Only ASCII letters are case-mapped: Python's
`.lower()` / `.upper()` are modelled by the ASCII-only maps `lowerC` / `upperC` (exact on every
character that `[A-Z]+` can match; an approximation of `str.upper()` / `str.lower()` elsewhere, i.e.
for non-ASCII input to `capword`, `lowerword`, `underToMixed`, `pythonClassToDBTable`).

Where Python raises `IndexError` (`capword('')`, `lowerword('')`, `pythonClassToDBTable('')`) the
model returns `[]`.
-/
namespace SqlObjVerif.Ddl

/-! ## characters -/

/-- `'A' <= c <= 'Z'`, the character class `[A-Z]` -/
def isUpperC (c : Nat) : Bool := 65 ≤ c && c ≤ 90

/-- `'a' <= c <= 'z'` -/
def isLowerC (c : Nat) : Bool := 97 ≤ c && c ≤ 122

/-- `'0' <= c <= '9'` -/
def isDigitC (c : Nat) : Bool := 48 ≤ c && c ≤ 57

/-- `c.lower()`, ASCII only -/
def lowerC (c : Nat) : Nat := if isUpperC c then c + 32 else c

/-- `c.upper()`, ASCII only -/
def upperC (c : Nat) : Nat := if isLowerC c then c - 32 else c

/-! ## Python string primitives -/

/-- `s.endswith(suf)` -/
def endsWith (s suf : List Nat) : Bool := suf.isSuffixOf s

/-- `s[:-n]` for `n > 0` -/
def dropEnd (n : Nat) (s : List Nat) : List Nat := s.take (s.length - n)

/-- `s[-1]` as a string (`s[-1:]`) -/
def lastStr (s : List Nat) : List Nat := s.drop (s.length - 1)

/-! ## `mixedToUnder` -/

/-- `mixedToUnderSub(match)`, `run = match.group(0)`:
```
m = match.group(0).lower()
if len(m) > 1: return '_%s_%s' % (m[:-1], m[-1])
else:          return '_%s' % m
``` -/
def mixedToUnderSub (run : List Nat) : List Nat :=
  let m := run.map lowerC
  if m.length > 1 then 95 :: dropEnd 1 m ++ 95 :: lastStr m   -- '_' m[:-1] '_' m[-1]
  else 95 :: m                                                -- '_' m

/-- the replacement for the match collected so far (`rrun`, reversed); nothing when there is none -/
def flushRun (rrun : List Nat) : List Nat :=
  if rrun.isEmpty then [] else mixedToUnderSub rrun.reverse

/-- `re.sub('[A-Z]+', mixedToUnderSub, s)`.  `rrun` is the match in progress (a maximal run of
capitals is consumed greedily), in reverse order; call with `rrun = []`. -/
def subUpper (rrun : List Nat) : List Nat → List Nat
  | [] => flushRun rrun
  | c :: cs =>
    if isUpperC c then subUpper (c :: rrun) cs
    else flushRun rrun ++ c :: subUpper [] cs

/-- `if trans.startswith('_'): trans = trans[1:]` -/
def stripUnder : List Nat → List Nat
  | [] => []
  | c :: cs => if c = 95 then cs else c :: cs

/-- `mixedToUnder(s)` without the `endswith('ID')` special case -/
def mixedToUnderCore (s : List Nat) : List Nat := stripUnder (subUpper [] s)

/-- `mixedToUnder(s)`.  The recursive call is on `s[:-2] + "_id"`, which does not end in `'ID'`,
so the recursion is exactly one level deep. -/
def mixedToUnder (s : List Nat) : List Nat :=
  if endsWith s [73, 68] /- "ID" -/ then mixedToUnderCore (dropEnd 2 s ++ [95, 105, 100] /- "_id" -/)
  else mixedToUnderCore s

/-! ## `underToMixed` -/

/-- `re.sub('_.', lambda m: m.group(0)[1].upper(), name)`: left to right, non-overlapping;
`.` matches every character except newline (10). -/
def subUnder : List Nat → List Nat
  | [] => []
  | [c] => [c]
  | c :: d :: ds =>
    if c = 95 && d != 10 then upperC d :: subUnder ds
    else c :: subUnder (d :: ds)

/-- `underToMixed(name)`.  The recursive call is on `name[:-3] + "ID"`, which does not end in
`'_id'`, so the recursion is exactly one level deep. -/
def underToMixed (name : List Nat) : List Nat :=
  if endsWith name [95, 105, 100] /- "_id" -/ then subUnder (dropEnd 3 name ++ [73, 68] /- "ID" -/)
  else subUnder name

/-! ## `capword`, `lowerword` -/

/-- `s[0].upper() + s[1:]` (`IndexError` on `''`: `[]`) -/
def capword : List Nat → List Nat
  | [] => []
  | c :: cs => upperC c :: cs

/-- `s[0].lower() + s[1:]` (`IndexError` on `''`: `[]`) -/
def lowerword : List Nat → List Nat
  | [] => []
  | c :: cs => lowerC c :: cs

/-! ## the style classes -/

/-- `under`: `MixedCaseUnderscoreStyle` (= `DefaultStyle`); `mixed`: `MixedCaseStyle`;
`plain`: the base class `Style` -/
inductive Style
  | under | mixed | plain
  deriving DecidableEq, Repr

/-- `pythonAttrToDBColumn` -/
def Style.attrToCol : Style → List Nat → List Nat
  | .under, attr => mixedToUnder attr
  | .mixed, attr => capword attr
  | .plain, attr => attr

/-- `dbColumnToPythonAttr` -/
def Style.colToAttr : Style → List Nat → List Nat
  | .under, col => underToMixed col
  | .mixed, col => lowerword col
  | .plain, col => col

/-- `pythonClassToDBTable`; `under`: `className[0].lower() + mixedToUnder(className[1:])`
(`IndexError` on `''`: `[]`); `mixed` and `plain` inherit `Style`'s identity -/
def Style.classToTable : Style → List Nat → List Nat
  | .under, [] => []
  | .under, c :: cs => lowerC c :: mixedToUnder cs
  | .mixed, className => className
  | .plain, className => className

/-- `tableReference` -/
def Style.tableReference : Style → List Nat → List Nat
  | .under, table => table ++ [95, 105, 100]   -- "_id"
  | .mixed, table => table ++ [73, 68]         -- "ID"
  | .plain, table => table ++ [95, 105, 100]   -- "_id"

/-- `idForTable`, `longID = self.longID` -/
def Style.idForTable (st : Style) (longID : Bool) (table : List Nat) : List Nat :=
  if longID then st.tableReference table else [105, 100]   -- "id"

/-- `instanceAttrToIDAttr` (the same in all three classes) -/
def Style.attrToIDAttr : List Nat → List Nat := (· ++ [73, 68])   -- "ID"

/-- `pythonClassToAttr` (the same in all three classes) -/
def Style.classToAttr : List Nat → List Nat := lowerword

end SqlObjVerif.Ddl
