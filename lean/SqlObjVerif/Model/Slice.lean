import SqlObjVerif.Model.SliceSyn
import SqlObjVerif.Extracted.Slice
/-!
# C10 — model of `SelectResults.__getitem__`, `Select.__sqlrepr__`'s window clause and the
dialects' `_queryAddLimitOffset`

* `sliceSel` / `indexSel` mirror `sresults.py` `__getitem__` (hand-written; tied by correspondence).
* `windowToks` interprets the **extracted** `_queryAddLimitOffset` data under the **extracted**
  guard of `Select.__sqlrepr__`.
* `clauseOf` / `sem` are the reference grammar and semantics of LIMIT/OFFSET per dialect
  (specification side, trusted; SQLite's is cross-checked by execution).
* `pySlice` / `pyIndex` are Python list slicing / indexing (specification side; cross-checked
  against CPython by the harness).
-/
namespace SqlObjVerif.Slice

inductive Dialect where
  | sqlite | mysql | postgres
deriving DecidableEq, Repr

/-- `ops['start']`, `ops['end']` of a `SelectResults` -/
structure Win where
  start : Nat
  stop  : Option Nat
deriving DecidableEq, Repr

/-! ## Python list slicing (specification) -/

def pyBound (n : Nat) (dflt : Nat) : Option Int → Nat
  | none => dflt
  | some a => if a < 0 then (a + n).toNat else min a.toNat n

def pySlice (xs : List α) (a b : Option Int) : List α :=
  (xs.take (pyBound xs.length xs.length b)).drop (pyBound xs.length 0 a)

/-- `xs[i]`; `none` = IndexError -/
def pyIndex (xs : List α) (i : Int) : Option α :=
  if i < 0 then (if i + xs.length < 0 then none else xs[(i + xs.length).toNat]?)
  else xs[i.toNat]?

/-! ## The dialect call, from extracted data -/

inductive Tok where
  | kw (s : String) | n (i : Int) | nComma (i : Int)
deriving DecidableEq, Repr

def Cond.holds (start : Nat) (stop : Option Nat) : Cond → Bool
  | .notStart => start == 0
  | .endIsNone => stop.isNone
  | .notEnd => stop.isNone || stop == some 0
  | .always => true

/-- value of a `%i` argument; `none` = `TypeError` (formatting `None` with `%i`) -/
def Arg.val (start : Nat) (stop : Option Nat) : Arg → Option Int
  | .start => some start
  | .stop => stop.map Int.ofNat
  | .stopMinusStart => stop.map (fun e => (e : Int) - start)

def Piece.tok (start : Nat) (stop : Option Nat) : Piece → Option Tok
  | .kw s => some (.kw s)
  | .lit i => some (.n i)
  | .num a => (a.val start stop).map Tok.n
  | .numComma a => (a.val start stop).map Tok.nComma

def pieceToks (start : Nat) (stop : Option Nat) : List Piece → Option (List Tok)
  | [] => some []
  | p :: ps => match p.tok start stop, pieceToks start stop ps with
    | some t, some ts => some (t :: ts)
    | _, _ => none

/-- run the extracted if-chain -/
def runBranches (start : Nat) (stop : Option Nat) : List Branch → Option (List Tok)
  | [] => none
  | b :: bs => if b.cond.holds start stop then pieceToks start stop b.pieces
               else runBranches start stop bs

def branchesOf : Dialect → List Branch
  | .sqlite => Extracted.sqlite
  | .mysql => Extracted.mysql
  | .postgres => Extracted.postgres

def Guard.holds (start : Nat) (stop : Option Nat) : Guard → Bool
  | .startOrStopGiven => start != 0 || stop.isSome
  | .startOrStopTruthy => start != 0 || (stop.isSome && stop != some 0)

/-- tokens appended to the query by `Select.__sqlrepr__`; outer `none` = Python error -/
def windowToks (d : Dialect) (w : Win) : Option (List Tok) :=
  if Extracted.selectGuard.holds w.start w.stop then runBranches w.start w.stop (branchesOf d)
  else some []

/-! ## Reference grammar and semantics of the window clause (specification) -/

structure Clause where
  limit  : Option Int
  offset : Int
deriving DecidableEq, Repr

/-- reference grammar; `none` = syntax error in that dialect -/
def clauseOf : Dialect → List Tok → Option Clause
  | _, [] => some ⟨none, 0⟩
  | _, [.kw "LIMIT", .n l] => some ⟨some l, 0⟩
  | .sqlite, [.kw "LIMIT", .n l, .kw "OFFSET", .n o] => some ⟨some l, o⟩
  | .postgres, [.kw "LIMIT", .n l, .kw "OFFSET", .n o] => some ⟨some l, o⟩
  | .postgres, [.kw "OFFSET", .n o] => some ⟨none, o⟩
  | .mysql, [.kw "LIMIT", .nComma o, .n l] => some ⟨some l, o⟩
  | _, _ => none

/-- reference semantics; `none` = the server rejects the statement.
    SQLite: negative LIMIT = no limit, negative OFFSET = 0 (sqlite.org/lang_select.html).
    MySQL: the code relies on the historical `LIMIT n, -1` = "to the end"; other negatives are errors.
    PostgreSQL: negative LIMIT/OFFSET are errors. -/
def sem (d : Dialect) (c : Clause) (xs : List α) : Option (List α) :=
  match d with
  | .sqlite =>
    let ys := xs.drop c.offset.toNat
    match c.limit with
    | none => some ys
    | some l => if l < 0 then some ys else some (ys.take l.toNat)
  | .mysql =>
    if c.offset < 0 then none else
    let ys := xs.drop c.offset.toNat
    match c.limit with
    | none => some ys
    | some l => if l = -1 then some ys else if l < 0 then none else some (ys.take l.toNat)
  | .postgres =>
    if c.offset < 0 then none else
    let ys := xs.drop c.offset.toNat
    match c.limit with
    | none => some ys
    | some l => if l < 0 then none else some (ys.take l.toNat)

/-- rows produced by iterating a select with window `w` over the full ordered result `xs` -/
def rows (d : Dialect) (xs : List α) (w : Win) : Option (List α) :=
  match windowToks d w with
  | none => none
  | some ts => match clauseOf d ts with
    | none => none
    | some c => sem d c xs

/-! ## `SelectResults.__getitem__` -/

def truthy : Option Int → Bool
  | none => false
  | some i => i != 0

def isNeg : Option Int → Bool
  | none => false
  | some i => i < 0

/-- a select (still lazy) or, after the negative-bound fallback, a Python list;
    `err` = an SQL/Python error other than IndexError surfaced while materialising -/
inductive Sel (α : Type) where
  | q (w : Win)
  | lst (l : List α)
  | err
deriving Repr

def clampStop (e0 : Option Nat) (e : Nat) : Nat :=
  match e0 with
  | some e0 => if e0 < e then e0 else e
  | none => e

def clampStart (start : Nat) (stop : Option Nat) : Nat :=
  match stop with
  | some e => if start > e then e else start
  | none => start

/-- the window computed by the non-negative branch of `__getitem__` -/
def nonnegWin (w : Win) (a b : Option Int) : Win :=
    let s0 := w.start
    let e0 := w.stop
    if truthy a then
      let av := (a.getD 0).toNat
      let start := s0 + av
      let stop : Option Nat :=
        match b with
        | some bv => if bv < a.getD 0 then some start else some (clampStop e0 (bv.toNat + s0))
        | none => e0
      ⟨clampStart start stop, stop⟩
    else
      let start := s0
      let stop := clampStop e0 ((b.getD 0).toNat + start)
      ⟨clampStart start (some stop), some stop⟩

/-- `self[a:b]` on a select with window `w` -/
def sliceSel (d : Dialect) (xs : List α) (w : Win) (a b : Option Int) : Sel α :=
  if !truthy a && b.isNone then .q w
  else if (truthy a && isNeg a) || (truthy b && isNeg b) then
    match rows d xs w with
    | some l => .lst (pySlice l a b)
    | none => .err
  else .q (nonnegWin w a b)

inductive Out (α : Type) where
  | rows (l : List α)
  | item (x : α)
  | indexError
  | error
deriving Repr, DecidableEq

/-- `self[i]` on a select with window `w` -/
def indexSel (d : Dialect) (xs : List α) (w : Win) (i : Int) : Out α :=
  if i < 0 then
    match rows d xs w with
    | some l => match pyIndex l i with
      | some x => .item x
      | none => .indexError
    | none => .error
  else
    let start := w.start + i.toNat
    let past := match w.stop with
      | some e => decide (start ≥ e)
      | none => false
    if past then .indexError
    else match rows d xs ⟨start, some (start + 1)⟩ with
      | some (x :: _) => .item x
      | some [] => .indexError
      | none => .error

abbrev SliceOp := Option Int × Option Int

def stepSel (d : Dialect) (xs : List α) : Sel α → SliceOp → Sel α
  | .q w, (a, b) => sliceSel d xs w a b
  | .lst l, (a, b) => .lst (pySlice l a b)
  | .err, _ => .err

def finish (d : Dialect) (xs : List α) (s : Sel α) (ix : Option Int) : Out α :=
  match s, ix with
  | .err, _ => .error
  | .q w, none => match rows d xs w with
    | some l => .rows l
    | none => .error
  | .q w, some i => indexSel d xs w i
  | .lst l, none => .rows l
  | .lst l, some i => match pyIndex l i with
    | some x => .item x
    | none => .indexError

/-- the library: a chain of slices then an optional index, on the select whose full ordered
    result is `xs` -/
def evalModel (d : Dialect) (xs : List α) (ops : List SliceOp) (ix : Option Int) : Out α :=
  finish d xs (ops.foldl (stepSel d xs) (.q ⟨0, none⟩)) ix

/-- the specification: the same chain on the Python list -/
def pyEval (xs : List α) (ops : List SliceOp) (ix : Option Int) : Out α :=
  let l := ops.foldl (fun l (op : SliceOp) => pySlice l op.1 op.2) xs
  match ix with
  | none => .rows l
  | some i => match pyIndex l i with
    | some x => .item x
    | none => .indexError

end SqlObjVerif.Slice
