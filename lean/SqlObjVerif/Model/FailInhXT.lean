import SqlObjVerif.Model.FailInhX
import SqlObjVerif.Model.FailCreateX
import SqlObjVerif.Model.FailDestroyInhX
/-!
# C06 — the inheritable create, COMPOSED in one world: the translated `InheritableSQLObject._create` calling the
translated `SQLObject._create` and the translated `destroySelf`

`Model/FailInhX.lean` runs the translated `InheritableSQLObject._create` (`PyInh.Extracted.createProg`) under the
interface `xIface`, which ASSUMES that `super()._create(id, **kw)` ends as the hand tree `Fail.createProg` / `ownTree`
ends and that `self._parent.destroySelf()` ends as the hand tree `Fail.destroyProg` ends.  Here the same program runs
in the same world `InhX.FW` (the hand model's whole state `Fail.St` + the `_parent` attributes) under the interface
`xIfaceT`, in which NEITHER is assumed any more:

* `super(InheritableSQLObject, self)._create(id, **kw)` (`superCreateT`) RUNS the translated `SQLObject._create`
  (`PyCreate.Extracted.createProg`, translated from `main.py` on every check run) under `PyCreate.run` with the call
  table `PyCreate.createCall … PyFail.setF`: its `self.set(**kw)` is the translated `set` (`PyFail.setF`), its
  `self._SO_finishCreate(id)` the translated `finishCreateProg` (whose `_init` is `PyCreate.initIface`); the object
  under construction is of class `c`; the keyword dict is the PyInherit dict value converted to PyCreate's `Dict`
  (`kwPV (kwList X c (entriesOf star))`: key `.name c j ↦ j`, `'childName' ↦ X.tagCol c`, value `encIn v ↦ v`), the
  `id` argument `None ↦ None`, `pid ↦ pid`; the class's defaults table is `T.dflt c` / `T.dsql c`;
* `self._parent.destroySelf()` (`destroyCallT`) RUNS the translated `destroySelf` with Python's dynamic dispatch
  (`FailDX.destroyI`: the translated `InheritableSQLObject.destroySelf` override on top of the translated
  `SQLObject.destroySelf`, every nested `destroySelf()` bound to itself) — followed by the steps
  `.mem (.drop a pid)`, `a ∈ ancs sch depth p`.

`Lemmas/FailInhXT*.lean` prove `C06_translated_inheritable_create_composed_eq_model`: the translated
`InheritableSQLObject._create` calling ITSELF through the parent class's constructor, its `super()._create` and its
clean-up being the translated programs above, ends with the error and in the `Fail.St` (all of it: tables, instances,
registrations, `seqs`, `lastId`, `n`, `log`, the ghost counter `changes`) `Fail.run sch inj (Fail.createInh …)` ends
with — for every schema, state, class chain, keyword dict and schedule.

## What is STILL an interface convention (in addition to the headers of `Model/FailInhX.lean` — attributes, `hasattr`,
`isinstance`, exceptions —, `Model/PyCreate.lean`, `Model/PyFail.lean`, `Model/FailDestroyX.lean`,
`Model/FailDestroyInhX.lean`, whose leaf interfaces — `queryInsertID`, `cache.created`, `_init`, the validators'
oracle, the SELECTs of `destroySelf` — are unchanged)
* the constructor `parentClass(kw=d, connection=conn)` = `_create(None, kw=d)` of a FRESH instance `.ref 7 p` of the
  parent class, returning `.inst 0 p lastrowid` (`constructOf`): `SQLObject.__init__` around `_create` (the thread-local
  post-function list, the write lock, `_SO_fetch_no_create`) is tied separately for a plain class
  (`PyCreate.init_good`), it is not re-run per level here; accordingly `SQLObject._create` starts in the world
  `createXW`: nothing registered, no pending values, lock free, `_postponed_local.postponed_calls = []`
  (what `__init__` has set up when it calls `_create`), and its final thread-local list / closure heap are dropped;
* the validators' outcomes: the oracle of that world is `vqOf` of the keyword list in validation order (the outcomes
  `Fail.In` encodes: keywords given, then defaulted columns) — as in `PyCreate.C06_translated_create_eq_model`;
* `.mem (.drop a pid)`: after the clean-up the failed constructor is left and the ancestors' instances `a#pid` become
  unreachable — a MODELLING convention of `Fail.createInh` (garbage collection is not in the translated source);
* the connection is an autoCommit connection, not a `Transaction` (C07/C08 cover transactions);
* `RecursionError` = fuel exhausted (`X.fuel` nested `destroySelf()` calls);
* `T.isInh` (which classes derive from `InheritableSQLObject`): any function true on every class with a parent;
* `col._default is NoDefault` (`X.nodefault c j`, read by the inheritable `_create`'s own required-keyword check) and
  `column.default is NoDefault` (`T.dflt c j = none`, read by `SQLObject._create`) are the same table, and the function
  `X.complete` of `Model/FailInhX.lean` is now DEFINED: `kwFullOf (T.dflt c) ncols` (`Agrees X T`; `ctxOf` builds such
  an `X`).
-/
namespace SqlObjVerif.Fail.InhX
open SqlObjVerif.PyInh (Iface CallRes R Exc ExcCls vdGet vdHas vdSet)

/-- what the translated `SQLObject._create` / `destroySelf` read beyond `Ctx` -/
structure Tr where
  /-- `column.default` of column `j` of class `c` (`none`: `NoDefault`) -/
  dflt : Nat → Nat → Option In
  /-- `column.defaultSQL is not None` -/
  dsql : Nat → Nat → Bool
  /-- what kind of attribute the non-column name `k` of class `c` is (read by `set`; no such keyword occurs here) -/
  props : Nat → Nat → Extra
  /-- the class derives from `InheritableSQLObject` -/
  isInh : Nat → Bool

/-- the tables of `X` are those of `T` -/
def Agrees (X : Ctx) (T : Tr) : Prop :=
  (∀ c own, X.complete c own = PyCreate.kwFullOf (T.dflt c) (clsOf X.sch c).cols.length own) ∧
  (∀ c j, X.nodefault c j = (T.dflt c j).isNone)

/-- the context of `Model/FailInhX.lean` whose tables are those of `T` -/
def ctxOf (sch : Schema) (inj : Option Inj) (fuel depth : Nat) (tagCol : Nat → Nat) (tagVal : Nat → Int) (T : Tr) : Ctx :=
  { sch := sch, inj := inj, fuel := fuel, depth := depth, tagCol := tagCol, tagVal := tagVal,
    nodefault := fun c j => (T.dflt c j).isNone,
    complete := fun c own => PyCreate.kwFullOf (T.dflt c) (clsOf sch c).cols.length own }

theorem ctxOf_agrees (sch inj fuel depth tagCol tagVal) (T : Tr) : Agrees (ctxOf sch inj fuel depth tagCol tagVal T) T :=
  ⟨fun _ _ => rfl, fun _ _ => rfl⟩

/-- the keyword list `SQLObject._create` of class `c` receives: PyInherit dict ↦ column numbers and `Fail.In` values -/
def pkOf (X : Ctx) (c : Nat) (star : PVal) : List (Nat × In) := kwList X c (entriesOf star)

/-- the world `SQLObject._create` of a new instance of class `c` starts in (state `s`, keywords `pk`) -/
def createXW (X : Ctx) (T : Tr) (c : Nat) (s : St) (pk : List (Nat × In)) : PyCreate.XW :=
  ⟨PyFail.mkW X.sch X.inj (T.props c) s c 0
      (PyFail.vqOf (PyCreate.kwFullOf (T.dflt c) (clsOf X.sch c).cols.length pk)),
    false, false, some [], []⟩

/-- the translated `SQLObject._create(idv, **pk)` on a new instance of class `c`, from state `s` -/
def plainCreate (X : Ctx) (T : Tr) (c : Nat) (s : St) (idv : PyCreate.Val) (pk : List (Nat × In)) : PyCreate.Outcome :=
  PyCreate.run (PyCreate.mkCtx (T.dflt c) (T.dsql c))
    (PyCreate.createCall (PyCreate.mkCtx (T.dflt c) (T.dsql c)) PyFail.setF)
    PyCreate.Extracted.createProg PyCreate.Extracted.create_params PyCreate.Extracted.create_hasKw
    [idv] ⟨PyFail.kwPV pk, []⟩ (createXW X T c s pk)

/-- how that call ends for the caller (it returns `None`) -/
def endCreate (w : FW) : PyCreate.Outcome → CallRes FW
  | .ret xw _ => .ret (w.setSt xw.w.s) .none
  | .exc xw e => .exc (w.setSt xw.w.s) (excOf e)
  | _ => .stuck

/-- `super(InheritableSQLObject, self)._create(id, **kw)`: the TRANSLATED `SQLObject._create` -/
def superCreateT (X : Ctx) (T : Tr) (c : Nat) (w : FW) (idv star : PVal) : CallRes FW :=
  match idv with
  | .none => endCreate w (plainCreate X T c w.st (.pv .none) (pkOf X c star))
  | .nat pid => endCreate w (plainCreate X T c w.st (.pv (.nat pid)) (pkOf X c star))
  | _ => .stuck

/-- `self._parent.destroySelf()`: the TRANSLATED `destroySelf` (dynamic dispatch), then the ancestors' instances
    become unreachable (convention) -/
def destroyCallT (X : Ctx) (T : Tr) (w : FW) (p pid : Nat) : CallRes FW :=
  match FailDX.destroyI X.sch X.inj T.isInh X.fuel p pid w.st with
  | some (s1, none) => fromRun w (run X.sch X.inj (dropsOf (ancs X.sch X.depth p) pid) s1)
  | some (s1, some e) => .exc (w.setSt s1) (excOf e)
  | none => .stuck

def xSuperT (X : Ctx) (T : Tr) (self : PVal) (w : FW) (m : String) (args : List PVal) (kw : List (String × PVal))
    (star : PVal) : CallRes FW :=
  match self with
  | .ref 7 c =>
    if m = "_create" ∧ kw = [] then
      (match args with
       | [idv] => superCreateT X T c w idv star
       | _ => .stuck)
    else .stuck
  | _ => .stuck

def xCallT (X : Ctx) (T : Tr) (w : FW) (recv : PVal) (m : String) (args : List PVal) (kw : List (String × PVal))
    (star : PVal) : CallRes FW :=
  match recv with
  | .inst _ p pid =>
    if m = "destroySelf" ∧ args = [] ∧ kw = [] ∧ star = .none then destroyCallT X T w p pid else .stuck
  | _ => .stuck

/-- the interface of `Model/FailInhX.lean` with `super()._create` and `_parent.destroySelf()` RUN, not assumed -/
def xIfaceT (X : Ctx) (T : Tr) (C : Construct) (self : PVal) : Iface FW :=
  { self := self
    attrOf := xAttrOf X
    setAttrOf := xSetAttrOf
    hasattr := fun _ => xHasattr X
    global := fun n => if n = "sqlbuilder.NoDefault" then some noDefault else none
    isinstance := fun _ => xIsinstance
    call := xCallT X T
    callFn := xCallFn C
    super := xSuperT X T self
    fuel := fun _ => 0 }

/-- `<new instance of class c>._create(id, **kw)`, composed -/
def createXT (X : Ctx) (T : Tr) (C : Construct) (w : FW) (c : Nat) (idv kw : PVal) : CallRes FW :=
  PyInh.run (xIfaceT X T C (newInst c)) PyInh.Extracted.createProg [idv, kw] PyInh.Extracted.create_nlocals w

/-- the translated `_create` calling itself through the constructor of the parent class (`n` bounds the depth) -/
def createNT (X : Ctx) (T : Tr) : Nat → FW → Nat → PVal → PVal → CallRes FW
  | 0 => fun _ _ _ _ => .stuck
  | n + 1 => fun w c idv kw => createXT X T (constructOf (createNT X T n)) w c idv kw

/-! ### what a Python call can express, per level -/

/-- the keywords level `c` hands to `SQLObject._create` name pairwise distinct columns of `c`, and no column without
    default and without defaultSQL is left out -/
def LevelOk (X : Ctx) (T : Tr) (c : Nat) (es : List (PVal × PVal)) (tag : Option Nat) : Prop :=
  ((kwList X c (es.filter (fun e => keyIn [c] e.1) ++ tagEntry X tag)).map (·.1)).Nodup ∧
  (∀ e ∈ kwList X c (es.filter (fun e => keyIn [c] e.1) ++ tagEntry X tag), e.1 < (clsOf X.sch c).cols.length) ∧
  PyCreate.missingOf (T.dflt c) (T.dsql c) (clsOf X.sch c).cols.length
    (kwList X c (es.filter (fun e => keyIn [c] e.1) ++ tagEntry X tag)) = false

instance (X : Ctx) (T : Tr) (c : Nat) (es : List (PVal × PVal)) (tag : Option Nat) : Decidable (LevelOk X T c es tag) := by
  unfold LevelOk; infer_instance

/-- … at every level of the chain (leaf first; `tag`: the `childName` entry the level below appends) -/
def LevelsOk (X : Ctx) (T : Tr) : List Nat → List (PVal × PVal) → Option Nat → Prop
  | [], _, _ => True
  | c :: rest, es, tag => LevelOk X T c es tag ∧ LevelsOk X T rest es (some c)

instance decLevelsOk (X : Ctx) (T : Tr) : (L : List Nat) → (es : List (PVal × PVal)) → (tag : Option Nat) →
    Decidable (LevelsOk X T L es tag)
  | [], _, _ => isTrue trivial
  | c :: rest, es, tag =>
    have := decLevelsOk X T rest es (some c)
    by unfold LevelsOk; infer_instance

end SqlObjVerif.Fail.InhX
