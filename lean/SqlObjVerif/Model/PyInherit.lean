/-!
# PyInherit — a deep embedding of the Python fragment `sqlobject/inheritance/__init__.py:InheritableSQLObject`
is written in

`vlib/extractors/pyinherit.py` TRANSLATES `InheritableSQLObject.destroySelf / deleteMany / deleteBy / _create /
get` from /repo's AST into `Block`s of this language on every run (`Extracted/PyInherit.lean`).  This file is the
fixed vocabulary and its reference semantics (same design as `Model/PyTx.lean`, extended).

The interpreter is generic in the type `W` of worlds.  Everything the translated code does to objects other than
its own locals goes through an `Iface W` — the PARAMETERS of the interpreter:
* `self`                : the value of `self` (instance methods) / `cls` (class methods);
* `attrOf / setAttrOf`  : `v.a.b` read / `v.a = x` for `self`, `cls` or the object a local holds;
* `hasattr`             : `hasattr(v, name)`;
* `global`, `isinstance`: module constants (`sqlbuilder.NoDefault`), `isinstance(v, <dotted name>)`;
* `call`                : a method call `recv.m(args, k=v, **star)`;
* `callFn`              : a call `f(args, k=v)` of a value (calling a class: the constructor);
* `super`               : `super(InheritableSQLObject, self).m(args, k=v, **star)`: the method of the base class
                          `SQLObject` applied to this very `self` / `cls`;
  each of the three may change the world, return a value or raise;
* `fuel`                : a bound on the number of iterations of a `while` loop (a loop that needs more is `stuck`,
                          so a theorem `translated = model` also shows the bound suffices).
`Model/InheritX.lean` instantiates the interface with the hand model's per-level functions.

Python features covered: locals (numbered in order of first binding, parameters first), constants, pairs,
lists / 1-tuples (cons cells), dict VALUES (lists of `(key, value)` pairs in insertion order: `{}`, `d[k]`,
`d[k] = v` on a dict local, `k in d`, `d.items()`, truthiness), `list(e)`, `is` / `==` / `!=`, `if`,
`for x in e`, `for x, y in e` (the iterated list is computed when the loop is entered), `while`,
`try/except <class>/else`, bare `raise`, `raise <class>(…)`, `return`.  Exceptions carry their class (as far as the
handlers of the fragment tell classes apart) and an identity.
-/
namespace SqlObjVerif.PyInh

inductive Val where
  | none
  | bool (b : Bool)
  /-- a column value -/
  | int (n : Int)
  /-- a row id -/
  | nat (n : Nat)
  | str (s : String)
  /-- the keyword / attribute name of column `k` declared by class `a` -/
  | name (a k : Nat)
  /-- a class object -/
  | cls (c : Nat)
  /-- a connection object -/
  | conn (k : Nat)
  /-- the instance of class `c` with id `i` bound to connection `k` -/
  | inst (k c i : Nat)
  /-- any other object handle: `kind` says what it is (the instantiation decides), `id` which one -/
  | ref (kind id : Nat)
  | pair (a b : Val)
  | nil
  | cons (h t : Val)
deriving Repr, DecidableEq

def Val.ofList : List Val → Val
  | [] => .nil
  | v :: l => .cons v (Val.ofList l)

def Val.toList : Val → Option (List Val)
  | .nil => some []
  | .cons h t => match Val.toList t with
    | some l => some (h :: l)
    | Option.none => Option.none
  | _ => Option.none

def Val.isNone : Val → Bool
  | .none => true
  | _ => false

/-- exception classes, as far as the fragment's handlers (and the hand model's outcomes) distinguish them -/
inductive ExcCls where
  | typeError | keyError | attributeError
  /-- `SQLObjectNotFound` -/
  | notFound
  /-- `SQLObjectIntegrityError` -/
  | integrity
  /-- any other subclass of `Exception` -/
  | exception
  /-- a `BaseException` that is not an `Exception` (KeyboardInterrupt, SystemExit, GeneratorExit) -/
  | baseOnly
deriving Repr, DecidableEq

structure Exc where
  cls : ExcCls
  id : Nat
deriving Repr, DecidableEq

/-- the class named in an `except` clause -/
inductive ExcPat where
  | typeError | keyError | attributeError | exception | baseException
deriving Repr, DecidableEq

def ExcPat.catches : ExcPat → Exc → Bool
  | .baseException, _ => true
  | .exception, e => e.cls != .baseOnly
  | .typeError, e => e.cls == .typeError
  | .keyError, e => e.cls == .keyError
  | .attributeError, e => e.cls == .attributeError

inductive R (α : Type) where
  | ok (a : α)
  | exc (e : Exc)
  /-- outside the fragment / outside the interface -/
  | stuck

/-- how a call into another object ends -/
inductive CallRes (W : Type) where
  | ret (w : W) (v : Val)
  | exc (w : W) (e : Exc)
  | stuck

structure Iface (W : Type) where
  self : Val
  attrOf : W → Val → List String → R Val
  setAttrOf : W → Val → List String → Val → Option W
  hasattr : W → Val → Val → Option Bool
  global : String → Option Val
  isinstance : W → Val → String → Option Bool
  call : W → Val → String → List Val → List (String × Val) → Val → CallRes W
  callFn : W → Val → List Val → List (String × Val) → CallRes W
  super : W → String → List Val → List (String × Val) → Val → CallRes W
  fuel : W → Nat

/-! ### dict values: a list of `(key, value)` pairs in insertion order -/

def vdGet (k : Val) : Val → Option Val
  | .cons (.pair k' v) t => if k' = k then some v else vdGet k t
  | _ => Option.none

def vdHas (k : Val) (d : Val) : Bool := (vdGet k d).isSome

/-- `d[k] = v` -/
def vdSet (k v : Val) : Val → Val
  | .cons (.pair k' v') t => if k' = k then .cons (.pair k v) t else .cons (.pair k' v') (vdSet k v t)
  | _ => .cons (.pair k v) .nil

def isListVal : Val → Bool
  | .nil => true
  | .cons _ t => isListVal t
  | _ => false

inductive Expr where
  | var (x : Nat)
  | const (v : Val)
  /-- `self` / `cls` -/
  | self
  | attrOf (e : Expr) (path : List String)      -- `e.a.b`
  | global (name : String)                      -- `sqlbuilder.NoDefault`
  | pair (a b : Expr)                           -- `(a, b)`
  | tuple1 (e : Expr)                           -- `(e,)`
  | listOf (e : Expr)                           -- `list(e)`
  | items (e : Expr)                            -- `e.items()` of a dict value
  | subscript (d k : Expr)                      -- `d[k]` of a dict value (KeyError)
  | emptyList
  | emptyDict

inductive Exprs where
  | nil
  | cons (e : Expr) (rest : Exprs)

inductive Cond where
  | truthy (e : Expr)
  | isNone (e : Expr)
  | isNotNone (e : Expr)
  | is (a b : Expr)                             -- `a is b` (values with an identity: constants, handles)
  | eq (a b : Expr)
  | ne (a b : Expr)
  | isinstance (e : Expr) (cls : String)
  | inDict (k d : Expr)                         -- `k in d` for a dict value
  | hasattr (e n : Expr)
  | not (c : Cond)
  | and (c d : Cond)
  | or (c d : Cond)

mutual
inductive Stmt where
  | assign (x : Nat) (e : Expr)
  | setAttr (obj : Expr) (path : List String) (e : Expr)     -- `obj.a = e`
  | setItem (x : Nat) (k v : Expr)                           -- `x[k] = v` for a dict local
  | call (x : Option Nat) (recv : Expr) (m : String) (args : Exprs) (kwn : List String) (kwv : Exprs) (star : Option Expr)
  | callFn (x : Option Nat) (f : Expr) (args : Exprs) (kwn : List String) (kwv : Exprs)
  | superCall (x : Option Nat) (m : String) (args : Exprs) (kwn : List String) (kwv : Exprs) (star : Option Expr)
  | ite (c : Cond) (t e : Block)
  | for1 (x : Nat) (it : Expr) (body : Block)            -- `for x in it:`
  | for2 (x y : Nat) (it : Expr) (body : Block)          -- `for x, y in it:`
  | while (c : Cond) (body : Block)
  | tryExcept (body : Block) (pat : ExcPat) (handler orelse : Block)
  | reraise                                              -- bare `raise`
  | raise (cls : ExcCls)                                 -- `raise TypeError(…)`
  | ret (e : Expr)
  | retNone
  | pass
inductive Block where
  | nil
  | cons (s : Stmt) (rest : Block)
end

abbrev Env := List (Option Val)

def Env.get (env : Env) (x : Nat) : Option Val :=
  match env[x]? with
  | some (some v) => some v
  | _ => Option.none

def Expr.eval {W : Type} (I : Iface W) (w : W) (env : Env) : Expr → R Val
  | .var x => match env.get x with
    | some v => .ok v
    | Option.none => .stuck
  | .const v => .ok v
  | .self => .ok I.self
  | .attrOf e path => match e.eval I w env with
    | .ok v => I.attrOf w v path
    | r => r
  | .global name => match I.global name with
    | some v => .ok v
    | Option.none => .stuck
  | .pair a b => match a.eval I w env with
    | .ok x => (match b.eval I w env with
      | .ok y => .ok (.pair x y)
      | r => r)
    | r => r
  | .tuple1 e => match e.eval I w env with
    | .ok v => .ok (.cons v .nil)
    | r => r
  | .listOf e => match e.eval I w env with
    | .ok v => if isListVal v then .ok v else .stuck
    | r => r
  | .items e => match e.eval I w env with
    | .ok v => if isListVal v then .ok v else .stuck
    | r => r
  | .subscript d k => match d.eval I w env with
    | .ok dv => (match k.eval I w env with
      | .ok kv =>
        if isListVal dv then
          (match vdGet kv dv with
           | some v => .ok v
           | Option.none => .exc ⟨.keyError, 0⟩)
        else .stuck
      | r => r)
    | r => r
  | .emptyList => .ok .nil
  | .emptyDict => .ok .nil

def Exprs.eval {W : Type} (I : Iface W) (w : W) (env : Env) : Exprs → R (List Val)
  | .nil => .ok []
  | .cons e rest => match e.eval I w env with
    | .ok v => (match rest.eval I w env with
      | .ok vs => .ok (v :: vs)
      | r => r)
    | .exc e => .exc e
    | .stuck => .stuck

/-- `bool(v)`; objects of the fragment are truthy -/
def pyBool : Val → Bool
  | .none => false
  | .bool b => b
  | .int n => n != 0
  | .nat n => n != 0
  | .str s => s != ""
  | .nil => false
  | _ => true

/-- evaluate two expressions left to right -/
def eval2 {W : Type} (I : Iface W) (w : W) (env : Env) (a b : Expr) : R (Val × Val) :=
  match a.eval I w env with
  | .ok x => (match b.eval I w env with
    | .ok y => .ok (x, y)
    | .exc e => .exc e
    | .stuck => .stuck)
  | .exc e => .exc e
  | .stuck => .stuck

def Cond.eval {W : Type} (I : Iface W) (w : W) (env : Env) : Cond → R Bool
  | .truthy e => match e.eval I w env with
    | .ok v => .ok (pyBool v)
    | .exc e => .exc e
    | .stuck => .stuck
  | .isNone e => match e.eval I w env with
    | .ok v => .ok v.isNone
    | .exc e => .exc e
    | .stuck => .stuck
  | .isNotNone e => match e.eval I w env with
    | .ok v => .ok (!v.isNone)
    | .exc e => .exc e
    | .stuck => .stuck
  | .is a b => match eval2 I w env a b with
    | .ok p => .ok (decide (p.1 = p.2))
    | .exc e => .exc e
    | .stuck => .stuck
  | .eq a b => match eval2 I w env a b with
    | .ok p => .ok (decide (p.1 = p.2))
    | .exc e => .exc e
    | .stuck => .stuck
  | .ne a b => match eval2 I w env a b with
    | .ok p => .ok (!decide (p.1 = p.2))
    | .exc e => .exc e
    | .stuck => .stuck
  | .isinstance e cls => match e.eval I w env with
    | .ok v => (match I.isinstance w v cls with
      | some b => .ok b
      | Option.none => .stuck)
    | .exc e => .exc e
    | .stuck => .stuck
  | .inDict k d => match eval2 I w env k d with
    | .ok p => if isListVal p.2 then .ok (vdHas p.1 p.2) else .stuck
    | .exc e => .exc e
    | .stuck => .stuck
  | .hasattr e n => match eval2 I w env e n with
    | .ok p => (match I.hasattr w p.1 p.2 with
      | some b => .ok b
      | Option.none => .stuck)
    | .exc e => .exc e
    | .stuck => .stuck
  | .not c => match c.eval I w env with
    | .ok b => .ok (!b)
    | r => r
  | .and c d => match c.eval I w env with
    | .ok true => d.eval I w env
    | r => r
  | .or c d => match c.eval I w env with
    | .ok false => d.eval I w env
    | r => r

structure St (W : Type) where
  w : W
  vars : Env

def St.setVar {W : Type} (st : St W) (x : Nat) (v : Val) : St W := { st with vars := st.vars.set x (some v) }

def St.setOpt {W : Type} (st : St W) (x : Option Nat) (v : Val) : St W :=
  match x with
  | some x => st.setVar x v
  | Option.none => st

/-- how a statement ends -/
inductive Res (W : Type) where
  | norm (st : St W)
  | ret (st : St W) (v : Val)
  | exc (st : St W) (e : Exc)
  | stuck

def forLoop {W α : Type} (f : St W → α → Res W) : List α → St W → Res W
  | [], st => .norm st
  | v :: vs, st => match f st v with
    | .norm st' => forLoop f vs st'
    | r => r

/-- the body of `for x, y in …` applied to one element -/
def pairBody {W : Type} (f : St W → Val → Val → Res W) (st : St W) (a : Val) : Res W :=
  match a with
  | .pair p q => f st p q
  | _ => .stuck

/-- `while c: body` with at most `fuel` iterations -/
def whileLoop {W : Type} (c : St W → R Bool) (f : St W → Res W) : Nat → St W → Res W
  | 0, _ => .stuck
  | n + 1, st => match c st with
    | .ok true => (match f st with
      | .norm st' => whileLoop c f n st'
      | r => r)
    | .ok false => .norm st
    | .exc e => .exc st e
    | .stuck => .stuck

/-- the caller's view of a finished call -/
def afterCall {W : Type} (r : CallRes W) (st : St W) (x : Option Nat) : Res W :=
  match r with
  | .ret w v => .norm ({ st with w := w }.setOpt x v)
  | .exc w e => .exc { st with w := w } e
  | .stuck => .stuck

def zipKw : List String → List Val → List (String × Val)
  | n :: ns, v :: vs => (n, v) :: zipKw ns vs
  | _, _ => []

/-- the `**star` argument: `none` (Python: absent) or the value given (what it may be is the interface's business) -/
def evalStar {W : Type} (I : Iface W) (w : W) (env : Env) : Option Expr → R Val
  | Option.none => .ok .none
  | some e => e.eval I w env

/-- evaluated call arguments -/
structure Args where
  pos : List Val
  kw : List (String × Val)
  star : Val

def evalArgs {W : Type} (I : Iface W) (w : W) (env : Env) (args : Exprs) (kwn : List String) (kwv : Exprs)
    (star : Option Expr) : R Args :=
  match args.eval I w env with
  | .ok as => (match kwv.eval I w env with
    | .ok ks => (match evalStar I w env star with
      | .ok s => .ok ⟨as, zipKw kwn ks, s⟩
      | .exc e => .exc e
      | .stuck => .stuck)
    | .exc e => .exc e
    | .stuck => .stuck)
  | .exc e => .exc e
  | .stuck => .stuck

mutual
/-- `cur`: the exception being handled (what a bare `raise` re-raises) -/
def Stmt.exec {W : Type} (I : Iface W) (cur : Option Exc) (st : St W) : Stmt → Res W
  | .assign x e => match e.eval I st.w st.vars with
    | .ok v => .norm (st.setVar x v)
    | .exc e => .exc st e
    | .stuck => .stuck
  | .setAttr obj path e => match eval2 I st.w st.vars obj e with
    | .ok p => (match I.setAttrOf st.w p.1 path p.2 with
      | some w' => .norm { st with w := w' }
      | Option.none => .stuck)
    | .exc e => .exc st e
    | .stuck => .stuck
  | .setItem x k v => match st.vars.get x, eval2 I st.w st.vars k v with
    | some d, .ok p => if isListVal d then .norm (st.setVar x (vdSet p.1 p.2 d)) else .stuck
    | some _, .exc e => .exc st e
    | _, _ => .stuck
  | .call x recv m args kwn kwv star =>
    match recv.eval I st.w st.vars with
    | .ok r => (match evalArgs I st.w st.vars args kwn kwv star with
      | .ok a => afterCall (I.call st.w r m a.pos a.kw a.star) st x
      | .exc e => .exc st e
      | .stuck => .stuck)
    | .exc e => .exc st e
    | .stuck => .stuck
  | .callFn x f args kwn kwv =>
    match f.eval I st.w st.vars with
    | .ok fv => (match evalArgs I st.w st.vars args kwn kwv Option.none with
      | .ok a => afterCall (I.callFn st.w fv a.pos a.kw) st x
      | .exc e => .exc st e
      | .stuck => .stuck)
    | .exc e => .exc st e
    | .stuck => .stuck
  | .superCall x m args kwn kwv star =>
    match evalArgs I st.w st.vars args kwn kwv star with
    | .ok a => afterCall (I.super st.w m a.pos a.kw a.star) st x
    | .exc e => .exc st e
    | .stuck => .stuck
  | .ite c t e => match c.eval I st.w st.vars with
    | .ok true => t.exec I cur st
    | .ok false => e.exec I cur st
    | .exc e => .exc st e
    | .stuck => .stuck
  | .for1 x it body => match it.eval I st.w st.vars with
    | .ok v => (match v.toList with
      | some l => forLoop (fun st a => body.exec I cur (st.setVar x a)) l st
      | Option.none => .stuck)
    | .exc e => .exc st e
    | .stuck => .stuck
  | .for2 x y it body => match it.eval I st.w st.vars with
    | .ok v => (match v.toList with
      | some l => forLoop (pairBody fun st p q => body.exec I cur ((st.setVar x p).setVar y q)) l st
      | Option.none => .stuck)
    | .exc e => .exc st e
    | .stuck => .stuck
  | .while c body =>
    whileLoop (fun st => c.eval I st.w st.vars) (fun st => body.exec I cur st) (I.fuel st.w) st
  | .tryExcept body pat handler orelse => match body.exec I cur st with
    | .norm st' => orelse.exec I cur st'
    | .exc st' e => if pat.catches e then handler.exec I (some e) st' else .exc st' e
    | r => r
  | .reraise => match cur with
    | some e => .exc st e
    | Option.none => .stuck
  | .raise cls => .exc st ⟨cls, 0⟩
  | .ret e => match e.eval I st.w st.vars with
    | .ok v => .ret st v
    | .exc e => .exc st e
    | .stuck => .stuck
  | .retNone => .ret st .none
  | .pass => .norm st
def Block.exec {W : Type} (I : Iface W) (cur : Option Exc) (st : St W) : Block → Res W
  | .nil => .norm st
  | .cons s rest => match s.exec I cur st with
    | .norm st' => rest.exec I cur st'
    | r => r
end

def Res.toCall {W : Type} : Res W → CallRes W
  | .norm st => .ret st.w .none          -- falling off the end returns None
  | .ret st v => .ret st.w v
  | .exc st e => .exc st.w e
  | .stuck => .stuck

/-- call a method: `args` are the parameters after `self` / `cls` (a `**kw` parameter: the dict value),
    `nlocals` the number of other locals -/
def run {W : Type} (I : Iface W) (prog : Block) (args : List Val) (nlocals : Nat) (w : W) : CallRes W :=
  (prog.exec I Option.none { w := w, vars := args.map some ++ List.replicate nlocals Option.none }).toCall

end SqlObjVerif.PyInh
