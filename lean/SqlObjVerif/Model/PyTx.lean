/-!
# PyTx — a deep embedding of the Python fragment the transaction code of `dbconnection.py` is written in

`vlib/extractors/pytx.py` TRANSLATES `ConnectionHub.doInTransaction` and `Transaction.commit / rollback /
begin / _makeObsolete / assertActive / _SO_delete` from /repo's AST into `Block`s of this language on
every run (`Extracted/PyTx.lean`).  This file is the fixed vocabulary and its reference semantics.

The interpreter is generic in the type `W` of worlds.  Everything the translated code does to objects
other than its own locals goes through an `Iface W` — the PARAMETERS of the interpreter:
* `getAttr / setAttr`  : `self.a.b` read / `self.a.b = v`;
* `attrOf`             : `v.a.b` of another object;
* `global`, `isinstance`: module constants (`PY2`), `isinstance(v, <name>)`;
* `query`              : a method call that does not change the world (`sub.allIDs()`,
                         `cache.tryGetByName(id, cls)`, …; which names are queries is fixed in the translator);
* `call`, `callFn`     : a method call `recv.m(args, kw=…)` / a call `f(args)` of a function value, which may
                         change the world, return a value or raise.
`Model/HubX.lean` and `Model/TxX.lean` instantiate the interface with the hand models' functions.

Python features covered: locals (numbered in order of first binding, parameters first), constants,
tuples of two, list values (cons cells), `e[0]`/`e[1]`, `list(e)`, `d.items()`, list comprehensions over
one iterable, dict-valued attributes of `self` holding lists (`k in self.d`, `self.d[k] = []`,
`self.d[k].append(v)`, `self.d = {}`), `x.extend(e)` on a list local, `if`, `for x in e`, `for x, y in e`
(the iterated list is computed when the loop is entered), `try/except <class>/else`, `try/finally`, bare
`raise`, `assert`, `return`.  Exceptions carry their class (as far as the handlers of the fragment tell
classes apart) and an identity.
-/
namespace SqlObjVerif.PyTx

inductive Val where
  | none
  | bool (b : Bool)
  | int (n : Nat)
  | str (s : String)
  /-- an object handle: `kind` says what it is (the instantiation decides), `id` which one -/
  | ref (kind id : Nat)
  /-- `types.MethodType(self.<…>.<name>.__func__, self)`: a function of another class bound to `self` -/
  | meth (name : String)
  | pair (a b : Val)
  | nil
  | cons (h t : Val)
deriving Repr, DecidableEq

def Val.ofList : List Val → Val
  | [] => .nil
  | v :: l => .cons v (Val.ofList l)

def Val.toList : Val → Option (List Val)
  | .nil => some []
  | .cons h t => match Val.toList t with
    | some l => some (h :: l)
    | Option.none => Option.none
  | _ => Option.none

def Val.isNone : Val → Bool
  | .none => true
  | _ => false

/-- exception classes, as far as the fragment's handlers distinguish them -/
inductive ExcCls where
  | attributeError | assertionError | keyError | typeError
  /-- any other subclass of `Exception` -/
  | exception
  /-- a `BaseException` that is not an `Exception` (KeyboardInterrupt, SystemExit, GeneratorExit) -/
  | baseOnly
deriving Repr, DecidableEq

structure Exc where
  cls : ExcCls
  id : Nat
deriving Repr, DecidableEq

/-- the class named in an `except` clause -/
inductive ExcPat where
  | attributeError | keyError | assertionError | exception | baseException
deriving Repr, DecidableEq

def ExcPat.catches : ExcPat → Exc → Bool
  | .baseException, _ => true
  | .exception, e => e.cls != .baseOnly
  | .attributeError, e => e.cls == .attributeError
  | .keyError, e => e.cls == .keyError
  | .assertionError, e => e.cls == .assertionError

inductive R (α : Type) where
  | ok (a : α)
  | exc (e : Exc)
  /-- outside the fragment / outside the interface -/
  | stuck

/-- how a call into another object ends -/
inductive CallRes (W : Type) where
  | ret (w : W) (v : Val)
  | exc (w : W) (e : Exc)
  | stuck

structure Iface (W : Type) where
  self : Val
  getAttr : W → List String → R Val
  setAttr : W → List String → Val → Option W
  attrOf : W → Val → List String → R Val
  global : String → Option Val
  isinstance : Val → String → Option Bool
  query : W → Val → String → List Val → R Val
  call : W → Val → String → List Val → List (String × Val) → CallRes W
  callFn : W → Val → List Val → CallRes W

/-! ### dict values: a list of `(key, value)` pairs in insertion order -/

def vdGet (k : Val) : Val → Option Val
  | .cons (.pair k' v) t => if k' = k then some v else vdGet k t
  | _ => Option.none

def vdHas (k : Val) (d : Val) : Bool := (vdGet k d).isSome

/-- `d[k] = v` -/
def vdSet (k v : Val) : Val → Val
  | .cons (.pair k' v') t => if k' = k then .cons (.pair k v) t else .cons (.pair k' v') (vdSet k v t)
  | _ => .cons (.pair k v) .nil

/-- `l + [v]` -/
def vlSnoc (v : Val) : Val → Val
  | .cons h t => .cons h (vlSnoc v t)
  | _ => .cons v .nil

/-- `l + m` -/
def vlAppend (m : Val) : Val → Val
  | .cons h t => .cons h (vlAppend m t)
  | _ => m

def isListVal : Val → Bool
  | .nil => true
  | .cons _ t => isListVal t
  | _ => false

mutual
/-- expressions: none of them changes the world -/
inductive Expr where
  | var (x : Nat)
  | const (v : Val)
  | self
  | selfAttr (path : List String)               -- `self.a.b`
  | attrOf (e : Expr) (path : List String)      -- `e.a.b`
  | global (name : String)
  | query (recv : Expr) (m : String) (args : Exprs)   -- `recv.m(args)`, a call that changes nothing
  | pair (a b : Expr)                           -- `(a, b)`
  | idx (e : Expr) (i : Nat)                    -- `e[0]`, `e[1]` of a pair
  | listOf (e : Expr)                           -- `list(e)`
  | items (e : Expr)                            -- `e.items()` of a dict value
  | comp (x : Nat) (it elem : Expr)             -- `[elem for x in it]`
  | methodType (path : List String)             -- `types.MethodType(self.<path>.__func__, self)`
  | emptyList
inductive Exprs where
  | nil
  | cons (e : Expr) (rest : Exprs)
end

inductive Cond where
  | truthy (e : Expr)
  | isNone (e : Expr)
  | isNotNone (e : Expr)
  | isinstance (e : Expr) (cls : String)
  | inDict (k d : Expr)                         -- `k in d` for a dict value
  | not (c : Cond)
  | and (c d : Cond)
  | or (c d : Cond)

mutual
inductive Stmt where
  | assign (x : Nat) (e : Expr)
  | setAttr (path : List String) (e : Expr)              -- `self.a.b = e`
  | setItem (path : List String) (k v : Expr)            -- `self.a[k] = v`
  | itemAppend (path : List String) (k v : Expr)         -- `self.a[k].append(v)`
  | extend (x : Nat) (e : Expr)                          -- `x.extend(e)` for a list local
  | call (x : Option Nat) (recv : Expr) (m : String) (args : Exprs) (kwn : List String) (kwv : Exprs)
  | callFn (x : Option Nat) (f : Expr) (args : Exprs)    -- `[x =] f(args)`
  | applyStar (x : Option Nat) (f a k : Nat)             -- `[x =] f(*a, **k)`
  | ite (c : Cond) (t e : Block)
  | for1 (x : Nat) (it : Expr) (body : Block)            -- `for x in it:`
  | for2 (x y : Nat) (it : Expr) (body : Block)          -- `for x, y in it:`
  | tryExcept (body : Block) (pat : ExcPat) (handler orelse : Block)
  | tryFinally (body fin : Block)
  | reraise                                              -- bare `raise`
  | assert (c : Cond)
  | ret (e : Expr)
  | retNone
  | pass
inductive Block where
  | nil
  | cons (s : Stmt) (rest : Block)
end

abbrev Env := List (Option Val)

def Env.get (env : Env) (x : Nat) : Option Val :=
  match env[x]? with
  | some (some v) => some v
  | _ => Option.none

/-- bind local `x` (the environment grows if it has no slot `x` yet) -/
def Env.put (env : Env) (x : Nat) (v : Val) : Env :=
  if x < env.length then env.set x (some v) else env ++ List.replicate (x - env.length) Option.none ++ [some v]

/-- map a function that may fail over a list, left to right -/
def mapR (f : Val → R Val) : List Val → R (List Val)
  | [] => .ok []
  | v :: l => match f v with
    | .ok a => (match mapR f l with
      | .ok as => .ok (a :: as)
      | .exc e => .exc e
      | .stuck => .stuck)
    | .exc e => .exc e
    | .stuck => .stuck

mutual
def Expr.eval {W : Type} (I : Iface W) (w : W) (env : Env) : Expr → R Val
  | .var x => match env.get x with
    | some v => .ok v
    | Option.none => .stuck
  | .const v => .ok v
  | .self => .ok I.self
  | .selfAttr path => I.getAttr w path
  | .attrOf e path => match e.eval I w env with
    | .ok v => I.attrOf w v path
    | r => r
  | .global name => match I.global name with
    | some v => .ok v
    | Option.none => .stuck
  | .query recv m args => match recv.eval I w env with
    | .ok r => (match args.eval I w env with
      | .ok vs => I.query w r m vs
      | .exc e => .exc e
      | .stuck => .stuck)
    | r => r
  | .pair a b => match a.eval I w env with
    | .ok x => (match b.eval I w env with
      | .ok y => .ok (.pair x y)
      | r => r)
    | r => r
  | .idx e i => match e.eval I w env with
    | .ok (.pair a b) => if i = 0 then .ok a else if i = 1 then .ok b else .stuck
    | .ok _ => .stuck
    | r => r
  | .listOf e => match e.eval I w env with
    | .ok v => if isListVal v then .ok v else .stuck
    | r => r
  | .items e => match e.eval I w env with
    | .ok v => if isListVal v then .ok v else .stuck
    | r => r
  | .comp x it elem => match it.eval I w env with
    | .ok v => (match v.toList with
      | some l => (match mapR (fun a => elem.eval I w (env.put x a)) l with
        | .ok as => .ok (Val.ofList as)
        | .exc e => .exc e
        | .stuck => .stuck)
      | Option.none => .stuck)
    | r => r
  | .methodType path => match path.getLast? with
    | some n => .ok (.meth n)
    | Option.none => .stuck
  | .emptyList => .ok .nil
def Exprs.eval {W : Type} (I : Iface W) (w : W) (env : Env) : Exprs → R (List Val)
  | .nil => .ok []
  | .cons e rest => match e.eval I w env with
    | .ok v => (match rest.eval I w env with
      | .ok vs => .ok (v :: vs)
      | r => r)
    | .exc e => .exc e
    | .stuck => .stuck
end

/-- `bool(v)`; objects of the fragment are truthy -/
def pyBool : Val → Bool
  | .none => false
  | .bool b => b
  | .int n => n != 0
  | .str s => s != ""
  | .nil => false
  | _ => true

def Cond.eval {W : Type} (I : Iface W) (w : W) (env : Env) : Cond → R Bool
  | .truthy e => match e.eval I w env with
    | .ok v => .ok (pyBool v)
    | .exc e => .exc e
    | .stuck => .stuck
  | .isNone e => match e.eval I w env with
    | .ok v => .ok v.isNone
    | .exc e => .exc e
    | .stuck => .stuck
  | .isNotNone e => match e.eval I w env with
    | .ok v => .ok (!v.isNone)
    | .exc e => .exc e
    | .stuck => .stuck
  | .isinstance e cls => match e.eval I w env with
    | .ok v => (match I.isinstance v cls with
      | some b => .ok b
      | Option.none => .stuck)
    | .exc e => .exc e
    | .stuck => .stuck
  | .inDict k d => match k.eval I w env with
    | .ok kv => (match d.eval I w env with
      | .ok dv => if isListVal dv then .ok (vdHas kv dv) else .stuck
      | .exc e => .exc e
      | .stuck => .stuck)
    | .exc e => .exc e
    | .stuck => .stuck
  | .not c => match c.eval I w env with
    | .ok b => .ok (!b)
    | r => r
  | .and c d => match c.eval I w env with
    | .ok true => d.eval I w env
    | r => r
  | .or c d => match c.eval I w env with
    | .ok false => d.eval I w env
    | r => r

structure St (W : Type) where
  w : W
  vars : Env

def St.setVar {W : Type} (st : St W) (x : Nat) (v : Val) : St W := { st with vars := st.vars.set x (some v) }

def St.setOpt {W : Type} (st : St W) (x : Option Nat) (v : Val) : St W :=
  match x with
  | some x => st.setVar x v
  | Option.none => st

/-- how a statement ends -/
inductive Res (W : Type) where
  | norm (st : St W)
  | ret (st : St W) (v : Val)
  | exc (st : St W) (e : Exc)
  | stuck

def forLoop {W α : Type} (f : St W → α → Res W) : List α → St W → Res W
  | [], st => .norm st
  | v :: vs, st => match f st v with
    | .norm st' => forLoop f vs st'
    | r => r

/-- the body of `for x, y in …` applied to one element -/
def pairBody {W : Type} (f : St W → Val → Val → Res W) (st : St W) (a : Val) : Res W :=
  match a with
  | .pair p q => f st p q
  | _ => .stuck

/-- the caller's view of a finished call -/
def afterCall {W : Type} (r : CallRes W) (st : St W) (x : Option Nat) : Res W :=
  match r with
  | .ret w v => .norm ({ st with w := w }.setOpt x v)
  | .exc w e => .exc { st with w := w } e
  | .stuck => .stuck

def zipKw : List String → List Val → List (String × Val)
  | n :: ns, v :: vs => (n, v) :: zipKw ns vs
  | _, _ => []

mutual
/-- `cur`: the exception being handled (what a bare `raise` re-raises) -/
def Stmt.exec {W : Type} (I : Iface W) (cur : Option Exc) (st : St W) : Stmt → Res W
  | .assign x e => match e.eval I st.w st.vars with
    | .ok v => .norm (st.setVar x v)
    | .exc e => .exc st e
    | .stuck => .stuck
  | .setAttr path e => match e.eval I st.w st.vars with
    | .ok v => (match I.setAttr st.w path v with
      | some w' => .norm { st with w := w' }
      | Option.none => .stuck)
    | .exc e => .exc st e
    | .stuck => .stuck
  | .setItem path k v => match I.getAttr st.w path, k.eval I st.w st.vars, v.eval I st.w st.vars with
    | .ok d, .ok kv, .ok vv =>
      if isListVal d then
        (match I.setAttr st.w path (vdSet kv vv d) with
         | some w' => .norm { st with w := w' }
         | Option.none => .stuck)
      else .stuck
    | _, _, _ => .stuck
  | .itemAppend path k v => match I.getAttr st.w path, k.eval I st.w st.vars, v.eval I st.w st.vars with
    | .ok d, .ok kv, .ok vv =>
      (match vdGet kv d with
       | some l =>
         if isListVal l then
           (match I.setAttr st.w path (vdSet kv (vlSnoc vv l) d) with
            | some w' => .norm { st with w := w' }
            | Option.none => .stuck)
         else .stuck
       | Option.none => if isListVal d then .exc st ⟨.keyError, 0⟩ else .stuck)
    | _, _, _ => .stuck
  | .extend x e => match st.vars.get x, e.eval I st.w st.vars with
    | some l, .ok m => if isListVal l && isListVal m then .norm (st.setVar x (vlAppend m l)) else .stuck
    | some _, .exc e => .exc st e
    | _, _ => .stuck
  | .call x recv m args kwn kwv =>
    match recv.eval I st.w st.vars, args.eval I st.w st.vars, kwv.eval I st.w st.vars with
    | .ok r, .ok as, .ok ks => afterCall (I.call st.w r m as (zipKw kwn ks)) st x
    | .exc e, _, _ => .exc st e
    | .ok _, .exc e, _ => .exc st e
    | .ok _, .ok _, .exc e => .exc st e
    | _, _, _ => .stuck
  | .callFn x f args => match f.eval I st.w st.vars, args.eval I st.w st.vars with
    | .ok fv, .ok as => afterCall (I.callFn st.w fv as) st x
    | .exc e, _ => .exc st e
    | .ok _, .exc e => .exc st e
    | _, _ => .stuck
  | .applyStar x f a k => match st.vars.get f, st.vars.get a, st.vars.get k with
    | some fv, some av, some kv => afterCall (I.callFn st.w fv [av, kv]) st x
    | _, _, _ => .stuck
  | .ite c t e => match c.eval I st.w st.vars with
    | .ok true => t.exec I cur st
    | .ok false => e.exec I cur st
    | .exc e => .exc st e
    | .stuck => .stuck
  | .for1 x it body => match it.eval I st.w st.vars with
    | .ok v => (match v.toList with
      | some l => forLoop (fun st a => body.exec I cur (st.setVar x a)) l st
      | Option.none => .stuck)
    | .exc e => .exc st e
    | .stuck => .stuck
  | .for2 x y it body => match it.eval I st.w st.vars with
    | .ok v => (match v.toList with
      | some l => forLoop (pairBody fun st p q => body.exec I cur ((st.setVar x p).setVar y q)) l st
      | Option.none => .stuck)
    | .exc e => .exc st e
    | .stuck => .stuck
  | .tryExcept body pat handler orelse => match body.exec I cur st with
    | .norm st' => orelse.exec I cur st'
    | .exc st' e => if pat.catches e then handler.exec I (some e) st' else .exc st' e
    | r => r
  | .tryFinally body fin => match body.exec I cur st with
    | .norm st' => fin.exec I cur st'
    | .ret st' v => (match fin.exec I cur st' with
      | .norm st'' => .ret st'' v
      | r => r)
    | .exc st' e => (match fin.exec I (some e) st' with
      | .norm st'' => .exc st'' e
      | r => r)
    | .stuck => .stuck
  | .reraise => match cur with
    | some e => .exc st e
    | Option.none => .stuck
  | .assert c => match c.eval I st.w st.vars with
    | .ok true => .norm st
    | .ok false => .exc st ⟨.assertionError, 0⟩
    | .exc e => .exc st e
    | .stuck => .stuck
  | .ret e => match e.eval I st.w st.vars with
    | .ok v => .ret st v
    | .exc e => .exc st e
    | .stuck => .stuck
  | .retNone => .ret st .none
  | .pass => .norm st
def Block.exec {W : Type} (I : Iface W) (cur : Option Exc) (st : St W) : Block → Res W
  | .nil => .norm st
  | .cons s rest => match s.exec I cur st with
    | .norm st' => rest.exec I cur st'
    | r => r
end

def Res.toCall {W : Type} : Res W → CallRes W
  | .norm st => .ret st.w .none          -- falling off the end returns None
  | .ret st v => .ret st.w v
  | .exc st e => .exc st.w e
  | .stuck => .stuck

/-- call a method: `args` are the parameters after `self`, `nlocals` the number of other locals -/
def run {W : Type} (I : Iface W) (prog : Block) (args : List Val) (nlocals : Nat) (w : W) : CallRes W :=
  (prog.exec I Option.none { w := w, vars := args.map some ++ List.replicate nlocals Option.none }).toCall

end SqlObjVerif.PyTx
