/-!
# PyUri — a deep embedding of the Python fragment the connection-URI code of sqlobject is written in

`vlib/extractors/pyuri.py` TRANSLATES `DBConnection._parseURI`, `DBConnection.uri`, `DBConnection.connectionFromURI`,
`SQLiteConnection.uri`, `SQLiteConnection._connectionFromParams` and `ConnectionURIOpener.connectionForURI` from
/repo's AST into `Block`s of this language on every run (`Extracted/PyUri.lean`).  This file is the fixed vocabulary
and its reference semantics (total functions, no fuel: the only loop iterates over a list value).

Values: `None`, `bool`, `int`, `str` (list of code points), tuples, lists, dicts with `str` keys (association list
in insertion order) and objects (a class tag and the stored attributes).  Values are immutable; the two mutating
statements of the fragment (`x[k] = v` on a dict local that was bound to a fresh `{}`, `x.a[k] = v` on an object
held by a local) rebind the local — the translator checks that no alias of the mutated value exists.

Everything that is not Python itself is a PARAMETER of the interpreter (`Iface`):
* `glob`       : module constants (`os.name`);
* `fn`         : the imported functions `urlparse`, `quote`, `unquote`, `parse_qsl`, `urlencode` (may raise);
* `getAttr`    : attributes of an object that are not stored fields (the properties `.username`, `.password`,
                 `.hostname`, `.port` of urlparse's result; `.port` may raise);
* `callMethod` : a method call on an object (`self.dbConnectionForScheme(scheme)`, `connCls.connectionFromURI(uri)`,
                 `cls._parseURI(uri)`): returns a value or raises, changes nothing the fragment can see;
* `callVal`    : a call of a value (`cls(filename=path, **args)`);
* `fmtD`       : decimal rendering of an `int` (`'%d' % i`, `'%s' % i`).
Built into the semantics (Python itself): truthiness, `and`/`or`/`not`, `==`/`!=` on scalars, integer order, `in` on
`str` (substring) and on dicts (key), `+` on `str`/`int`, `%`-formatting with the conversions `%s`, `%d`, `%%`,
indexing and slicing of `str` (negative indices included, no step), `d[k]`, `len`, `int` of an int,
`str.startswith / find / split(sep, 1)`, `getattr(o, 'name', default)`, tuple unpacking, `assert`, `for`, `return`.
`stuck` = outside the fragment (a `TypeError`/`NameError` of the real interpreter, or a construct the semantics does
not cover): a theorem `translated = model` shows in particular that this never happens.

An `assert c, msg` is executed as `assert c`: the message expression is not evaluated (it is evaluated by Python only
when `c` is false, and the outcome is `AssertionError` in any case unless building the message itself raises).
Locals are numbered in order of first binding, parameters first: renaming a local does not change the translation.
-/
namespace SqlObjVerif.PyUri

abbrev Str := List Nat

inductive Val where
  | none
  | bool (b : Bool)
  | int (i : Int)
  | str (s : Str)
  | tuple (vs : List Val)
  | list (vs : List Val)
  | dict (kvs : List (Str × Val))
  | obj (cls : String) (fields : List (String × Val))

inductive Exc where
  | valueError | assertionError | unicodeEncodeError | keyError | indexError | attributeError
  /-- the hand model of the standard library has no answer -/
  | unmodelled
deriving Repr, DecidableEq

inductive R (α : Type) where
  | ok (a : α)
  | exc (e : Exc)
  | stuck

def R.bind {α β : Type} : R α → (α → R β) → R β
  | .ok a, f => f a
  | .exc e, _ => .exc e
  | .stuck, _ => .stuck

@[simp] theorem R.bind_ok {α β : Type} (a : α) (f : α → R β) : (R.ok a).bind f = f a := by rw [R.bind]
@[simp] theorem R.bind_exc {α β : Type} (e : Exc) (f : α → R β) : (R.exc e : R α).bind f = .exc e := by rw [R.bind]
@[simp] theorem R.bind_stuck {α β : Type} (f : α → R β) : (R.stuck : R α).bind f = .stuck := by rw [R.bind]

def ofOpt {α : Type} : Option α → R α
  | some a => .ok a
  | Option.none => .stuck

@[simp] theorem ofOpt_some {α : Type} (a : α) : ofOpt (some a) = .ok a := rfl
@[simp] theorem ofOpt_none {α : Type} : ofOpt (Option.none : Option α) = .stuck := rfl

structure Iface where
  glob : String → Option Val
  fn : String → List Val → List (String × Val) → R Val
  getAttr : Val → String → R Val
  callMethod : Val → String → List Val → R Val
  callVal : Val → List Val → List (Str × Val) → R Val
  fmtD : Int → Str

/-! ### association lists -/

def aget {κ α : Type} [BEq κ] (k : κ) : List (κ × α) → Option α
  | [] => Option.none
  | e :: l => if e.1 == k then some e.2 else aget k l

/-- `d[k] = v`: a present key keeps its position -/
def dset {α : Type} (d : List (Str × α)) (k : Str) (v : α) : List (Str × α) :=
  if d.any (fun e => e.1 == k) then d.map (fun e => if e.1 == k then (e.1, v) else e) else d ++ [(k, v)]

/-- replace a stored attribute -/
def fset (fs : List (String × Val)) (a : String) (v : Val) : List (String × Val) :=
  fs.map fun e => if e.1 == a then (e.1, v) else e

/-! ### Python's own operations -/

/-- `bool(v)`; an object without `__bool__` / `__len__` is true -/
def truthy : Val → Bool
  | .none => false
  | .bool b => b
  | .int i => i != 0
  | .str [] => false
  | .str (_ :: _) => true
  | .tuple [] => false
  | .tuple (_ :: _) => true
  | .list [] => false
  | .list (_ :: _) => true
  | .dict [] => false
  | .dict (_ :: _) => true
  | .obj _ _ => true

@[simp] theorem truthy_none : truthy .none = false := rfl
@[simp] theorem truthy_bool (b : Bool) : truthy (.bool b) = b := rfl
@[simp] theorem truthy_int (i : Int) : truthy (.int i) = (i != 0) := rfl
@[simp] theorem truthy_str_nil : truthy (.str []) = false := rfl
@[simp] theorem truthy_str_cons (c : Nat) (s : Str) : truthy (.str (c :: s)) = true := rfl
@[simp] theorem truthy_dict_nil : truthy (.dict []) = false := rfl
@[simp] theorem truthy_dict_cons (e : Str × Val) (d : List (Str × Val)) : truthy (.dict (e :: d)) = true := rfl
@[simp] theorem truthy_obj (c : String) (f : List (String × Val)) : truthy (.obj c f) = true := rfl

/-- `a == b` on scalars of the same kind and against `None`; anything else is outside the fragment -/
def pyEq : Val → Val → Option Bool
  | .none, .none => some true
  | .str a, .str b => some (a == b)
  | .int a, .int b => some (a == b)
  | .bool a, .bool b => some (a == b)
  | .none, .str _ => some false
  | .str _, .none => some false
  | .none, .int _ => some false
  | .int _, .none => some false
  | .str _, .int _ => some false
  | .int _, .str _ => some false
  | _, _ => Option.none

@[simp] theorem pyEq_str (a b : Str) : pyEq (.str a) (.str b) = some (a == b) := rfl
@[simp] theorem pyEq_int (a b : Int) : pyEq (.int a) (.int b) = some (a == b) := rfl
@[simp] theorem pyEq_none_none : pyEq .none .none = some true := rfl
@[simp] theorem pyEq_none_str (b : Str) : pyEq .none (.str b) = some false := rfl
@[simp] theorem pyEq_str_none (b : Str) : pyEq (.str b) .none = some false := rfl
@[simp] theorem pyEq_none_int (b : Int) : pyEq .none (.int b) = some false := rfl
@[simp] theorem pyEq_int_none (b : Int) : pyEq (.int b) .none = some false := rfl

/-- first position at which `t` occurs in `s`, counting from `i` -/
def findFrom (t : Str) : Str → Nat → Option Nat
  | [], i => if t.isEmpty then some i else Option.none
  | c :: cs, i => if t.isPrefixOf (c :: cs) then some i else findFrom t cs (i + 1)

/-- `t in s` -/
def strIn (t s : Str) : Bool := (findFrom t s 0).isSome

/-- `s.find(t)` -/
def strFind (t s : Str) : Int :=
  match findFrom t s 0 with
  | some i => (i : Int)
  | Option.none => -1

/-- `s.split(sep, 1)` for a non-empty `sep` -/
def splitOnce (sep s : Str) : List Str :=
  match findFrom sep s 0 with
  | some i => [s.take i, s.drop (i + sep.length)]
  | Option.none => [s]

inductive CmpOp where
  | eq | ne | lt | le | gt | ge | isIn | notIn
deriving Repr, DecidableEq

def pyCmp : CmpOp → Val → Val → R Val
  | .eq, a, b => (ofOpt (pyEq a b)).bind fun r => .ok (.bool r)
  | .ne, a, b => (ofOpt (pyEq a b)).bind fun r => .ok (.bool (!r))
  | .lt, .int a, .int b => .ok (.bool (a < b))
  | .le, .int a, .int b => .ok (.bool (a ≤ b))
  | .gt, .int a, .int b => .ok (.bool (a > b))
  | .ge, .int a, .int b => .ok (.bool (a ≥ b))
  | .isIn, .str t, .str s => .ok (.bool (strIn t s))
  | .notIn, .str t, .str s => .ok (.bool (!strIn t s))
  | .isIn, .str k, .dict d => .ok (.bool (aget k d).isSome)
  | .notIn, .str k, .dict d => .ok (.bool (!(aget k d).isSome))
  | _, _, _ => .stuck

@[simp] theorem pyCmp_eq (a b : Val) : pyCmp .eq a b = (ofOpt (pyEq a b)).bind fun r => .ok (.bool r) := by
  rw [pyCmp]
@[simp] theorem pyCmp_ne (a b : Val) : pyCmp .ne a b = (ofOpt (pyEq a b)).bind fun r => .ok (.bool (!r)) := by
  rw [pyCmp]
@[simp] theorem pyCmp_gt (a b : Int) : pyCmp .gt (.int a) (.int b) = .ok (.bool (a > b)) := rfl
@[simp] theorem pyCmp_lt (a b : Int) : pyCmp .lt (.int a) (.int b) = .ok (.bool (a < b)) := rfl
@[simp] theorem pyCmp_in_str (t s : Str) : pyCmp .isIn (.str t) (.str s) = .ok (.bool (strIn t s)) := rfl
@[simp] theorem pyCmp_notIn_str (t s : Str) : pyCmp .notIn (.str t) (.str s) = .ok (.bool (!strIn t s)) := rfl
@[simp] theorem pyCmp_in_dict (k : Str) (d : List (Str × Val)) :
    pyCmp .isIn (.str k) (.dict d) = .ok (.bool (aget k d).isSome) := rfl
@[simp] theorem pyCmp_notIn_dict (k : Str) (d : List (Str × Val)) :
    pyCmp .notIn (.str k) (.dict d) = .ok (.bool (!(aget k d).isSome)) := rfl

/-- `a + b` -/
def pyAdd : Val → Val → R Val
  | .str a, .str b => .ok (.str (a ++ b))
  | .int a, .int b => .ok (.int (a + b))
  | _, _ => .stuck

@[simp] theorem pyAdd_str (a b : Str) : pyAdd (.str a) (.str b) = .ok (.str (a ++ b)) := rfl

/-- `str(v)` as the conversion `%s` computes it -/
def strOf (I : Iface) : Val → Option Str
  | .str s => some s
  | .int i => some (I.fmtD i)
  | .none => some [78, 111, 110, 101]
  | _ => Option.none

@[simp] theorem strOf_str (I : Iface) (s : Str) : strOf I (.str s) = some s := rfl
@[simp] theorem strOf_int (I : Iface) (i : Int) : strOf I (.int i) = some (I.fmtD i) := rfl

/-- one conversion of a format string (`c` is the character after `%`) -/
def convOf (I : Iface) (c : Nat) (v : Val) : Option Str :=
  if c = 115 then strOf I v
  else if c = 100 then
    match v with
    | .int i => some (I.fmtD i)
    | _ => Option.none
  else Option.none

@[simp] theorem convOf_s (I : Iface) (v : Val) : convOf I 115 v = strOf I v := rfl
@[simp] theorem convOf_d (I : Iface) (i : Int) : convOf I 100 (.int i) = some (I.fmtD i) := rfl

/-- `fmt % args` (conversions `%s`, `%d`, `%%`; a wrong number of arguments is a TypeError: `stuck`) -/
def pyFormat (I : Iface) : Str → List Val → R Str
  | [], [] => .ok []
  | [], _ :: _ => .stuck
  | c :: rest, vs =>
    if c = 37 then
      match rest, vs with
      | 37 :: rest', vs => (pyFormat I rest' vs).bind fun r => .ok (37 :: r)
      | k :: rest', v :: vs' =>
        (ofOpt (convOf I k v)).bind fun s => (pyFormat I rest' vs').bind fun r => .ok (s ++ r)
      | _, _ => .stuck
    else (pyFormat I rest vs).bind fun r => .ok (c :: r)

/-- the arguments of `%`: the elements of a tuple, or the single value -/
def fmtArgs : Val → List Val
  | .tuple vs => vs
  | v => [v]

def pyMod (I : Iface) : Val → Val → R Val
  | .str f, a => (pyFormat I f (fmtArgs a)).bind fun s => .ok (.str s)
  | _, _ => .stuck

/-- position denoted by the index `i` in a sequence of length `n` -/
def normIdx (n : Nat) (i : Int) : Option Nat :=
  if 0 ≤ i then (if i.toNat < n then some i.toNat else Option.none)
  else if (-i).toNat ≤ n then some (n - (-i).toNat) else Option.none

/-- slice bound -/
def clampIdx (n : Nat) (i : Int) : Nat :=
  if 0 ≤ i then min i.toNat n else n - min (-i).toNat n

/-- `v[i]` -/
def pyIndex : Val → Val → R Val
  | .str s, .int i =>
    match (normIdx s.length i).bind (s[·]?) with
    | some c => .ok (.str [c])
    | Option.none => .exc .indexError
  | .tuple vs, .int i =>
    match (normIdx vs.length i).bind (vs[·]?) with
    | some v => .ok v
    | Option.none => .exc .indexError
  | .list vs, .int i =>
    match (normIdx vs.length i).bind (vs[·]?) with
    | some v => .ok v
    | Option.none => .exc .indexError
  | .dict d, .str k =>
    match aget k d with
    | some v => .ok v
    | Option.none => .exc .keyError
  | _, _ => .stuck

@[simp] theorem pyIndex_dict (d : List (Str × Val)) (k : Str) :
    pyIndex (.dict d) (.str k) = match aget k d with
      | some v => .ok v
      | Option.none => .exc .keyError := rfl

/-- `s[lo:hi]` of a `str` (`none` = bound omitted) -/
def pySlice : Val → Option Val → Option Val → R Val
  | .str s, lo, hi =>
    let n := s.length
    let a : Option Nat := match lo with
      | Option.none => some 0
      | some (.int i) => some (clampIdx n i)
      | some .none => some 0
      | _ => Option.none
    let b : Option Nat := match hi with
      | Option.none => some n
      | some (.int i) => some (clampIdx n i)
      | some .none => some n
      | _ => Option.none
    match a, b with
    | some a, some b => .ok (.str ((s.drop a).take (b - a)))
    | _, _ => .stuck
  | _, _, _ => .stuck

/-- the methods of `str` the fragment uses -/
def strMethod (s : Str) (m : String) (args : List Val) : R Val :=
  if m = "startswith" then
    match args with
    | [.str p] => .ok (.bool (p.isPrefixOf s))
    | _ => .stuck
  else if m = "find" then
    match args with
    | [.str t] => .ok (.int (strFind t s))
    | _ => .stuck
  else if m = "split" then
    match args with
    | [.str sep, .int 1] => if sep.isEmpty then .exc .valueError else .ok (.list ((splitOnce sep s).map .str))
    | _ => .stuck
  else .stuck

/-- `r.m(args)`: a method of `str`, or a method call on an object -/
def methodOf (I : Iface) (r : Val) (m : String) (args : List Val) : R Val :=
  match r with
  | .str s => strMethod s m args
  | _ => I.callMethod r m args

@[simp] theorem methodOf_str (I : Iface) (s : Str) (m : String) (args : List Val) :
    methodOf I (.str s) m args = strMethod s m args := rfl
@[simp] theorem methodOf_obj (I : Iface) (c : String) (fs : List (String × Val)) (m : String) (args : List Val) :
    methodOf I (.obj c fs) m args = I.callMethod (.obj c fs) m args := rfl

/-- the builtins `len`, `int`; every other name is an imported function -/
def callFn (I : Iface) (f : String) (args : List Val) (kw : List (String × Val)) : R Val :=
  if f = "len" then
    match args, kw with
    | [.str s], [] => .ok (.int s.length)
    | [.tuple vs], [] => .ok (.int vs.length)
    | [.list vs], [] => .ok (.int vs.length)
    | [.dict d], [] => .ok (.int d.length)
    | _, _ => .stuck
  else if f = "int" then
    match args, kw with
    | [.int i], [] => .ok (.int i)
    | _, _ => .stuck
  else I.fn f args kw

/-- `v.a`: a stored attribute, else what the interface says -/
def attrOf (I : Iface) (v : Val) (a : String) : R Val :=
  match v with
  | .obj _ fs =>
    match aget a fs with
    | some x => .ok x
    | Option.none => I.getAttr v a
  | _ => I.getAttr v a

/-- `getattr(v, 'a', d)` -/
def getattrD (I : Iface) (v : Val) (a : String) (d : Val) : R Val :=
  match attrOf I v a with
  | .exc .attributeError => .ok d
  | r => r

/-! ### syntax -/

mutual
inductive Expr where
  | var (x : Nat)
  | none
  | true
  | false
  | int (i : Int)
  | str (s : Str)
  | glob (name : String)                                 -- `os.name`
  | attr (e : Expr) (a : String)                         -- `e.a`
  | getattrD (e : Expr) (a : String) (d : Expr)          -- `getattr(e, 'a', d)`
  | tuple (es : Exprs)
  | emptyDict
  | not (e : Expr)
  | and (a b : Expr)
  | or (a b : Expr)
  | isNone (e : Expr)                                    -- `e is None`
  | isNotNone (e : Expr)
  | cmp (op : CmpOp) (a b : Expr)
  | add (a b : Expr)
  | mod (f a : Expr)                                     -- `f % a`
  | index (e i : Expr)                                   -- `e[i]`
  | slice (e lo hi : Expr)                               -- `e[lo:hi]`
  | sliceFrom (e lo : Expr)                              -- `e[lo:]`
  | sliceTo (e hi : Expr)                                -- `e[:hi]`
  | call (f : String) (args : Exprs) (kwn : List String) (kwv : Exprs)   -- `f(args, k=v)`
  | method (recv : Expr) (m : String) (args : Exprs)     -- `recv.m(args)`
  | methodStar (recv : Expr) (m : String) (star : Expr)  -- `recv.m(*star)`
  | callVal (f : Expr) (kwn : List Str) (kwv : Exprs) (star : Expr)      -- `f(k=v, **star)` (`{}` when there is no `**`)
inductive Exprs where
  | nil
  | cons (e : Expr) (rest : Exprs)
end

inductive Target where
  | one (x : Nat)
  | tup (xs : List Nat)
deriving Repr, DecidableEq

mutual
inductive Stmt where
  | assign (t : Target) (e : Expr)
  | setItem (x : Nat) (k v : Expr)                       -- `x[k] = v` (a dict local)
  | setAttrItem (x : Nat) (a : String) (k v : Expr)      -- `x.a[k] = v`
  | ite (c : Expr) (t e : Block)
  | for (t : Target) (it : Expr) (body : Block)
  | assert (c : Expr)
  | ret (e : Expr)
  | expr (e : Expr)
  | pass
inductive Block where
  | nil
  | cons (s : Stmt) (rest : Block)
end

/-! ### semantics -/

abbrev Env := Nat → Option Val

def Env.empty : Env := fun _ => Option.none

def Env.put (env : Env) (x : Nat) (v : Val) : Env := fun y => if y = x then some v else env y

@[simp] theorem Env.put_apply (env : Env) (x : Nat) (v : Val) (y : Nat) :
    (env.put x v) y = if y = x then some v else env y := rfl

def Env.ofArgs : List Val → Env
  | [] => Env.empty
  | v :: l => fun y => match y with
    | 0 => some v
    | y + 1 => Env.ofArgs l y

def zipKw {κ : Type} : List κ → List Val → List (κ × Val)
  | n :: ns, v :: vs => (n, v) :: zipKw ns vs
  | _, _ => []

mutual
def Expr.eval (I : Iface) (env : Env) : Expr → R Val
  | .var x => ofOpt (env x)
  | .none => .ok .none
  | .true => .ok (.bool Bool.true)
  | .false => .ok (.bool Bool.false)
  | .int i => .ok (.int i)
  | .str s => .ok (.str s)
  | .glob name => ofOpt (I.glob name)
  | .attr e a => (e.eval I env).bind fun v => attrOf I v a
  | .getattrD e a d => (e.eval I env).bind fun v => (d.eval I env).bind fun dv => getattrD I v a dv
  | .tuple es => (es.eval I env).bind fun vs => .ok (.tuple vs)
  | .emptyDict => .ok (.dict [])
  | .not e => (e.eval I env).bind fun v => .ok (.bool (!truthy v))
  | .and a b => (a.eval I env).bind fun v => if truthy v then b.eval I env else .ok v
  | .or a b => (a.eval I env).bind fun v => if truthy v then .ok v else b.eval I env
  | .isNone e => (e.eval I env).bind fun v => .ok (.bool (match v with
    | .none => Bool.true
    | _ => Bool.false))
  | .isNotNone e => (e.eval I env).bind fun v => .ok (.bool (match v with
    | .none => Bool.false
    | _ => Bool.true))
  | .cmp op a b => (a.eval I env).bind fun x => (b.eval I env).bind fun y => pyCmp op x y
  | .add a b => (a.eval I env).bind fun x => (b.eval I env).bind fun y => pyAdd x y
  | .mod f a => (f.eval I env).bind fun x => (a.eval I env).bind fun y => pyMod I x y
  | .index e i => (e.eval I env).bind fun x => (i.eval I env).bind fun y => pyIndex x y
  | .slice e lo hi => (e.eval I env).bind fun x => (lo.eval I env).bind fun a => (hi.eval I env).bind fun b =>
      pySlice x (some a) (some b)
  | .sliceFrom e lo => (e.eval I env).bind fun x => (lo.eval I env).bind fun a => pySlice x (some a) Option.none
  | .sliceTo e hi => (e.eval I env).bind fun x => (hi.eval I env).bind fun b => pySlice x Option.none (some b)
  | .call f args kwn kwv => (args.eval I env).bind fun as => (kwv.eval I env).bind fun ks =>
      callFn I f as (zipKw kwn ks)
  | .method recv m args => (recv.eval I env).bind fun r => (args.eval I env).bind fun as => methodOf I r m as
  | .methodStar recv m star => (recv.eval I env).bind fun r => (star.eval I env).bind fun sv =>
      match sv with
      | .tuple as => methodOf I r m as
      | .list as => methodOf I r m as
      | _ => .stuck
  | .callVal f kwn kwv star => (f.eval I env).bind fun fv => (kwv.eval I env).bind fun ks =>
      (star.eval I env).bind fun sv =>
      match sv with
      | .dict d => I.callVal fv [] (zipKw kwn ks ++ d)
      | _ => .stuck
def Exprs.eval (I : Iface) (env : Env) : Exprs → R (List Val)
  | .nil => .ok []
  | .cons e rest => (e.eval I env).bind fun v => (rest.eval I env).bind fun vs => .ok (v :: vs)
end

def bindAll (env : Env) : List Nat → List Val → Option Env
  | [], [] => some env
  | x :: xs, v :: vs => bindAll (env.put x v) xs vs
  | _, _ => Option.none

/-- bind an assignment / loop target; a value that does not unpack to the right number of items is outside the
    fragment (`stuck`) -/
def Target.bind (env : Env) : Target → Val → Option Env
  | .one x, v => some (env.put x v)
  | .tup xs, .tuple vs => bindAll env xs vs
  | .tup xs, .list vs => bindAll env xs vs
  | .tup _, _ => Option.none

/-- how a statement ends -/
inductive Res where
  | norm (env : Env)
  | ret (env : Env) (v : Val)
  | exc (env : Env) (e : Exc)
  | stuck

def Res.seq (r : Res) (k : Env → Res) : Res :=
  match r with
  | .norm env => k env
  | r => r

theorem Res.seq_norm (env : Env) (k : Env → Res) : (Res.norm env).seq k = k env := by rw [Res.seq]
@[simp] theorem Res.seq_ret (env : Env) (v : Val) (k : Env → Res) : (Res.ret env v).seq k = .ret env v := by simp [Res.seq]
@[simp] theorem Res.seq_exc (env : Env) (e : Exc) (k : Env → Res) : (Res.exc env e).seq k = .exc env e := by simp [Res.seq]
@[simp] theorem Res.seq_stuck (k : Env → Res) : Res.stuck.seq k = .stuck := by simp [Res.seq]

/-- go on with `k` when the expression has a value -/
def withR (env : Env) (r : R Val) (k : Val → Res) : Res :=
  match r with
  | .ok v => k v
  | .exc e => .exc env e
  | .stuck => .stuck

@[simp] theorem withR_ok (env : Env) (v : Val) (k : Val → Res) : withR env (.ok v) k = k v := by rw [withR]
@[simp] theorem withR_exc (env : Env) (e : Exc) (k : Val → Res) : withR env (.exc e) k = .exc env e := by rw [withR]
@[simp] theorem withR_stuck (env : Env) (k : Val → Res) : withR env .stuck k = .stuck := by rw [withR]

def normOpt : Option Env → Res
  | some env => .norm env
  | Option.none => .stuck

@[simp] theorem normOpt_some (env : Env) : normOpt (some env) = .norm env := rfl
@[simp] theorem normOpt_none : normOpt Option.none = .stuck := rfl

def forLoop (f : Env → Val → Res) : List Val → Env → Res
  | [], env => .norm env
  | v :: vs, env => match f env v with
    | .norm env' => forLoop f vs env'
    | r => r

/-- one iteration: bind the target, run the body -/
def loopStep (t : Target) (body : Env → Res) (env : Env) (v : Val) : Res :=
  match t.bind env v with
  | some env' => body env'
  | Option.none => .stuck

def iterOf : Val → Option (List Val)
  | .list vs => some vs
  | .tuple vs => some vs
  | _ => Option.none

/-- `x[k] = v` -/
def setItemOf (env : Env) (x : Nat) (k v : Val) : Option Env :=
  match env x, k with
  | some (.dict d), .str ks => some (env.put x (.dict (dset d ks v)))
  | _, _ => Option.none

/-- `x.a[k] = v` -/
def setAttrItemOf (env : Env) (x : Nat) (a : String) (k v : Val) : Option Env :=
  match env x, k with
  | some (.obj c fs), .str ks =>
    match aget a fs with
    | some (.dict d) => some (env.put x (.obj c (fset fs a (.dict (dset d ks v)))))
    | _ => Option.none
  | _, _ => Option.none

mutual
def Stmt.exec (I : Iface) (env : Env) : Stmt → Res
  | .assign t e => withR env (e.eval I env) fun v => normOpt (t.bind env v)
  | .setItem x k v => withR env (k.eval I env) fun kv => withR env (v.eval I env) fun vv =>
      normOpt (setItemOf env x kv vv)
  | .setAttrItem x a k v => withR env (k.eval I env) fun kv => withR env (v.eval I env) fun vv =>
      normOpt (setAttrItemOf env x a kv vv)
  | .ite c t e => withR env (c.eval I env) fun v => if truthy v then t.exec I env else e.exec I env
  | .for t it body => withR env (it.eval I env) fun v =>
      match iterOf v with
      | some l => forLoop (loopStep t fun env' => body.exec I env') l env
      | Option.none => .stuck
  | .assert c => withR env (c.eval I env) fun v => if truthy v then .norm env else .exc env .assertionError
  | .ret e => withR env (e.eval I env) fun v => .ret env v
  | .expr e => withR env (e.eval I env) fun _ => .norm env
  | .pass => .norm env
def Block.exec (I : Iface) (env : Env) : Block → Res
  | .nil => .norm env
  | .cons s rest => (s.exec I env).seq fun env' => rest.exec I env'
end

theorem exec_cons (I : Iface) (env : Env) (s : Stmt) (rest : Block) :
    Block.exec I env (.cons s rest) = (s.exec I env).seq fun env' => rest.exec I env' := by rw [Block.exec]

theorem exec_nil (I : Iface) (env : Env) : Block.exec I env .nil = .norm env := by rw [Block.exec]

/-- what the caller of a function sees -/
inductive Out where
  | ret (v : Val)
  | exc (e : Exc)
  | stuck

def Res.out : Res → Out
  | .norm _ => .ret .none                -- falling off the end returns None
  | .ret _ v => .ret v
  | .exc _ e => .exc e
  | .stuck => .stuck

/-- the state of the first parameter (`self`) when the call ends -/
def Res.self : Res → Option Val
  | .norm env => env 0
  | .ret env _ => env 0
  | .exc env _ => env 0
  | .stuck => Option.none

/-- call a translated function on its arguments -/
def run (I : Iface) (prog : Block) (args : List Val) : Out := (prog.exec I (Env.ofArgs args)).out

/-- outcome and the `self` the call leaves behind -/
def Res.view (r : Res) : Out × Option Val := (r.out, r.self)

/-- the same for a method that changes `self` -/
def runSelf (I : Iface) (prog : Block) (args : List Val) : Out × Option Val := (prog.exec I (Env.ofArgs args)).view

end SqlObjVerif.PyUri
