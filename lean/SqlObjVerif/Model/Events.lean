/-!
# Model `Events` — row signals around the database writes (C19), import-free and executable

Mirrors `/repo/sqlobject/main.py`:

* `SQLObject.__init__` / `_create` / `_SO_finishCreate` (`RowCreateSignal(kw, post_funcs)`, INSERT,
  the `RowCreatedSignal` thunk appended to the thread-local `postponed_calls`, run when the
  outermost constructor exits),
* `_SO_setValue` (single attribute: `RowUpdateSignal(d)`; when a listener changed `d` the work is
  delegated to `set(**d)` with the signal suppressed **and the method returns**),
* `set` (`RowUpdateSignal(kw)`, validate everything, one UPDATE, `RowUpdatedSignal(post_funcs)`),
* the creating / lazy branch (values go to `_SO_createValues`, no after-event) and `syncUpdate`,
* `destroySelf` (`RowDestroySignal(post_funcs)`, DELETE, post funcs, `RowDestroyedSignal(post_funcs)`),
* `get` / `select` (no row signal at all),
* `inheritance.InheritableSQLObject._create` (the parent instance is constructed inside the child's
  constructor) — section `Chain`.

`pydispatch.dispatcher.send` is modelled as: every listener connected for (class, signal) is called
once, in connection order (checked by the correspondence run).  Listeners are data.
-/
namespace SqlObjVerif.Events

/-- a Python value offered to an `IntCol`: an int, `None`, or something the validator rejects -/
inductive Val where
  | int (n : Int)
  | null
  | bad
  deriving DecidableEq, Repr, Inhabited

abbrev Key := Nat

/-- a `**kw` dict in insertion order; keys `< ncols` are the columns (in creation order), any
    other key is an unknown keyword (`TypeError` in `set`) -/
abbrev Kw := List (Key × Val)

def Kw.get (kw : Kw) (k : Key) : Option Val := List.lookup k kw

/-- `kw[k] = v` -/
def Kw.put (kw : Kw) (k : Key) (v : Val) : Kw :=
  if (Kw.get kw k).isSome then kw.map (fun p => if p.1 = k then (k, v) else p) else kw ++ [(k, v)]

/-- `kw.pop(k, None)` -/
def Kw.del (kw : Kw) (k : Key) : Kw := kw.filter (fun p => p.1 ≠ k)

inductive Sig where
  | create | created | update | updated | destroy | destroyed
  deriving DecidableEq, Repr

/-- signals whose arguments carry the mutable `kwargs` dict a listener may usefully edit -/
def Sig.hasKw : Sig → Bool
  | .create | .update => true
  | _ => false

/-- signals whose arguments carry a `post_funcs` list (`RowUpdateSignal` is the one that does not) -/
def Sig.hasPost : Sig → Bool
  | .update => false
  | _ => true

/-- what a listener does when called -/
inductive Act where
  | observe
  | setKey (k : Key) (v : Val)     -- kwargs[k] = v   (rewrites or adds a key)
  | delKey (k : Key)               -- kwargs.pop(k, None)
  | post (p : Nat)                 -- post_funcs.append(callback p); callbacks numbered ≥ 1000 create a row of class B when run
  | spawn                          -- the listener itself creates a row of another class B ("audit row" pattern)
  deriving DecidableEq, Repr

structure Listener where
  sig : Sig
  act : Act
  deriving DecidableEq, Repr

def actKw (sig : Sig) (a : Act) (kw : Kw) : Kw :=
  if sig.hasKw then
    match a with
    | .setKey k v => Kw.put kw k v
    | .delKey k => Kw.del kw k
    | _ => kw
  else kw

def actPost (sig : Sig) (a : Act) (pf : List Nat) : List Nat :=
  if sig.hasPost then
    match a with
    | .post p => pf ++ [p]
    | _ => pf
  else pf

/-- the ordered ghost log: listener calls, database writes, post-callback runs -/
inductive Entry where
  | ev (sig : Sig) (lis : Nat) (id : Option Nat) (kw : Option Kw)
  | ins (id : Nat) (row : List Val)
  | upd (id : Nat) (vec : List (Option Val))
  | del (id : Nat)
  | post (p : Nat) (id : Nat)
  deriving DecidableEq, Repr

def payload (sig : Sig) (kw : Kw) : Option Kw := if sig.hasKw then some kw else none

/-- `sqlmeta.send(signal, instance, kw, post_funcs)`: call the class's listeners connected for
    `sig` in connection order (`i` = index of the head of the list in the class's listener list).
    Result: the kwargs and post_funcs as the listeners left them, and the calls made. -/
def deliver (sig : Sig) (id : Option Nat) : Nat → List Listener → Kw → List Nat → Kw × List Nat × List Entry
  | _, [], kw, pf => (kw, pf, [])
  | i, l :: ls, kw, pf =>
    if l.sig = sig then
      let r := deliver sig id (i + 1) ls (actKw sig l.act kw) (actPost sig l.act pf)
      (r.1, r.2.1, Entry.ev sig i id (payload sig kw) :: r.2.2)
    else deliver sig id (i + 1) ls kw pf

structure Cfg where
  ncols : Nat
  lazy : Bool
  defaults : List Val
  listeners : List Listener
  /-- `sqlmeta.cacheValues`: with `false` nothing is kept on the instance and every read goes to the
      database.  No send point and no write depends on it (`_SO_setValue`, `set`, `syncUpdate` only
      guard the `setattr` of the cached value with it), so no function below reads the field: every
      theorem holds for both values by quantifying over `Cfg`.  The correspondence run exercises both. -/
  cacheValues : Bool := true
  deriving Repr

def Cfg.dflt (c : Cfg) (k : Nat) : Val := (c.defaults[k]?).getD .null

/-- a held Python instance: its id and its `_SO_createValues` (one slot per column) -/
structure Obj where
  id : Nat
  pending : List (Option Val)
  deriving DecidableEq, Repr

structure State where
  rows : List (Nat × List Val)     -- the table, in insertion order
  nextId : Nat                     -- AUTOINCREMENT
  objs : List Obj                  -- handles, in creation order
  deriving DecidableEq, Repr

def init : State := ⟨[], 1, []⟩

inductive Out where
  | ok | invalid | typeError | notFound | nohandle | skip
  deriving DecidableEq, Repr

/-- the column part of a kwargs dict, one slot per column in creation order -/
def colVec (n : Nat) (kw : Kw) : List (Option Val) := (List.range n).map (Kw.get kw)

def single (n : Nat) (k : Key) (v : Val) : List (Option Val) :=
  (List.range n).map (fun j => if k = j then some v else none)

def vecEmpty (vec : List (Option Val)) : Bool := vec.all Option.isNone

def vecInvalid (vec : List (Option Val)) : Bool := vec.contains (some Val.bad)

def unknownKey (n : Nat) (kw : Kw) : Bool := kw.any (fun p => decide (n ≤ p.1))

def applyVec (row : List Val) (vec : List (Option Val)) : List Val :=
  List.zipWith (fun old nv => nv.getD old) row vec

/-- `_SO_createValues[k] = v` when the dict has the key -/
def pick (old nv : Option Val) : Option Val :=
  match nv with
  | some v => some v
  | none => old

def mergeVec (p : List (Option Val)) (vec : List (Option Val)) : List (Option Val) :=
  List.zipWith pick p vec

def updRows (rows : List (Nat × List Val)) (id : Nat) (vec : List (Option Val)) : List (Nat × List Val) :=
  rows.map (fun r => if r.1 = id then (r.1, applyVec r.2 vec) else r)

def delRows (rows : List (Nat × List Val)) (id : Nat) : List (Nat × List Val) :=
  rows.filter (fun r => r.1 ≠ id)

def rowOf? (rows : List (Nat × List Val)) (id : Nat) : Option (List Val) := List.lookup id rows

def State.setObj (s : State) (h : Nat) (o : Obj) : State := { s with objs := s.objs.set h o }

/-- `RowUpdatedSignal(instance, post_funcs)` followed by its post funcs -/
def afterUpdate (c : Cfg) (id : Nat) : List Entry :=
  let r := deliver .updated (some id) 0 c.listeners [] []
  r.2.2 ++ r.2.1.map (fun p => Entry.post p id)

/-- `SQLObject.set` below its `RowUpdateSignal` (the part that also runs when `_SO_setValue`
    delegates with the signal suppressed) -/
def setCore (c : Cfg) (s : State) (h : Nat) (o : Obj) (kw : Kw) : State × List Entry × Out :=
  let vec := colVec c.ncols kw
  if vecInvalid vec then (s, [], .invalid)
  else if c.lazy then
    -- all values validated, then an unknown keyword is refused *before* anything is changed
    -- (fix bf075e4); only then the values are cached and `_SO_createValues.update(kw)`
    if unknownKey c.ncols kw then (s, [], .typeError)
    else (s.setObj h { o with pending := mergeVec o.pending vec }, [], .ok)
  else if unknownKey c.ncols kw then (s, [], .typeError)
  else if vecEmpty vec then (s, afterUpdate c o.id, .ok)        -- `if toUpdate:` is false: no UPDATE
  else ({ s with rows := updRows s.rows o.id vec }, Entry.upd o.id vec :: afterUpdate c o.id, .ok)

/-- `obj.set(**kw)` -/
def opSet (c : Cfg) (s : State) (h : Nat) (o : Obj) (kw : Kw) : State × List Entry × Out :=
  let r := deliver .update (some o.id) 0 c.listeners kw []
  let q := setCore c s h o r.1
  (q.1, r.2.2 ++ q.2.1, q.2.2)

/-- `obj.<col k> = v`  (`_SO_setValue`) -/
def opAssign (c : Cfg) (s : State) (h : Nat) (o : Obj) (k : Key) (v : Val) : State × List Entry × Out :=
  let r := deliver .update (some o.id) 0 c.listeners [(k, v)] []
  let d := r.1
  if d.length ≠ 1 ∨ (Kw.get d k).isNone then
    -- a listener changed the dict: `set(**d)` with the signal suppressed, then `return`
    let q := setCore c s h o d
    (q.1, r.2.2 ++ q.2.1, q.2.2)
  else
    let v' := (Kw.get d k).getD .null
    if v' = .bad then (s, r.2.2, .invalid)
    else if c.lazy then
      (s.setObj h { o with pending := mergeVec o.pending (single c.ncols k v') }, r.2.2, .ok)
    else
      ({ s with rows := updRows s.rows o.id (single c.ncols k v') },
        r.2.2 ++ Entry.upd o.id (single c.ncols k v') :: afterUpdate c o.id, .ok)

/-- `obj.syncUpdate()` -/
def opSyncUpdate (c : Cfg) (s : State) (h : Nat) (o : Obj) : State × List Entry × Out :=
  if vecEmpty o.pending then (s, [], .ok)
  else
    ({ s with rows := updRows s.rows o.id o.pending,
              objs := s.objs.set h { o with pending := List.replicate c.ncols none } },
      Entry.upd o.id o.pending :: afterUpdate c o.id, .ok)

/-- `obj.sync()`: `syncUpdate` when something is pending, then re-SELECT -/
def opSync (c : Cfg) (s : State) (h : Nat) (o : Obj) : State × List Entry × Out :=
  let q := opSyncUpdate c s h o
  if (rowOf? q.1.rows o.id).isSome then q else (q.1, q.2.1, .notFound)

/-- `obj.destroySelf()` on a class without joins and dependents -/
def opDestroy (c : Cfg) (s : State) (o : Obj) : State × List Entry × Out :=
  let r1 := deliver .destroy (some o.id) 0 c.listeners [] []
  let r2 := deliver .destroyed (some o.id) 0 c.listeners [] []
  ({ s with rows := delRows s.rows o.id },
    r1.2.2 ++ Entry.del o.id :: (r1.2.1.map (fun p => Entry.post p o.id)
      ++ (r2.2.2 ++ r2.2.1.map (fun p => Entry.post p o.id))), .ok)

/-- the row `_create` builds from the (rewritten) kwargs: passed value, else the column default -/
def newRow (c : Cfg) (kw : Kw) : List Val :=
  (List.range c.ncols).map (fun k => (Kw.get kw k).getD (c.dflt k))

/-- `Cls(**kw)` of a plain class -/
def opCreate (c : Cfg) (s : State) (kw : Kw) : State × List Entry × Out :=
  let r := deliver .create none 0 c.listeners kw []
  let row := newRow c r.1
  if row.contains .bad then (s, r.2.2, .invalid)            -- `set` in creating mode raises Invalid
  else if unknownKey c.ncols r.1 then (s, r.2.2, .typeError)
  else
    let id := s.nextId
    -- `_SO_finishCreate`: INSERT; the RowCreatedSignal thunk goes to `postponed_calls`
    let r2 := deliver .created (some id) 0 c.listeners [] []
    let postponed := r2.2.2 ++ r2.2.1.map (fun p => Entry.post p id)
    ({ rows := s.rows ++ [(id, row)], nextId := id + 1,
       objs := s.objs ++ [{ id := id, pending := List.replicate c.ncols none }] },
      r.2.2 ++ Entry.ins id row :: (r.2.1.map (fun p => Entry.post p id) ++ postponed), .ok)

inductive Op where
  | create (kw : Kw)
  | assign (h : Nat) (k : Key) (v : Val)
  | set (h : Nat) (kw : Kw)
  | syncUpdate (h : Nat)
  | sync (h : Nat)
  | destroy (h : Nat)
  | fetch (h : Nat)          -- `Cls.get(id of handle h)`
  | select                   -- `list(Cls.select())`
  deriving Repr

def step (c : Cfg) (s : State) : Op → State × List Entry × Out
  | .create kw => opCreate c s kw
  | .assign h k v =>
    match s.objs[h]? with
    | none => (s, [], .nohandle)
    | some o => if k < c.ncols then opAssign c s h o k v else (s, [], .skip)
  | .set h kw =>
    match s.objs[h]? with
    | none => (s, [], .nohandle)
    | some o => opSet c s h o kw
  | .syncUpdate h =>
    match s.objs[h]? with
    | none => (s, [], .nohandle)
    | some o => opSyncUpdate c s h o
  | .sync h =>
    match s.objs[h]? with
    | none => (s, [], .nohandle)
    | some o => opSync c s h o
  | .destroy h =>
    match s.objs[h]? with
    | none => (s, [], .nohandle)
    | some o => opDestroy c s o
  | .fetch h =>
    match s.objs[h]? with
    | none => (s, [], .nohandle)
    | some o => if (rowOf? s.rows o.id).isSome then (s, [], .ok) else (s, [], .notFound)
  | .select => (s, [], .ok)

/-- a whole history: final state and the full log -/
def run (c : Cfg) : State → List Op → State × List Entry
  | s, [] => (s, [])
  | s, op :: ops =>
    let q := step c s op
    let r := run c q.1 ops
    (r.1, q.2.1 ++ r.2)

/-! ## Specification side: what the listeners, read as data, amount to -/

/-- the kwargs after every listener connected for `sig` edited them, in connection order -/
def rewrite (sig : Sig) : List Listener → Kw → Kw
  | [], kw => kw
  | l :: ls, kw => rewrite sig ls (if l.sig = sig then actKw sig l.act kw else kw)

/-- the callbacks the listeners connected for `sig` append, in connection order -/
def posts (sig : Sig) : List Listener → List Nat
  | [] => []
  | l :: ls => (if l.sig = sig then actPost sig l.act [] else []) ++ posts sig ls

/-- indices of the listeners connected for `sig` -/
def recipients (sig : Sig) : Nat → List Listener → List Nat
  | _, [] => []
  | i, l :: ls => if l.sig = sig then i :: recipients sig (i + 1) ls else recipients sig (i + 1) ls

/-- log entries without their payload -/
inductive Tag where
  | ev (sig : Sig) (lis : Nat)
  | ins (id : Nat)
  | upd (id : Nat)
  | del (id : Nat)
  | post (p : Nat)
  deriving DecidableEq, Repr

def Entry.tag : Entry → Tag
  | .ev sig lis _ _ => .ev sig lis
  | .ins id _ => .ins id
  | .upd id _ => .upd id
  | .del id => .del id
  | .post p _ => .post p

def evTags (c : Cfg) (sig : Sig) : List Tag := (recipients sig 0 c.listeners).map (Tag.ev sig)
def postTags (c : Cfg) (sig : Sig) : List Tag := (posts sig c.listeners).map Tag.post

/-- a successful create of row `id`: before-event to every listener once, INSERT, the callbacks
    appended on the before-event, after-event to every listener once, its callbacks -/
def createShape (c : Cfg) (id : Nat) : List Tag :=
  evTags c .create ++ Tag.ins id :: (postTags c .create ++ (evTags c .created ++ postTags c .created))

def afterUpdateShape (c : Cfg) : List Tag := evTags c .updated ++ postTags c .updated

/-- a successful eager update (`wrote` = some column value was left after the listeners' edits) -/
def updateShape (c : Cfg) (id : Nat) (wrote : Bool) : List Tag :=
  evTags c .update ++ ((if wrote then [Tag.upd id] else []) ++ afterUpdateShape c)

def destroyShape (c : Cfg) (id : Nat) : List Tag :=
  evTags c .destroy ++ Tag.del id :: (postTags c .destroy ++ (evTags c .destroyed ++ postTags c .destroyed))

/-! ## Rows created from inside a listener or a post-callback (second class `B`)

A listener with action `spawn`, or a callback numbered ≥ 1000 when it runs, calls `B()`.  What that
constructor does depends on where it is called from:

* while some constructor is active on the thread (inside a RowCreateSignal listener, inside a
  callback run by `__init__`, inside the flush of the postponed list: RowCreatedSignal listeners and
  their callbacks) the thread-local `postponed_calls` exists, so `B()` is a *nested* constructor: its
  RowCreatedSignal thunk is appended to the list that the outermost constructor is flushing / will
  flush, and the flush loop must reach it;
* from an update / destroy listener or callback there is no list: `B()` is outermost and flushes
  its own thunk before returning.

`B`'s own listeners (`LB`) do not spawn.  The log of an operation is a list of `XEntry`: `.a e` an
entry of the class operated on (exactly the entries of `step`), `.b e` an entry of class `B`. -/

inductive XEntry where
  | a (e : Entry)
  | b (e : Entry)
  deriving DecidableEq, Repr

def projA (l : List XEntry) : List Entry := l.filterMap (fun x => match x with | .a e => some e | .b _ => none)
def projB (l : List XEntry) : List Entry := l.filterMap (fun x => match x with | .b e => some e | .a _ => none)

/-- does this log entry (a listener call / a callback run) create a `B` row? -/
def spawnTrigger (L : List Listener) : Entry → Bool
  | .ev _ lis _ _ => match L[lis]? with
    | some l => decide (l.act = .spawn)
    | none => false
  | .post p _ => decide (1000 ≤ p)
  | _ => false

/-- `B()` up to the return of its `_create` and its RowCreateSignal callbacks -/
def bConstruct (c : Cfg) (LB : List Listener) (idB : Nat) : List XEntry :=
  let r := deliver .create none 0 LB [] []
  (r.2.2 ++ Entry.ins idB (newRow c r.1) :: r.2.1.map (fun p => Entry.post p idB)).map XEntry.b

/-- the postponed thunk of `B` row `idB`: RowCreatedSignal and its callbacks -/
def bCreated (LB : List Listener) (idB : Nat) : List XEntry :=
  let r := deliver .created (some idB) 0 LB [] []
  (r.2.2 ++ r.2.1.map (fun p => Entry.post p idB)).map XEntry.b

/-- entries of the operated class, executed while `postponed_calls` exists: every spawning entry is
    followed by `B`'s nested constructor; returns the ids whose thunk was appended, in order -/
def expandNested (c : Cfg) (LB L : List Listener) : List Entry → Nat → List XEntry × List Nat × Nat
  | [], nB => ([], [], nB)
  | e :: es, nB =>
    if spawnTrigger L e then
      let r := expandNested c LB L es (nB + 1)
      (XEntry.a e :: (bConstruct c LB nB ++ r.1), nB :: r.2.1, r.2.2)
    else
      let r := expandNested c LB L es nB
      (XEntry.a e :: r.1, r.2.1, r.2.2)

/-- the same with no constructor active: `B()` is outermost and delivers its RowCreatedSignal itself -/
def expandInline (c : Cfg) (LB L : List Listener) : List Entry → Nat → List XEntry × Nat
  | [], nB => ([], nB)
  | e :: es, nB =>
    if spawnTrigger L e then
      let r := expandInline c LB L es (nB + 1)
      (XEntry.a e :: (bConstruct c LB nB ++ (bCreated LB nB ++ r.1)), r.2)
    else
      let r := expandInline c LB L es nB
      (XEntry.a e :: r.1, r.2)

/-- the flush loop reaching the thunks `q` -/
def flush (LB : List Listener) (q : List Nat) : List XEntry := q.flatMap (bCreated LB)

/-- `Cls(**kw)` with spawning listeners: the postponed list is
    [thunks of B rows made by RowCreateSignal listeners] ++ [own thunk] ++ [B rows made by the
    callbacks run in `__init__`]; flushing the own thunk may append more (`x3`), which the loop
    of the original code still reaches. -/
def opCreateX (c : Cfg) (LB : List Listener) (s : State) (nB : Nat) (kw : Kw) : (State × List XEntry × Out) × Nat :=
  let L := c.listeners
  let r := deliver .create none 0 L kw []
  let x1 := expandNested c LB L r.2.2 nB
  let row := newRow c r.1
  if row.contains .bad then ((s, x1.1 ++ flush LB x1.2.1, .invalid), x1.2.2)
  else if unknownKey c.ncols r.1 then ((s, x1.1 ++ flush LB x1.2.1, .typeError), x1.2.2)
  else
    let id := s.nextId
    let x2 := expandNested c LB L (r.2.1.map (fun p => Entry.post p id)) x1.2.2
    let r2 := deliver .created (some id) 0 L [] []
    let x3 := expandNested c LB L (r2.2.2 ++ r2.2.1.map (fun p => Entry.post p id)) x2.2.2
    (({ rows := s.rows ++ [(id, row)], nextId := id + 1,
        objs := s.objs ++ [{ id := id, pending := List.replicate c.ncols none }] },
      x1.1 ++ XEntry.a (Entry.ins id row) :: (x2.1 ++ (flush LB x1.2.1 ++ (x3.1 ++ (flush LB x2.2.1 ++ flush LB x3.2.1)))),
      .ok), x3.2.2)

/-- one operation with spawning listeners; `nB` = next id of class `B` -/
def stepX (c : Cfg) (LB : List Listener) (s : State) (nB : Nat) : Op → (State × List XEntry × Out) × Nat
  | .create kw => opCreateX c LB s nB kw
  | op =>
    let q := step c s op
    let x := expandInline c LB c.listeners q.2.1 nB
    ((q.1, x.1, q.2.2), x.2)

def runX (c : Cfg) (LB : List Listener) : State → Nat → List Op → (State × Nat) × List XEntry
  | s, nB, [] => ((s, nB), [])
  | s, nB, op :: ops =>
    let q := stepX c LB s nB op
    let r := runX c LB q.1.1 q.2 ops
    (r.1, q.1.2.1 ++ r.2)

/-! ## Chain: an inheritance chain of any depth (level 0 = root) and nested constructors

`InheritableSQLObject._create` constructs the parent instance inside the child's constructor; only
the outermost constructor owns the thread-local `postponed_calls` and runs it on exit.  A listener
connected on a class *before* a subclass is defined is cloned to the subclass
(`events._makeSubclassConnectionsPost`), so the effective listeners of a level are the `early` ones
of its ancestors, root first, followed by its own. -/
namespace Chain

structure CListener where
  sig : Sig
  act : Act
  early : Bool
  deriving DecidableEq, Repr

inductive CEntry where
  | ev (sig : Sig) (level : Nat) (lis : Nat) (id : Option Nat)
  | ins (level : Nat) (id : Nat)
  | post (p : Nat) (level : Nat) (id : Nat)
  deriving DecidableEq, Repr

/-- own listeners per level -/
abbrev CCfg := List (List CListener)

def own (cfg : CCfg) (level : Nat) : List CListener := (cfg[level]?).getD []

def toL (l : CListener) : Listener := ⟨l.sig, l.act⟩

/-- listeners connected on class `level`, in connection order -/
def effective (cfg : CCfg) : Nat → List Listener
  | 0 => (own cfg 0).map toL
  | level + 1 =>
    ((List.range (level + 1)).flatMap (fun j => ((own cfg j).filter (·.early)).map toL))
      ++ (own cfg (level + 1)).map toL

def conv (level : Nat) : Entry → CEntry
  | .ev sig lis id _ => .ev sig level lis id
  | .post p id => .post p level id
  | .ins id _ => .ins level id
  | .upd id _ => .ins level id     -- never produced by `deliver`
  | .del id => .ins level id       -- never produced by `deliver`

/-- entries of one `send` plus the run of the appended callbacks -/
def sendCreated (cfg : CCfg) (level id : Nat) : List CEntry :=
  let r := deliver .created (some id) 0 (effective cfg level) [] []
  (r.2.2 ++ r.2.1.map (fun p => Entry.post p id)).map (conv level)

/-- the constructor of class `level` (nested constructors included), for the object that gets
    `id`: returns the log up to the constructor's return (outermost `finally` excluded) and the
    thunks it appended to `postponed_calls` (as the levels whose RowCreatedSignal is pending) -/
def construct (cfg : CCfg) (id : Nat) : Nat → List CEntry × List Nat
  | 0 =>
    let r := deliver .create none 0 (effective cfg 0) [] []
    (r.2.2.map (conv 0) ++ CEntry.ins 0 id :: (r.2.1.map (fun p => CEntry.post p 0 id)), [0])
  | level + 1 =>
    let r := deliver .create none 0 (effective cfg (level + 1)) [] []
    let inner := construct cfg id level            -- `parentClass(kw=parent_kw, …)` inside `_create`
    (r.2.2.map (conv (level + 1)) ++ inner.1 ++ CEntry.ins (level + 1) id
        :: (r.2.1.map (fun p => CEntry.post p (level + 1) id)),
      inner.2 ++ [level + 1])

/-- `Cls_level(...)` called from application code: the outermost constructor, then its `finally` -/
def createObj (cfg : CCfg) (id level : Nat) : List CEntry :=
  let r := construct cfg id level
  r.1 ++ r.2.flatMap (fun j => sendCreated cfg j id)

/-- a history of creates: the levels of the classes instantiated, in order; ids from the root
    table's AUTOINCREMENT -/
def runCreates (cfg : CCfg) : Nat → List Nat → List CEntry
  | _, [] => []
  | nextId, level :: rest => createObj cfg nextId level ++ runCreates cfg (nextId + 1) rest

end Chain

end SqlObjVerif.Events
