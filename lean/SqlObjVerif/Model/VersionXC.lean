import SqlObjVerif.Model.PyVersion
import SqlObjVerif.Extracted.PyVersion
/-!
# C20 / C14 — the class-construction half of `sqlobject/versioning/__init__.py` as TRANSLATED from the source

`initX`, `addtoclassX`, `getColumnsN`, `createTableX`, `createVersionTableX` RUN the PyVersion programs
`vlib/extractors/pyversion.py` translated from /repo on this very run.  A world `CW` holds what that code reads and
writes: the attributes set on objects (`attrs`: the `Versioning` descriptor's fields, `_connection` of the version
class), the `_kw` dict of every column definition of every class (`kw` — these are objects of the WORLD: `del
defi._kw[k]` would change the master's own definition), the `events.listen` registrations in order (`listeners`), the
classes made by `type(name, bases, attrs)` in order (`classes`) and the `createTable` calls (`created`).

Values: `.cls c` class `c` (the `n`-th class made by `type(…)` is `.cls (100 + n)`), `vobj = .ref 1 0` the descriptor,
`defObj c j name klass fk` the `j`-th column definition of class `c` (its `Col` class name and whether that is
`col.ForeignKey`), `.obj "kwref" (.cls c) (.nat j)` its `_kw` dict, `.obj "newcol" (.str K) (.pair pos (.dictv kw))` a
column definition object made by calling the class `K`, `.obj "global" (.str n) .none` a module-level name,
`.obj "method" o (.str n)` a bound method.

## The assumed interface
attributes: `o.n` of the descriptor: what `attrs` holds, its methods are bound-method values; `(.cls c).__name__` =
`X.cname c`, `.sqlmeta.columnDefinitions` (a dict, declaration order: `X.defs c`), `.sqlmeta.parentClass` (`X.parent c`,
None for a root), `.__dict__` has `'_connection'` iff `X.hasConn c` gives one; `defi._kw` the world's dict;
`isinstance(defi, col.ForeignKey)`; `dict(defi._kw)` a COPY of the world's dict; `del defi._kw[k]` changes the world.
calls: `K(*pos, **kw)` / `defi.__class__(**kw)` make a new column definition and change nothing; `type(name, bases,
attrs)` makes a class (recorded; SQLObject's metaclass machinery for the new class — `sqlmeta`, `addColumn`, … — is
C14's model, not this one); `events.listen(receiver, sender, signal)` appends to the registrations;
`versionClass.createTable(ifNotExists=True, connection=conn)` is recorded; `getColumns(columns, cls)` is the translated
function itself on the parent class (`Calls`), with the dict passed in and out.
The calls made in the body of `for column, defi in cls.sqlmeta.columnDefinitions.items()` do not change that dict.
-/
namespace SqlObjVerif.VersionC
open SqlObjVerif.PyVer
open SqlObjVerif.PyVer.Extracted

/-- a column definition: keyword, name of its `Col` class, is that `col.ForeignKey` -/
structure ColDef where
  name : String
  klass : String
  fk : Bool
deriving Repr, DecidableEq

structure CW where
  attrs : Val → String → Option Val
  /-- body of the `_kw` dict of column definition `j` of class `c` -/
  kw : Nat → Nat → Val
  listeners : List (Val × Val × Val)
  classes : List (Val × Val × Val)
  created : List (Val × Val)

def CW.setAttr (w : CW) (o : Val) (n : String) (v : Val) : CW :=
  { w with attrs := fun o' n' => if o' = o ∧ n' = n then some v else w.attrs o' n' }

def CW.setKw (w : CW) (c j : Nat) (b : Val) : CW :=
  { w with kw := fun c' j' => if c' = c ∧ j' = j then b else w.kw c' j' }

structure CX where
  defs : Nat → List ColDef
  parent : Nat → Option Nat
  cname : Nat → String
  /-- `cls.__dict__['_connection']` when the class body set one -/
  hasConn : Nat → Option Val

def vobj : Val := .ref 1 0
def glob (n : String) : Val := .obj "global" (.str n) .none
def meth (o : Val) (n : String) : Val := .obj "method" o (.str n)

def defObj (c j : Nat) (d : ColDef) : Val :=
  .obj "def" (.pair (.cls c) (.nat j)) (.pair (.str d.klass) (.bool d.fk))

/-- `cls.sqlmeta.columnDefinitions.items()` from position `j` on -/
def defItems (c : Nat) : Nat → List ColDef → List Val
  | _, [] => []
  | j, d :: ds => .pair (.str d.name) (defObj c j d) :: defItems c (j + 1) ds

def newcol (klass : String) (pos : List Val) (kw : Val) : Val :=
  .obj "newcol" (.str klass) (.pair (Val.ofList pos) (.dictv kw))

def kwBody : List (String × Val) → Val
  | [] => .nil
  | (n, v) :: l => .cons (.pair (.str n) v) (kwBody l)

def classOpt : Option Nat → Val
  | some p => .cls p
  | none => .none

def xcAttr (X : CX) (w : CW) (v : Val) (n : String) : R Val :=
  match v with
  | .ref 1 0 =>
    if n = "createTable" ∨ n = "rowUpdate" ∨ n = "createVersionTable" then .ok (meth v n)
    else R.ofOpt (w.attrs v n)
  | .cls c =>
    if n = "__name__" then .ok (.str (X.cname c))
    else if n = "sqlmeta" then .ok (.obj "sqlmeta" v .none)
    else if n = "__dict__" then .ok (.obj "classdict" v .none)
    else R.ofOpt (w.attrs v n)
  | .obj t a _ =>
    if t = "sqlmeta" ∧ n = "columnDefinitions" then .ok (.obj "coldefs" a .none)
    else if t = "sqlmeta" ∧ n = "parentClass" then
      (match a with
       | .cls c => .ok (classOpt (X.parent c))
       | _ => .stuck)
    else if t = "def" ∧ n = "_kw" then
      (match a with
       | .pair c j => .ok (.obj "kwref" c j)
       | _ => .stuck)
    else .stuck
  | _ => .stuck

def xcIsinstance (v : Val) (cls : String) : Option Bool :=
  match v with
  | .obj t _ (.pair _ (.bool fk)) => if t = "def" ∧ cls = "col.ForeignKey" then some fk else none
  | _ => none

def xcItems (X : CX) (v : Val) : Option (List Val) :=
  match v with
  | .obj t (.cls c) _ => if t = "coldefs" then some (defItems c 0 (X.defs c)) else none
  | _ => none

def xcDictOf (w : CW) (v : Val) : Option Val :=
  match v with
  | .obj t (.cls c) (.nat j) => if t = "kwref" then some (.dictv (w.kw c j)) else none
  | _ => none

def xcContains (X : CX) (w : CW) (v k : Val) : Option Bool :=
  match v with
  | .obj t (.cls c) (.nat j) => if t = "kwref" then some (vdHas k (w.kw c j)) else none
  | .obj t (.cls c) .none => if t = "classdict" ∧ k = .str "_connection" then some (X.hasConn c).isSome else none
  | _ => none

def xcGetItem (X : CX) (v k : Val) : R Val :=
  match v with
  | .obj t (.cls c) .none =>
    if t = "classdict" ∧ k = .str "_connection" then
      (match X.hasConn c with
       | some x => .ok x
       | none => .exc ⟨.keyError, 0⟩)
    else .stuck
  | _ => .stuck

/-- `del defi._kw[k]` on the WORLD's dict -/
def xcDelItem (w : CW) (v k : Val) : R CW :=
  match v with
  | .obj t (.cls c) (.nat j) =>
    if t = "kwref" then (if vdHas k (w.kw c j) then .ok (w.setKw c j (vdDel k (w.kw c j))) else .exc ⟨.keyError, 0⟩)
    else .stuck
  | _ => .stuck

def xcCall (w : CW) (recv : Val) (m : String) (a : Args) : CallRes CW :=
  match recv with
  | .obj t _ (.pair (.str klass) _) =>
    if t = "def" ∧ m = "__class__" ∧ a.pos = [] ∧ a.kw = [] then
      (match a.star with
       | .dictv b => .ret w (newcol klass [] b)
       | _ => .stuck)
    else .stuck
  | .cls c =>
    if m = "createTable" ∧ a.pos = [] ∧ a.star = .none then
      (match a.kw with
       | [("ifNotExists", .bool true), ("connection", conn)] => .ret { w with created := w.created ++ [(.cls c, conn)] } .none
       | _ => .stuck)
    else .stuck
  | _ => .stuck

def xcCallFn (w : CW) (f : Val) (a : Args) : CallRes CW :=
  match f with
  | .obj "global" (.str g) _ =>
    if g = "col.DateTimeCol" ∧ a.star = .none then .ret w (newcol "DateTimeCol" a.pos (kwBody a.kw))
    else if g = "col.ForeignKey" ∧ a.star = .none then .ret w (newcol "ForeignKey" a.pos (kwBody a.kw))
    else if g = "type" ∧ a.kw = [] ∧ a.star = .none then
      (match a.pos with
       | [name, bases, attrs] => .ret { w with classes := w.classes ++ [(name, bases, attrs)] } (.cls (100 + w.classes.length))
       | _ => .stuck)
    else if g = "events.listen" ∧ a.kw = [] ∧ a.star = .none then
      (match a.pos with
       | [recv, sender, sig] => .ret { w with listeners := w.listeners ++ [(recv, sender, sig)] } .none
       | _ => .stuck)
    else .stuck
  | _ => .stuck

def knownGlobals : List String :=
  ["col.DateTimeCol", "col.ForeignKey", "datetime.now", "type", "Version", "events.listen", "events.CreateTableSignal",
   "events.RowUpdateSignal"]

/-- the recursive call of `getColumns` -/
structure Calls where
  getColumns : CW → Val → Val → ProcRes CW

def xcProc (C : Calls) (w : CW) (f : String) (args : List Val) : ProcRes CW :=
  match args with
  | [cols, cls] => if f = "getColumns" then C.getColumns w cols cls else .stuck
  | _ => .stuck

def xcIface (X : CX) (C : Calls) (self : Val) : Iface CW where
  self := self
  attr := xcAttr X
  setAttr := fun w o n v => some (w.setAttr o n v)
  global := fun n => if knownGlobals.contains n then some (glob n) else none
  isinstance := fun _ v c => xcIsinstance v c
  contains := xcContains X
  getItem := fun _ v k => xcGetItem X v k
  setItem := fun _ _ _ _ => none
  delItem := xcDelItem
  iter := fun _ _ => none
  items := fun _ v => xcItems X v
  dictOf := xcDictOf
  call := xcCall
  callFn := xcCallFn
  super := fun _ _ _ _ => .stuck
  proc := xcProc C

/-- `getColumns(columns, cls)`, the translated program, the recursive call being `C` -/
def getColumnsX (X : CX) (C : Calls) (w : CW) (cols cls : Val) : ProcRes CW :=
  PyVer.run (xcIface X C .none) getColumnsProg [cols, cls] getColumns_nlocals w

/-- the translated `getColumns` calling ITSELF, at most `n` levels deep -/
def getColumnsN (X : CX) : Nat → CW → Val → Val → ProcRes CW
  | 0 => fun _ _ _ => .stuck
  | n + 1 => getColumnsX X ⟨getColumnsN X n⟩

/-- the class has fewer than `n` ancestors -/
def depthOK (X : CX) : Nat → Nat → Prop
  | 0, _ => False
  | n + 1, c => match X.parent c with
    | none => True
    | some p => depthOK X n p

def stuckCalls : Calls := ⟨fun _ _ _ => .stuck⟩

def initX (X : CX) (w : CW) (extraCols : Val) : ProcRes CW :=
  PyVer.run (xcIface X stuckCalls vobj) initProg [extraCols] init_nlocals w

def addtoclassX (X : CX) (n : Nat) (w : CW) (soClass name : Val) : ProcRes CW :=
  PyVer.run (xcIface X ⟨getColumnsN X n⟩ vobj) addtoclassProg [soClass, name] addtoclass_nlocals w

def createTableX (X : CX) (w : CW) (soClass conn extra post : Val) : ProcRes CW :=
  PyVer.run (xcIface X stuckCalls vobj) createTableProg [soClass, conn, extra, post] createTable_nlocals w

def createVersionTableX (X : CX) (w : CW) (cls conn : Val) : ProcRes CW :=
  PyVer.run (xcIface X stuckCalls vobj) createVersionTableProg [cls, conn] createVersionTable_nlocals w

/-! ### the hand-written reading of `getColumns` -/

/-- `if k in d: del d[k]` -/
def delIf (k : String) (b : Val) : Val := if vdHas (.str k) b then vdDel (.str k) b else b

/-- the constraints a version table must not inherit are removed from (a copy of) the keywords -/
def stripKw (b : Val) : Val := delIf "unique" (delIf "alternateID" b)

/-- the attribute name a definition is filed under: a foreign key `xID` is declared as `x` -/
def colKey (d : ColDef) : String := if strEndsWith d.name "ID" && d.fk then dropRightStr d.name 2 else d.name

/-- one definition copied into `columns` -/
def colStep (w : CW) (c : Nat) (cols : Val) (j : Nat) (d : ColDef) : Val :=
  vdSet (.str (colKey d)) (newcol d.klass [] (stripKw (w.kw c j))) cols

def colSteps (w : CW) (c : Nat) : Nat → List ColDef → Val → Val
  | _, [], cols => cols
  | j, d :: ds, cols => colSteps w c (j + 1) ds (colStep w c cols j d)

/-- the definitions of `c` and of its ancestors (at most `n` levels), nearest first -/
def versionCols (X : CX) (w : CW) : Nat → Nat → Val → Val
  | 0, _, cols => cols
  | n + 1, c, cols =>
    let cols' := colSteps w c 0 (X.defs c) cols
    match X.parent c with
    | none => cols'
    | some p => versionCols X w n p cols'

end SqlObjVerif.VersionC
