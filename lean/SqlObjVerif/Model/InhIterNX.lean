import SqlObjVerif.Model.InhIterX
/-!
# C15 — `InheritableIteration.next` as TRANSLATED from the source

`nextX` RUNS the translated `next` against the world of `Model/InhIterX.lean` (two cursors).  Additional interface:
`self.use_arraysize` : True; `self.lazyColumns` : False; `self.select.sourceClass` : the source class; `self.cursor.fetchmany()` :
the next `X.batch` rows pending on the iteration's OWN cursor (they are no longer pending); `self.fetchChildren()` : the
TRANSLATED `fetchChildren` (`fetchChildrenX`); `self._cleanup()` : nothing observable; `sourceClass.get(id,
selectResults=row, childResults=crow, connection=dbconn)` : some instance value `X.getRes id row crow` (a parameter: what
`get` does with the rows it is handed is the translated `get` of `Model/InheritX.lean`; the tie is not made here).
-/
namespace SqlObjVerif.InhIter
open SqlObjVerif.PyIS
open SqlObjVerif.PyIS.Extracted

structure NCtx where
  I : ICtx
  batch : Nat
  src : Nat
  getRes : Nat → Val → Val → Val

def nAttrOf (X : NCtx) (w : IW) (v : Val) (path : List String) : R Val :=
  match v with
  | .ref 30 0 =>
    if path = ["use_arraysize"] then .ok (.bool true)
    else if path = ["lazyColumns"] then .ok (.bool false)
    else if path = ["select", "sourceClass"] then .ok (.cls X.src)
    else iAttrOf X.I w v path
  | _ => iAttrOf X.I w v path

def nSetAttrOf (w : IW) (v : Val) (path : List String) (x : Val) : Option IW :=
  match v with
  | .ref 30 0 =>
    if path = ["_results"] then some { w with results := x }
    else if path = ["_childrenResults"] then some { w with children := x } else none
  | _ => none

def nCall (X : NCtx) (w : IW) (recv : Val) (m : String) (args : List Val) (kw : List (String × Val)) (star : Val) :
    CallRes IW :=
  match recv with
  | .ref 20 1 =>
    if m = "fetchmany" ∧ args = [] ∧ kw = [] then
      .ret { w with c1 := w.c1.drop X.batch } (Val.ofList (w.c1.take X.batch))
    else .stuck
  | .ref 30 0 =>
    if m = "fetchChildren" ∧ args = [] ∧ kw = [] then fetchChildrenX X.I w
    else if m = "_cleanup" ∧ args = [] ∧ kw = [] then .ret w .none
    else .stuck
  | .cls _ =>
    (match args, kw with
     | [.nat j], [(n1, sr), (n2, cr), (n3, .conn _)] =>
       if m = "get" ∧ n1 = "selectResults" ∧ n2 = "childResults" ∧ n3 = "connection" ∧ star = .none then
         .ret w (X.getRes j sr cr)
       else .stuck
     | _, _ => .stuck)
  | _ => .stuck

def nIface (X : NCtx) : Iface IW :=
  { iIface X.I with
    attrOf := nAttrOf X
    setAttrOf := nSetAttrOf
    call := nCall X }

/-- `<iteration>.next()` -/
def nextX (X : NCtx) (w : IW) : CallRes IW := PyIS.run (nIface X) iterNextProg [] w

/-- call `next()` until `StopIteration`: the values delivered, and whether the iteration ended with `StopIteration` -/
def drain (X : NCtx) : Nat → IW → List Val × Bool
  | 0, _ => ([], false)
  | f + 1, w =>
    match nextX X w with
    | .ret w' v => (v :: (drain X f w').1, (drain X f w').2)
    | .exc _ e => ([], e.cls == .stopIteration)
    | .stuck => ([], false)

end SqlObjVerif.InhIter
