import SqlObjVerif.Model.Expr
import SqlObjVerif.Extracted.PyExpr
/-!
# ExprX — the translated expression builders of sqlbuilder.py run on the image of the C03 hand model

`Extracted/PyExpr.lean` holds the Python bodies (translated on every run by `vlib/extractors/pyexpr.py`); this file
runs them and states what they are compared with:

* `toVal P n`        : the Python object graph an `Expr.Node` stands for (`SQLOp` / `SQLModulo` / `SQLPrefix` objects
                        with the attributes their `__init__` stores, `SQLObjectField`s, ints, floats, `None`, lists);
* `ifaceF P k`       : the interpreter's interface tied to the translated programs themselves, `k` levels of calls deep:
                        a called class runs its (inherited) translated `__init__` on a fresh object, a called module
                        function runs its translated body, `sqlrepr(x, db)` dispatches on the node — an object runs
                        the `__sqlrepr__` its class resolves to, anything else the converter `converters.py` registers
                        for its type — so rendering a graph is the interpreter's recursion on the graph;
* `renderS P d n`    : the hand model at TEXT level (what `Expr.render` means as a string: the paren rule on
                        strings, `MOD(a, b)`, `, `-joined lists); `Spells` relates a token list to a text;
* `buildX I e`       : the Python evaluation of a source tree `e : Expr.E s` — every operator is dispatched the way
                        Python dispatches it (`type(l).__op__`, the reflected method when the left operand is a plain
                        number, and for comparisons the reflected method FIRST when `type(r)` is a proper subclass of
                        `type(l)`), builder functions are called by name.

ASSUMED INTERFACE (parameters `P`, nothing else is assumed):
* `P.table c`, `P.field c`  : the `tableName` / `fieldName` strings of the `SQLObjectField` for column `c`;
* `P.reprInt`, `P.reprFlt`  : Python's `repr` of an `int` / a `float` (a float is the opaque pair sign, literal
                               number, as in the hand model);
* `P.fromPython c v`        : `Cls.q.<c>._from_python(v)` — the column's `from_python` conversion (may raise).
Hand-written here (Python itself, not sqlobject): operator dispatch (`binopX`, `cmpX`), method resolution along the
single-inheritance chain of `classBases` (`findMethod`), `sqlrepr`'s dispatch (`sqlreprD`: `__sqlrepr__` attribute,
else the registered converter of `type(obj)`, else ValueError), `bool` being a subclass of `int`.
-/
namespace SqlObjVerif.ExprX
open SqlObjVerif.PyExpr

abbrev Node := SqlObjVerif.Expr.Node
abbrev Tok := SqlObjVerif.Expr.Tok
abbrev BinOp := SqlObjVerif.Expr.BinOp
abbrev PreOp := SqlObjVerif.Expr.PreOp
abbrev E := SqlObjVerif.Expr.E


structure Params where
  table : Nat → Str
  field : Nat → Str
  reprInt : Int → Str
  reprFlt : Bool → Nat → Str
  fromPython : Nat → Val → R Val

/-- code points of a Lean string -/
def strOf (s : String) : Str := s.toList.map Char.toNat

/-! ### spellings as code points (tied to `BinOp.spell` / `PreOp.spell` by `binText_eq` / `preText_eq`) -/

def binText : BinOp → Str
  | .add => [43] | .sub => [45] | .mul => [42] | .div => [47] | .mod => [37]
  | .lt => [60] | .le => [60, 61] | .gt => [62] | .ge => [62, 61] | .eq => [61] | .ne => [60, 62]
  | .and => [65, 78, 68] | .or => [79, 82] | .is => [73, 83] | .isNot => [73, 83, 32, 78, 79, 84]

def preText : PreOp → Str
  | .neg => [45] | .pos => [43] | .not => [78, 79, 84]

def inText : Str := [73, 78]
def nullText : Str := [78, 85, 76, 76]
def modFnText : Str := [77, 79, 68]

/-! ### the object graph -/

def mkOp (cls : String) (op : Str) (a b : Val) : Val :=
  .obj cls [("op", .str op), ("expr1", a), ("expr2", b)]

def mkPrefix (p : Str) (x : Val) : Val := .obj "SQLPrefix" [("prefix", .str p), ("expr", x)]

def fieldVal (P : Params) (c : Nat) : Val :=
  .obj "SQLObjectField" [("tableName", .str (P.table c)), ("fieldName", .str (P.field c)), ("column", .int c)]

def listItems : Val → List Val
  | .list vs => vs
  | _ => []

def toVal (P : Params) : Node → Val
  | .field c => fieldVal P c
  | .int i => .int i
  | .flt n i => .flt n i
  | .none => .none
  | .sqlop o l r => mkOp "SQLOp" (binText o) (toVal P l) (toVal P r)
  | .sqlin x l => mkOp "SQLOp" inText (toVal P x) (toVal P l)
  | .modulo l r => mkOp "SQLModulo" (binText .mod) (toVal P l) (toVal P r)
  | .prefix p x => mkPrefix (preText p) (toVal P x)
  | .lnil => .list []
  | .lcons h t => .list (toVal P h :: listItems (toVal P t))

/-! ### classes: subclass relation, method resolution -/

def basesOf (c : String) : List String :=
  if c = "bool" then ["int"] else (aget c PyExpr.Extracted.classBases).getD []

def mro : Nat → String → List String
  | 0, c => [c]
  | n+1, c => c :: (basesOf c).flatMap (mro n)

def isSub (a b : String) : Bool := (mro 6 a).contains b

/-- the program `C.m` resolves to: the first class of the chain whose body binds `m` must be a translated one -/
def findMethod (c m : String) : Option Block :=
  match (mro 6 c).find? (fun k => ((aget k PyExpr.Extracted.classNames).getD []).contains m) with
  | some k => aget (k, m) PyExpr.Extracted.methodTable
  | Option.none => Option.none

def findClassAttr (c a : String) : Option Val :=
  ((mro 6 c).findSome? fun k => aget (k, a) (PyExpr.Extracted.classAttrs.map fun e => ((e.1, e.2.1), e.2.2))).map .str

def isClass (c : String) : Bool := (aget c PyExpr.Extracted.classBases).isSome

/-! ### the interface tied to the translated programs -/

/-- `v.m(args)` for a method of the translated classes -/
def callM (I : Iface) (v : Val) (m : String) (args : List Val) : R Val :=
  match v with
  | .obj c _ =>
    match findMethod c m with
    | some prog => (run I prog (v :: args)).toR
    | Option.none => .stuck
  | _ => .stuck

/-- `C(args)`: a fresh object initialised by the `__init__` the class resolves to -/
def construct (I : Iface) (c : String) (args : List Val) : R Val :=
  match findMethod c "__init__" with
  | some prog => runInit I prog (.obj c [] :: args)
  | Option.none =>
    match args with
    | [] => .ok (.obj c [])
    | _ => .stuck

/-- `sqlrepr(obj, db)`: the object's `__sqlrepr__`, else the converter registered for `type(obj)` -/
def sqlreprD (I : Iface) (v db : Val) : R Val :=
  match v with
  | .obj c _ =>
    match findMethod c "__sqlrepr__" with
    | some prog => (run I prog [v, db]).toR
    | Option.none => .stuck
  | _ =>
    match aget (typeName v) PyExpr.Extracted.converterTable with
    | some f =>
      match aget f PyExpr.Extracted.funcTable with
      | some (prog, _) => (run I prog [v, db]).toR
      | Option.none => .stuck
    | Option.none => .exc .valueError

def callD (I : Iface) (f : String) (args : List Val) : R Val :=
  if f = "sqlrepr" then
    match args with
    | [v, db] => sqlreprD I v db
    | _ => .stuck
  else if isClass f then construct I f args
  else
    match aget f PyExpr.Extracted.funcTable with
    | some (prog, vararg) => (run I prog (if vararg = true then [.tuple args] else args)).toR
    | Option.none => .stuck

def methodD (P : Params) (recv : Val) (m : String) (args : List Val) : R Val :=
  if m = "_from_python" then
    match recv, args with
    | .obj _ fs, [v] =>
      match aget "column" fs with
      | some (.int c) => P.fromPython c.toNat v
      | _ => .stuck
    | _, _ => .stuck
  else .stuck

def clsCallD (I : Iface) (c m : String) (args : List Val) : R Val :=
  match findMethod c m with
  | some prog => (run I prog args).toR
  | Option.none => .stuck

def clsInitD (I : Iface) (c : String) (self : Val) (args : List Val) : R Val :=
  match findMethod c "__init__" with
  | some prog => runInit I prog (self :: args)
  | Option.none => .stuck

/-- no calls left -/
def iface0 (P : Params) : Iface where
  call := fun _ _ => .stuck
  method := methodD P
  clsCall := fun _ _ _ => .stuck
  clsInit := fun _ _ _ => .stuck
  classAttr := findClassAttr
  isSub := isSub
  reprInt := P.reprInt
  reprFlt := P.reprFlt

/-- the interface with `k` levels of calls into the translated programs -/
def ifaceF (P : Params) : Nat → Iface
  | 0 => iface0 P
  | k+1 =>
    { call := callD (ifaceF P k)
      method := methodD P
      clsCall := clsCallD (ifaceF P k)
      clsInit := clsInitD (ifaceF P k)
      classAttr := findClassAttr
      isSub := isSub
      reprInt := P.reprInt
      reprFlt := P.reprFlt }

/-- `sqlrepr(v, db)` run by the translated programs, `k` levels deep -/
def sqlreprX (P : Params) (k : Nat) (v : Val) (d : Str) : R Val := (ifaceF P (k + 1)).call "sqlrepr" [v, .str d]

/-! ### the hand model at text level -/

/-- the paren rule of `SQLOp.__sqlrepr__` on strings -/
def wrapStr (s : Str) : Str := if s.head? = some 40 ∨ s = nullText then s else 40 :: (s ++ [41])

/-- `"(%s %s %s)" % (s1, op, s2)` after the paren rule; `sub2`: the right operand is a `Subquery` -/
def opStr (op s1 s2 : Str) (sub2 : Bool) : Str :=
  40 :: (wrapStr s1 ++ 32 :: (op ++ 32 :: ((if sub2 then s2 else wrapStr s2) ++ [41])))

def prefixStr (p s : Str) : Str := p ++ 32 :: s

/-- `"MOD(%s, %s)" % (s1, s2)` -/
def modStr (s1 s2 : Str) : Str := modFnText ++ 40 :: (s1 ++ 44 :: 32 :: (s2 ++ [41]))

/-- `"(%s)" % ", ".join(items)` -/
def seqStr (items : List Str) : Str := 40 :: (joinStr [44, 32] items ++ [41])

def sqliteText : Str := [115, 113, 108, 105, 116, 101]

mutual
def renderS (P : Params) (d : String) : Node → Str
  | .field c => P.table c ++ 46 :: P.field c
  | .int i => P.reprInt i
  | .flt n i => P.reprFlt n i
  | .none => nullText
  | .sqlop o l r => opStr (binText o) (renderS P d l) (renderS P d r) false
  | .sqlin x l => opStr inText (renderS P d x) (renderS P d l) false
  | .modulo l r =>
    if Expr.moduloInfix d then opStr (binText Expr.Extracted.moduloOp) (renderS P d l) (renderS P d r) false
    else modStr (renderS P d l) (renderS P d r)
  | .prefix p x => prefixStr (preText p) (renderS P d x)
  | .lnil => seqStr []
  | .lcons h t => seqStr (renderS P d h :: itemsS P d t)
def itemsS (P : Params) (d : String) : Node → List Str
  | .lcons h t => renderS P d h :: itemsS P d t
  | _ => []
end

/-- the text of one token -/
def tokText (P : Params) : Tok → Str
  | .lp => [40] | .rp => [41] | .comma => [44] | .null => nullText | .kwIn => inText
  | .col c => P.table c ++ 46 :: P.field c
  | .num (.int n) => P.reprInt n
  | .num (.flt i) => P.reprFlt false i
  | .op o => binText o
  | .pre p => preText p
  | .fn _ => modFnText

/-- the text is the tokens' texts in order, with any number of blanks between them -/
inductive Spells (P : Params) : List Tok → Str → Prop where
  | nil : Spells P [] []
  | tok (t : Tok) {ts : List Tok} {s : Str} : Spells P ts s → Spells P (t :: ts) (tokText P t ++ s)
  | blank {ts : List Tok} {s : Str} : Spells P ts s → Spells P ts (32 :: s)

/-! ### Python's evaluation of a source tree -/

def isExpr (v : Val) : Bool := isSub (typeName v) "SQLExpression"

/-- `l <op> r` for an arithmetic / bitwise operator; `spell`: the node built directly when both operands are plain
    numbers (they never reach sqlbuilder through an operator) -/
def binopX (I : Iface) (m rm : String) (spell : Str) (l r : Val) : R Val :=
  if isExpr l then callM I l m [r]
  else if isExpr r then callM I r rm [l]
  else I.call "SQLOp" [.str spell, l, r]

/-- `l <cmp> r`: the reflected method of `r` goes first when `type(r)` is a proper subclass of `type(l)` -/
def cmpX (I : Iface) (m rm : String) (spell : Str) (l r : Val) : R Val :=
  if isExpr l then
    if isExpr r && typeName l != typeName r && isSub (typeName r) (typeName l) then callM I r rm [l]
    else callM I l m [r]
  else if isExpr r then callM I r rm [l]
  else I.call "SQLOp" [.str spell, l, r]

def arNames : Expr.ArOp → String × String × Str
  | .add => ("__add__", "__radd__", [43])
  | .sub => ("__sub__", "__rsub__", [45])
  | .mul => ("__mul__", "__rmul__", [42])
  | .div => ("__truediv__", "__rtruediv__", [47])
  | .mod => ("__mod__", "__rmod__", [37])

def cmpNames : Expr.CmpOp → String × String × Str
  | .lt => ("__lt__", "__gt__", [60])
  | .le => ("__le__", "__ge__", [60, 61])
  | .gt => ("__gt__", "__lt__", [62])
  | .ge => ("__ge__", "__le__", [62, 61])
  | .eq => ("__eq__", "__eq__", [61])
  | .ne => ("__ne__", "__ne__", [60, 62])

/-- evaluate the Python expression a source tree stands for -/
def buildX (P : Params) (I : Iface) : {s : Expr.Srt} → E s → R Val
  | _, .col c => .ok (fieldVal P c)
  | _, .rcol c => .ok (fieldVal P c)
  | _, .const i => .ok (.int i)
  | _, .fconst n i => .ok (.flt n i)
  | _, .wconst n i _ => .ok (.flt n i)
  | _, .ar o l r => (buildX P I l).bind fun lv => (buildX P I r).bind fun rv =>
      if o = .mod then (if isExpr lv then callM I lv "__mod__" [rv] else I.call "SQLModulo" [lv, rv])
      else binopX I (arNames o).1 (arNames o).2.1 (arNames o).2.2 lv rv
  | _, .neg x => (buildX P I x).bind fun v =>
      if isExpr v then callM I v "__neg__" [] else I.call "SQLPrefix" [.str [45], v]
  | _, .pos x => (buildX P I x).bind fun v =>
      if isExpr v then callM I v "__pos__" [] else I.call "SQLPrefix" [.str [43], v]
  | _, .b2i b => buildX P I b
  | _, .cmp o l r => (buildX P I l).bind fun lv => (buildX P I r).bind fun rv =>
      cmpX I (cmpNames o).1 (cmpNames o).2.1 (cmpNames o).2.2 lv rv
  | _, .andOp l r => (buildX P I l).bind fun lv => (buildX P I r).bind fun rv => callM I lv "__and__" [rv]
  | _, .orOp l r => (buildX P I l).bind fun lv => (buildX P I r).bind fun rv => callM I lv "__or__" [rv]
  | _, .andFn l r => (buildX P I l).bind fun lv => (buildX P I r).bind fun rv => I.call "AND" [lv, rv]
  | _, .orFn l r => (buildX P I l).bind fun lv => (buildX P I r).bind fun rv => I.call "OR" [lv, rv]
  | _, .notOp x => (buildX P I x).bind fun v => callM I v "__invert__" []
  | _, .notFn x => (buildX P I x).bind fun v => I.call "NOT" [v]
  | _, .isin x l => (buildX P I x).bind fun v => (buildX P I l).bind fun lv => I.call "IN" [v, lv]
  | _, .notin x l => (buildX P I x).bind fun v => (buildX P I l).bind fun lv => I.call "NOTIN" [v, lv]
  | _, .isnull x => (buildX P I x).bind fun v => I.call "ISNULL" [v]
  | _, .isnotnull x => (buildX P I x).bind fun v => I.call "ISNOTNULL" [v]
  | _, .eqNone x => (buildX P I x).bind fun v =>
      if isExpr v then callM I v "__eq__" [.none] else I.call "ISNULL" [v]
  | _, .neNone x => (buildX P I x).bind fun v =>
      if isExpr v then callM I v "__ne__" [.none] else I.call "ISNOTNULL" [v]
  | _, .inil => .ok (.list [])
  | _, .inull t => (buildX P I t).bind fun tv => .ok (.list (.none :: listItems tv))
  | _, .icons h t => (buildX P I h).bind fun hv => (buildX P I t).bind fun tv => .ok (.list (hv :: listItems tv))

end SqlObjVerif.ExprX
