import SqlObjVerif.Model.CodecW
import SqlObjVerif.Model.CodecXChain
/-!
# CodecWChain — the classes whose validators are the TRANSLATED chains of their column kinds
-/
namespace SqlObjVerif.CodecW
open SqlObjVerif.Codec (PyVal ColT)

def optRes : Option (Codec.Res PyVal) → Codec.Res PyVal
  | some r => r
  | none => .unmodelled

/-- `from_python` / `to_python` of every column are the translated validator chains of its kind -/
structure Translated (C : Cls) : Prop where
  enc : ∀ c x, C.enc c x = optRes (PyCodec.chainToDb (C.kind c) x)
  dec : ∀ c x, C.dec c x = optRes (PyCodec.chainToPy (C.kind c) x)

/-- the class with `n` columns of the given kinds -/
def clsOf (n : Nat) (kind : Nat → ColT) (lazyUpdate cacheValues : Bool) : Cls :=
  { n := n, kind := kind, lazyUpdate := lazyUpdate, cacheValues := cacheValues,
    enc := fun c x => optRes (PyCodec.chainToDb (kind c) x),
    dec := fun c x => optRes (PyCodec.chainToPy (kind c) x) }

theorem clsOf_translated (n : Nat) (kind : Nat → ColT) (l cv : Bool) : Translated (clsOf n kind l cv) :=
  ⟨fun _ _ => rfl, fun _ _ => rfl⟩

end SqlObjVerif.CodecW
