/-!
# PyVersion — a deep embedding of the Python fragment `sqlobject/versioning/__init__.py` is written in

`vlib/extractors/pyversion.py` TRANSLATES the WHOLE module (`Version.restore / nextVersion / getChangedFields / select /
__getattr__`, `getColumns`, `Versioning.__init__ / __addtoclass__ / createVersionTable / createTable / rowUpdate /
__get__`) from /repo's AST into `Block`s of this language on every run (`Extracted/PyVersion.lean`).  This file is the
fixed vocabulary and its reference semantics (the design of `Model/PyInherit.lean`, with what this module needs).

The interpreter is generic in the type `W` of worlds.  Everything the translated code does to objects other than its
own locals goes through an `Iface W` — the PARAMETERS of the interpreter:
* `self`                : the value of `self` / `cls` (methods);
* `attr / setAttr`      : `v.name` read (also `getattr(v, name)`) / `v.name = x`;
* `global`              : module-level names (`col.ForeignKey`, `events.RowUpdateSignal`, `AND`, `type`, `Version`, …);
* `isinstance`          : `isinstance(v, <dotted name>)`;
* `contains / getItem / setItem / delItem / iter / items / dictOf` : `k in o`, `o[k]`, `o[k] = v`, `del o[k]`,
  `for x in o`, `o.items()`, `dict(o)` for a container that is an OBJECT OF THE WORLD (a handle, not a dict/list value
  the code built itself);
* `call`                : a method call `recv.m(args, *rest, k=v, **star)`;
* `callFn`              : a call `f(args, k=v, **star)` of a value (a class: the constructor);
* `super`               : `super(<Class>, self).m(args, *rest, k=v, **star)`;
* `proc`                : a call of a module-level function of the translated module (`getColumns`) — returns the
                          final values of the parameters as well (see below);
  each of the four may change the world, return a value or raise.

Containers: a dict / list the code builds itself (`{…}`, `[…]`, `dict(e)`, the value of a `**kw` / `*args` parameter,
a dict value an interface function returns) is a VALUE held by ONE local (`.dictv`, cons cells); `x[k] = v`,
`del x[k]`, `x.append(v)`, `x.update(d)` on such a local rebind the local.  This is Python's semantics as long as no
second reference to the container is used afterwards; the translator enforces that (no `y = x` of such a local; a
module-level function never rebinds its parameters, and a call `f(x, …)` of it writes the parameters' final values
back to the argument locals — "in-out").  The same statements on a local that holds a HANDLE of a world object go
through the interface and change the world.

Comparisons `== != > < >= <=`: when either operand is a column expression (`.obj "field" …`, what `cls.q.name` is) the
result is the clause value `.obj <op> a b` (sqlbuilder builds an SQL expression); otherwise `==` / `!=` are equality of
values and the order comparisons are those of numbers.
-/
namespace SqlObjVerif.PyVer

inductive Val where
  | none
  | bool (b : Bool)
  /-- a column value -/
  | int (n : Int)
  /-- a row id / small constant -/
  | nat (n : Nat)
  | str (s : String)
  /-- a class object -/
  | cls (c : Nat)
  /-- a connection object -/
  | conn (k : Nat)
  /-- the instance of class `c` with id `i` bound to connection `k` -/
  | inst (k c i : Nat)
  /-- any other object of the world: `kind` says what it is (the instantiation decides), `id` which one -/
  | ref (kind id : Nat)
  /-- an immutable structured value: bound method, `sqlmeta` of an instance, column expression, SQL clause,
      select result, column definition … (the instantiation decides) -/
  | obj (tag : String) (a b : Val)
  | pair (a b : Val)
  | nil
  | cons (h t : Val)
  /-- a dict value: `body` is the list of `(key, value)` pairs in insertion order -/
  | dictv (body : Val)
deriving Repr, DecidableEq

def Val.ofList : List Val → Val
  | [] => .nil
  | v :: l => .cons v (Val.ofList l)

def Val.toList : Val → Option (List Val)
  | .nil => some []
  | .cons h t => match Val.toList t with
    | some l => some (h :: l)
    | Option.none => Option.none
  | _ => Option.none

def Val.isNone : Val → Bool
  | .none => true
  | _ => false

def isListVal : Val → Bool
  | .nil => true
  | .cons _ t => isListVal t
  | _ => false

/-! ### dict bodies: a list of `(key, value)` pairs in insertion order -/

def vdGet (k : Val) : Val → Option Val
  | .cons (.pair k' v) t => if k' = k then some v else vdGet k t
  | _ => Option.none

def vdHas (k : Val) (d : Val) : Bool := (vdGet k d).isSome

/-- `d[k] = v` -/
def vdSet (k v : Val) : Val → Val
  | .cons (.pair k' v') t => if k' = k then .cons (.pair k v) t else .cons (.pair k' v') (vdSet k v t)
  | _ => .cons (.pair k v) .nil

/-- `del d[k]` (the key is present) -/
def vdDel (k : Val) : Val → Val
  | .cons (.pair k' v') t => if k' = k then t else .cons (.pair k' v') (vdDel k t)
  | _ => .nil

def vdKeys : Val → List Val
  | .cons (.pair k _) t => k :: vdKeys t
  | _ => []

/-- `d.update(e)` -/
def vdUpdate (d : Val) : Val → Val
  | .cons (.pair k v) t => vdUpdate (vdSet k v d) t
  | _ => d

/-- `{k1: v1, …}` -/
def vdMk : List Val → List Val → Val
  | k :: ks, v :: vs => vdSet k v (vdMk ks vs)
  | _, _ => .nil

/-- `x in <list value>` -/
def vMem (x : Val) : Val → Bool
  | .cons h t => decide (h = x) || vMem x t
  | _ => false

def vAppend (l : Val) (x : Val) : Val :=
  match l with
  | .cons h t => .cons h (vAppend t x)
  | _ => .cons x .nil

/-- exception classes, as far as the hand model's outcomes distinguish them -/
inductive ExcCls where
  | typeError | keyError | attributeError | assertion
  /-- `SQLObjectNotFound` -/
  | notFound
  /-- `formencode.Invalid` -/
  | invalid
  /-- `dberrors.DuplicateEntryError` -/
  | duplicate
  | exception
deriving Repr, DecidableEq

structure Exc where
  cls : ExcCls
  id : Nat
deriving Repr, DecidableEq

inductive R (α : Type) where
  | ok (a : α)
  | exc (e : Exc)
  /-- outside the fragment / outside the interface -/
  | stuck

def R.bind {α β : Type} (r : R α) (f : α → R β) : R β :=
  match r with
  | .ok a => f a
  | .exc e => .exc e
  | .stuck => .stuck

def R.ofOpt {α : Type} : Option α → R α
  | some a => .ok a
  | Option.none => .stuck

/-- how a call into another object ends -/
inductive CallRes (W : Type) where
  | ret (w : W) (v : Val)
  | exc (w : W) (e : Exc)
  | stuck

/-- how a call of a translated function ends: also the final values of its parameters -/
inductive ProcRes (W : Type) where
  | ret (w : W) (v : Val) (params : List Val)
  | exc (w : W) (e : Exc)
  | stuck

def ProcRes.toCall {W : Type} : ProcRes W → CallRes W
  | .ret w v _ => .ret w v
  | .exc w e => .exc w e
  | .stuck => .stuck

inductive CmpOp where
  | eq | ne | gt | lt | ge | le
deriving Repr, DecidableEq

def CmpOp.name : CmpOp → String
  | .eq => "==" | .ne => "!=" | .gt => ">" | .lt => "<" | .ge => ">=" | .le => "<="

/-- evaluated call arguments -/
structure Args where
  pos : List Val
  kw : List (String × Val)
  /-- the `**star` dict value (`none`: absent) -/
  star : Val

structure Iface (W : Type) where
  self : Val
  attr : W → Val → String → R Val
  setAttr : W → Val → String → Val → Option W
  global : String → Option Val
  isinstance : W → Val → String → Option Bool
  contains : W → Val → Val → Option Bool
  getItem : W → Val → Val → R Val
  setItem : W → Val → Val → Val → Option W
  delItem : W → Val → Val → R W
  iter : W → Val → Option (List Val)
  items : W → Val → Option (List Val)
  dictOf : W → Val → Option Val
  call : W → Val → String → Args → CallRes W
  callFn : W → Val → Args → CallRes W
  super : W → String → String → Args → CallRes W
  proc : W → String → List Val → ProcRes W

mutual
inductive Expr where
  | var (x : Nat)
  | const (v : Val)
  /-- `self` / `cls` -/
  | self
  | attr (e : Expr) (name : String)               -- `e.name`
  | global (name : String)                        -- `col.ForeignKey`, `AND`, `type`
  | getattr (e n : Expr)                          -- `getattr(e, n)`
  | getattrD (e n d : Expr)                       -- `getattr(e, n, d)`
  | tuple1 (e : Expr)                             -- `(e,)`
  | pair (a b : Expr)                             -- `(a, b)`
  | listLit (es : Exprs)                          -- `[a, b, …]`
  | dictLit (ks vs : Exprs)                       -- `{k: v, …}`
  | dictOf (e : Expr)                             -- `dict(e)`
  | items (e : Expr)                              -- `e.items()`
  | subscript (d k : Expr)                        -- `d[k]`
  | cmp (op : CmpOp) (a b : Expr)                 -- `a == b`, `a > b`, …
  | concat (a b : Expr)                           -- `a + b` of strings
  | endswith (e : Expr) (suffix : String)         -- `e.endswith("…")`
  | dropRight (e : Expr) (n : Nat)                -- `e[:-n]`
  | title (e : Expr)                              -- `e.title()`
inductive Exprs where
  | nil
  | cons (e : Expr) (rest : Exprs)
end

inductive Cond where
  | truthy (e : Expr)
  | isNone (e : Expr)
  | isNotNone (e : Expr)
  | is (a b : Expr)                               -- `a is b` (values with an identity: constants, handles)
  | isinstance (e : Expr) (cls : String)
  | inOp (k d : Expr)                             -- `k in d`
  | not (c : Cond)
  | and (c d : Cond)
  | or (c d : Cond)

mutual
inductive Stmt where
  | assign (x : Nat) (e : Expr)
  | setAttr (obj : Expr) (name : String) (e : Expr)          -- `obj.name = e`
  | setItem (x : Nat) (k v : Expr)                           -- `x[k] = v` for a local
  | delItem (x : Nat) (k : Expr)                             -- `del x[k]` for a local
  | append (x : Nat) (e : Expr)                              -- `x.append(e)` for a local
  | update (x : Nat) (e : Expr)                              -- `x.update(e)` for a local
  | call (x : Option Nat) (recv : Expr) (m : String) (args : Exprs) (rest : Option Expr) (kwn : List String)
      (kwv : Exprs) (star : Option Expr)
  | callFn (x : Option Nat) (f : Expr) (args : Exprs) (kwn : List String) (kwv : Exprs) (star : Option Expr)
  | superCall (x : Option Nat) (cls m : String) (args : Exprs) (rest : Option Expr) (kwn : List String)
      (kwv : Exprs) (star : Option Expr)
  | proc (x : Option Nat) (f : String) (args : Exprs)        -- a module-level function of the translated module
  | ite (c : Cond) (t e : Block)
  | for1 (x : Nat) (it : Expr) (body : Block)                -- `for x in it:`
  | for2 (x y : Nat) (it : Expr) (body : Block)              -- `for x, y in it:`
  | assert (c : Cond)
  | ret (e : Expr)
  | retNone
  | pass
inductive Block where
  | nil
  | cons (s : Stmt) (rest : Block)
end

abbrev Env := List (Option Val)

def Env.get (env : Env) (x : Nat) : Option Val :=
  match env[x]? with
  | some (some v) => some v
  | _ => Option.none

def isFld : Val → Bool
  | .obj t _ _ => t == "field"
  | _ => false

def numLt : Val → Val → Option Bool
  | .nat x, .nat y => some (decide (x < y))
  | .int x, .int y => some (decide (x < y))
  | _, _ => Option.none

/-- a comparison of two values (see the header) -/
def cmpVal (op : CmpOp) (a b : Val) : Option Val :=
  if isFld a || isFld b then some (.obj op.name a b)
  else match op with
    | .eq => some (.bool (decide (a = b)))
    | .ne => some (.bool (!decide (a = b)))
    | .lt => (numLt a b).map Val.bool
    | .gt => (numLt b a).map Val.bool
    | .le => (numLt b a).map fun r => Val.bool (!r)
    | .ge => (numLt a b).map fun r => Val.bool (!r)

def isAlphaC (c : Char) : Bool := c.isAlpha

def titleAux : Bool → List Char → List Char
  | _, [] => []
  | prev, c :: cs => (if prev then c.toLower else c.toUpper) :: titleAux (isAlphaC c) cs

/-- `str.title()` (ASCII letters) -/
def pyTitle (s : String) : String := String.ofList (titleAux false s.toList)

/-- `s.endswith(suf)` -/
def strEndsWith (s suf : String) : Bool := suf.toList.isSuffixOf s.toList

/-- `s[:-n]` -/
def dropRightStr (s : String) (n : Nat) : String := String.ofList (s.toList.take (s.toList.length - n))

def strOf : Val → Option String
  | .str s => some s
  | _ => Option.none

/-- the attribute read behind `getattr(v, n)` -/
def getattrOf {W : Type} (I : Iface W) (w : W) (v n : Val) : R Val :=
  match n with
  | .str s => I.attr w v s
  | _ => .stuck

/-- `getattr(v, n, d)`: the default replaces an AttributeError -/
def orDefault (r : R Val) (d : Val) : R Val :=
  match r with
  | .exc e => if e.cls = .attributeError then .ok d else .exc e
  | r => r

/-- `dict(v)` -/
def dictOfVal {W : Type} (I : Iface W) (w : W) (v : Val) : R Val :=
  match v with
  | .dictv b => .ok (.dictv b)
  | v => R.ofOpt (I.dictOf w v)

/-- `v.items()` -/
def itemsOfVal {W : Type} (I : Iface W) (w : W) (v : Val) : R Val :=
  match v with
  | .dictv b => .ok b
  | v => R.ofOpt ((I.items w v).map Val.ofList)

/-- `d[k]` -/
def subscriptVal {W : Type} (I : Iface W) (w : W) (d k : Val) : R Val :=
  match d with
  | .dictv b => (match vdGet k b with
    | some v => .ok v
    | Option.none => .exc ⟨.keyError, 0⟩)
  | d => I.getItem w d k

def concatVal (a b : Val) : R Val :=
  match a, b with
  | .str x, .str y => .ok (.str (x ++ y))
  | _, _ => .stuck

mutual
def Expr.eval {W : Type} (I : Iface W) (w : W) (env : Env) : Expr → R Val
  | .var x => R.ofOpt (env.get x)
  | .const v => .ok v
  | .self => .ok I.self
  | .attr e name => (e.eval I w env).bind fun v => I.attr w v name
  | .global name => R.ofOpt (I.global name)
  | .getattr e n => (e.eval I w env).bind fun v => (n.eval I w env).bind fun nv => getattrOf I w v nv
  | .getattrD e n d => (e.eval I w env).bind fun v => (n.eval I w env).bind fun nv => (d.eval I w env).bind fun dv =>
      orDefault (getattrOf I w v nv) dv
  | .tuple1 e => (e.eval I w env).bind fun v => .ok (.cons v .nil)
  | .pair a b => (a.eval I w env).bind fun x => (b.eval I w env).bind fun y => .ok (.pair x y)
  | .listLit es => (es.eval I w env).bind fun vs => .ok (Val.ofList vs)
  | .dictLit ks vs => (ks.eval I w env).bind fun kl => (vs.eval I w env).bind fun vl => .ok (.dictv (vdMk kl.reverse vl.reverse))
  | .dictOf e => (e.eval I w env).bind fun v => dictOfVal I w v
  | .items e => (e.eval I w env).bind fun v => itemsOfVal I w v
  | .subscript d k => (d.eval I w env).bind fun dv => (k.eval I w env).bind fun kv => subscriptVal I w dv kv
  | .cmp op a b => (a.eval I w env).bind fun x => (b.eval I w env).bind fun y => R.ofOpt (cmpVal op x y)
  | .concat a b => (a.eval I w env).bind fun x => (b.eval I w env).bind fun y => concatVal x y
  | .endswith e suffix => (e.eval I w env).bind fun v => R.ofOpt ((strOf v).map fun s => Val.bool (strEndsWith s suffix))
  | .dropRight e n => (e.eval I w env).bind fun v => R.ofOpt ((strOf v).map fun s => Val.str (dropRightStr s n))
  | .title e => (e.eval I w env).bind fun v => R.ofOpt ((strOf v).map fun s => Val.str (pyTitle s))
def Exprs.eval {W : Type} (I : Iface W) (w : W) (env : Env) : Exprs → R (List Val)
  | .nil => .ok []
  | .cons e rest => (e.eval I w env).bind fun v => (rest.eval I w env).bind fun vs => .ok (v :: vs)
end

/-- `bool(v)`; objects of the fragment are truthy -/
def pyBool : Val → Bool
  | .none => false
  | .bool b => b
  | .int n => n != 0
  | .nat n => n != 0
  | .str s => s != ""
  | .nil => false
  | .dictv b => b != .nil
  | _ => true

/-- `k in d` -/
def inVal {W : Type} (I : Iface W) (w : W) (k d : Val) : R Bool :=
  match d with
  | .dictv b => .ok (vdHas k b)
  | .nil => .ok false
  | .cons h t => .ok (vMem k (.cons h t))
  | d => R.ofOpt (I.contains w d k)

def Cond.eval {W : Type} (I : Iface W) (w : W) (env : Env) : Cond → R Bool
  | .truthy e => (e.eval I w env).bind fun v => .ok (pyBool v)
  | .isNone e => (e.eval I w env).bind fun v => .ok v.isNone
  | .isNotNone e => (e.eval I w env).bind fun v => .ok (!v.isNone)
  | .is a b => (a.eval I w env).bind fun x => (b.eval I w env).bind fun y => .ok (decide (x = y))
  | .isinstance e cls => (e.eval I w env).bind fun v => R.ofOpt (I.isinstance w v cls)
  | .inOp k d => (k.eval I w env).bind fun kv => (d.eval I w env).bind fun dv => inVal I w kv dv
  | .not c => (c.eval I w env).bind fun b => .ok (!b)
  | .and c d => (c.eval I w env).bind fun b => if b then d.eval I w env else .ok false
  | .or c d => (c.eval I w env).bind fun b => if b then .ok true else d.eval I w env

structure St (W : Type) where
  w : W
  vars : Env

def St.setVar {W : Type} (st : St W) (x : Nat) (v : Val) : St W := { st with vars := st.vars.set x (some v) }

def St.setOpt {W : Type} (st : St W) (x : Option Nat) (v : Val) : St W :=
  match x with
  | some x => st.setVar x v
  | Option.none => st

/-- how a statement ends -/
inductive Res (W : Type) where
  | norm (st : St W)
  | ret (st : St W) (v : Val)
  | exc (st : St W) (e : Exc)
  | stuck

/-- go on with `k` when an expression evaluated -/
def withR {W α : Type} (st : St W) (r : R α) (k : α → Res W) : Res W :=
  match r with
  | .ok a => k a
  | .exc e => .exc st e
  | .stuck => .stuck

def forLoop {W α : Type} (f : St W → α → Res W) : List α → St W → Res W
  | [], st => .norm st
  | v :: vs, st => match f st v with
    | .norm st' => forLoop f vs st'
    | r => r

/-- the body of `for x, y in …` applied to one element -/
def pairBody {W : Type} (f : St W → Val → Val → Res W) (st : St W) (a : Val) : Res W :=
  match a with
  | .pair p q => f st p q
  | _ => .stuck

/-- the values a `for` loop runs over (computed when the loop is entered) -/
def iterOf {W : Type} (I : Iface W) (w : W) (v : Val) : Option (List Val) :=
  match v with
  | .dictv b => some (vdKeys b)
  | .nil => some []
  | .cons h t => Val.toList (.cons h t)
  | v => I.iter w v

/-- the caller's view of a finished call -/
def afterCall {W : Type} (r : CallRes W) (st : St W) (x : Option Nat) : Res W :=
  match r with
  | .ret w v => .norm ({ st with w := w }.setOpt x v)
  | .exc w e => .exc { st with w := w } e
  | .stuck => .stuck

/-- the final values of the parameters of a translated function go back to the argument LOCALS -/
def writeBack : Exprs → List Val → Env → Env
  | .cons (.var i) rest, v :: vs, env => writeBack rest vs (env.set i (some v))
  | .cons _ rest, _ :: vs, env => writeBack rest vs env
  | _, _, env => env

def afterProc {W : Type} (r : ProcRes W) (st : St W) (x : Option Nat) (args : Exprs) : Res W :=
  match r with
  | .ret w v ps => .norm ({ w := w, vars := writeBack args ps st.vars : St W }.setOpt x v)
  | .exc w e => .exc { st with w := w } e
  | .stuck => .stuck

def zipKw : List String → List Val → List (String × Val)
  | n :: ns, v :: vs => (n, v) :: zipKw ns vs
  | _, _ => []

def evalOpt {W : Type} (I : Iface W) (w : W) (env : Env) : Option Expr → R Val
  | Option.none => .ok .none
  | some e => e.eval I w env

/-- `*rest`: a list value -/
def restList : Val → Option (List Val)
  | .none => some []
  | v => v.toList

def evalArgs {W : Type} (I : Iface W) (w : W) (env : Env) (args : Exprs) (rest : Option Expr) (kwn : List String)
    (kwv : Exprs) (star : Option Expr) : R Args :=
  (args.eval I w env).bind fun as => (evalOpt I w env rest).bind fun rv => (R.ofOpt (restList rv)).bind fun rl =>
    (kwv.eval I w env).bind fun ks => (evalOpt I w env star).bind fun s => .ok ⟨as ++ rl, zipKw kwn ks, s⟩

/-- `x[k] = v` on a local holding `d` -/
def setItemRes {W : Type} (I : Iface W) (st : St W) (x : Nat) (d k v : Val) : Res W :=
  match d with
  | .dictv b => .norm (st.setVar x (.dictv (vdSet k v b)))
  | d => match I.setItem st.w d k v with
    | some w' => .norm { st with w := w' }
    | Option.none => .stuck

/-- `del x[k]` on a local holding `d` -/
def delItemRes {W : Type} (I : Iface W) (st : St W) (x : Nat) (d k : Val) : Res W :=
  match d with
  | .dictv b => if vdHas k b then .norm (st.setVar x (.dictv (vdDel k b))) else .exc st ⟨.keyError, 0⟩
  | d => match I.delItem st.w d k with
    | .ok w' => .norm { st with w := w' }
    | .exc e => .exc st e
    | .stuck => .stuck

/-- `x.append(v)` on a local holding `l` -/
def appendRes {W : Type} (I : Iface W) (st : St W) (x : Nat) (l v : Val) : Res W :=
  if isListVal l then .norm (st.setVar x (vAppend l v))
  else afterCall (I.call st.w l "append" ⟨[v], [], .none⟩) st Option.none

/-- `x.update(e)` on a local holding `d` -/
def updateRes {W : Type} (I : Iface W) (st : St W) (x : Nat) (d e : Val) : Res W :=
  match d, e with
  | .dictv b, .dictv b' => .norm (st.setVar x (.dictv (vdUpdate b b')))
  | d, e => afterCall (I.call st.w d "update" ⟨[e], [], .none⟩) st Option.none

mutual
def Stmt.exec {W : Type} (I : Iface W) (st : St W) : Stmt → Res W
  | .assign x e => withR st (e.eval I st.w st.vars) fun v => .norm (st.setVar x v)
  | .setAttr obj name e => withR st (e.eval I st.w st.vars) fun v => withR st (obj.eval I st.w st.vars) fun o =>
      match I.setAttr st.w o name v with
      | some w' => .norm { st with w := w' }
      | Option.none => .stuck
  | .setItem x k v => withR st (v.eval I st.w st.vars) fun vv => withR st (R.ofOpt (st.vars.get x)) fun d =>
      withR st (k.eval I st.w st.vars) fun kv => setItemRes I st x d kv vv
  | .delItem x k => withR st (R.ofOpt (st.vars.get x)) fun d => withR st (k.eval I st.w st.vars) fun kv =>
      delItemRes I st x d kv
  | .append x e => withR st (R.ofOpt (st.vars.get x)) fun l => withR st (e.eval I st.w st.vars) fun v =>
      appendRes I st x l v
  | .update x e => withR st (R.ofOpt (st.vars.get x)) fun d => withR st (e.eval I st.w st.vars) fun v =>
      updateRes I st x d v
  | .call x recv m args rest kwn kwv star =>
    withR st (recv.eval I st.w st.vars) fun r => withR st (evalArgs I st.w st.vars args rest kwn kwv star) fun a =>
      afterCall (I.call st.w r m a) st x
  | .callFn x f args kwn kwv star =>
    withR st (f.eval I st.w st.vars) fun fv => withR st (evalArgs I st.w st.vars args Option.none kwn kwv star) fun a =>
      afterCall (I.callFn st.w fv a) st x
  | .superCall x cls m args rest kwn kwv star =>
    withR st (evalArgs I st.w st.vars args rest kwn kwv star) fun a => afterCall (I.super st.w cls m a) st x
  | .proc x f args => withR st (args.eval I st.w st.vars) fun as => afterProc (I.proc st.w f as) st x args
  | .ite c t e => withR st (c.eval I st.w st.vars) fun b => if b then t.exec I st else e.exec I st
  | .for1 x it body => withR st (it.eval I st.w st.vars) fun v =>
      match iterOf I st.w v with
      | some l => forLoop (fun st a => body.exec I (st.setVar x a)) l st
      | Option.none => .stuck
  | .for2 x y it body => withR st (it.eval I st.w st.vars) fun v =>
      match iterOf I st.w v with
      | some l => forLoop (pairBody fun st p q => body.exec I ((st.setVar x p).setVar y q)) l st
      | Option.none => .stuck
  | .assert c => withR st (c.eval I st.w st.vars) fun b => if b then .norm st else .exc st ⟨.assertion, 0⟩
  | .ret e => withR st (e.eval I st.w st.vars) fun v => .ret st v
  | .retNone => .ret st .none
  | .pass => .norm st
def Block.exec {W : Type} (I : Iface W) (st : St W) : Block → Res W
  | .nil => .norm st
  | .cons s rest => match s.exec I st with
    | .norm st' => rest.exec I st'
    | r => r
end

def paramsOf (n : Nat) (env : Env) : List Val := (env.take n).map fun o => o.getD .none

def Res.toProc {W : Type} (n : Nat) : Res W → ProcRes W
  | .norm st => .ret st.w .none (paramsOf n st.vars)         -- falling off the end returns None
  | .ret st v => .ret st.w v (paramsOf n st.vars)
  | .exc st e => .exc st.w e
  | .stuck => .stuck

/-- call a translated function / method: `args` are the parameters (after `self` / `cls`; a `*args` parameter: the
    list value, a `**kw` parameter: the dict value), `nlocals` the number of other locals -/
def run {W : Type} (I : Iface W) (prog : Block) (args : List Val) (nlocals : Nat) (w : W) : ProcRes W :=
  (prog.exec I { w := w, vars := args.map some ++ List.replicate nlocals Option.none }).toProc args.length

end SqlObjVerif.PyVer
