import SqlObjVerif.Model.PyFail
import SqlObjVerif.Extracted.PyMain
/-!
# C06 — the write operations of `SQLObject` as TRANSLATED from the source, run under an injection schedule

`setValueF`, `setF`, `syncUpdateF` RUN the PyMain programs that `vlib/extractors/pymain.py` translated from
/repo's `main.py` on this very run (`Extracted/PyMain.lean`: `_SO_setValue`, `set`, `syncUpdate`) under the
exception-injecting semantics of `Model/PyFail.lean`, from the image `mkW` of a state of the hand model
`Model/Fail.lean`.  `Lemmas/FailX*.lean` prove, per operation, that the outcome, the statement log and the
post-state (`viewObs`) are those of the hand-compiled micro-step tree under the same schedule
(`C06_translated_<op>_eq_model`), for every schema, state, argument list and schedule.

The schedule σ = (`inj`, `vq`): `inj` = the database error injected at the k-th statement (`Fail.Inj`),
`vq` = the outcomes of the validator calls in call order; for an argument list `kw : List (Nat × In)` of the
hand model the oracle is `vqOf kw` (`In.bad`: `from_python` raises; `In.bad2 v`: `from_python` returns `v`,
`to_python` raises; `In.ok v`: both return `v`), the Python-side value of an argument is `pvOfIn`.
-/
namespace SqlObjVerif.PyFail
open SqlObjVerif.PyMain (PV FnKind PDict ofVal)
open SqlObjVerif.PyMain.Extracted
open SqlObjVerif.Fail (Err Schema Inj Extra In)

/-- the world of instance `(c, id)` of the hand model's state `s`, not being created, lock free -/
def mkW (sch : Schema) (inj : Option Inj) (props : Nat → Extra) (s : Fail.St) (c id : Nat) (vq : List Bool) : FW :=
  { sch := sch, inj := inj, props := props, s := s, c := c, id := id, creating := false, nobj := ⟨[], [], false⟩,
    sigSuppress := false, lock := false, vq := vq }

def pvOfIn (v : In) : PV := ofVal v.val

/-- the validator oracle of an argument list: per keyword, `from_python` then `to_python` -/
def vqOf (kw : List (Nat × In)) : List Bool := kw.flatMap fun a => [a.2.fromOk, a.2.toOk]

/-- the Python `**kw` of an argument list -/
def kwPV (kw : List (Nat × In)) : PDict := kw.map fun e => (e.1, pvOfIn e.2)

/-- `self._SO_setValue('<col>', value, from_python, to_python)` as the generated setter of column `col` calls it -/
def setValueF (w : FW) (col : Nat) (v : In) : Outcome :=
  run noCall setValueProg [.name col, pvOfIn v, .fn .fromPy col, .fn .toPy col] [] setValue_nlocals setValue_nlists
    setValue_ndicts w

/-- `self.set(_suppress_set_sig, **kw)` with the property setters given by the call table `call` -/
def setFWith (call : CallT) (sup : Bool) (w : FW) (kw : PDict) : Outcome :=
  run call setProg [.bool sup] kw set_nlocals set_nlists set_ndicts w

/-- `self.set(**kw)`, property setters = the hand model's trees (`propCall`) -/
def setF (w : FW) (kw : PDict) : Outcome := setFWith propCall false w kw

/-- `self.syncUpdate()` -/
def syncUpdateF (w : FW) : Outcome :=
  run noCall syncUpdateProg [] [] syncUpdate_nlocals syncUpdate_nlists syncUpdate_ndicts w

/-- what is compared: the observation of the state a method ends in, and the error if it raised -/
def viewObs (o : Outcome) : Option (Obs × Option Err) := o.view.map fun r => (obs r.1, r.2)

def runObs (r : Fail.St × Option Err) : Obs × Option Err := (obs r.1, r.2)

end SqlObjVerif.PyFail
