import SqlObjVerif.Model.FailDestroyX
import SqlObjVerif.Model.PyInherit
import SqlObjVerif.Extracted.PyInherit
/-!
# C06 — the inheritable override `InheritableSQLObject.destroySelf`, as TRANSLATED, on top of the translated
`SQLObject.destroySelf`

`destroyI sch inj isInh fuel c id s` is `obj.destroySelf()` for the instance `(c, id)` with Python's dynamic dispatch:
* a class with `isInh c = false` is a plain `SQLObject`: the method is the TRANSLATED `SQLObject.destroySelf`
  (`Extracted/PyDestroy.lean`, run under the injecting semantics: `FailDX.destroySelfF`);
* a class with `isInh c = true` is an `InheritableSQLObject`: the method is the TRANSLATED override
  (`PyInh.Extracted.destroySelfProg`, `Extracted/PyInherit.lean`: `if hasattr(self, '_parent') and self._parent:
  self._parent.destroySelf()`, then `super(InheritableSQLObject, self).destroySelf()`), run under the semantics of
  `Model/PyInherit.lean` (its calls may raise; the fragment has no other effect);
every `….destroySelf()` issued from inside either method (`self._parent.destroySelf()`, `row.destroySelf()` of the
cascade pass) is `destroyI` again, one unit of fuel less; fuel 0 = `RecursionError` (the same CONVENTION as in
`Model/FailDestroyX.lean`).  `Lemmas/FailDestroyXInh.lean` proves `destroyI … = Fail.run … (Fail.destroyProg …)` for
EVERY schema (`C06_translated_inhdestroy_eq_model`).

## The assumed interface of the override (in addition to the one of `Model/FailDestroyX.lean`)
* `isInh` : which classes derive from `InheritableSQLObject` — ANY function such that every class with a `parent`
  does (a root of an inheritance tree, or a class that merely derives from it, has `parent = none`);
* `hasattr(self, '_parent')` : True for an initialised instance of an inheritable class (`_parent` is set by
  `_init` / `_create`); `self._parent` : the parent instance — the instance of `(clsOf sch c).parent` with the SAME
  id (a child row shares its parent row's id) — or `None` for a root; instances are truthy;
* `self._parent.destroySelf()` : `destroyI` on the parent instance; `super(InheritableSQLObject, self).destroySelf()`
  : the translated `SQLObject.destroySelf` on `self`;
* exceptions: a hand-model error `e` is the PyInherit exception `excOfI e` (injective: `errOfExc (excOfI e) = some e`)
  resp. the class name `errName e` in the PyDestroy embedding; an exception that names no hand-model error is
  outside the interface.
-/
namespace SqlObjVerif.FailDX
open SqlObjVerif.Fail (Err Schema Inj clsOf)

abbrev Out := Fail.St × Option Err

def allErrs : List Err :=
  [.invalid, .typeError, .attrError, .duplicate, .dbIntegrity, .operational, .interrupt, .integrity, .recursion]

/-- a hand-model error as an exception of the PyInherit embedding (the table of `Model/FailInhX.lean`) -/
def excOfI : Err → PyInh.Exc
  | .invalid => ⟨.exception, 0⟩
  | .typeError => ⟨.typeError, 0⟩
  | .attrError => ⟨.attributeError, 0⟩
  | .duplicate => ⟨.exception, 1⟩
  | .dbIntegrity => ⟨.exception, 2⟩
  | .operational => ⟨.exception, 3⟩
  | .interrupt => ⟨.baseOnly, 0⟩
  | .integrity => ⟨.integrity, 0⟩
  | .recursion => ⟨.exception, 4⟩

def errOfExc (x : PyInh.Exc) : Option Err := allErrs.find? fun e => excOfI e == x
def errOfName (n : String) : Option Err := allErrs.find? fun e => errName e == n

/-- the end of a piece of the hand model, as the end of a call of the PyInherit embedding -/
def inhOut (r : Out) : PyInh.CallRes Fail.St :=
  match r with
  | (s, none) => .ret s .none
  | (s, some e) => .exc s (excOfI e)

/-- reading back the end of a call of the PyDestroy embedding -/
def outOfCall : PyDestroy.CallRes Hnd Fail.St → Option Out
  | .ret s _ => some (s, none)
  | .exc s n => (errOfName n).map fun e => (s, some e)
  | .stuck => none

/-- reading back the end of a call of the PyInherit embedding -/
def outOfInh : PyInh.CallRes Fail.St → Option Out
  | .ret s _ => some (s, none)
  | .exc s x => (errOfExc x).map fun e => (s, some e)
  | .stuck => none

def callOfOut : Option Out → PyDestroy.CallRes Hnd Fail.St
  | some r => outCall r
  | none => .stuck

def inhOfOut : Option Out → PyInh.CallRes Fail.St
  | some r => inhOut r
  | none => .stuck

/-- the interface `InheritableSQLObject.destroySelf` runs against -/
def inhIface (sch : Schema) (parentCall : Nat → Nat → Fail.St → PyInh.CallRes Fail.St)
    (superCall : Fail.St → PyInh.CallRes Fail.St) (c id : Nat) : PyInh.Iface Fail.St :=
  { self := .inst 0 c id
    attrOf := fun _ v path => match v with
      | .inst _ c' i =>
        if path = ["_parent"] then
          .ok (match (clsOf sch c').parent with
               | some p => .inst 0 p i
               | none => .none)
        else .stuck
      | _ => .stuck
    setAttrOf := fun _ _ _ _ => none
    hasattr := fun _ v n => match v with
      | .inst _ _ _ => if n = .str "_parent" then some true else none
      | _ => none
    global := fun _ => none
    isinstance := fun _ _ _ => none
    call := fun s r m pos kw _ => match r with
      | .inst _ p i => if m = "destroySelf" ∧ pos = [] ∧ kw = [] then parentCall p i s else .stuck
      | _ => .stuck
    callFn := fun _ _ _ _ => .stuck
    super := fun s m pos kw _ => if m = "destroySelf" ∧ pos = [] ∧ kw = [] then superCall s else .stuck
    fuel := fun _ => 0 }

/-- `obj.destroySelf()` with dynamic dispatch, every inner `destroySelf()` call bound to itself -/
def destroyI (sch : Schema) (inj : Option Inj) (isInh : Nat → Bool) : Nat → Nat → Nat → Fail.St → Option Out
  | 0, _, _, s => some (s, some .recursion)
  | fuel + 1, c, id, s =>
    if isInh c then
      outOfInh (PyInh.run
        (inhIface sch (fun p i s' => inhOfOut (destroyI sch inj isInh fuel p i s'))
          (fun s' => inhOfOut (outOfCall
            (destroySelfF sch inj (fun k j s'' => callOfOut (destroyI sch inj isInh fuel k j s'')) c id s'))) c id)
        PyInh.Extracted.destroySelfProg [] 0 s)
    else
      outOfCall (destroySelfF sch inj (fun k j s' => callOfOut (destroyI sch inj isInh fuel k j s')) c id s)

end SqlObjVerif.FailDX
