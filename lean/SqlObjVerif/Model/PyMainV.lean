import SqlObjVerif.Model.Codec
/-!
# PyMainV — the embedding of `Model/PyMain.lean` (the value-level instance methods of `sqlobject/main.py:SQLObject`)
over the value universe of C01

A COPY of the vocabulary and reference semantics of `Model/PyMain.lean` (see its header for what a state is: `Obj`,
`Klass`, the connection as a parameter `ConnOps G`, the three numbered spaces of locals, signals ignored) with these
differences, so that the programs `vlib/extractors/pymain.py` translates can be run on C01's universe:
* a column value (`CVal`) is ANY value of `Codec.PyVal` (None, bool, int, float token, str, bytes, date/time records,
  Decimal / uuid / json / pickled tokens, instance handles, `other`), not `Option Int`; `PV.val x` is such a value as a
  Python value (there is no separate `bad` input);
* the validators RAISE: `Klass.enc` / `Klass.dec` (`from_python` / `to_python` of column `c`) return a `Codec.Res`:
  a value, `Invalid`, another exception (`Exc.other`), or `unmodelled` (the hand model of the standard library has no
  answer; it propagates like an error nothing catches);
* `_SO_update` may be REFUSED by the database depending on the values (`ConnOps.update` returns a `Codec.Res`: refused = the
  statement raises `dbError` and changes nothing; `unmodelled` = the hand model of the database has no answer) instead of on an external `fail` input.
`vlib/extractors/pymainv.py` regenerates `Extracted/PyMainV.lean` on every run by running the translator of
`pymain.py` (unchanged) and re-targeting its output at this namespace: the translated TERMS are the same.
-/
namespace SqlObjVerif.PyMainV

/-- a column value: any value of C01's universe -/
abbrev CVal := Codec.PyVal

inductive FnKind where
  | fromPy | toPy
deriving Repr, DecidableEq

inductive PV where
  /-- a value of the universe (None, bool, int, … ) -/
  | val (x : CVal)
  | nat (n : Nat)
  /-- the keyword / attribute name number `c` (a column's name iff `c < ncols`) -/
  | name (c : Nat)
  | dbName (c : Nat)
  /-- `'_SO_val_<name c>'` -/
  | valName (c : Nat)
  /-- the column object -/
  | col (c : Nat)
  /-- a bound validator method of column `c` -/
  | fn (k : FnKind) (c : Nat)
  /-- a result tuple -/
  | row (r : List CVal)
  | pair (a b : PV)
deriving Repr

def ofVal (x : CVal) : PV := .val x

def toVal? : PV → Option CVal
  | .val x => some x
  | _ => Option.none

def PV.none : PV := .val .none
def PV.bool (b : Bool) : PV := .val (.bool b)

inductive Exc where
  | attributeError | keyError | typeError | invalid | dbError | notFound | assertion | runtimeError | other
deriving Repr, DecidableEq

inductive Flag where
  | expired | dirty | lazyUpdate | cacheValues | creating | obsolete
deriving Repr, DecidableEq

structure Klass where
  lazyUpdate : Bool
  cacheValues : Bool
  ncols : Nat
  hasFrom : Nat → Bool
  hasTo : Nat → Bool
  enc : Nat → CVal → Codec.Res CVal
  dec : Nat → CVal → Codec.Res CVal
  /-- `hasattr(self.__class__, name)` for a name that is not a column -/
  classAttr : Nat → Bool

structure Obj where
  vals : Nat → Option CVal
  createValues : List (Nat × CVal)
  expired : Bool
  dirty : Bool
  creating : Bool
  obsolete : Bool
  /-- `sqlmeta.row_update_sig_suppress` exists (and is True) -/
  sigSuppress : Bool
  /-- ghost: the connection cache has an entry for this instance -/
  inCache : Bool
  /-- `_SO_writeLock` is held -/
  lock : Bool

/-- the connection calls: PARAMETERS of the semantics -/
structure ConnOps (G : Type) where
  /-- `_SO_selectOne(self, dbNames)`: `none` = a column list the connection model has no statement for -/
  selectOne : G → List Nat → Option (G × Option (List CVal))
  /-- `_SO_update(self, values)`: the new connection state, or the database refuses the statement (`reject` /
      `invalid`: it raises `dbError` and changes nothing), or the hand model of the database has no answer -/
  update : G → List (Nat × CVal) → Codec.Res G
  /-- `cache.expire(self.id, self.__class__)` -/
  cacheExpire : G → G

structure World (G : Type) where
  o : Obj
  g : G
  k : Klass

abbrev PDict := List (Nat × PV)

structure St (G : Type) where
  w : World G
  vars : List (Option PV)
  lists : List (List PV)
  dicts : List PDict

inductive DRef where
  | createValues
  | loc (n : Nat)
deriving Repr, DecidableEq

inductive ColAttr where
  | name | dbName | toPython | fromPython | creationOrder
deriving Repr, DecidableEq

inductive Expr where
  | var (x : Nat)
  | none
  | true
  | false
  | flag (f : Flag)                       -- `self.sqlmeta.<f>`
  | sigSuppress                           -- `getattr(self.sqlmeta, "row_update_sig_suppress", False)`
  | instName (e : Expr)                   -- `instanceName(e)`
  | getattrSelf (e : Expr)                -- `getattr(self, e)`
  | validator (k : FnKind) (e : Expr)     -- `getattr(self, '_SO_from_python_%s' % e, None)`
  | column (e : Expr)                     -- `self.sqlmeta.columns[e]`
  | colAttr (e : Expr) (a : ColAttr)      -- `e.name`, `e.dbName`, `e.to_python`, …
  | call (f a : Expr)                     -- `f(a, self._SO_validatorState)`
  | idx (e : Expr) (i : Nat)              -- `e[0]`, `e[1]`
  | dictIdx (d : DRef) (k : Expr)         -- `d[k]`
  | pair (a b : Expr)                     -- `(a, b)`
  | getattrCls (e : Expr)                 -- `getattr(self.__class__, e)` (value unused)
deriving Repr

inductive Cond where
  | truthy (e : Expr)
  | isNone (e : Expr)
  | isNotNone (e : Expr)
  | not (c : Cond)
  | and (c d : Cond)
  | or (c d : Cond)
  | dictTruthy (d : DRef)                 -- `if d:`
  | listTruthy (l : Nat)
  | columnsTruthy                         -- `if self.sqlmeta.columns:`
  | inDict (k : Expr) (d : DRef)
  | inColumns (k : Expr)                  -- `k in self.sqlmeta.columns`
  | inPlainSetters (k : Expr)             -- `k in self.sqlmeta._plainSetters`
  | hasattrCls (k : Expr)                 -- `hasattr(self.__class__, k)`
  | lenNe (d : DRef) (n : Nat)            -- `len(d) != n`
deriving Repr

inductive Target where
  | one (x : Nat)
  | two (x y : Nat)
deriving Repr, DecidableEq

inductive LExpr where
  | var (l : Nat)
  | lit (es : List Expr)
  | columnList                                       -- `self.sqlmeta.columnList`
  | ofRow (e : Expr)                                 -- a result tuple, iterated
  | items (d : DRef)
  | keys (d : DRef)
  | zip (a b : LExpr)
  | comp (t : Target) (src : LExpr) (e : Expr)       -- `[e for t in src]`
  | sortedBy (x : Nat) (src : LExpr) (key : Expr)    -- `sorted(src, key=lambda x: key)`
  | filter (x : Nat) (src : LExpr) (c : Cond)        -- `filter(lambda x: c, src)`
deriving Repr

mutual
inductive Stmt where
  | assign (x : Nat) (e : Expr)
  | setFlag (f : Flag) (b : Bool)                    -- `self.sqlmeta.f = True`
  | setSigSuppress                                   -- `self.sqlmeta.row_update_sig_suppress = True`
  | delSigSuppress                                   -- `del self.sqlmeta.row_update_sig_suppress`
  | setattrSelf (n v : Expr)                         -- `setattr(self, n, v)`
  | delattrSelf (n : Expr)                           -- `delattr(self, n)`
  | listAssign (l : Nat) (le : LExpr)
  | dictNew (d : DRef)                               -- `d = {}`
  | dictLit1 (d : DRef) (k v : Expr)                 -- `d = {k: v}`
  | dictSet (d : DRef) (k v : Expr)                  -- `d[k] = v`
  | dictUpdate (d src : DRef)                        -- `d.update(src)`
  | dictOfList (d : DRef) (le : LExpr)               -- `d = dict(le)`
  | acquire
  | release
  | selectOne (x : Nat) (le : LExpr)                 -- `x = self._connection._SO_selectOne(self, le)`
  | update (le : LExpr)                              -- `self._connection._SO_update(self, le)`
  | cacheExpire                                      -- `self._connection.cache.expire(self.id, self.__class__)`
  | send (sig : String)                              -- `self.sqlmeta.send(events.sig, self, …)`: ignored
  | callSelf (m : String) (args : List Expr)         -- `self.m(args)` (result unused)
  | callSelfKw (m : String) (d : DRef)               -- `self.m(**d)` (result unused)
  | callOpaque (e : Expr)                            -- `e(self)`: outside the fragment
  | exprStmt (e : Expr)
  | assert (c : Cond)
  | raise (e : Exc)
  | ite (c : Cond) (t e : Block)
  | for (t : Target) (le : LExpr) (body : Block)
  | tryExcept (body : Block) (exc : Exc) (handler orelse : Block)
  | tryFinally (body fin : Block)
  | ret (e : Expr)
  | retNone
  | pass
inductive Block where
  | nil
  | cons (s : Stmt) (rest : Block)
end

/-- result of evaluating an expression / a condition / a list -/
inductive R (α : Type) where
  | ok (a : α)
  | exc (e : Exc)
  /-- the hand model of the standard library has no answer -/
  | unmodelled
  /-- outside the fragment: TypeError on a value of the wrong kind, UnboundLocalError, … -/
  | stuck

def R.bind {α β : Type} : R α → (α → R β) → R β
  | .ok a, f => f a
  | .exc e, _ => .exc e
  | .unmodelled, _ => .unmodelled
  | .stuck, _ => .stuck

def mapR {α β : Type} (f : α → R β) : List α → R (List β)
  | [] => .ok []
  | a :: l => (f a).bind fun b => (mapR f l).bind fun bs => .ok (b :: bs)

def ofOpt {α : Type} : Option α → R α
  | some a => .ok a
  | Option.none => .stuck

/-! ### Python dicts as association lists in insertion order (pairwise distinct keys) -/

def dget {α : Type} (k : Nat) : List (Nat × α) → Option α
  | [] => Option.none
  | e :: l => if e.1 = k then some e.2 else dget k l

def dhas {α : Type} (k : Nat) (l : List (Nat × α)) : Bool := l.any (fun e => decide (e.1 = k))

def dset {α : Type} (k : Nat) (v : α) (l : List (Nat × α)) : List (Nat × α) :=
  if dhas k l then l.map (fun e => if e.1 = k then (k, v) else e) else l ++ [(k, v)]

/-- `d.update(src)` -/
def dupdate {α : Type} (src d : List (Nat × α)) : List (Nat × α) := src.foldl (fun d e => dset e.1 e.2 d) d

/-- `dict(pairs)` -/
def dictOf {α : Type} (pairs : List (Nat × α)) : List (Nat × α) := dupdate pairs []

/-- stable insertion sort by a natural key (what `sorted(…, key=…)` returns) -/
def insByKey {α : Type} (x : Nat × α) : List (Nat × α) → List (Nat × α)
  | [] => [x]
  | y :: r => if x.1 < y.1 then x :: y :: r else y :: insByKey x r

def sortByKey {α : Type} (l : List (Nat × α)) : List (Nat × α) := l.foldr insByKey []

/-! ### state access -/

variable {G : Type}

def St.getVar (st : St G) (x : Nat) : Option PV :=
  match st.vars[x]? with
  | some (some v) => some v
  | _ => Option.none

def St.setVar (st : St G) (x : Nat) (v : PV) : St G := { st with vars := st.vars.set x (some v) }

def St.getList (st : St G) (l : Nat) : Option (List PV) := st.lists[l]?

def St.setList (st : St G) (l : Nat) (vs : List PV) : St G := { st with lists := st.lists.set l vs }

def St.setObj (st : St G) (o : Obj) : St G := { st with w := { st.w with o := o } }

def St.setG (st : St G) (g : G) : St G := { st with w := { st.w with g := g } }

def St.getDict (st : St G) : DRef → Option PDict
  | .createValues => some (st.w.o.createValues.map (fun e => (e.1, ofVal e.2)))
  | .loc n => st.dicts[n]?

def cvOf : PDict → Option (List (Nat × CVal))
  | [] => some []
  | e :: l => match toVal? e.2, cvOf l with
    | some v, some r => some ((e.1, v) :: r)
    | _, _ => Option.none

/-- `_SO_createValues` holds database-side column values only (anything else: outside the fragment) -/
def St.setDict (st : St G) : DRef → PDict → Option (St G)
  | .createValues, d => (cvOf d).map fun cv => st.setObj { st.w.o with createValues := cv }
  | .loc n, d => some { st with dicts := st.dicts.set n d }

def Target.bind (st : St G) : Target → PV → Option (St G)
  | .one x, v => some (st.setVar x v)
  | .two x y, .pair a b => some ((st.setVar x a).setVar y b)
  | .two _ _, _ => Option.none

def Obj.getFlag (o : Obj) (k : Klass) : Flag → Bool
  | .expired => o.expired
  | .dirty => o.dirty
  | .lazyUpdate => k.lazyUpdate
  | .cacheValues => k.cacheValues
  | .creating => o.creating
  | .obsolete => o.obsolete

/-- only the per-instance flags the fragment assigns -/
def Obj.setFlag (o : Obj) : Flag → Bool → Option Obj
  | .expired, b => some { o with expired := b }
  | .dirty, b => some { o with dirty := b }
  | _, _ => Option.none

def Obj.setVal (o : Obj) (c : Nat) (v : Option CVal) : Obj :=
  { o with vals := fun k => if k = c then v else o.vals k }

/-- `hasattr(self.__class__, name)`: a column has a class-level property -/
def Klass.hasAttr (k : Klass) (c : Nat) : Bool := Nat.blt c k.ncols || k.classAttr c

/-! ### expressions -/

/-- a validator outcome as the result of the call -/
def resR : Codec.Res CVal → R PV
  | .ok y => .ok (.val y)
  | .invalid => .exc .invalid
  | .reject => .exc .other
  | .unmodelled => .unmodelled

def callFn (k : Klass) : PV → PV → R PV
  | .fn .fromPy c, .val x => resR (k.enc c x)
  | .fn .toPy c, .val x => resR (k.dec c x)
  | _, _ => .stuck

def colAttrOf (k : Klass) : PV → ColAttr → R PV
  | .col c, .name => .ok (.name c)
  | .col c, .dbName => .ok (.dbName c)
  | .col c, .toPython => .ok (if k.hasTo c then .fn .toPy c else .none)
  | .col c, .fromPython => .ok (if k.hasFrom c then .fn .fromPy c else .none)
  | .col c, .creationOrder => .ok (.nat c)
  | _, _ => .stuck

def pvIdx : PV → Nat → R PV
  | .pair a _, 0 => .ok a
  | .pair _ b, 1 => .ok b
  | .row r, i => match r[i]? with
    | some v => .ok (ofVal v)
    | Option.none => .stuck
  | _, _ => .stuck

def Expr.eval (st : St G) : Expr → R PV
  | .var x => ofOpt (st.getVar x)
  | .none => .ok .none
  | .true => .ok (.bool Bool.true)
  | .false => .ok (.bool Bool.false)
  | .flag f => .ok (.bool (st.w.o.getFlag st.w.k f))
  | .sigSuppress => .ok (.bool st.w.o.sigSuppress)
  | .instName e => (e.eval st).bind fun
    | .name c => .ok (.valName c)
    | _ => .stuck
  | .getattrSelf e => (e.eval st).bind fun
    | .valName c => match st.w.o.vals c with
      | some v => .ok (ofVal v)
      | Option.none => .exc .attributeError
    | _ => .stuck
  | .validator kd e => (e.eval st).bind fun
    | .name c => match kd with
      | .fromPy => .ok (if st.w.k.hasFrom c then .fn .fromPy c else .none)
      | .toPy => .ok (if st.w.k.hasTo c then .fn .toPy c else .none)
    | _ => .stuck
  | .column e => (e.eval st).bind fun
    | .name c => if c < st.w.k.ncols then .ok (.col c) else .exc .keyError
    | _ => .stuck
  | .colAttr e a => (e.eval st).bind fun v => colAttrOf st.w.k v a
  | .call f a => (f.eval st).bind fun fv => (a.eval st).bind fun av => callFn st.w.k fv av
  | .idx e i => (e.eval st).bind fun v => pvIdx v i
  | .dictIdx d ke => (ke.eval st).bind fun
    | .name c => match st.getDict d with
      | some l => match dget c l with
        | some v => .ok v
        | Option.none => .exc .keyError
      | Option.none => .stuck
    | _ => .stuck
  | .pair a b => (a.eval st).bind fun av => (b.eval st).bind fun bv => .ok (.pair av bv)
  | .getattrCls e => (e.eval st).bind fun
    | .name c => if st.w.k.hasAttr c then .ok .none else .exc .attributeError
    | _ => .stuck

/-- `bool(v)` (of a universe value: None, bool and int only) -/
def pyBool : PV → Option Bool
  | .val .none => some false
  | .val (.bool b) => some b
  | .val (.int i) => some (i != 0)
  | .val _ => Option.none
  | .nat n => some (n != 0)
  | .row r => some (!r.isEmpty)
  | _ => some true

def PV.isNone : PV → Bool
  | .val .none => true
  | _ => false

def nameOf : PV → Option Nat
  | .name c => some c
  | _ => Option.none

def Cond.eval (st : St G) : Cond → R Bool
  | .truthy e => (e.eval st).bind fun v => ofOpt (pyBool v)
  | .isNone e => (e.eval st).bind fun v => .ok v.isNone
  | .isNotNone e => (e.eval st).bind fun v => .ok (!v.isNone)
  | .not c => (c.eval st).bind fun b => .ok (!b)
  | .and c d => (c.eval st).bind fun b => if b then d.eval st else .ok false
  | .or c d => (c.eval st).bind fun b => if b then .ok true else d.eval st
  | .dictTruthy d => (ofOpt (st.getDict d)).bind fun l => .ok (!l.isEmpty)
  | .listTruthy l => (ofOpt (st.getList l)).bind fun vs => .ok (!vs.isEmpty)
  | .columnsTruthy => .ok (st.w.k.ncols != 0)
  | .inDict ke d => (ke.eval st).bind fun v => (ofOpt (nameOf v)).bind fun c =>
      (ofOpt (st.getDict d)).bind fun l => .ok (dhas c l)
  | .inColumns ke => (ke.eval st).bind fun v => (ofOpt (nameOf v)).bind fun c => .ok (Nat.blt c st.w.k.ncols)
  | .inPlainSetters ke => (ke.eval st).bind fun v => (ofOpt (nameOf v)).bind fun c => .ok (Nat.blt c st.w.k.ncols)
  | .hasattrCls ke => (ke.eval st).bind fun v => (ofOpt (nameOf v)).bind fun c => .ok (st.w.k.hasAttr c)
  | .lenNe d n => (ofOpt (st.getDict d)).bind fun l => .ok (l.length != n)

def itemsOf (l : PDict) : List PV := l.map fun e => .pair (.name e.1) e.2

def natOf : PV → Option Nat
  | .nat n => some n
  | _ => Option.none

def LExpr.eval (st : St G) : LExpr → R (List PV)
  | .var l => ofOpt (st.getList l)
  | .lit es => mapR (fun e => e.eval st) es
  | .columnList => .ok ((List.range st.w.k.ncols).map .col)
  | .ofRow e => (e.eval st).bind fun
    | .row r => .ok (r.map ofVal)
    | _ => .stuck
  | .items d => (ofOpt (st.getDict d)).bind fun l => .ok (itemsOf l)
  | .keys d => (ofOpt (st.getDict d)).bind fun l => .ok (l.map fun e => .name e.1)
  | .zip a b => (a.eval st).bind fun xs => (b.eval st).bind fun ys => .ok (List.zipWith .pair xs ys)
  | .comp t src e => (src.eval st).bind fun xs =>
      mapR (fun v => (ofOpt (t.bind st v)).bind fun st' => e.eval st') xs
  | .sortedBy x src key => (src.eval st).bind fun xs =>
      (mapR (fun v => ((key.eval (st.setVar x v)).bind fun kv => ofOpt (natOf kv)).bind fun n => .ok (n, v)) xs).bind fun kxs =>
        .ok ((sortByKey kxs).map (·.2))
  | .filter x src c => (src.eval st).bind fun xs =>
      (mapR (fun v => (c.eval (st.setVar x v)).bind fun b => .ok (b, v)) xs).bind fun bxs =>
        .ok ((bxs.filter (·.1)).map (·.2))

/-! ### statements -/

/-- how a method call ends -/
inductive Outcome (G : Type) where
  | ret (w : World G) (v : PV)
  | exc (w : World G) (e : Exc)
  /-- `acquire()` on a lock that is held: the (single) thread blocks for ever -/
  | deadlock (w : World G)
  | unmodelled
  | stuck

/-- how a statement ends -/
inductive Res (G : Type) where
  | norm (st : St G)
  | ret (st : St G) (v : PV)
  | exc (st : St G) (e : Exc)
  | deadlock (st : St G)
  | unmodelled
  | stuck

def forLoop {α : Type} (f : St G → α → Res G) : List α → St G → Res G
  | [], st => .norm st
  | v :: vs, st => match f st v with
    | .norm st' => forLoop f vs st'
    | r => r

/-- bind the loop target to the item, then run the body -/
def bindThen (t : Target) (k : St G → Res G) (st : St G) (v : PV) : Res G :=
  match t.bind st v with
  | some st' => k st'
  | Option.none => .stuck

/-- the caller's view of a finished `self.m(…)` -/
def afterCall (call : Outcome G) (st : St G) : Res G :=
  match call with
  | .ret w _ => .norm { st with w := w }
  | .exc w e => .exc { st with w := w } e
  | .deadlock w => .deadlock { st with w := w }
  | .unmodelled => .unmodelled
  | .stuck => .stuck

/-- lift the evaluation of an expression into a statement result -/
def withR {α : Type} (st : St G) (r : R α) (f : α → Res G) : Res G :=
  match r with
  | .ok a => f a
  | .exc e => .exc st e
  | .unmodelled => .unmodelled
  | .stuck => .stuck

def ofOptRes {α : Type} (o : Option α) (f : α → Res G) : Res G :=
  match o with
  | some a => f a
  | Option.none => .stuck

def dbNameOf : PV → Option Nat
  | .dbName c => some c
  | _ => Option.none

def optMap {α β : Type} (f : α → Option β) : List α → Option (List β)
  | [] => some []
  | a :: l => match f a, optMap f l with
    | some b, some bs => some (b :: bs)
    | _, _ => Option.none

/-- an element of the list handed to `_SO_update`: `(dbName, database-side value)` -/
def updItemOf : PV → Option (Nat × CVal)
  | .pair (.dbName c) v => (toVal? v).map fun x => (c, x)
  | _ => Option.none

/-- a `dict(…)` / `**kw` item: `(name, value)` -/
def dictItemOf : PV → Option (Nat × PV)
  | .pair (.name c) v => some (c, v)
  | _ => Option.none

/-- what a method can be called with: positional values and `**kw` -/
abbrev CallT (G : Type) := String → List PV → PDict → World G → Outcome G

mutual
def Stmt.exec (conn : ConnOps G) (call : CallT G) (st : St G) : Stmt → Res G
  | .assign x e => withR st (e.eval st) fun v => .norm (st.setVar x v)
  | .setFlag f b => ofOptRes (st.w.o.setFlag f b) fun o => .norm (st.setObj o)
  | .setSigSuppress => .norm (st.setObj { st.w.o with sigSuppress := true })
  | .delSigSuppress =>
    if st.w.o.sigSuppress then .norm (st.setObj { st.w.o with sigSuppress := false })
    else .exc st .attributeError
  | .setattrSelf n v => withR st (n.eval st) fun
    | .valName c => withR st (v.eval st) fun pv => ofOptRes (toVal? pv) fun x =>
        .norm (st.setObj (st.w.o.setVal c (some x)))
    | _ => .stuck
  | .delattrSelf n => withR st (n.eval st) fun
    | .valName c => match st.w.o.vals c with
      | some _ => .norm (st.setObj (st.w.o.setVal c Option.none))
      | Option.none => .exc st .attributeError
    | _ => .stuck
  | .listAssign l le => withR st (le.eval st) fun vs => .norm (st.setList l vs)
  | .dictNew d => ofOptRes (st.setDict d []) .norm
  | .dictLit1 d k v => withR st (k.eval st) fun kv => ofOptRes (nameOf kv) fun c =>
      withR st (v.eval st) fun pv => ofOptRes (st.setDict d [(c, pv)]) .norm
  | .dictSet d k v => withR st (k.eval st) fun kv => ofOptRes (nameOf kv) fun c =>
      withR st (v.eval st) fun pv => ofOptRes (st.getDict d) fun l => ofOptRes (st.setDict d (dset c pv l)) .norm
  | .dictUpdate d src => ofOptRes (st.getDict d) fun l => ofOptRes (st.getDict src) fun s =>
      ofOptRes (st.setDict d (dupdate s l)) .norm
  | .dictOfList d le => withR st (le.eval st) fun vs => ofOptRes (optMap dictItemOf vs) fun ps =>
      ofOptRes (st.setDict d (dictOf ps)) .norm
  | .acquire => if st.w.o.lock then .deadlock st else .norm (st.setObj { st.w.o with lock := true })
  | .release => if st.w.o.lock then .norm (st.setObj { st.w.o with lock := false }) else .exc st .runtimeError
  | .selectOne x le => withR st (le.eval st) fun vs => ofOptRes (optMap dbNameOf vs) fun cols =>
      ofOptRes (conn.selectOne st.w.g cols) fun r =>
        .norm ((st.setG r.1).setVar x (match r.2 with | some row => .row row | Option.none => .none))
  | .update le => withR st (le.eval st) fun vs => ofOptRes (optMap updItemOf vs) fun p =>
      match conn.update st.w.g p with
      | .ok g => .norm (st.setG g)
      | .unmodelled => .unmodelled
      | _ => .exc st .dbError
  | .cacheExpire => .norm ((st.setG (conn.cacheExpire st.w.g)).setObj { st.w.o with inCache := false })
  | .send _ => .norm st
  | .callSelf m args => withR st (mapR (fun e => e.eval st) args) fun vs => afterCall (call m vs [] st.w) st
  | .callSelfKw m d => ofOptRes (st.getDict d) fun kw => afterCall (call m [] kw st.w) st
  | .callOpaque _ => .stuck
  | .exprStmt e => withR st (e.eval st) fun _ => .norm st
  | .assert c => withR st (c.eval st) fun b => if b then .norm st else .exc st .assertion
  | .raise e => .exc st e
  | .ite c t e => withR st (c.eval st) fun b => if b then t.exec conn call st else e.exec conn call st
  | .for t le body => withR st (le.eval st) fun vs =>
      forLoop (bindThen t fun st' => body.exec conn call st') vs st
  | .tryExcept body exc handler orelse => match body.exec conn call st with
    | .norm st' => orelse.exec conn call st'
    | .exc st' e => if e = exc then handler.exec conn call st' else .exc st' e
    | r => r
  | .tryFinally body fin => match body.exec conn call st with
    | .norm st' => fin.exec conn call st'
    | .ret st' v => (match fin.exec conn call st' with
      | .norm st'' => .ret st'' v
      | r => r)
    | .exc st' e => (match fin.exec conn call st' with
      | .norm st'' => .exc st'' e
      | r => r)
    | .deadlock st' => .deadlock st'
    | .unmodelled => .unmodelled
    | .stuck => .stuck
  | .ret e => withR st (e.eval st) fun v => .ret st v
  | .retNone => .ret st .none
  | .pass => .norm st
def Block.exec (conn : ConnOps G) (call : CallT G) (st : St G) : Block → Res G
  | .nil => .norm st
  | .cons s rest => match s.exec conn call st with
    | .norm st' => rest.exec conn call st'
    | r => r
end

def Res.toOutcome : Res G → Outcome G
  | .norm st => .ret st.w .none          -- falling off the end returns None
  | .ret st v => .ret st.w v
  | .exc st e => .exc st.w e
  | .deadlock st => .deadlock st.w
  | .unmodelled => .unmodelled
  | .stuck => .stuck

/-- call a method: `args` are the parameters after `self`, `kw` (if the method has `**kw`) is dict local 0 -/
def run (conn : ConnOps G) (call : CallT G) (prog : Block) (args : List PV) (kw : PDict)
    (nlocals nlists ndicts : Nat) (w : World G) : Outcome G :=
  (prog.exec conn call { w := w, vars := args.map some ++ List.replicate nlocals Option.none,
                         lists := List.replicate nlists [],
                         dicts := kw :: List.replicate ndicts [] }).toOutcome

/-- a method that calls nothing -/
def noCall : CallT G := fun _ _ _ _ => .stuck

end SqlObjVerif.PyMainV
