import SqlObjVerif.Model.PyCodec
import SqlObjVerif.Extracted.PyCodec
/-!
# CodecX — the translated validators of col.py run on the hand model's value universe

`run (iface cfg) Extracted.<f> [self, value, state]` executes the TRANSLATED Python source of a validator method
(`Extracted/PyCodec.lean`, regenerated from /repo on every run) on a value of `Codec.PyVal`.  `Lemmas/CodecX*.lean` prove
that the outcome is the hand model's `Codec.toDb` / `Codec.toPy` function of the column kind, for ALL values.

## ASSUMED INTERFACE (`iface cfg`; everything the translated code calls that is not Python's core)

* the objects: `self` = the validator (`self.format`, `self.dataType`, `self.enumValues`, `self.notNone`, `self.fkIDType`
  are the `Cfg` fields: what the column's `createValidators` passes), `state` = `SQLObjectState(instance)`:
  `state.connection` is None, `state.soObject._connection` is the SQLite connection (`dbName = 'sqlite'`,
  `_binaryType = memoryview`, no `decimalSeparator`, `module.decode = base64.b64decode`,
  `createBinary(v) = memoryview(base64.b64encode(v))` — `Codec.b64dec` / `Codec.b64enc`, TypeError on anything but
  bytes); `self.getDbEncoding(state, …)` is `'utf-8'`;
* module-level names: `PY2 = False`, the Python 3 bindings EXTRACTED from compat.py / col.py (`Extracted.py3Names`:
  `long = int`, `unicode_type = string_type = unicode = str`, `buffer_type = memoryview`),
  `mxdatetime_available = zope_datetime_available = False` (neither package is installed);
* the class of each universe tag (`classesOf`: `bool ⊂ int`, `datetime ⊂ date`; json / pickled / instance handles are
  instances of none of the classes the validators test; `other` is not interpreted) and which of the attributes
  `__int__`, `__long__`, `__bool__`, `__nonzero__`, `__unicode__`, `sqlmeta`, `strftime` it has (`hasAttrPy`);
* float arithmetic is NOT interpreted beyond the model's `floatClass`: `v != v // 1` is true for a float whose `repr`
  shows a fractional part or nan / inf, false for an integral one (`Cfg.floatFrac`), `int(v)` of an integral float is the
  integer its `repr` denotes (`Cfg.intOfFloat`; the ForeignKey configurations leave `int(<float>)` and
  `str(<uuid>)` uninterpreted, as the hand model does — the fractional / nan / inf test `v != v // 1` of c408a4f is
  interpreted there too); `bool(v)` is interpreted on ints only;
* `int(v)`: ints, bools, `str` by `Codec.intText` (ValueError when there is no digit at all, uninterpreted for the other
  digit-bearing spellings), TypeError for date/time records; `str(v)`: str, int (`reprInt`), `str(bytes, 'ascii')`,
  `bytes(str, 'ascii')` (ValueError unless ASCII); `Decimal(v)`: int and bool (`Decimal(5) ↦ '5'`), everything else
  about Decimal is NOT interpreted;
* `value.id` of an instance handle (`Cfg.idOfInt` / `Cfg.idOfStr`: the id when the instance is of the referenced
  class's id type, uninterpreted otherwise, as in the hand model); `findClass(…).sqlmeta.idType` = `Cfg.idType`;
* `datetime.datetime.strptime(text, fmt)` = the hand model's `Codec.strptime` on the format PARSED from the text of
  `fmt` (`parseFmt`; ValueError when it does not match, TypeError for a non-str argument),
  `datetime.datetime.combine(date, time())` = midnight of that date, `.date()` / `.time()` of a datetime record;
* `'.' in v`, `strptime(v, …)` for a `v` that is no `str`: TypeError (json / pickled / instance tokens included: they
  stand for objects that are neither `str` nor containers of `str`);
* `value in self.enumValues`: list membership with Python `==` (a non-str value equals no declared value);
* the codecs are ABSTRACT, a value is identified with its encoding: `json.dumps(<json t>) = t`, `json.loads(s) = <json s>`,
  `pickle.dumps(<pickled b>, …) = b`, `pickle.loads(b) = <pickled b>`, `UUID(s) = <uuid s>`, `str(<uuid t>) = t`,
  `<decimal t>.to_eng_string() = t`, and on the READ side of a DecimalStringCol `Decimal(s) = <decimal s>`
  (`Cfg.decimalOfStr`; elsewhere `Decimal(<text>)` is uninterpreted, as in the hand model); anything else about them is
  NOT interpreted (so `dec ∘ enc = id` is built in: the round-trip theorems for these kinds are conditional on it); a
  json token is only ever given to a JSONCol and stands for a dict, list, str, int, float or bool — all of which
  JSONValidator tests in ONE isinstance: the class table lists `dict`; `self.precision = 0` (`quantize=False`);
* `_SO_selectInit`: `self.sqlmeta.columnList` is the tuple of the class's column objects, `col.name` / `col.to_python`
  (None for a column without validators) / `col.to_python(v, state)` are the `Cfg.col…` fields (instantiated with the
  TRANSLATED chain `chainToPy` of the column's kind in `Model/CodecXChain.lean`), `zip` pairs positionally and stops at
  the shorter argument, `instanceName(n) = '_SO_val_' + n`, `self._SO_validatorState` is `state`;
* `super(DateValidator, self).to_python(value, state)` (and TimeValidator's) = the TRANSLATED
  `DateTimeValidator.to_python` (`Cfg.superToPython`, instantiated with `run … Extracted.dtToPython`).
-/
namespace SqlObjVerif.PyCodec

open SqlObjVerif.Codec (Str PyVal FTok DT SPiece)

/-! ### the strptime format text -/

def directive (c : Nat) : Option SPiece :=
  if c = 89 then some .Y else if c = 109 then some .m else if c = 100 then some .d
  else if c = 72 then some .H else if c = 77 then some .M else if c = 83 then some .S
  else if c = 102 then some .f else Option.none

/-- `'%Y-%m-%d'` ↦ `[.Y, .lit 45, .m, .lit 45, .d]` -/
def parseFmt : Str → Option (List SPiece)
  | [] => some []
  | c :: rest =>
    if c = 37 then
      match rest with
      | d :: rest' => (directive d).bind fun p => (parseFmt rest').map (p :: ·)
      | [] => Option.none
    else (parseFmt rest).map (.lit c :: ·)

def strptimeText (fmt value : Str) : Option DT := (parseFmt fmt).bind fun f => Codec.strptime f value

/-! ### configuration of one validator instance -/

structure Cfg where
  format : Str
  dataType : Val
  enumValues : List Str
  notNone : Bool
  fkIDType0 : Val
  idType : String
  idOfInt : Int → R Val
  idOfStr : Str → R Val
  floatFrac : FTok → R Bool
  intOfFloat : FTok → R Val
  superToPython : Val → R Val
  superFromPython : Val → R Val
  decimalOfStr : Str → R Val
  strOfUuid : Str → R Val
  /-- the columns of the class (`sqlmeta.columnList`): how many, `col.name`, has it a validator (`col.to_python` is not
      None), and `col.to_python(v, state)` -/
  ncols : Nat
  colName : Nat → Str
  colHasTo : Nat → Bool
  colToPy : Nat → PyVal → R PyVal

/-- `v != v // 1` by the model's reading of the float's `repr` -/
def floatFracM : FTok → R Bool
  | .lit t =>
    match Codec.floatClass t with
    | .nonfinite => .ok true
    | .fractional => .ok true
    | .integral _ => .ok false
    | .unknown => .unmodelled
  | .ofInt _ => .ok false

/-- `int(v)` of a float -/
def intOfFloatM : FTok → R Val
  | .lit t =>
    match Codec.floatClass t with
    | .integral n => .ok (.py (.int n))
    | _ => .unmodelled
  | .ofInt i => if Codec.exactInt i then .ok (.py (.int i)) else .unmodelled

def Cfg.base : Cfg :=
  { format := [], dataType := .py .none, enumValues := [], notNone := false, fkIDType0 := .py .none,
    idType := "int", idOfInt := fun _ => .unmodelled, idOfStr := fun _ => .unmodelled,
    floatFrac := floatFracM, intOfFloat := intOfFloatM, superToPython := fun _ => .stuck,
    superFromPython := fun _ => .stuck, decimalOfStr := fun _ => .unmodelled,
    strOfUuid := fun t => .ok (.py (.str t)), ncols := 0, colName := fun _ => [], colHasTo := fun _ => false,
    colToPy := fun _ _ => .stuck }

/-! ### the interface -/

def xGlob (name : String) : Option Val :=
  if name = "PY2" then some (.py (.bool false))
  else if name = "mxdatetime_available" then some (.py (.bool false))
  else if name = "zope_datetime_available" then some (.py (.bool false))
  else (Extracted.py3Names.lookup name).map .cls

/-- the classes (of those the validators test) a universe value is an instance of -/
def classesOf : PyVal → Option (List String)
  | .none => some ["NoneType"]
  | .bool _ => some ["bool", "int"]
  | .int _ => some ["int"]
  | .float _ => some ["float"]
  | .str _ => some ["str"]
  | .bytes _ => some ["bytes"]
  | .datetime .. => some ["datetime.datetime", "datetime.date"]
  | .date .. => some ["datetime.date"]
  | .time .. => some ["datetime.time"]
  | .decimal _ => some ["Decimal"]
  | .uuid _ => some ["UUID"]
  | .json _ => some ["dict"]
  | .pickled _ => some []
  | .sqlobj _ => some []
  | .sqlobjS _ => some []
  | .other => Option.none

def xIsInst (v : PyVal) (c : String) : Option Bool := (classesOf v).map fun l => l.contains c

def nmInt : Str := [95, 95, 105, 110, 116, 95, 95]                          -- `__int__`
def nmFloat : Str := [95, 95, 102, 108, 111, 97, 116, 95, 95]                -- `__float__`
def nmLong : Str := [95, 95, 108, 111, 110, 103, 95, 95]                    -- `__long__`
def nmBool : Str := [95, 95, 98, 111, 111, 108, 95, 95]                     -- `__bool__`
def nmNonzero : Str := [95, 95, 110, 111, 110, 122, 101, 114, 111, 95, 95]  -- `__nonzero__`
def nmUnicode : Str := [95, 95, 117, 110, 105, 99, 111, 100, 101, 95, 95]   -- `__unicode__`
def nmSqlmeta : Str := [115, 113, 108, 109, 101, 116, 97]                   -- `sqlmeta`
def nmStrftime : Str := [115, 116, 114, 102, 116, 105, 109, 101]            -- `strftime`
def nmDecSep : Str := [100, 101, 99, 105, 109, 97, 108, 83, 101, 112, 97, 114, 97, 116, 111, 114]  -- `decimalSeparator`

/-- the attribute names (of those the validators ask for) a universe value has -/
def attrsOf : PyVal → Option (List Str)
  | .none => some [nmBool]
  | .bool _ => some [nmInt, nmBool, nmFloat]
  | .int _ => some [nmInt, nmBool, nmFloat]
  | .float _ => some [nmInt, nmBool, nmFloat]
  | .str _ => some []
  | .bytes _ => some []
  | .datetime .. => some [nmStrftime]
  | .date .. => some [nmStrftime]
  | .time .. => some [nmStrftime]
  | .decimal _ => some [nmInt, nmBool, nmFloat]
  | .uuid _ => some [nmInt]
  | .json _ => some []
  | .pickled _ => some []
  | .sqlobj _ => some [nmSqlmeta]
  | .sqlobjS _ => some [nmSqlmeta]
  | .other => Option.none

def xHasAttr (v : Val) (a : Str) : Option Bool :=
  match v with
  | .py p => (attrsOf p).map fun l => l.contains a
  | .obj _ => some false          -- the connection has no `decimalSeparator`
  | _ => Option.none

def sSqlite : Str := [115, 113, 108, 105, 116, 101]
def sUtf8 : Str := [117, 116, 102, 45, 56]

def xGetAttrObj (cfg : Cfg) (p a : String) : R Val :=
  if p = "self" then
    if a = "format" then .ok (.py (.str cfg.format))
    else if a = "dataType" then .ok cfg.dataType
    else if a = "enumValues" then .ok (.strs cfg.enumValues)
    else if a = "notNone" then .ok (.py (.bool cfg.notNone))
    else if a = "fkIDType" then .ok cfg.fkIDType0
    else if a = "soCol" then .ok (.obj "self.soCol")
    else if a = "sqlmeta" then .ok (.obj "self.sqlmeta")
    else if a = "_SO_validatorState" then .ok (.obj "state")
    else if a = "_cachedValue" then .ok (.py .none)
    else if a = "precision" then .ok (.py (.int 0))
    else if a = "pickleProtocol" then .ok (.py (.int 5))
    else .unmodelled
  else if p = "self.sqlmeta" then
    if a = "columnList" then .ok (.tuple ((List.range cfg.ncols).map .col)) else .unmodelled
  else if p = "state" then
    if a = "connection" then .ok (.py .none)
    else if a = "soObject" then .ok (.obj "state.soObject")
    else .exc .attributeError
  else if p = "state.soObject" then
    if a = "_connection" then .ok (.obj "conn") else .unmodelled
  else if p = "conn" then
    if a = "dbName" then .ok (.py (.str sSqlite))
    else if a = "_binaryType" then .ok (.cls "memoryview")
    else if a = "module" then .ok (.obj "conn.module")
    else .unmodelled
  else if p = "self.soCol" then
    if a = "foreignKey" then .ok (.obj "self.soCol.foreignKey")
    else if a = "soClass" then .ok (.obj "self.soCol.soClass")
    else .unmodelled
  else if p = "self.soCol.soClass" then
    if a = "sqlmeta" then .ok (.obj "self.soCol.soClass.sqlmeta") else .unmodelled
  else if p = "self.soCol.soClass.sqlmeta" then
    if a = "registry" then .ok (.obj "registry") else .unmodelled
  else if p = "otherTable" then
    if a = "sqlmeta" then .ok (.obj "otherTable.sqlmeta") else .unmodelled
  else if p = "otherTable.sqlmeta" then
    if a = "idType" then .ok (.cls cfg.idType) else .unmodelled
  else .unmodelled

def xGetAttr (cfg : Cfg) (v : Val) (a : String) : R Val :=
  match v with
  | .obj p => xGetAttrObj cfg p a
  | .col i =>
    if a = "to_python" then .ok (if cfg.colHasTo i then .obj "bound method" else .py .none)
    else if a = "name" then .ok (.py (.str (cfg.colName i)))
    else .unmodelled
  | .py (.sqlobj id) => if a = "id" then cfg.idOfInt id else .unmodelled
  | .py (.sqlobjS id) => if a = "id" then cfg.idOfStr id else .unmodelled
  | _ => .unmodelled

/-- `int(v)` -/
def intOf (cfg : Cfg) : PyVal → R Val
  | .int i => .ok (.py (.int i))
  | .bool b => .ok (.py (.int (if b then 1 else 0)))
  | .str s =>
    match Codec.intText s with
    | some i => .ok (.py (.int i))
    | Option.none => if s.any Codec.isDigit then .unmodelled else .exc .valueError
  | .float t => cfg.intOfFloat t
  | .datetime .. => .exc .typeError
  | .date .. => .exc .typeError
  | .time .. => .exc .typeError
  | _ => .unmodelled

/-- `str(v)` -/
def strOf (cfg : Cfg) : PyVal → R Val
  | .str s => .ok (.py (.str s))
  | .int i => .ok (.py (.str (Codec.reprInt i)))
  | .uuid t => cfg.strOfUuid t
  | _ => .unmodelled

/-- `bool(v)` -/
def boolOf : PyVal → R Val
  | .int i => .ok (.py (.bool (i != 0)))
  | .bool b => .ok (.py (.bool b))
  | _ => .unmodelled

/-- `Decimal(v)` -/
def decimalOf (cfg : Cfg) : PyVal → R Val
  | .str s => cfg.decimalOfStr s
  | .int i => .ok (.py (.decimal (Codec.reprInt i)))
  | .bool b => .ok (.py (.decimal (if b then [49] else [48])))
  | _ => .unmodelled

def sAscii : Str := [97, 115, 99, 105, 105]
def sValPrefix : Str := [95, 83, 79, 95, 118, 97, 108, 95]     -- `_SO_val_` (main.py `instanceName`)

def xCall (cfg : Cfg) (f : String) (args : List Val) (kw : List (String × Val)) : R Val :=
  if f = "int" then
    match args, kw with
    | [.py p], [] => intOf cfg p
    | _, _ => .unmodelled
  else if f = "str" then
    match args, kw with
    | [.py p], [] => strOf cfg p
    | [.py (.bytes b), .py (.str e)], [] =>
      if e = sAscii then (if Codec.isAscii b then .ok (.py (.str b)) else .exc .valueError) else .unmodelled
    | _, _ => .unmodelled
  else if f = "bool" then
    match args, kw with
    | [.py p], [] => boolOf p
    | _, _ => .unmodelled
  else if f = "Decimal" then
    match args, kw with
    | [.py p], [] => decimalOf cfg p
    | _, _ => .unmodelled
  else if f = "bytes" then
    match args, kw with
    | [.py (.str s), .py (.str e)], [] =>
      if e = sAscii then (if Codec.isAscii s then .ok (.py (.bytes s)) else .exc .valueError) else .unmodelled
    | _, _ => .unmodelled
  else if f = "type" then
    match args, kw with
    | [.py .none], [] => .ok (.cls "NoneType")
    | _, _ => .unmodelled
  else if f = "UUID" then
    match args, kw with
    | [.py (.str s)], [] => .ok (.py (.uuid s))
    | _, _ => .unmodelled
  else if f = "json.dumps" then
    match args, kw with
    | [.py (.json t)], [] => .ok (.py (.str t))
    | _, _ => .unmodelled
  else if f = "json.loads" then
    match args, kw with
    | [.py (.str s)], [] => .ok (.py (.json s))
    | _, _ => .unmodelled
  else if f = "pickle.dumps" then
    match args, kw with
    | [.py (.pickled b), _], [] => .ok (.py (.bytes b))
    | _, _ => .unmodelled
  else if f = "pickle.loads" then
    match args, kw with
    | [.py (.bytes b)], [] => .ok (.py (.pickled b))
    | _, _ => .unmodelled
  else if f = "zip" then
    match args, kw with
    | [.tuple a, .tuple b], [] => .ok (.tuple ((a.zip b).map fun p => .tuple [p.1, p.2]))
    | _, _ => .unmodelled
  else if f = "instanceName" then
    match args, kw with
    | [.py (.str s)], [] => .ok (.py (.str (sValPrefix ++ s)))
    | _, _ => .unmodelled
  else if f = "findClass" then .ok (.obj "otherTable")
  else if f = "datetime.time" then
    match args, kw with
    | [], [] => .ok (.py (.time 0 0 0 0))
    | _, _ => .unmodelled
  else .unmodelled

def xMethod (cfg : Cfg) (r : Val) (m : String) (args : List Val) (kw : List (String × Val)) : R Val :=
  match r with
  | .cls c =>
    if c = "datetime.datetime" then
      if m = "strptime" then
        match args, kw with
        | [.py (.str v), .py (.str fmt)], [] =>
          (match strptimeText fmt v with
           | some d => .ok (.py (Codec.dtOf d))
           | Option.none => .exc .valueError)
        | [.py .other, _], [] => .unmodelled
        | [.py _, .py (.str _)], [] => .exc .typeError
        | _, _ => .unmodelled
      else if m = "combine" then
        match args, kw with
        | [.py (.date y mo d), .py (.time h mi s us)], [] => .ok (.py (.datetime y mo d h mi s us))
        | _, _ => .unmodelled
      else .unmodelled
    else .unmodelled
  | .py (.datetime y mo d h mi s us) =>
    if m = "date" then .ok (.py (.date y mo d))
    else if m = "time" then .ok (.py (.time h mi s us))
    else .unmodelled
  | .py (.decimal t) => if m = "to_eng_string" then .ok (.py (.str t)) else .unmodelled
  | .col i =>
    if m = "to_python" then
      match args, kw with
      | [.py v, _], [] => (cfg.colToPy i v).bind fun y => .ok (.py y)
      | _, _ => .unmodelled
    else .unmodelled
  | .mview b => if m = "tobytes" then .ok (.py (.bytes b)) else .unmodelled
  | .tuple [.cls _, .obj _] =>
    if m = "to_python" then
      match args with
      | [v, _] => cfg.superToPython v
      | _ => .unmodelled
    else if m = "from_python" then
      match args with
      | [v, _] => cfg.superFromPython v
      | _ => .unmodelled
    else .unmodelled
  | .obj p =>
    if p = "self" then (if m = "getDbEncoding" then .ok (.py (.str sUtf8)) else .unmodelled)
    else if p = "conn.module" then
      (if m = "decode" then
        match args, kw with
        | [.py (.bytes s)], [] =>
          (match Codec.b64dec s with
           | some b => .ok (.py (.bytes b))
           | Option.none => .exc .valueError)
        | _, _ => .unmodelled
      else .unmodelled)
    else if p = "conn" then
      (if m = "createBinary" then
        match args, kw with
        | [.py (.bytes b)], [] => .ok (.mview (Codec.b64enc b))
        | [.py .other], [] => .unmodelled
        | [.py _], [] => .exc .typeError
        | _, _ => .unmodelled
      else .unmodelled)
    else .unmodelled
  | _ => .unmodelled

def xBinop (op : BinOp) (a b : Val) : R Val :=
  match op, a, b with
  | .floordiv, .py (.float t), .py (.int 1) => .ok (.floorOf t)
  | _, _, _ => .unmodelled

/-- is the universe value something `'.' in v` raises TypeError on (`none` = not interpreted) -/
def notStrContainer : PyVal → Option Bool
  | .other => Option.none
  | .str _ => some false
  | _ => some true

def xCmp (cfg : Cfg) (op : CmpOp) (a b : Val) : R Val :=
  match op, a, b with
  | .ne, .py (.float t), .floorOf t' => if t = t' then (cfg.floatFrac t).bind fun r => .ok (.py (.bool r)) else .unmodelled
  | .isIn, .py p, .strs l =>
    (match p with
     | .str s => .ok (.py (.bool (l.contains s)))
     | .other => .unmodelled
     | _ => .ok (.py (.bool false)))
  | .isIn, .py (.str _), .py p =>
    (match notStrContainer p with
     | some true => .exc .typeError
     | _ => .unmodelled)
  | _, _, _ => .unmodelled

def iface (cfg : Cfg) : Iface :=
  { glob := xGlob, isInst := xIsInst, hasAttr := xHasAttr, getAttr := xGetAttr cfg, call := xCall cfg,
    method := xMethod cfg, binop := xBinop, cmp := xCmp cfg, truth := fun _ => .unmodelled }

/-! ### running a translated validator method -/

def selfV : Val := .obj "self"
def stateV : Val := .obj "state"

/-- outcome of the translated method on a universe value, in the hand model's terms -/
def runV (cfg : Cfg) (prog : Block) (v : PyVal) : Option (Codec.Res PyVal) :=
  (run (iface cfg) prog [selfV, .py v, stateV]).toModel

/-- the same as an interface answer (for `super().to_python`) -/
def Out.toR : Out → R Val
  | .ret v => .ok v
  | .exc e => .exc e
  | .unmodelled => .unmodelled
  | .stuck => .stuck

/-! ### the configurations `createValidators` builds -/

def cfgInt : Cfg := Cfg.base
def cfgString (dec : Bool) : Cfg := { Cfg.base with dataType := if dec then .cls "Decimal" else .py .none }
def cfgEnum (vals : List Str) : Cfg := { Cfg.base with enumValues := vals }
/-- a ForeignKey to a class with int ids (first call: `fkIDType` is still None; later calls: the class) -/
def cfgFkInt (first : Bool) : Cfg :=
  { Cfg.base with idType := "int", fkIDType0 := if first then .py .none else .cls "int",
                  idOfInt := fun id => .ok (.py (.int id)), intOfFloat := fun _ => .unmodelled }
def cfgFkStr (first : Bool) : Cfg :=
  { Cfg.base with idType := "str", fkIDType0 := if first then .py .none else .cls "str",
                  idOfStr := fun id => .ok (.py (.str id)), strOfUuid := fun _ => .unmodelled }
def cfgDt (fmt : Str) : Cfg := { Cfg.base with format := fmt }
/-- `super(DateValidator, self).to_python(value, state)`: the translated `DateTimeValidator.to_python` on the same
    validator object -/
def superDt (fmt : Str) (v : Val) : R Val := (run (iface (cfgDt fmt)) Extracted.dtToPython [selfV, v, stateV]).toR

/-- Date / Time validators -/
def cfgDtSub (fmt : Str) : Cfg := { Cfg.base with format := fmt, superToPython := superDt fmt }

/-- `super(DecimalStringValidator, self).to_python / from_python`: the translated DecimalValidator methods -/
def superDecTo (cfg : Cfg) (v : Val) : R Val := (run (iface cfg) Extracted.decToPython [selfV, v, stateV]).toR
def superDecFrom (v : Val) : R Val := (run (iface Cfg.base) Extracted.decFromPython [selfV, v, stateV]).toR

/-- DecimalStringCol read side: the text of the cell denotes the Decimal token with that text -/
def cfgDecRead : Cfg := { Cfg.base with decimalOfStr := fun s => .ok (.py (.decimal s)) }
/-- DecimalStringValidator (`precision=0`: `quantize=False`); the write side leaves `Decimal(<text>)` uninterpreted, as
    the hand model does -/
def cfgDecStr : Cfg := { Cfg.base with superToPython := superDecTo cfgDecRead, superFromPython := superDecFrom }

end SqlObjVerif.PyCodec
