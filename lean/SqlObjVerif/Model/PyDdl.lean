import SqlObjVerif.Model.PyDdlAttr
/-!
# PyDdl — a deep embedding of the Python fragment the schema-generation code of sqlobject is written in

`vlib/extractors/pyddl.py` TRANSLATES, on every run, the methods of `col.py` that render a column definition
(`_extraSQL`, the `<dialect>CreateSQL` / `_<dialect>Type` / `_sqlType` / `_checkType` / `…CreateReferenceConstraint`
methods of every `SO…Col` class), the table-level renderers of `dbconnection.py` and of the seven connection classes
(`createTableSQL`, `createColumns`, `createReferenceConstraints`, `_SO_createJoinTableSQL`, `createIDColumn`,
`createColumn`, `createReferenceConstraint`, `joinSQLType`), the functions and classes of `styles.py` and
`SQLObject._getJoinsToCreate` into a `Prog` of this language (`Extracted/PyDdl.lean`): a CLASS TABLE (linearised
bases of every class, the methods each class defines itself, class-level constants) and module-level functions.
This file is the fixed vocabulary and its reference semantics.

Values: `None`, `bool`, `int`, `str` (list of code points), tuples, lists, dicts (keys: `str` or a builtin type such
as `int` / `str`), objects (class number + stored attributes), builtin types, classes of the program, regular
expression match objects.  Values are immutable: `x.append(e)`, `x += e` and `self.a = e` REBIND the local (`x`,
`self`); an attribute assignment is therefore invisible to the caller (the translator only accepts
`self.connection = connection` at the top of a `<dialect>CreateSQL` method, see its docstring).

METHOD CALLS are resolved by the semantics, not by the translator: `recv.m(args)` looks `m` up along the linearised
bases of the receiver's class (`Callee.meth`), `super(C, self).m(args)` after `C` in that list (`Callee.super`),
`C.m(self, args)` along the bases of `C` (`Callee.direct`).  The interpreter takes the callee semantics as a
parameter `call`; `callN P I n` ties the knot with a call-depth bound `n` (theorems are stated for every
sufficiently large `n`).  Missing trailing arguments are filled from the (constant) defaults of the definition.

Everything that is not Python itself is a PARAMETER (`Iface`):
* `ext`     : imported functions (`sqlbuilder.sqlrepr`, `findClass`);
* `extMeth` : methods of objects that are not translated (`connection.can_use_microseconds()`, …): a value, no effect;
* `fmtD`    : decimal rendering of an `int` (`%i`, `%d`, `%s`);
* `lower`, `upper` : `str.lower()` / `str.upper()`;
* `mro`, `classAttr` : the class table of the program (filled in by `Prog.iface`).
Built in (Python itself): truthiness, `and` / `or` / `not`, `is`, `==`, order on `int` and on `str` (code points),
`in` on tuples / lists / str, `+` on `str` / `list` / `int`, `**` on `int`, `%`-formatting — the translator splits
the (literal) format string into pieces: text, `%s` / `%i` / `%d`, `%(key)s`, `%%` —, `sep.join`, indexing, slicing,
`len`, `max` of a list of ints, `isinstance` against a class of the program, `getattr` with default,
`s.startswith / endswith / lower / upper / split(c)`, list comprehensions with one `for` and an optional `if`,
`re.sub` for the two patterns of `styles.py` (`[A-Z]+` = maximal runs of ASCII capitals, `_.` = an underscore and
one more character other than newline; leftmost, non-overlapping) with a function of the match as replacement,
`match.group(0)`, `for` (with `continue`), `if`, `return`, `raise`, `try / except <one class>`, `assert`.
An exception's message is not evaluated (`raise E(msg)` = `raise E`; `assert c, msg` = `assert c`).
`stuck` = outside the fragment (a `TypeError`/`NameError` of the real interpreter or an uncovered construct):
a theorem `translated = model` shows in particular that this never happens.
Locals are numbered in order of first binding, parameters first: renaming a local does not change the translation.
-/
namespace SqlObjVerif.PyDdl

abbrev Str := List Nat

inductive DKey where
  | str (s : Str)
  | ty (name : String)
deriving DecidableEq, Repr

inductive Val where
  | none
  | bool (b : Bool)
  | int (i : Int)
  | str (s : Str)
  | tuple (vs : List Val)
  | list (vs : List Val)
  | dict (kvs : List (DKey × Val))
  | obj (cls : Nat) (fields : List (String × Val))
  | ty (name : String)          -- the builtin types `int`, `str`
  | cls (id : Nat)              -- a class of the program
  | rematch (s : Str)           -- a regular-expression match object: the matched text

inductive Exc where
  | valueError | typeError | keyError | indexError | assertionError | attributeError
  | operationalError          -- the database refuses a statement
deriving Repr, DecidableEq

inductive R (α : Type) where
  | ok (a : α)
  | exc (e : Exc)
  | stuck

def R.bind {α β : Type} : R α → (α → R β) → R β
  | .ok a, f => f a
  | .exc e, _ => .exc e
  | .stuck, _ => .stuck

@[simp] theorem R.bind_ok {α β : Type} (a : α) (f : α → R β) : (R.ok a).bind f = f a := by rw [R.bind]
@[simp] theorem R.bind_exc {α β : Type} (e : Exc) (f : α → R β) : (R.exc e : R α).bind f = .exc e := by rw [R.bind]
@[simp] theorem R.bind_stuck {α β : Type} (f : α → R β) : (R.stuck : R α).bind f = .stuck := by rw [R.bind]

def ofOpt {α : Type} : Option α → R α
  | some a => .ok a
  | Option.none => .stuck

@[simp] theorem ofOpt_some {α : Type} (a : α) : ofOpt (some a) = .ok a := rfl
@[simp] theorem ofOpt_none {α : Type} : ofOpt (Option.none : Option α) = .stuck := rfl

/-- who is called -/
inductive Callee where
  | meth (cls m : Nat)            -- `recv.m(…)`, `cls` = class of the receiver
  | super (after cls m : Nat)     -- `super(after, self).m(…)`, `cls` = class of `self`
  | direct (c m : Nat)            -- `C.m(self, …)`
  | func (f : Nat)                -- a module-level function
deriving DecidableEq, Repr

structure Iface where
  mro : Nat → List Nat
  classAttr : Nat → String → Option Val
  ext : String → List Val → R Val
  extMeth : Val → String → List Val → R Val
  fmtD : Int → Str
  lower : Str → Str
  upper : Str → Str

/-! ### association lists -/

def aget {κ α : Type} [BEq κ] (k : κ) : List (κ × α) → Option α
  | [] => Option.none
  | e :: l => if e.1 == k then some e.2 else aget k l

/-- replace (or add) a stored attribute -/
def fset (fs : List (String × Val)) (a : String) (v : Val) : List (String × Val) :=
  if fs.any (fun e => e.1 == a) then fs.map (fun e => if e.1 == a then (e.1, v) else e) else fs ++ [(a, v)]

/-! ### Python's own operations -/

def truthy : Val → Bool
  | .none => false
  | .bool b => b
  | .int i => i != 0
  | .str [] => false
  | .str (_ :: _) => true
  | .tuple [] => false
  | .tuple (_ :: _) => true
  | .list [] => false
  | .list (_ :: _) => true
  | .dict [] => false
  | .dict (_ :: _) => true
  | .obj _ _ => true
  | .ty _ => true
  | .cls _ => true
  | .rematch _ => true

@[simp] theorem truthy_none : truthy .none = false := rfl
@[simp] theorem truthy_bool (b : Bool) : truthy (.bool b) = b := by cases b <;> rfl
@[simp] theorem truthy_int (i : Int) : truthy (.int i) = (i != 0) := by rw [truthy]
@[simp] theorem truthy_str_nil : truthy (.str []) = false := rfl
@[simp] theorem truthy_str_cons (c : Nat) (s : Str) : truthy (.str (c :: s)) = true := rfl
@[simp] theorem truthy_list_nil : truthy (.list []) = false := rfl
@[simp] theorem truthy_list_cons (c : Val) (s : List Val) : truthy (.list (c :: s)) = true := rfl
@[simp] theorem truthy_obj (c : Nat) (f : List (String × Val)) : truthy (.obj c f) = true := rfl
@[simp] theorem truthy_ty (n : String) : truthy (.ty n) = true := rfl

theorem truthy_str (s : Str) : truthy (.str s) = !s.isEmpty := by cases s <;> rfl

def isScalar : Val → Bool
  | .none | .bool _ | .int _ | .str _ | .ty _ => true
  | _ => false

def b2i (b : Bool) : Int := if b then 1 else 0

/-- `a == b` on scalars; anything else is outside the fragment -/
def pyEq (a b : Val) : Option Bool :=
  match a, b with
  | .none, .none => some true
  | .str a, .str b => some (a == b)
  | .int a, .int b => some (a == b)
  | .bool a, .bool b => some (a == b)
  | .bool a, .int b => some (b2i a == b)
  | .int a, .bool b => some (a == b2i b)
  | .ty a, .ty b => some (a == b)
  | a, b => if isScalar a && isScalar b then some false else Option.none

@[simp] theorem pyEq_str (a b : Str) : pyEq (.str a) (.str b) = some (a == b) := rfl
@[simp] theorem pyEq_int (a b : Int) : pyEq (.int a) (.int b) = some (a == b) := rfl
@[simp] theorem pyEq_none_none : pyEq .none .none = some true := rfl
@[simp] theorem pyEq_none_str (b : Str) : pyEq .none (.str b) = some false := rfl
@[simp] theorem pyEq_str_none (b : Str) : pyEq (.str b) .none = some false := rfl
@[simp] theorem pyEq_bool_str (a : Bool) (b : Str) : pyEq (.bool a) (.str b) = some false := rfl
@[simp] theorem pyEq_str_bool (a : Str) (b : Bool) : pyEq (.str a) (.bool b) = some false := rfl

/-- `a is b` for `None`, builtin types, booleans -/
def pyIs (a b : Val) : Option Bool :=
  match a, b with
  | .none, .none => some true
  | .ty a, .ty b => some (a == b)
  | .bool a, .bool b => some (a == b)
  | a, b => if isScalar a && isScalar b then some false else
      match a, b with
      | .none, _ => some false
      | _, .none => some false
      | _, _ => Option.none

@[simp] theorem pyIs_none_none : pyIs .none .none = some true := rfl
@[simp] theorem pyIs_ty (a b : String) : pyIs (.ty a) (.ty b) = some (a == b) := rfl
@[simp] theorem pyIs_str_none (a : Str) : pyIs (.str a) .none = some false := rfl
@[simp] theorem pyIs_int_none (a : Int) : pyIs (.int a) .none = some false := rfl
@[simp] theorem pyIs_bool_none (a : Bool) : pyIs (.bool a) .none = some false := rfl
@[simp] theorem pyIs_obj_none (c : Nat) (f : List (String × Val)) : pyIs (.obj c f) .none = some false := rfl
@[simp] theorem pyIs_list_none (l : List Val) : pyIs (.list l) .none = some false := rfl

/-- Python's `<` on `str`: lexicographic on code points, a proper prefix is smaller -/
def strLt : Str → Str → Bool
  | [], [] => false
  | [], _ :: _ => true
  | _ :: _, [] => false
  | a :: as, b :: bs => if a < b then true else if b < a then false else strLt as bs

/-- first position at which `t` occurs in `s`, counting from `i` -/
def findFrom (t : Str) : Str → Nat → Option Nat
  | [], i => if t.isEmpty then some i else Option.none
  | c :: cs, i => if t.isPrefixOf (c :: cs) then some i else findFrom t cs (i + 1)

def strIn (t s : Str) : Bool := (findFrom t s 0).isSome

def anyEq (x : Val) : List Val → Option Bool
  | [] => some false
  | v :: vs => match pyEq x v with
    | some true => some true
    | some false => anyEq x vs
    | Option.none => Option.none

inductive CmpOp where
  | eq | ne | lt | le | gt | ge | isIn | notIn
deriving Repr, DecidableEq

def pyCmp : CmpOp → Val → Val → R Val
  | .eq, a, b => (ofOpt (pyEq a b)).bind fun r => .ok (.bool r)
  | .ne, a, b => (ofOpt (pyEq a b)).bind fun r => .ok (.bool (!r))
  | .lt, .int a, .int b => .ok (.bool (a < b))
  | .le, .int a, .int b => .ok (.bool (a ≤ b))
  | .gt, .int a, .int b => .ok (.bool (a > b))
  | .ge, .int a, .int b => .ok (.bool (a ≥ b))
  | .lt, .str a, .str b => .ok (.bool (strLt a b))
  | .gt, .str a, .str b => .ok (.bool (strLt b a))
  | .le, .str a, .str b => .ok (.bool (!strLt b a))
  | .ge, .str a, .str b => .ok (.bool (!strLt a b))
  | .isIn, .str t, .str s => .ok (.bool (strIn t s))
  | .notIn, .str t, .str s => .ok (.bool (!strIn t s))
  | .isIn, .str k, .dict d => .ok (.bool (aget (DKey.str k) d).isSome)
  | .notIn, .str k, .dict d => .ok (.bool (!(aget (DKey.str k) d).isSome))
  | .isIn, x, .tuple vs => (ofOpt (anyEq x vs)).bind fun r => .ok (.bool r)
  | .notIn, x, .tuple vs => (ofOpt (anyEq x vs)).bind fun r => .ok (.bool (!r))
  | .isIn, x, .list vs => (ofOpt (anyEq x vs)).bind fun r => .ok (.bool r)
  | .notIn, x, .list vs => (ofOpt (anyEq x vs)).bind fun r => .ok (.bool (!r))
  | _, _, _ => .stuck

@[simp] theorem pyCmp_eq (a b : Val) : pyCmp .eq a b = (ofOpt (pyEq a b)).bind fun r => .ok (.bool r) := by
  rw [pyCmp]
@[simp] theorem pyCmp_ne (a b : Val) : pyCmp .ne a b = (ofOpt (pyEq a b)).bind fun r => .ok (.bool (!r)) := by
  rw [pyCmp]
@[simp] theorem pyCmp_gt (a b : Int) : pyCmp .gt (.int a) (.int b) = .ok (.bool (a > b)) := rfl
@[simp] theorem pyCmp_ge (a b : Int) : pyCmp .ge (.int a) (.int b) = .ok (.bool (a ≥ b)) := rfl
@[simp] theorem pyCmp_lt (a b : Int) : pyCmp .lt (.int a) (.int b) = .ok (.bool (a < b)) := rfl
@[simp] theorem pyCmp_gt_str (a b : Str) : pyCmp .gt (.str a) (.str b) = .ok (.bool (strLt b a)) := rfl
@[simp] theorem pyCmp_in_dict (k : Str) (d : List (DKey × Val)) :
    pyCmp .isIn (.str k) (.dict d) = .ok (.bool (aget (DKey.str k) d).isSome) := rfl
@[simp] theorem pyCmp_in_tuple (x : Val) (vs : List Val) :
    pyCmp .isIn x (.tuple vs) = (ofOpt (anyEq x vs)).bind fun r => .ok (.bool r) := by
  cases x <;> rfl
@[simp] theorem pyCmp_in_list (x : Val) (vs : List Val) :
    pyCmp .isIn x (.list vs) = (ofOpt (anyEq x vs)).bind fun r => .ok (.bool r) := by
  cases x <;> rfl

/-- `a + b` -/
def pyAdd : Val → Val → R Val
  | .str a, .str b => .ok (.str (a ++ b))
  | .int a, .int b => .ok (.int (a + b))
  | .list a, .list b => .ok (.list (a ++ b))
  | _, _ => .stuck

@[simp] theorem pyAdd_str (a b : Str) : pyAdd (.str a) (.str b) = .ok (.str (a ++ b)) := rfl
@[simp] theorem pyAdd_list (a b : List Val) : pyAdd (.list a) (.list b) = .ok (.list (a ++ b)) := rfl
@[simp] theorem pyAdd_int (a b : Int) : pyAdd (.int a) (.int b) = .ok (.int (a + b)) := rfl

/-- `a ** b` for a non-negative exponent -/
def pyPow : Val → Val → R Val
  | .int a, .int b => if 0 ≤ b then .ok (.int (a ^ b.toNat)) else .stuck
  | _, _ => .stuck

/-- `str(v)` as the conversion `%s` computes it -/
def strOf (I : Iface) : Val → Option Str
  | .str s => some s
  | .int i => some (I.fmtD i)
  | .none => some [78, 111, 110, 101]
  | _ => Option.none

@[simp] theorem strOf_str (I : Iface) (s : Str) : strOf I (.str s) = some s := rfl
@[simp] theorem strOf_int (I : Iface) (i : Int) : strOf I (.int i) = some (I.fmtD i) := rfl

/-- a piece of a format string -/
inductive Piece where
  | lit (s : Str)
  | s                       -- `%s`
  | d                       -- `%i` / `%d`
  | named (key : Str)       -- `%(key)s`
deriving DecidableEq, Repr

def convD (I : Iface) : Val → Option Str
  | .int i => some (I.fmtD i)
  | _ => Option.none

@[simp] theorem convD_int (I : Iface) (i : Int) : convD I (.int i) = some (I.fmtD i) := rfl

/-- positional formatting; a wrong number of arguments is a TypeError: `stuck` -/
def fmtPos (I : Iface) : List Piece → List Val → Option Str
  | [], [] => some []
  | [], _ :: _ => Option.none
  | .lit s :: ps, vs => (fmtPos I ps vs).map (s ++ ·)
  | .s :: ps, v :: vs => (strOf I v).bind fun t => (fmtPos I ps vs).map (t ++ ·)
  | .d :: ps, v :: vs => (convD I v).bind fun t => (fmtPos I ps vs).map (t ++ ·)
  | _, _ => Option.none

/-- `fmt % {…}` -/
def fmtNamed (I : Iface) (d : List (DKey × Val)) : List Piece → Option Str
  | [] => some []
  | .lit s :: ps => (fmtNamed I d ps).map (s ++ ·)
  | .named k :: ps => (aget (DKey.str k) d).bind fun v => (strOf I v).bind fun t => (fmtNamed I d ps).map (t ++ ·)
  | _ => Option.none

def hasNamed : List Piece → Bool
  | [] => false
  | .named _ :: _ => true
  | _ :: ps => hasNamed ps

def pyFmt (I : Iface) (ps : List Piece) (a : Val) : R Val :=
  match a with
  | .dict d => if hasNamed ps then (ofOpt (fmtNamed I d ps)).bind fun s => .ok (.str s) else .stuck
  | .tuple vs => (ofOpt (fmtPos I ps vs)).bind fun s => .ok (.str s)
  | v => (ofOpt (fmtPos I ps [v])).bind fun s => .ok (.str s)

/-- `sep.join(l)` on strings -/
def joinStr (sep : Str) : List Str → Str
  | [] => []
  | [a] => a
  | a :: rest => a ++ sep ++ joinStr sep rest

def allStr : List Val → Option (List Str)
  | [] => some []
  | .str s :: l => (allStr l).map (s :: ·)
  | _ :: _ => Option.none

def allInt : List Val → Option (List Int)
  | [] => some []
  | .int s :: l => (allInt l).map (s :: ·)
  | _ :: _ => Option.none

def maxInt : List Int → Option Int
  | [] => Option.none
  | a :: l => match maxInt l with
    | some m => some (if a < m then m else a)
    | Option.none => some a

/-- position denoted by the index `i` in a sequence of length `n` -/
def normIdx (n : Nat) (i : Int) : Option Nat :=
  if 0 ≤ i then (if i.toNat < n then some i.toNat else Option.none)
  else if (-i).toNat ≤ n then some (n - (-i).toNat) else Option.none

def clampIdx (n : Nat) (i : Int) : Nat :=
  if 0 ≤ i then min i.toNat n else n - min (-i).toNat n

def idxRes {α : Type} (o : Option α) (f : α → Val) : R Val :=
  match o with
  | some c => .ok (f c)
  | Option.none => .exc .indexError

@[simp] theorem idxRes_some {α : Type} (c : α) (f : α → Val) : idxRes (some c) f = .ok (f c) := rfl
@[simp] theorem idxRes_none {α : Type} (f : α → Val) : idxRes (Option.none : Option α) f = .exc .indexError := rfl

def keyOf : Val → Option DKey
  | .str s => some (.str s)
  | .ty n => some (.ty n)
  | _ => Option.none

def keyRes (o : Option Val) : R Val :=
  match o with
  | some v => .ok v
  | Option.none => .exc .keyError

@[simp] theorem keyRes_some (v : Val) : keyRes (some v) = .ok v := rfl
@[simp] theorem keyRes_none : keyRes Option.none = .exc .keyError := rfl

/-- `v[i]` -/
def pyIndex : Val → Val → R Val
  | .str s, .int i => idxRes ((normIdx s.length i).bind (s[·]?)) fun c => .str [c]
  | .tuple vs, .int i => idxRes ((normIdx vs.length i).bind (vs[·]?)) id
  | .list vs, .int i => idxRes ((normIdx vs.length i).bind (vs[·]?)) id
  | .dict d, k => (ofOpt (keyOf k)).bind fun k => keyRes (aget k d)
  | _, _ => .stuck

@[simp] theorem pyIndex_str (s : Str) (i : Int) :
    pyIndex (.str s) (.int i) = idxRes ((normIdx s.length i).bind (s[·]?)) fun c => .str [c] := rfl
@[simp] theorem pyIndex_tuple (vs : List Val) (i : Int) :
    pyIndex (.tuple vs) (.int i) = idxRes ((normIdx vs.length i).bind (vs[·]?)) id := rfl
@[simp] theorem pyIndex_list (vs : List Val) (i : Int) :
    pyIndex (.list vs) (.int i) = idxRes ((normIdx vs.length i).bind (vs[·]?)) id := rfl
@[simp] theorem pyIndex_dict (d : List (DKey × Val)) (k : Val) :
    pyIndex (.dict d) k = (ofOpt (keyOf k)).bind fun k => keyRes (aget k d) := by cases k <;> rfl

/-- `s[lo:hi]` of a `str` (`none` = bound omitted) -/
def pySlice : Val → Option Val → Option Val → R Val
  | .str s, lo, hi =>
    let n := s.length
    let a : Option Nat := match lo with
      | Option.none => some 0
      | some (.int i) => some (clampIdx n i)
      | _ => Option.none
    let b : Option Nat := match hi with
      | Option.none => some n
      | some (.int i) => some (clampIdx n i)
      | _ => Option.none
    match a, b with
    | some a, some b => .ok (.str ((s.drop a).take (b - a)))
    | _, _ => .stuck
  | _, _, _ => .stuck

/-- `s.split(c)` for a one-character separator -/
def splitChar (c : Nat) : Str → List Str
  | [] => [[]]
  | a :: s =>
    if a = c then [] :: splitChar c s
    else match splitChar c s with
      | h :: t => (a :: h) :: t
      | [] => [[a]]

/-- the builtin methods of `str` / match objects the fragment uses -/
def strMethod (I : Iface) (s : Str) (m : String) (args : List Val) : R Val :=
  if m = "join" then
    match args with
    | [.list l] => (ofOpt (allStr l)).bind fun ss => .ok (.str (joinStr s ss))
    | _ => .stuck
  else if m = "startswith" then
    match args with
    | [.str p] => .ok (.bool (p.isPrefixOf s))
    | _ => .stuck
  else if m = "endswith" then
    match args with
    | [.str p] => .ok (.bool (p.isSuffixOf s))
    | _ => .stuck
  else if m = "lower" then
    match args with
    | [] => .ok (.str (I.lower s))
    | _ => .stuck
  else if m = "upper" then
    match args with
    | [] => .ok (.str (I.upper s))
    | _ => .stuck
  else if m = "split" then
    match args with
    | [.str [c]] => .ok (.list ((splitChar c s).map .str))
    | _ => .stuck
  else .stuck

/-- `r.m(args)` for a method that is not a method of the program -/
def bmethOf (I : Iface) (r : Val) (m : String) (args : List Val) : R Val :=
  match r with
  | .str s => strMethod I s m args
  | .rematch s => if m = "group" then (match args with
      | [.int 0] => .ok (.str s)
      | _ => .stuck) else .stuck
  | .obj c fs => I.extMeth (.obj c fs) m args
  | _ => .stuck

@[simp] theorem bmethOf_str (I : Iface) (s : Str) (m : String) (args : List Val) :
    bmethOf I (.str s) m args = strMethod I s m args := rfl
@[simp] theorem bmethOf_obj (I : Iface) (c : Nat) (fs : List (String × Val)) (m : String) (args : List Val) :
    bmethOf I (.obj c fs) m args = I.extMeth (.obj c fs) m args := rfl
@[simp] theorem bmethOf_group (I : Iface) (s : Str) :
    bmethOf I (.rematch s) "group" [.int 0] = .ok (.str s) := rfl

/-- `len(v)` -/
def pyLen : Val → R Val
  | .str s => .ok (.int s.length)
  | .tuple vs => .ok (.int vs.length)
  | .list vs => .ok (.int vs.length)
  | .dict d => .ok (.int d.length)
  | _ => .stuck

@[simp] theorem pyLen_str (s : Str) : pyLen (.str s) = .ok (.int s.length) := rfl

/-- `max(l)` of a list of ints (`ValueError` on an empty one) -/
def pyMax : Val → R Val
  | .list vs => (ofOpt (allInt vs)).bind fun is =>
      match maxInt is with
      | some m => .ok (.int m)
      | Option.none => .exc .valueError
  | _ => .stuck

def attrRes (I : Iface) (c : Nat) (a : String) : Option Val → R Val
  | some x => .ok x
  | Option.none =>
    match I.classAttr c a with
    | some x => .ok x
    | Option.none => .exc .attributeError

@[simp] theorem attrRes_some (I : Iface) (c : Nat) (a : String) (x : Val) : attrRes I c a (some x) = .ok x := rfl

/-- `v.a`: a stored attribute, else a class-level constant -/
def attrOf (I : Iface) (v : Val) (a : String) : R Val :=
  match v with
  | .obj c fs => attrRes I c a (aget a fs)
  | _ => .stuck

@[simp] theorem attrOf_obj (I : Iface) (c : Nat) (fs : List (String × Val)) (a : String) :
    attrOf I (.obj c fs) a = attrRes I c a (aget a fs) := rfl

/-- `getattr(v, 'a', d)` -/
def getattrD (I : Iface) (v : Val) (a : String) (d : Val) : R Val :=
  match attrOf I v a with
  | .exc .attributeError => .ok d
  | r => r

/-- `isinstance(v, C)` -/
def isInst (I : Iface) (v : Val) (c : Nat) : R Val :=
  match v with
  | .obj k _ => .ok (.bool ((I.mro k).contains c))
  | _ => .stuck

@[simp] theorem isInst_obj (I : Iface) (k : Nat) (fs : List (String × Val)) (c : Nat) :
    isInst I (.obj k fs) c = .ok (.bool ((I.mro k).contains c)) := rfl

/-! ### regular expressions of styles.py -/

inductive RePat where
  | upperRun      -- `[A-Z]+`
  | underAny      -- `_.`
deriving DecidableEq, Repr

def isUpperC (c : Nat) : Bool := 65 ≤ c && c ≤ 90

def flushRunR (f : Str → R Str) (rrun : Str) : R Str :=
  if rrun.isEmpty then .ok [] else f rrun.reverse

/-- `re.sub('[A-Z]+', f, s)`; `rrun` is the match in progress, reversed -/
def subUpperR (f : Str → R Str) (rrun : Str) : Str → R Str
  | [] => flushRunR f rrun
  | c :: cs =>
    if isUpperC c then subUpperR f (c :: rrun) cs
    else (flushRunR f rrun).bind fun a => (subUpperR f [] cs).bind fun b => .ok (a ++ c :: b)

/-- `re.sub('_.', f, s)` -/
def subUnderR (f : Str → R Str) : Str → R Str
  | [] => .ok []
  | [c] => .ok [c]
  | c :: d :: ds =>
    if c = 95 && d != 10 then (f [c, d]).bind fun a => (subUnderR f ds).bind fun b => .ok (a ++ b)
    else (subUnderR f (d :: ds)).bind fun b => .ok (c :: b)

def reSub (p : RePat) (f : Str → R Str) (s : Str) : R Str :=
  match p with
  | .upperRun => subUpperR f [] s
  | .underAny => subUnderR f s

/-! ### syntax -/

mutual
inductive Expr where
  | var (x : Nat)
  | none
  | true
  | false
  | int (i : Int)
  | str (s : Str)
  | ty (name : String)
  | cls (id : Nat)
  | glob (name : String)                                 -- an imported module constant (`events.CreateTableSignal`)
  | attr (e : Expr) (a : String)
  | getattrD (e : Expr) (a : String) (d : Expr)
  | tuple (es : Exprs)
  | list (es : Exprs)
  | dict (ks : List DKey) (vs : Exprs)
  | not (e : Expr)
  | and (a b : Expr)
  | or (a b : Expr)
  | is (a b : Expr)
  | isNot (a b : Expr)
  | cmp (op : CmpOp) (a b : Expr)
  | add (a b : Expr)
  | pow (a b : Expr)
  | fmt (ps : List Piece) (a : Expr)                     -- `'…' % a`
  | index (e i : Expr)
  | sliceFrom (e lo : Expr)
  | sliceTo (e hi : Expr)
  | len (e : Expr)
  | max (e : Expr)
  | isinstance (e : Expr) (c : Nat)
  | ext (f : String) (args : Exprs)                      -- an imported function
  | bmeth (recv : Expr) (m : String) (args : Exprs)      -- a method that is not a method of the program
  | mcall (recv : Expr) (m : Nat) (args : Exprs)         -- `recv.m(args)`, `m` a method of the program
  | scall (after : Nat) (m : Nat) (args : Exprs)         -- `super(after, self).m(args)`; `self` is local 0
  | dcall (c : Nat) (m : Nat) (args : Exprs)             -- `C.m(args)` (args include self)
  | fcall (f : Nat) (args : Exprs)                       -- a module-level function of the program
  | callVal (f : Expr) (args : Exprs)                    -- a call of a value held by a local (`func(cls, conn)`)
  | comp (x : Nat) (it : Expr) (cond : Expr) (body : Expr)   -- `[body for x in it if cond]`
  | reSubF (p : RePat) (f : Nat) (s : Expr)              -- `RE.sub(f, s)`, `f` a module-level function
  | reSubL (p : RePat) (x : Nat) (body : Expr) (s : Expr)    -- `RE.sub(lambda x: body, s)`
inductive Exprs where
  | nil
  | cons (e : Expr) (rest : Exprs)
end

mutual
inductive Stmt where
  | assign (x : Nat) (e : Expr)
  | assignTup (xs : List Nat) (e : Expr)                 -- `a, b = e`
  | setAttr (x : Nat) (a : String) (e : Expr)            -- `x.a = e`, rebinding the local `x`
  | append (x : Nat) (e : Expr)                          -- `x.append(e)`, rebinding the local `x`
  | ite (c : Expr) (t e : Block)
  | for (x : Nat) (it : Expr) (body : Block)
  | tryExc (body : Block) (exc : Exc) (handler : Block)
  | assert (c : Expr)
  | raise (e : Exc)
  | ret (e : Expr)
  | expr (e : Expr)
  | continue
  | pass
inductive Block where
  | nil
  | cons (s : Stmt) (rest : Block)
end

/-! ### semantics -/

abbrev Env := Nat → Option Val

def Env.empty : Env := fun _ => Option.none

def Env.put (env : Env) (x : Nat) (v : Val) : Env := fun y => if y = x then some v else env y

@[simp] theorem Env.put_apply (env : Env) (x : Nat) (v : Val) (y : Nat) :
    (env.put x v) y = if y = x then some v else env y := rfl

def Env.ofArgs : List Val → Env
  | [] => Env.empty
  | v :: l => fun y => match y with
    | 0 => some v
    | y + 1 => Env.ofArgs l y

@[simp] theorem Env.ofArgs_nil (y : Nat) : Env.ofArgs [] y = Option.none := rfl
@[simp] theorem Env.ofArgs_zero (v : Val) (l : List Val) : Env.ofArgs (v :: l) 0 = some v := rfl
@[simp] theorem Env.ofArgs_succ (v : Val) (l : List Val) (y : Nat) : Env.ofArgs (v :: l) (y + 1) = Env.ofArgs l y := rfl

def iterOf : Val → Option (List Val)
  | .list vs => some vs
  | .tuple vs => some vs
  | _ => Option.none

@[simp] theorem iterOf_list (vs : List Val) : iterOf (.list vs) = some vs := rfl

/-- one element of a comprehension -/
def compStep (x : Nat) (cond body : Env → R Val) (env : Env) (a : Val) : R (Option Val) :=
  (cond (env.put x a)).bind fun cv =>
    if truthy cv then (body (env.put x a)).bind fun v => .ok (some v) else .ok Option.none

def consOpt : Option Val → List Val → List Val
  | some v, r => v :: r
  | Option.none, r => r

def filterMapR (f : Val → R (Option Val)) : List Val → R (List Val)
  | [] => .ok []
  | a :: l => (f a).bind fun o => (filterMapR f l).bind fun r => .ok (consOpt o r)

def asStr : Val → R Str
  | .str s => .ok s
  | _ => .stuck

@[simp] theorem asStr_str (s : Str) : asStr (.str s) = .ok s := rfl

/-- the replacement function of `re.sub` applied to a match -/
def subFn (g : Val → R Val) (m : Str) : R Str := (g (.rematch m)).bind asStr

def recvCls : Val → R Nat
  | .obj c _ => .ok c
  | _ => .stuck

@[simp] theorem recvCls_obj (c : Nat) (fs : List (String × Val)) : recvCls (.obj c fs) = .ok c := rfl

def selfCls (env : Env) : R Nat := (ofOpt (env 0)).bind recvCls

mutual
def Expr.eval (call : Callee → List Val → R Val) (I : Iface) (env : Env) : Expr → R Val
  | .var x => ofOpt (env x)
  | .none => .ok .none
  | .true => .ok (.bool Bool.true)
  | .false => .ok (.bool Bool.false)
  | .int i => .ok (.int i)
  | .str s => .ok (.str s)
  | .ty n => .ok (.ty n)
  | .cls c => .ok (.cls c)
  | .glob name => I.ext name []
  | .attr e a => (e.eval call I env).bind fun v => attrOf I v a
  | .getattrD e a d => (e.eval call I env).bind fun v => (d.eval call I env).bind fun dv => getattrD I v a dv
  | .tuple es => (es.eval call I env).bind fun vs => .ok (.tuple vs)
  | .list es => (es.eval call I env).bind fun vs => .ok (.list vs)
  | .dict ks vs => (vs.eval call I env).bind fun vs => .ok (.dict (ks.zip vs))
  | .not e => (e.eval call I env).bind fun v => .ok (.bool (!truthy v))
  | .and a b => (a.eval call I env).bind fun v => if truthy v then b.eval call I env else .ok v
  | .or a b => (a.eval call I env).bind fun v => if truthy v then .ok v else b.eval call I env
  | .is a b => (a.eval call I env).bind fun x => (b.eval call I env).bind fun y =>
      (ofOpt (pyIs x y)).bind fun r => .ok (.bool r)
  | .isNot a b => (a.eval call I env).bind fun x => (b.eval call I env).bind fun y =>
      (ofOpt (pyIs x y)).bind fun r => .ok (.bool (!r))
  | .cmp op a b => (a.eval call I env).bind fun x => (b.eval call I env).bind fun y => pyCmp op x y
  | .add a b => (a.eval call I env).bind fun x => (b.eval call I env).bind fun y => pyAdd x y
  | .pow a b => (a.eval call I env).bind fun x => (b.eval call I env).bind fun y => pyPow x y
  | .fmt ps a => (a.eval call I env).bind fun x => pyFmt I ps x
  | .index e i => (e.eval call I env).bind fun x => (i.eval call I env).bind fun y => pyIndex x y
  | .sliceFrom e lo => (e.eval call I env).bind fun x => (lo.eval call I env).bind fun a => pySlice x (some a) Option.none
  | .sliceTo e hi => (e.eval call I env).bind fun x => (hi.eval call I env).bind fun b => pySlice x Option.none (some b)
  | .len e => (e.eval call I env).bind pyLen
  | .max e => (e.eval call I env).bind pyMax
  | .isinstance e c => (e.eval call I env).bind fun v => isInst I v c
  | .ext f args => (args.eval call I env).bind fun as => I.ext f as
  | .bmeth recv m args => (recv.eval call I env).bind fun r => (args.eval call I env).bind fun as => bmethOf I r m as
  | .mcall recv m args => (recv.eval call I env).bind fun r => (args.eval call I env).bind fun as =>
      (recvCls r).bind fun c => call (.meth c m) (r :: as)
  | .scall after m args => (args.eval call I env).bind fun as =>
      (selfCls env).bind fun c => (ofOpt (env 0)).bind fun self => call (.super after c m) (self :: as)
  | .dcall c m args => (args.eval call I env).bind fun as => call (.direct c m) as
  | .fcall f args => (args.eval call I env).bind fun as => call (.func f) as
  | .callVal f args => (f.eval call I env).bind fun fv => (args.eval call I env).bind fun as => I.ext "<call>" (fv :: as)
  | .comp x it cond body => (it.eval call I env).bind fun v => (ofOpt (iterOf v)).bind fun l =>
      (filterMapR (compStep x (fun env' => cond.eval call I env') (fun env' => body.eval call I env') env) l).bind
        fun r => .ok (.list r)
  | .reSubF p f s => (s.eval call I env).bind fun sv => (asStr sv).bind fun t =>
      (reSub p (subFn fun m => call (.func f) [m]) t).bind fun r => .ok (.str r)
  | .reSubL p x body s => (s.eval call I env).bind fun sv => (asStr sv).bind fun t =>
      (reSub p (subFn fun m => body.eval call I (env.put x m)) t).bind fun r => .ok (.str r)
def Exprs.eval (call : Callee → List Val → R Val) (I : Iface) (env : Env) : Exprs → R (List Val)
  | .nil => .ok []
  | .cons e rest => (e.eval call I env).bind fun v => (rest.eval call I env).bind fun vs => .ok (v :: vs)
end

/-- how a statement ends -/
inductive Res where
  | norm (env : Env)
  | cont (env : Env)
  | ret (env : Env) (v : Val)
  | exc (env : Env) (e : Exc)
  | stuck

def Res.seq (r : Res) (k : Env → Res) : Res :=
  match r with
  | .norm env => k env
  | r => r

theorem Res.seq_norm (env : Env) (k : Env → Res) : (Res.norm env).seq k = k env := by rw [Res.seq]
@[simp] theorem Res.seq_cont (env : Env) (k : Env → Res) : (Res.cont env).seq k = .cont env := by simp [Res.seq]
@[simp] theorem Res.seq_ret (env : Env) (v : Val) (k : Env → Res) : (Res.ret env v).seq k = .ret env v := by simp [Res.seq]
@[simp] theorem Res.seq_exc (env : Env) (e : Exc) (k : Env → Res) : (Res.exc env e).seq k = .exc env e := by simp [Res.seq]
@[simp] theorem Res.seq_stuck (k : Env → Res) : Res.stuck.seq k = .stuck := by simp [Res.seq]

def withR (env : Env) (r : R Val) (k : Val → Res) : Res :=
  match r with
  | .ok v => k v
  | .exc e => .exc env e
  | .stuck => .stuck

@[simp] theorem withR_ok (env : Env) (v : Val) (k : Val → Res) : withR env (.ok v) k = k v := by rw [withR]
@[simp] theorem withR_exc (env : Env) (e : Exc) (k : Val → Res) : withR env (.exc e) k = .exc env e := by rw [withR]
@[simp] theorem withR_stuck (env : Env) (k : Val → Res) : withR env .stuck k = .stuck := by rw [withR]

def normOpt : Option Env → Res
  | some env => .norm env
  | Option.none => .stuck

@[simp] theorem normOpt_some (env : Env) : normOpt (some env) = .norm env := rfl
@[simp] theorem normOpt_none : normOpt Option.none = .stuck := rfl

/-- `continue` ends the iteration, not the loop -/
def forLoop (f : Env → Val → Res) : List Val → Env → Res
  | [], env => .norm env
  | v :: vs, env => match f env v with
    | .norm env' => forLoop f vs env'
    | .cont env' => forLoop f vs env'
    | r => r

def loopStep (x : Nat) (body : Env → Res) (env : Env) (v : Val) : Res := body (env.put x v)

/-- `o.a = v` on the value -/
def setAttrVal (a : String) (v : Val) : Val → Option Val
  | .obj c fs => some (.obj c (fset fs a v))
  | _ => Option.none

@[simp] theorem setAttrVal_obj (a : String) (v : Val) (c : Nat) (fs : List (String × Val)) :
    setAttrVal a v (.obj c fs) = some (.obj c (fset fs a v)) := rfl

/-- `x.a = v` -/
def setAttrOf (env : Env) (x : Nat) (a : String) (v : Val) : Option Env :=
  ((env x).bind (setAttrVal a v)).map (env.put x)

def bindAll (env : Env) : List Nat → List Val → Option Env
  | [], [] => some env
  | x :: xs, v :: vs => bindAll (env.put x v) xs vs
  | _, _ => Option.none

/-- `a, b = v` -/
def unpackOf (env : Env) (xs : List Nat) : Val → Option Env
  | .tuple vs => bindAll env xs vs
  | .list vs => bindAll env xs vs
  | _ => Option.none

/-- `x.append(v)` -/
def appendOf (env : Env) (x : Nat) (v : Val) : Option Env :=
  match env x with
  | some (.list l) => some (env.put x (.list (l ++ [v])))
  | _ => Option.none

/-- `except E:` -/
def handle (r : Res) (exc : Exc) (h : Env → Res) : Res :=
  match r with
  | .exc env e => if e = exc then h env else .exc env e
  | r => r

mutual
def Stmt.exec (call : Callee → List Val → R Val) (I : Iface) (env : Env) : Stmt → Res
  | .assign x e => withR env (e.eval call I env) fun v => .norm (env.put x v)
  | .assignTup xs e => withR env (e.eval call I env) fun v => normOpt (unpackOf env xs v)
  | .setAttr x a e => withR env (e.eval call I env) fun v => normOpt (setAttrOf env x a v)
  | .append x e => withR env (e.eval call I env) fun v => normOpt (appendOf env x v)
  | .ite c t e => withR env (c.eval call I env) fun v => if truthy v then t.exec call I env else e.exec call I env
  | .for x it body => withR env (it.eval call I env) fun v =>
      match iterOf v with
      | some l => forLoop (loopStep x fun env' => body.exec call I env') l env
      | Option.none => .stuck
  | .tryExc body exc h => handle (body.exec call I env) exc fun env' => h.exec call I env'
  | .assert c => withR env (c.eval call I env) fun v => if truthy v then .norm env else .exc env .assertionError
  | .raise e => .exc env e
  | .ret e => withR env (e.eval call I env) fun v => .ret env v
  | .expr e => withR env (e.eval call I env) fun _ => .norm env
  | .continue => .cont env
  | .pass => .norm env
def Block.exec (call : Callee → List Val → R Val) (I : Iface) (env : Env) : Block → Res
  | .nil => .norm env
  | .cons s rest => (s.exec call I env).seq fun env' => rest.exec call I env'
end

theorem exec_cons (call : Callee → List Val → R Val) (I : Iface) (env : Env) (s : Stmt) (rest : Block) :
    Block.exec call I env (.cons s rest) = (s.exec call I env).seq fun env' => rest.exec call I env' := by
  rw [Block.exec]

theorem exec_nil (call : Callee → List Val → R Val) (I : Iface) (env : Env) : Block.exec call I env .nil = .norm env := by
  rw [Block.exec]

/-- what the caller of a function sees (falling off the end returns `None`) -/
def Res.out : Res → R Val
  | .norm _ => .ok .none
  | .cont _ => .stuck
  | .ret _ v => .ok v
  | .exc _ e => .exc e
  | .stuck => .stuck

@[simp] theorem Res.out_ret (env : Env) (v : Val) : (Res.ret env v).out = .ok v := rfl
@[simp] theorem Res.out_exc (env : Env) (e : Exc) : (Res.exc env e).out = .exc e := rfl
@[simp] theorem Res.out_norm (env : Env) : (Res.norm env).out = .ok .none := rfl
@[simp] theorem Res.out_stuck : Res.stuck.out = .stuck := rfl

/-! ### programs -/

structure Fn where
  nparams : Nat
  defaults : List Val          -- defaults of the LAST `defaults.length` parameters (constants)
  body : Block

/-- positional arguments, completed from the defaults -/
def Fn.args (f : Fn) (args : List Val) : Option (List Val) :=
  if args.length ≤ f.nparams ∧ f.nparams ≤ args.length + f.defaults.length then
    some (args ++ f.defaults.drop (f.defaults.length - (f.nparams - args.length)))
  else Option.none

def Fn.run (call : Callee → List Val → R Val) (I : Iface) (f : Fn) (args : List Val) : R Val :=
  match f.args args with
  | some as => (f.body.exec call I (Env.ofArgs as)).out
  | Option.none => .stuck

/-- lookup by number (written with `Nat.beq` / `cond` so that it evaluates quickly) -/
def lookupNat {α : Type} (k : Nat) : List (Nat × α) → Option α
  | [] => Option.none
  | e :: l => cond (Nat.beq e.1 k) (some e.2) (lookupNat k l)

structure Prog where
  mro : List (Nat × List Nat)                  -- linearised bases, the class itself first
  classes : List (Nat × List (Nat × Fn))       -- class ↦ (method name ↦ the class's OWN definition)
  consts : List ((Nat × String) × Val)         -- class-level constants
  funcs : List (Nat × Fn)

def Prog.mroOf (P : Prog) (c : Nat) : List Nat := (lookupNat c P.mro).getD []

def firstSome {α β : Type} (f : α → Option β) : List α → Option β
  | [] => Option.none
  | a :: l => match f a with
    | some b => some b
    | Option.none => firstSome f l

def Prog.own (P : Prog) (c m : Nat) : Option Fn :=
  match lookupNat c P.classes with
  | some ms => lookupNat m ms
  | Option.none => Option.none

def Prog.lookup (P : Prog) (cs : List Nat) (m : Nat) : Option Fn := firstSome (fun c => P.own c m) cs

/-- the classes after `c` in a linearisation -/
def afterCls (c : Nat) : List Nat → List Nat
  | [] => []
  | a :: l => cond (Nat.beq a c) l (afterCls c l)

def Prog.resolve (P : Prog) : Callee → Option Fn
  | .meth c m => P.lookup (P.mroOf c) m
  | .super a c m => P.lookup (afterCls a (P.mroOf c)) m
  | .direct c m => P.lookup (P.mroOf c) m
  | .func f => lookupNat f P.funcs

/-- the interface with the class table of the program filled in -/
def Prog.iface (P : Prog) (I : Iface) : Iface :=
  { I with mro := P.mroOf, classAttr := fun c a => firstSome (fun k => aget (k, a) P.consts) (P.mroOf c) }

/-- calls with at most `n` nested calls of program functions -/
def callN (P : Prog) (I : Iface) : Nat → Callee → List Val → R Val
  | 0, _, _ => .stuck
  | n + 1, c, args =>
    match P.resolve c with
    | some f => f.run (callN P I n) (P.iface I) args
    | Option.none => .stuck

theorem callN_succ (P : Prog) (I : Iface) (n : Nat) (c : Callee) (args : List Val) (f : Fn)
    (h : P.resolve c = some f) : callN P I (n + 1) c args = f.run (callN P I n) (P.iface I) args := by
  rw [callN, h]

end SqlObjVerif.PyDdl
