/-!
# PyJoins — a deep embedding of the Python fragment the join accessors of `sqlobject/joins.py` are written in

`vlib/extractors/pyjoins.py` TRANSLATES the function bodies (`doSort`, `getID`, `SOJoin._applyOrderBy`,
`SOMultipleJoin.performJoin`, `SORelatedJoin.performJoin/add/remove`, `SOSingleJoin.performJoin`, the SQL-flavoured
`performJoin`s, the new-style `__get__`s and wrapper methods) from /repo's AST into programs of this language on every
run (`Extracted/PyJoins.lean`).  This file is the fixed vocabulary and its reference semantics (total functions, no fuel).

The interpreter is generic in the type `H` of object handles and the type `W` of worlds.  Python LIST OBJECTS that are
mutated in place (`results.sort(…)`) live in a heap of the embedding (`Val.ref`): a list passed to a function is the
same object in the callee.  Everything the code does to other objects goes through an `Iface H W` — the PARAMETERS:
* `getAttr w o a`        : `o.a`;  `getAttrDyn w o n` : `getattr(o, n)` for a computed name `n`;
* `glob`, `isinstance`   : module-level names (`Min`), `isinstance(v, <dotted name>)` for classes other than
                           `tuple` / `list` / `str` (those are decided by the embedding);
* `eqOver a b`, `binop`  : an overloaded `==` / `&` (`some v`: the operator builds the value `v`; `none` for `==`: plain equality);
* `index w v i`          : `v[i]` for a value that is not a list / tuple / string of the embedding (a select result);
* `query w o m args kw`  : a method call that changes nothing (which names are queries is fixed in the translator);
* `fn w name args`       : a call of a module-level function / class that changes nothing;
* `lt a b`               : Python's `a < b` on sort keys (`none`: not comparable);
* `sort le l`            : the STABLE sort `list.sort` performs, as a function of the "stays before" relation;
* `call w heap o m args kw`, `callG w heap f args`, `callV w heap f args kw` : a method call / a call of a module-level
                           function / a call of a value (a class) that may change the world and the heap, return or raise.
`Model/JoinsX.lean` instantiates the interface with the hand model's functions.

Python features covered: locals (numbered in order of first binding, parameters first; unbound = `stuck`), constants,
`e.a`, `getattr(e, n)`, `len`, `==`, `is` / `is not`, `isinstance(e, C)` / `isinstance(e, (C1, C2))`, `e[i]`,
`e[n:]`, `a + b` on strings, `s.startswith(p)`, `a & b`, `{k: v}`, `not`/`and`/`or`, `if`, `return`, `raise`,
`try: … except C: …`, nested `def f(p, q=default)` with a straight-line body (a closure value that
remembers the values of its defaults), `x.sort(key=f, reverse=b)` on a list object, list comprehensions
`[elt for (a,) in it if c]`, method / function calls as statements, `f(**d)`.
-/
namespace SqlObjVerif.PyJoins

inductive Val (H : Type) where
  | none
  | bool (b : Bool)
  | int (n : Int)
  | str (s : List Char)
  /-- an object handle (the instantiation says what there is) -/
  | obj (h : H)
  | pair (a b : Val H)
  /-- an immutable list value (`nil` / `cons`) -/
  | nil
  | cons (h t : Val H)
  /-- a tuple; `items` is a `nil` / `cons` chain -/
  | tup (items : Val H)
  /-- a list OBJECT: a cell of the heap -/
  | ref (r : Nat)
  /-- a function made by the nested `def` number `fid`, with the values its defaults had at definition time -/
  | clos (fid : Nat) (defaults : Val H)
  /-- a dict: `d` is the list of its `(key, value)` pairs in insertion order -/
  | dict (d : Val H)
  /-- a value built by a pure constructor-like operation, kept symbolic -/
  | app (tag : String) (args : Val H)
deriving DecidableEq, Repr

variable {H : Type}

def Val.ofList : List (Val H) → Val H
  | [] => .nil
  | v :: l => .cons v (Val.ofList l)

def Val.toList : Val H → Option (List (Val H))
  | .nil => some []
  | .cons h t => match Val.toList t with
    | some l => some (h :: l)
    | Option.none => Option.none
  | _ => Option.none

def pairsOf : Val H → Option (List (Val H × Val H))
  | .nil => some []
  | .cons (.pair k v) t => match pairsOf t with
    | some l => some ((k, v) :: l)
    | Option.none => Option.none
  | _ => Option.none

structure Heap (H : Type) where
  cells : Nat → Option (List (Val H))
  next : Nat

def Heap.empty : Heap H := ⟨fun _ => Option.none, 0⟩

def Heap.set (h : Heap H) (r : Nat) (l : List (Val H)) : Heap H :=
  { h with cells := fun r' => if r' = r then some l else h.cells r' }

/-- a fresh list object -/
def Heap.alloc (h : Heap H) (l : List (Val H)) : Heap H :=
  { cells := fun r' => if r' = h.next then some l else h.cells r', next := h.next + 1 }

inductive Const where
  | none
  | bool (b : Bool)
  | int (n : Nat)
  | str (s : List Char)
deriving DecidableEq, Repr

def Const.val : Const → Val H
  | .none => .none
  | .bool b => .bool b
  | .int n => .int n
  | .str s => .str s

/-- an exception: its class name -/
abbrev Exc := String

inductive R (α : Type) where
  | ok (a : α)
  | exc (e : Exc)
  /-- outside the fragment / outside the interface -/
  | stuck

/-- how a call into another object ends -/
inductive CallRes (H W : Type) where
  | ret (w : W) (heap : Heap H) (v : Val H)
  | exc (w : W) (heap : Heap H) (e : Exc)
  | stuck

structure Iface (H W : Type) where
  self : Val H
  getAttr : W → Val H → String → R (Val H)
  getAttrDyn : W → Val H → Val H → R (Val H)
  glob : String → Option (Val H)
  isinstance : Val H → String → Option Bool
  eqOver : Val H → Val H → Option (Val H)
  binop : String → Val H → Val H → Option (Val H)
  index : W → Val H → Val H → R (Val H)
  query : W → Val H → String → List (Val H) → List (String × Val H) → R (Val H)
  fn : W → String → List (Val H) → R (Val H)
  lt : Val H → Val H → Option Bool
  sort : (Val H × Val H → Val H × Val H → Bool) → List (Val H × Val H) → List (Val H × Val H)
  call : W → Heap H → Val H → String → List (Val H) → List (String × Val H) → CallRes H W
  callG : W → Heap H → String → List (Val H) → CallRes H W
  callV : W → Heap H → Val H → List (Val H) → List (Val H × Val H) → CallRes H W

mutual
/-- expressions: none of them changes the world or the heap -/
inductive Expr where
  | var (x : Nat)
  | const (c : Const)
  | self
  | glob (name : String)
  | attr (e : Expr) (a : String)                -- `e.a`
  | getattr (e n : Expr)                        -- `getattr(e, n)`
  | len (e : Expr)
  | eq (a b : Expr)                             -- `a == b`
  | isC (e : Expr) (c : Const)                  -- `e is <None/True/False>`
  | isNotC (e : Expr) (c : Const)
  | is (a b : Expr)
  | isNot (a b : Expr)
  | isinstance (e : Expr) (clss : List String)  -- `isinstance(e, C)` / `isinstance(e, (C1, C2, …))`
  | index (e i : Expr)                          -- `e[i]`
  | sliceFrom (e : Expr) (n : Nat)              -- `e[n:]`
  | add (a b : Expr)                            -- `a + b` (strings)
  | startswith (e p : Expr)                     -- `e.startswith(p)`
  | binop (op : String) (a b : Expr)            -- an overloaded binary operator (`&`)
  | dict1 (k v : Expr)                          -- `{k: v}`
  | query (recv : Expr) (m : String) (args : Exprs) (kwn : List String) (kwv : Exprs)
  | fn (name : String) (args : Exprs)           -- `name(args)`
inductive Exprs where
  | nil
  | cons (e : Expr) (rest : Exprs)
end

inductive Cond where
  | truthy (e : Expr)
  | not (c : Cond)
  | and (c d : Cond)
  | or (c d : Cond)

/- bodies of nested functions: straight-line, nothing but locals changes -/
mutual
inductive PStmt where
  | assign (x : Nat) (e : Expr)
  | ite (c : Cond) (t e : PBlock)
  | ret (e : Expr)
inductive PBlock where
  | nil
  | cons (s : PStmt) (rest : PBlock)
end

/-- a nested `def`: number of parameters, body (parameters are locals 0 …) -/
structure Lam where
  nparams : Nat
  body : PBlock

/-- the target of a comprehension: a name, or a tuple of names `(a, b, …)` -/
inductive Pat where
  | name (x : Nat)
  | tuple (xs : List Nat)

mutual
inductive Stmt where
  | assign (x : Nat) (e : Expr)
  | defFn (x : Nat) (fid : Nat) (defaults : Exprs)        -- `def x(…, p=default): …`
  | sortList (x : Nat) (key rev : Expr)                   -- `x.sort(key=…, reverse=…)`
  | comp (x : Nat) (elt : Expr) (pat : Pat) (it : Expr) (c : Cond)   -- `x = [elt for pat in it if c]`
  | call (x : Option Nat) (recv : Expr) (m : String) (args : Exprs) (kwn : List String) (kwv : Exprs)
  | callG (x : Option Nat) (f : String) (args : Exprs)    -- `[x =] f(args)`, `f` a module-level function
  | callV (x : Option Nat) (f : Expr) (args : Exprs) (starKw : Option Nat)  -- `[x =] f(args, **d)`, `f` a value
  | ite (c : Cond) (t e : Block)
  | tryExcept (body : Block) (cls : String) (handler : Block)
  | raise (cls : String)
  | ret (e : Expr)
  | retNone
  | pass
inductive Block where
  | nil
  | cons (s : Stmt) (rest : Block)
end

abbrev Env (H : Type) := Nat → Option (Val H)

def Env.empty : Env H := fun _ => Option.none

def Env.put (env : Env H) (x : Nat) (v : Val H) : Env H := fun y => if y = x then some v else env y

@[simp] theorem Env.put_apply (env : Env H) (x : Nat) (v : Val H) (y : Nat) :
    (env.put x v) y = if y = x then some v else env y := rfl

def Env.ofArgs : List (Val H) → Env H
  | [] => Env.empty
  | v :: l => fun y => match y with
    | 0 => some v
    | y + 1 => Env.ofArgs l y

def zipKw : List String → List (Val H) → List (String × Val H)
  | n :: ns, v :: vs => (n, v) :: zipKw ns vs
  | _, _ => []

/-- `bool(v)`; objects are truthy -/
def pyBool : Val H → Bool
  | .none => false
  | .bool b => b
  | .int n => n != 0
  | .str s => !s.isEmpty
  | .nil => false
  | .tup .nil => false
  | .dict .nil => false
  | _ => true

/-- `isinstance` for the built-in classes the embedding represents itself -/
def builtinIs (v : Val H) (c : String) : Option Bool :=
  if c = "tuple" then some (match v with | .tup _ => true | _ => false)
  else if c = "list" then some (match v with | .nil => true | .cons _ _ => true | .ref _ => true | _ => false)
  else if c = "str" then some (match v with | .str _ => true | _ => false)
  else Option.none

/-- the items of a list value, a tuple or a list object -/
def itemsOf (heap : Heap H) : Val H → Option (List (Val H))
  | .nil => some []
  | .cons h t => (Val.cons h t).toList
  | .tup t => t.toList
  | .ref r => heap.cells r
  | _ => Option.none

/-- the outcome of `l[n]` -/
def idxRes {α : Type} (f : α → Val H) : Option α → R (Val H)
  | some x => .ok (f x)
  | Option.none => .exc "IndexError"

/-- `v[i]` on the embedding's own sequences -/
def indexOf (heap : Heap H) (v : Val H) (i : Val H) : Option (R (Val H)) :=
  match i with
  | .int (.ofNat n) => (match v with
    | .str s => some (idxRes (fun c => .str [c]) s[n]?)
    | v => (match itemsOf heap v with
      | some l => some (idxRes id l[n]?)
      | Option.none => Option.none))
  | _ => Option.none

/-- `v[n:]` on immutable list values, tuples and strings -/
def sliceFromOf (v : Val H) (n : Nat) : Option (Val H) :=
  match v with
  | .str s => some (.str (s.drop n))
  | .tup t => (match t.toList with
    | some l => some (.tup (Val.ofList (l.drop n)))
    | Option.none => Option.none)
  | .nil => some .nil
  | .cons h t => (match (Val.cons h t).toList with
    | some l => some (Val.ofList (l.drop n))
    | Option.none => Option.none)
  | _ => Option.none

section
variable {W : Type} [DecidableEq H]

/-- `isinstance(v, (C1, C2, …))`: the first class that says yes -/
def isInstAny (I : Iface H W) (v : Val H) : List String → R (Val H)
  | [] => .ok (.bool false)
  | c :: cs => match (match builtinIs v c with
      | some b => some b
      | Option.none => I.isinstance v c) with
    | some true => .ok (.bool true)
    | some false => isInstAny I v cs
    | Option.none => .stuck

mutual
def Expr.eval (I : Iface H W) (w : W) (heap : Heap H) (env : Env H) : Expr → R (Val H)
  | .var x => match env x with
    | some v => .ok v
    | Option.none => .stuck
  | .const c => .ok c.val
  | .self => .ok I.self
  | .glob name => match I.glob name with
    | some v => .ok v
    | Option.none => .stuck
  | .attr e a => match e.eval I w heap env with
    | .ok v => I.getAttr w v a
    | r => r
  | .getattr e n => match e.eval I w heap env with
    | .ok v => (match n.eval I w heap env with
      | .ok nv => I.getAttrDyn w v nv
      | r => r)
    | r => r
  | .len e => match e.eval I w heap env with
    | .ok v => (match itemsOf heap v with
      | some l => .ok (.int l.length)
      | Option.none => .stuck)
    | r => r
  | .eq a b => match a.eval I w heap env with
    | .ok x => (match b.eval I w heap env with
      | .ok y => (match I.eqOver x y with
        | some v => .ok v
        | Option.none => .ok (.bool (decide (x = y))))
      | r => r)
    | r => r
  | .isC e c => match e.eval I w heap env with
    | .ok v => .ok (.bool (decide (v = c.val)))
    | r => r
  | .isNotC e c => match e.eval I w heap env with
    | .ok v => .ok (.bool (!decide (v = c.val)))
    | r => r
  | .is a b => match a.eval I w heap env with
    | .ok x => (match b.eval I w heap env with
      | .ok y => .ok (.bool (decide (x = y)))
      | r => r)
    | r => r
  | .isNot a b => match a.eval I w heap env with
    | .ok x => (match b.eval I w heap env with
      | .ok y => .ok (.bool (!decide (x = y)))
      | r => r)
    | r => r
  | .isinstance e clss => match e.eval I w heap env with
    | .ok v => isInstAny I v clss
    | r => r
  | .index e i => match e.eval I w heap env with
    | .ok v => (match i.eval I w heap env with
      | .ok iv => (match indexOf heap v iv with
        | some r => r
        | Option.none => I.index w v iv)
      | r => r)
    | r => r
  | .sliceFrom e n => match e.eval I w heap env with
    | .ok v => (match sliceFromOf v n with
      | some r => .ok r
      | Option.none => .stuck)
    | r => r
  | .add a b => match a.eval I w heap env with
    | .ok x => (match b.eval I w heap env with
      | .ok y => (match x, y with
        | .str s, .str t => .ok (.str (s ++ t))
        | _, _ => .stuck)
      | r => r)
    | r => r
  | .startswith e p => match e.eval I w heap env with
    | .ok x => (match p.eval I w heap env with
      | .ok y => (match x, y with
        | .str s, .str t => .ok (.bool (t.isPrefixOf s))
        | _, _ => .stuck)
      | r => r)
    | r => r
  | .binop op a b => match a.eval I w heap env with
    | .ok x => (match b.eval I w heap env with
      | .ok y => (match I.binop op x y with
        | some v => .ok v
        | Option.none => .stuck)
      | r => r)
    | r => r
  | .dict1 k v => match k.eval I w heap env with
    | .ok kv => (match v.eval I w heap env with
      | .ok vv => .ok (.dict (.cons (.pair kv vv) .nil))
      | r => r)
    | r => r
  | .query recv m args kwn kwv => match recv.eval I w heap env with
    | .ok r => (match args.eval I w heap env with
      | .ok as => (match kwv.eval I w heap env with
        | .ok ks => I.query w r m as (zipKw kwn ks)
        | .exc e => .exc e
        | .stuck => .stuck)
      | .exc e => .exc e
      | .stuck => .stuck)
    | r => r
  | .fn name args => match args.eval I w heap env with
    | .ok as => I.fn w name as
    | .exc e => .exc e
    | .stuck => .stuck
def Exprs.eval (I : Iface H W) (w : W) (heap : Heap H) (env : Env H) : Exprs → R (List (Val H))
  | .nil => .ok []
  | .cons e rest => match e.eval I w heap env with
    | .ok v => (match rest.eval I w heap env with
      | .ok vs => .ok (v :: vs)
      | r => r)
    | .exc e => .exc e
    | .stuck => .stuck
end

def Cond.eval (I : Iface H W) (w : W) (heap : Heap H) (env : Env H) : Cond → R Bool
  | .truthy e => match e.eval I w heap env with
    | .ok v => .ok (pyBool v)
    | .exc e => .exc e
    | .stuck => .stuck
  | .not c => match c.eval I w heap env with
    | .ok b => .ok (!b)
    | r => r
  | .and c d => match c.eval I w heap env with
    | .ok b => if b then d.eval I w heap env else .ok false
    | r => r
  | .or c d => match c.eval I w heap env with
    | .ok b => if b then .ok true else d.eval I w heap env
    | r => r

/-- how the body of a nested function ends -/
inductive PRes (H : Type) where
  | norm (env : Env H)
  | ret (v : Val H)
  | exc (e : Exc)
  | stuck

mutual
def PStmt.exec (I : Iface H W) (w : W) (heap : Heap H) (env : Env H) : PStmt → PRes H
  | .assign x e => match e.eval I w heap env with
    | .ok v => .norm (env.put x v)
    | .exc e => .exc e
    | .stuck => .stuck
  | .ite c t e => match c.eval I w heap env with
    | .ok true => t.exec I w heap env
    | .ok false => e.exec I w heap env
    | .exc e => .exc e
    | .stuck => .stuck
  | .ret e => match e.eval I w heap env with
    | .ok v => .ret v
    | .exc e => .exc e
    | .stuck => .stuck
def PBlock.exec (I : Iface H W) (w : W) (heap : Heap H) (env : Env H) : PBlock → PRes H
  | .nil => .norm env
  | .cons s rest => match s.exec I w heap env with
    | .norm env' => rest.exec I w heap env'
    | r => r
end

def PRes.toR : PRes H → R (Val H)
  | .norm _ => .ok .none
  | .ret v => .ok v
  | .exc e => .exc e
  | .stuck => .stuck

/-- call a closure with positional arguments: the parameters not given take the remembered defaults -/
def callClos (I : Iface H W) (L : List Lam) (w : W) (heap : Heap H) (f : Val H) (args : List (Val H)) : R (Val H) :=
  match f with
  | .clos fid d => (match L[fid]?, d.toList with
    | some lam, some ds =>
      if args.length + ds.length = lam.nparams then (lam.body.exec I w heap (Env.ofArgs (args ++ ds))).toR else .stuck
    | _, _ => .stuck)
  | _ => .stuck

def mapR {α β : Type} (f : α → R β) : List α → R (List β)
  | [] => .ok []
  | a :: l => match f a with
    | .ok b => (match mapR f l with
      | .ok bs => .ok (b :: bs)
      | r => r)
    | .exc e => .exc e
    | .stuck => .stuck

/-- `p` stays before `q` (pairs of element and key) under `list.sort(reverse=rev)`: ascending — unless `q < p`;
    descending — unless `p < q` (CPython keeps the original order of ties in both directions) -/
def sortLe (I : Iface H W) (rev : Bool) (p q : Val H × Val H) : Bool :=
  if rev then !(I.lt p.2 q.2).getD false else !(I.lt q.2 p.2).getD false

/-- all keys are mutually comparable -/
def keysOk (I : Iface H W) (keys : List (Val H)) : Bool :=
  keys.all fun a => keys.all fun b => (I.lt a b).isSome

/-- `l.sort(key=f, reverse=rev)`: the keys are computed first (one call of `f` per element), then the stable sort -/
def sortedBy (I : Iface H W) (L : List Lam) (w : W) (heap : Heap H) (f : Val H) (rev : Bool) (l : List (Val H)) :
    R (List (Val H)) :=
  match mapR (fun x => callClos I L w heap f [x]) l with
  | .ok keys => if keysOk I keys then .ok ((I.sort (sortLe I rev) (l.zip keys)).map Prod.fst) else .stuck
  | .exc e => .exc e
  | .stuck => .stuck

def bindPat (env : Env H) : Pat → Val H → Option (Env H)
  | .name x, v => some (env.put x v)
  | .tuple xs, .tup t => (match t.toList with
    | some l => if l.length = xs.length then some ((xs.zip l).foldl (fun e p => e.put p.1 p.2) env) else Option.none
    | Option.none => Option.none)
  | .tuple _, _ => Option.none

/-- one item of a comprehension: `none` = filtered out -/
def compItem (I : Iface H W) (w : W) (heap : Heap H) (env : Env H) (elt : Expr) (pat : Pat) (c : Cond) (item : Val H) :
    R (Option (Val H)) :=
  match bindPat env pat item with
  | some env' => (match c.eval I w heap env' with
    | .ok true => (match elt.eval I w heap env' with
      | .ok v => .ok (some v)
      | .exc e => .exc e
      | .stuck => .stuck)
    | .ok false => .ok Option.none
    | .exc e => .exc e
    | .stuck => .stuck)
  | Option.none => .stuck

structure St (H W : Type) where
  w : W
  heap : Heap H
  vars : Env H

def St.setVar (st : St H W) (x : Nat) (v : Val H) : St H W := { st with vars := st.vars.put x v }

def St.setOpt (st : St H W) (x : Option Nat) (v : Val H) : St H W :=
  match x with
  | some x => st.setVar x v
  | Option.none => st

/-- how a statement ends -/
inductive Res (H W : Type) where
  | norm (st : St H W)
  | ret (st : St H W) (v : Val H)
  | exc (st : St H W) (e : Exc)
  | stuck

/-- sequencing: go on with `k` after a statement that ended normally -/
def Res.seq (r : Res H W) (k : St H W → Res H W) : Res H W :=
  match r with
  | .norm st' => k st'
  | r => r

/-- `try: … except cls: handler` -/
def Res.catch (r : Res H W) (cls : String) (k : St H W → Res H W) : Res H W :=
  match r with
  | .exc st' e => if e = cls then k st' else .exc st' e
  | r => r

/-- the caller's view of a finished call -/
def afterCall (r : CallRes H W) (st : St H W) (x : Option Nat) : Res H W :=
  match r with
  | .ret w heap v => .norm ({ st with w := w, heap := heap }.setOpt x v)
  | .exc w heap e => .exc { st with w := w, heap := heap } e
  | .stuck => .stuck

/-- the `**d` part of a call -/
def starKwOf (env : Env H) : Option Nat → Option (List (Val H × Val H))
  | Option.none => some []
  | some d => match env d with
    | some (.dict b) => pairsOf b
    | _ => Option.none

mutual
def Stmt.exec (I : Iface H W) (L : List Lam) (st : St H W) : Stmt → Res H W
  | .assign x e => match e.eval I st.w st.heap st.vars with
    | .ok v => .norm (st.setVar x v)
    | .exc e => .exc st e
    | .stuck => .stuck
  | .defFn x fid defaults => match defaults.eval I st.w st.heap st.vars with
    | .ok ds => .norm (st.setVar x (.clos fid (Val.ofList ds)))
    | .exc e => .exc st e
    | .stuck => .stuck
  | .sortList x key rev => match st.vars x, key.eval I st.w st.heap st.vars, rev.eval I st.w st.heap st.vars with
    | some (.ref r), .ok f, .ok (.bool b) => (match st.heap.cells r with
      | some l => (match sortedBy I L st.w st.heap f b l with
        | .ok l' => .norm { st with heap := st.heap.set r l' }
        | .exc e => .exc st e
        | .stuck => .stuck)
      | Option.none => .stuck)
    | some (.ref _), .exc e, _ => .exc st e
    | some (.ref _), .ok _, .exc e => .exc st e
    | _, _, _ => .stuck
  | .comp x elt pat it c => match it.eval I st.w st.heap st.vars with
    | .ok v => (match itemsOf st.heap v with
      | some items => (match mapR (compItem I st.w st.heap st.vars elt pat c) items with
        | .ok out => .norm ({ st with heap := st.heap.alloc (out.filterMap id) }.setVar x (.ref st.heap.next))
        | .exc e => .exc st e
        | .stuck => .stuck)
      | Option.none => .stuck)
    | .exc e => .exc st e
    | .stuck => .stuck
  | .call x recv m args kwn kwv =>
    match recv.eval I st.w st.heap st.vars, args.eval I st.w st.heap st.vars, kwv.eval I st.w st.heap st.vars with
    | .ok r, .ok as, .ok ks => afterCall (I.call st.w st.heap r m as (zipKw kwn ks)) st x
    | .exc e, _, _ => .exc st e
    | .ok _, .exc e, _ => .exc st e
    | .ok _, .ok _, .exc e => .exc st e
    | _, _, _ => .stuck
  | .callG x f args => match args.eval I st.w st.heap st.vars with
    | .ok as => afterCall (I.callG st.w st.heap f as) st x
    | .exc e => .exc st e
    | .stuck => .stuck
  | .callV x f args starKw => match f.eval I st.w st.heap st.vars, args.eval I st.w st.heap st.vars, starKwOf st.vars starKw with
    | .ok fv, .ok as, some sk => afterCall (I.callV st.w st.heap fv as sk) st x
    | .exc e, _, _ => .exc st e
    | .ok _, .exc e, _ => .exc st e
    | _, _, _ => .stuck
  | .ite c t e => match c.eval I st.w st.heap st.vars with
    | .ok true => t.exec I L st
    | .ok false => e.exec I L st
    | .exc e => .exc st e
    | .stuck => .stuck
  | .tryExcept body cls handler => (body.exec I L st).catch cls fun st' => handler.exec I L st'
  | .raise cls => .exc st cls
  | .ret e => match e.eval I st.w st.heap st.vars with
    | .ok v => .ret st v
    | .exc e => .exc st e
    | .stuck => .stuck
  | .retNone => .ret st .none
  | .pass => .norm st
def Block.exec (I : Iface H W) (L : List Lam) (st : St H W) : Block → Res H W
  | .nil => .norm st
  | .cons s rest => (s.exec I L st).seq fun st' => rest.exec I L st'
end

def Res.toCall : Res H W → CallRes H W
  | .norm st => .ret st.w st.heap .none          -- falling off the end returns None
  | .ret st v => .ret st.w st.heap v
  | .exc st e => .exc st.w st.heap e
  | .stuck => .stuck

/-- a translated function: its body and the bodies of its nested `def`s -/
structure Prog where
  body : Block
  lams : List Lam

/-- call a function / method: `args` are the parameters (after `self`) -/
def run (I : Iface H W) (p : Prog) (args : List (Val H)) (w : W) (heap : Heap H) : CallRes H W :=
  (p.body.exec I p.lams { w := w, heap := heap, vars := Env.ofArgs args }).toCall

end
end SqlObjVerif.PyJoins
