import SqlObjVerif.Model.EventsX
import SqlObjVerif.Extracted.PyEvSub
/-!
# C19 — the subclass-time copy of listeners as TRANSLATED from the source

`subPostX` RUNS the PyVersion program `vlib/extractors/pyevsub.py` translated from /repo's
`sqlobject/events.py:_makeSubclassConnectionsPost` on this very run, over the world `LW` of `Model/EventsX.lean` (the
dispatcher's connection table and `subclassClones`), calling the TRANSLATED `events.listen` (`listenX`).

## Assumed interface
* `new_class.__bases__` is the list `bases` (a parameter), and the new class is not among its own bases;
* `subclassClones.get(cls, [])` is the list registered for `cls` ([] when there is none), read when the loop is entered
  (`listen(…, new_class, …)` only touches the list of `new_class`);
* calling a weak reference yields the receiver while it is alive (`alive`, a parameter), else `None`; live receivers are
  truthy objects;
* `listen(receiver, new_class, signal)` is the translated `events.listen` with its defaults (`alsoSubclasses=True, weak=True`);
* the declaration machinery (`ClassCreateSignal` → `_makeSubclassConnections` → `early_funcs`) calls
  `_makeSubclassConnectionsPost(new_class)` once when a class is declared (checked as data by the extractor).
-/
namespace SqlObjVerif.Events
open SqlObjVerif.PyVer (Iface CallRes ProcRes R Args)
open SqlObjVerif.PyVer.ExtractedEvSub

/-- the list registered for class `c` in `subclassClones` -/
def clonesOf (cl : List (PVal × List PVal)) (c : PVal) : List PVal :=
  match cl.find? (fun p => decide (p.1 = c)) with
  | some p => p.2
  | none => []

section
variable (bases : List PVal) (alive : PVal → Bool)

def subCall (w : LW) (recv : PVal) (m : String) (a : Args) : CallRes LW :=
  match recv with
  | .obj t g _ =>
    if t = "global" ∧ g = .str "subclassClones" ∧ m = "get" ∧ a.kw = [] ∧ a.star = .none then
      (match a.pos with
       | [c, .nil] => .ret w (PyVer.Val.ofList (clonesOf w.clones c))
       | _ => .stuck)
    else .stuck
  | _ => .stuck

def subCallFn (w : LW) (f : PVal) (a : Args) : CallRes LW :=
  match f with
  | .obj t r _ =>
    if t = "weakref" ∧ a.pos = [] ∧ a.kw = [] ∧ a.star = .none then .ret w (if alive r then r else .none)
    else if t = "global" ∧ r = .str "listen" ∧ a.kw = [] ∧ a.star = .none then
      (match a.pos with
       | [rc, c, s] => (listenX w rc c s (.bool true) (.bool true)).toCall
       | _ => .stuck)
    else .stuck
  | _ => .stuck

def subIface : Iface LW where
  self := .none
  attr := fun _ _ n => if n = "__bases__" then .ok (PyVer.Val.ofList bases) else .stuck
  setAttr := fun _ _ _ _ => none
  global := fun n => if n = "subclassClones" ∨ n = "listen" then some (gl n) else none
  isinstance := fun _ _ _ => none
  contains := fun _ _ _ => none
  getItem := fun _ _ _ => .stuck
  setItem := fun _ _ _ _ => none
  delItem := fun _ _ _ => .stuck
  iter := fun _ _ => none
  items := fun _ _ => none
  dictOf := fun _ _ => none
  call := subCall
  callFn := subCallFn alive
  super := fun _ _ _ _ => .stuck
  proc := fun _ _ _ => .stuck

/-- `events._makeSubclassConnectionsPost(new_class)`, the translated program -/
def subPostX (w : LW) (new : PVal) : ProcRes LW :=
  PyVer.run (subIface bases alive) subPostProg [new] subPost_nlocals w

/-- one entry of a base's clone list copied to the new class (a dead receiver is skipped) -/
def copyOne (new : PVal) (w : LW) (x : PVal) : LW :=
  match x with
  | .pair (.obj _ r _) s => if alive r then listened w r new s (.bool true) else w
  | _ => w

/-- what declaring `new` with the bases `bases` does to the connection table -/
def subclassed (w : LW) (new : PVal) : LW :=
  bases.foldl (fun w b => (clonesOf w.clones b).foldl (copyOne alive new) w) w

end

/-- every entry of every clone list is `(weakref(receiver), signal)` — what `listen` appends -/
def ClonesWF (w : LW) : Prop := ∀ p ∈ w.clones, ∀ x ∈ p.2, ∃ r s, x = .pair (weakOf r) s

end SqlObjVerif.Events
