import SqlObjVerif.Model.Slice
import SqlObjVerif.Model.PyMini
import SqlObjVerif.Extracted.GetItem
/-!
# C10 — `SelectResults.__getitem__` as TRANSLATED from the source

`sliceSelX` / `indexSelX` run the PyMini programs that `vlib/extractors/getitem.py` translated
from /repo's `sresults.py` on this very run, and give their outcomes the meaning the library
gives them (`self`, `self.clone(...)`, `list(self)[a:b]`, …).  `Props/C10.lean` proves they
coincide with the hand-written `sliceSel` / `indexSel` for ALL inputs, so the chain theorem is a
theorem about the translated source.
-/
namespace SqlObjVerif.Slice
open SqlObjVerif.PyMini

def envSlice (w : Win) (a b : Option Int) : Env :=
  [("a", a), ("b", b), ("step", none), ("s0", some (w.start : Int)), ("e0", w.stop.map Int.ofNat)]

def envIndex (w : Win) (i : Int) : Env :=
  [("i", some i), ("s0", some (w.start : Int)), ("e0", w.stop.map Int.ofNat)]

/-- what the library does with the outcome of the slice branch -/
def selOfOutcome (d : Dialect) (xs : List α) (w : Win) : Outcome → Sel α
  | .self => .q w
  | .clone (some s) e =>
    if s < 0 then .err else
    match e with
    | none => .q ⟨s.toNat, none⟩
    | some e => if e < 0 then .err else .q ⟨s.toNat, some e.toNat⟩
  | .listSlice a b =>
    match rows d xs w with
    | some l => .lst (pySlice l a b)
    | none => .err
  | _ => .err

/-- what the library does with the outcome of the index branch -/
def outOfOutcome (d : Dialect) (xs : List α) (w : Win) : Outcome → Out α
  | .listIndex (some i) =>
    match rows d xs w with
    | some l => match pyIndex l i with
      | some x => .item x
      | none => .indexError
    | none => .error
  | .firstOfClone (some s) (some e) =>
    if s < 0 ∨ e < 0 then .error else
    match rows d xs ⟨s.toNat, some e.toNat⟩ with
    | some (x :: _) => .item x
    | some [] => .indexError
    | none => .error
  | .indexError => .indexError
  | _ => .error

/-- `self[a:b]` by running the translated slice branch -/
def sliceSelX (d : Dialect) (xs : List α) (w : Win) (a b : Option Int) : Sel α :=
  selOfOutcome d xs w (run Extracted.sliceProg (envSlice w a b))

/-- `self[i]` by running the translated index branch -/
def indexSelX (d : Dialect) (xs : List α) (w : Win) (i : Int) : Out α :=
  outOfOutcome d xs w (run Extracted.indexProg (envIndex w i))

def stepSelX (d : Dialect) (xs : List α) : Sel α → SliceOp → Sel α
  | .q w, (a, b) => sliceSelX d xs w a b
  | .lst l, (a, b) => .lst (pySlice l a b)
  | .err, _ => .err

def finishX (d : Dialect) (xs : List α) (s : Sel α) (ix : Option Int) : Out α :=
  match s, ix with
  | .err, _ => .error
  | .q w, none => match rows d xs w with
    | some l => .rows l
    | none => .error
  | .q w, some i => indexSelX d xs w i
  | .lst l, none => .rows l
  | .lst l, some i => match pyIndex l i with
    | some x => .item x
    | none => .indexError

/-- the library as translated: a chain of slices then an optional index -/
def evalX (d : Dialect) (xs : List α) (ops : List SliceOp) (ix : Option Int) : Out α :=
  finishX d xs (ops.foldl (stepSelX d xs) (.q ⟨0, none⟩)) ix

end SqlObjVerif.Slice
