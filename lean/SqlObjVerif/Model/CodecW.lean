import SqlObjVerif.Model.PyMainV
import SqlObjVerif.Extracted.PyMainV
/-!
# CodecW — C01's write paths: the TRANSLATED plumbing of main.py (`_SO_setValue`, `set`, `syncUpdate`, `_SO_getValue`,
`_SO_selectInit`; `Extracted/PyMainV.lean`) run with the TRANSLATED validator chains (`Model/CodecXChain.lean`) over a
database row modelled by the hand model's `lit` / `evalLit` / `applyAff` / `fetch`

## ASSUMED INTERFACE
* the class: `n` columns, column `c` (creation order `c`) of kind `kind c`; every column has a validator
  (`_SO_from_python_<name>` / `_SO_to_python_<name>` / `col.to_python` are not None): `Cls.enc` / `Cls.dec`, which
  `Model/CodecWChain.lean` instantiates with the TRANSLATED chains `chainToDb (kind c)` / `chainToPy (kind c)`
  (= `col.from_python` / `col.to_python`, `Model/CodecXChain.lean`; predicate `Translated`);
  the property setter of column `c` calls `_SO_setValue(name, value, self._SO_from_python_<name>,
  self._SO_to_python_<name>)`;
* the connection (`conn`): the instance's row is `Nat → DbVal`; `_SO_update(self, [(dbName, value), …])` renders every
  value with `sqlrepr` (`Codec.lit`), SQLite evaluates the literal (`evalLit`) and stores it with the column's affinity
  (`applyAff (aff kind)`) — `cellOf`; a literal SQLite refuses makes the whole statement fail (`dbError`, nothing
  changes); `_SO_selectOne(self, dbNames)` fetches the cells through the driver (`Codec.fetch`); the INSERT of
  `_SO_finishCreate` stores the value list the same way (see `Lemmas/CodecW*.lean`);
* signals: no listener (as in `Model/PyMain.lean`); one thread (the lock is free).
-/
namespace SqlObjVerif.CodecW

open SqlObjVerif.Codec (PyVal ColT DbVal)
open SqlObjVerif.PyMainV
open SqlObjVerif.PyMainV.Extracted

structure Cls where
  n : Nat
  kind : Nat → ColT
  lazyUpdate : Bool
  cacheValues : Bool
  /-- `from_python` / `to_python` of column `c` (`Model/CodecWChain.lean`: the TRANSLATED validator chains) -/
  enc : Nat → PyVal → Codec.Res PyVal
  dec : Nat → PyVal → Codec.Res PyVal

def klassOf (C : Cls) : Klass :=
  { lazyUpdate := C.lazyUpdate, cacheValues := C.cacheValues, ncols := C.n,
    hasFrom := fun c => Nat.blt c C.n, hasTo := fun c => Nat.blt c C.n,
    enc := C.enc, dec := C.dec,
    classAttr := fun _ => false }

abbrev Row := Nat → DbVal

/-- the cell a column of kind `T` holds after `… SET col = <sqlrepr y>` -/
def cellOf (T : ColT) (y : PyVal) : Codec.Res DbVal :=
  match Codec.lit y with
  | .ok l =>
    match Codec.evalLit l with
    | none => .reject
    | some v =>
      match Codec.applyAff (Codec.aff T) v with
      | none => .unmodelled
      | some c => .ok c
  | .invalid => .invalid
  | .reject => .reject
  | .unmodelled => .unmodelled

/-- `UPDATE t SET c1 = …, c2 = … WHERE id = …` (also the value list of the INSERT): all or nothing -/
def applyUpd (C : Cls) : Row → List (Nat × PyVal) → Codec.Res Row
  | g, [] => .ok g
  | g, p :: rest =>
    match cellOf (C.kind p.1) p.2 with
    | .ok cell => applyUpd C (fun k => if k = p.1 then cell else g k) rest
    | .unmodelled => .unmodelled
    | _ => .reject

def conn (C : Cls) : ConnOps Row :=
  { selectOne := fun g cols => some (g, some (cols.map fun c => Codec.fetch (g c))),
    update := fun g p => applyUpd C g p,
    cacheExpire := fun g => g }

/-- a loaded instance that is not being created, with the given cached attributes -/
def objOf (vals : Nat → Option PyVal) : Obj :=
  { vals := vals, createValues := [], expired := false, dirty := false, creating := false, obsolete := false,
    sigSuppress := false, inCache := true, lock := false }

def worldOf (C : Cls) (o : Obj) (g : Row) : World Row := { o := o, g := g, k := klassOf C }

/-! ### the translated methods -/

/-- `obj.<col c> = v`: the property setter calls `_SO_setValue` -/
def setValueX (C : Cls) (w : World Row) (c : Nat) (v : PyVal) : Outcome Row :=
  run (conn C) noCall setValueProg [.name c, .val v, .fn .fromPy c, .fn .toPy c] [] setValue_nlocals setValue_nlists
    setValue_ndicts w

/-- `obj.set(<col c>=v)` -/
def setX (C : Cls) (w : World Row) (kw : PDict) : Outcome Row :=
  run (conn C) noCall setProg [.val (.bool false)] kw set_nlocals set_nlists set_ndicts w

def syncUpdateX (C : Cls) (w : World Row) : Outcome Row :=
  run (conn C) noCall syncUpdateProg [] [] syncUpdate_nlocals syncUpdate_nlists syncUpdate_ndicts w

/-- the uncached read `_SO_getValue(<col c>)` -/
def getValueX (C : Cls) (w : World Row) (c : Nat) : Outcome Row :=
  run (conn C) noCall getValueProg [.name c] [] getValue_nlocals getValue_nlists getValue_ndicts w

/-- `_SO_selectInit(row)` -/
def selectInitX (C : Cls) (w : World Row) (row : List PyVal) : Outcome Row :=
  run (conn C) noCall selectInitProg [.row row] [] selectInit_nlocals selectInit_nlists selectInit_ndicts w

/-! ### composing a write path with a read path -/

/-- the value a read returns, in the hand model's terms -/
def outRes : Outcome Row → Option (Codec.Res PyVal)
  | .ret _ (.val x) => some (.ok x)
  | .exc _ .invalid => some .invalid
  | .exc _ _ => some .reject
  | .unmodelled => some .unmodelled
  | _ => none

/-- go on in the world a method left; an exception of the write ends the path -/
def thenW (o : Outcome Row) (k : World Row → Option (Codec.Res PyVal)) : Option (Codec.Res PyVal) :=
  match o with
  | .ret w _ => k w
  | .exc _ .invalid => some .invalid
  | .exc _ _ => some .reject
  | .unmodelled => some .unmodelled
  | _ => none

/-- HAND MODEL of "write `v` into a column of kind `T`, then read the column from the database": the validator chain
    (`toDb`), the value the writer caches (`toPy` of the database-side value: an exception there ends the write before
    any statement is sent), the statement, the fetch, `toPy` -/
def writeReadM (T : ColT) (v : PyVal) : Codec.Res PyVal :=
  (Codec.toDb T v).bind fun y => (Codec.toPy T y).bind fun _ => (Codec.roundtrip T y).bind (Codec.toPy T)

/-! ### C01's write paths, followed by an uncached read of the column -/

/-- `syncUpdate()` after the assignment when the class is lazy -/
def flushIf (C : Cls) (o : Outcome Row) : Outcome Row :=
  if C.lazyUpdate then
    match o with
    | .ret w _ => syncUpdateX C w
    | o => o
  else o

/-- read column `c` with the translated `_SO_getValue` in the world the write path left -/
def readCol (C : Cls) (c : Nat) (o : Outcome Row) : Option (Codec.Res PyVal) :=
  thenW o fun w => outRes (getValueX C w c)

/-- path "setattr" (`obj.col = v`; + `syncUpdate()` on a lazy class) on a loaded instance -/
def setattrPath (C : Cls) (vals : Nat → Option PyVal) (g : Row) (c : Nat) (v : PyVal) : Option (Codec.Res PyVal) :=
  readCol C c (flushIf C (setValueX C (worldOf C (objOf vals) g) c v))

/-- path "set" (`obj.set(col=v)`; + `syncUpdate()` on a lazy class) -/
def setPath (C : Cls) (vals : Nat → Option PyVal) (g : Row) (c : Nat) (v : PyVal) : Option (Codec.Res PyVal) :=
  readCol C c (flushIf C (setX C (worldOf C (objOf vals) g) [(c, .val v)]))

/-- an instance `_create` has just prepared: `_creating` set, `_SO_createValues = {}`, no attribute yet -/
def createObj : Obj :=
  { vals := fun _ => none, createValues := [], expired := false, dirty := false, creating := true, obsolete := false,
    sigSuppress := false, inCache := true, lock := false }

/-- HAND-MODELLED glue of the path "create" (`_create` / `_SO_finishCreate` are translated for C06 in
    `Model/PyCreate.lean` over another value type): `_SO_finishCreate` INSERTs the value list of `_SO_createValues`
    (`queryInsertID(self, id, names, values)`: every value stored as an UPDATE stores it, into a row whose other cells
    are NULL), clears `_creating`, `dirty` and `_SO_createValues` -/
def finishCreateM (C : Cls) (w : World Row) : Outcome Row :=
  match applyUpd C (fun _ => .null) w.o.createValues with
  | .ok g' => .ret { w with o := { w.o with creating := false, dirty := false, createValues := [] }, g := g' } .none
  | .unmodelled => .unmodelled
  | _ => .exc w .dbError

/-- path "create" (`Cls(col=v)`): `_create` calls the TRANSLATED `set(**kw)` while creating, then `_SO_finishCreate` -/
def createPath (C : Cls) (c : Nat) (v : PyVal) : Option (Codec.Res PyVal) :=
  readCol C c (match setX C (worldOf C createObj (fun _ => .null)) [(c, .val v)] with
    | .ret w _ => finishCreateM C w
    | o => o)

end SqlObjVerif.CodecW
