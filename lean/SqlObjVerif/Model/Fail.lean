/-!
# `Fail` — the failure structure of SQLObject's write operations (property C06)

Self-contained executable model.  A write operation is compiled, in the CODE'S order
(`main.py`: `_SO_setValue`, `set`, `syncUpdate`, `__init__`/`_create`/`_SO_finishCreate`,
`destroySelf`; `inheritance/__init__.py`: `_create`, `destroySelf`), into a tree of
micro-steps (`Prog`): validate one column, send one SQL statement, change the instance's
cached values, register / unregister an instance in the connection cache, fire an event,
read the database to decide how to go on (`dyn`), run a clean-up handler (`guard`).
One generic interpreter (`run`) executes such a tree, counts the statements, injects a
database error at the k-th statement, lets the database reject a statement (duplicate key,
NOT NULL, CHECK) with statement-level atomicity, and keeps a ghost counter `changes` of the
completed micro-steps that changed anything.

What other models cover is left out on purpose: cache culling/weak references (C04/C09),
value codecs (C01), the cascade closure as a graph property (C12), listeners (C19).
-/
namespace SqlObjVerif.Fail

abbrev Val := Option Int

inductive Err
  | invalid       -- formencode Invalid (validation of one value)
  | typeError     -- unexpected keyword / missing required keyword
  | attrError     -- a property setter given as keyword raised
  | duplicate     -- dberrors.DuplicateEntryError
  | dbIntegrity   -- dberrors.IntegrityError (NOT NULL, CHECK)
  | operational   -- dberrors.OperationalError (the injected database error)
  | interrupt     -- a BaseException that is not an Exception (KeyboardInterrupt) raised by the driver
  | integrity     -- SQLObjectIntegrityError: restricting reference
  | recursion     -- fuel exhausted (a cascade cycle in the data; RecursionError)
  deriving DecidableEq, Repr

/-- cascade policy of a foreign key column: `cascade=None / False / 'null' / True` -/
inductive Pol
  | none | restrict | null | cascade
  deriving DecidableEq, Repr

structure Col where
  unique : Bool := false
  notNull : Bool := false
  /-- `CHECK (col < bound)` -/
  check : Option Int := none
  fk : Option (Nat × Pol) := none
  deriving DecidableEq, Repr

/-- a RelatedJoin declared on a class: link table, other class, which component of a link
    row holds this class's id (`false`: the first) -/
structure Join where
  tab : Nat
  other : Nat
  side : Bool
  deriving DecidableEq, Repr

structure Cls where
  cols : List Col
  lazy : Bool := false
  /-- InheritableSQLObject child: index of the parent class -/
  parent : Option Nat := none
  joins : List Join := []
  deriving Repr

/-- classes in registry order (the order `destroySelf`'s dependents loop uses) -/
abbrev Schema := List Cls

def clsOf (sch : Schema) (c : Nat) : Cls := sch.getD c { cols := [] }
def colOf (cols : List Col) (j : Nat) : Col := cols.getD j {}

structure Row where
  id : Nat
  vals : List Val
  deriving DecidableEq, Repr

/-- an instance reachable by the application or by the connection cache -/
structure Inst where
  cls : Nat
  id : Nat
  /-- the cached column values (`_SO_val_*`): what attribute reads return -/
  vals : List Val
  /-- `_SO_createValues` of a lazy instance -/
  pending : List (Nat × Val)
  dirty : Bool
  obsolete : Bool
  deriving DecidableEq, Repr

/-- what C06 speaks about -/
structure Core where
  tabs : List (List Row)
  links : List (List (Nat × Nat))
  insts : List Inst
  reg : List (Nat × Nat)
  deriving DecidableEq, Repr

inductive Stmt
  | insert (c : Nat) (id : Option Nat) (vals : List Val)
  | update (c id : Nat) (asg : List (Nat × Val))
  | delete (c id : Nat)
  | delLinks (t : Nat) (side : Bool) (id : Nat)
  /-- any read: SELECT of a row, COUNT(*), the SELECT behind an iteration -/
  | select (c : Nat)
  deriving DecidableEq, Repr

structure St where
  core : Core
  /-- sqlite_sequence (AUTOINCREMENT): last id handed out per table; not part of `core` -/
  seqs : List Nat
  /-- cursor.lastrowid -/
  lastId : Nat
  /-- ghost: statements sent so far by the running operation -/
  n : Nat
  /-- ghost: completed micro-steps that changed `core` -/
  changes : Nat
  /-- ghost: the statements sent, latest first -/
  log : List Stmt
  deriving Repr

def St.tab (s : St) (c : Nat) : List Row := s.core.tabs.getD c []

/-! ## the database: one statement, atomically -/

def nnBad (cols : List Col) (asg : List (Nat × Val)) : Bool :=
  asg.any fun a => (colOf cols a.1).notNull && a.2.isNone

def ckBad (cols : List Col) (asg : List (Nat × Val)) : Bool :=
  asg.any fun a => match (colOf cols a.1).check, a.2 with
    | some b, some x => decide (b ≤ x)
    | _, _ => false

def uqBad (cols : List Col) (rows : List Row) (self : Nat) (asg : List (Nat × Val)) : Bool :=
  asg.any fun a => (colOf cols a.1).unique && a.2.isSome &&
    rows.any fun r => r.id != self && r.vals.getD a.1 none == a.2

/-- the constraint the engine reports for a row image, if any -/
def reject (cols : List Col) (rows : List Row) (self : Nat) (asg : List (Nat × Val)) : Option Err :=
  if nnBad cols asg then some .dbIntegrity
  else if ckBad cols asg then some .dbIntegrity
  else if uqBad cols rows self asg then some .duplicate
  else none

def assign (vals : List Val) (asg : List (Nat × Val)) : List Val :=
  asg.foldl (fun vs a => vs.set a.1 a.2) vals

def enum (vals : List Val) : List (Nat × Val) := (List.range vals.length).zip vals

def setTab (s : St) (c : Nat) (rows : List Row) : St :=
  { s with core := { s.core with tabs := s.core.tabs.set c rows } }

/-- execute one statement: either rejected with no effect, or applied completely -/
def exec (sch : Schema) (q : Stmt) (s : St) : Except Err St :=
  match q with
  | .select _ => .ok s
  | .insert c id? vals =>
    let rows := s.tab c
    let id := id?.getD (s.seqs.getD c 0 + 1)
    if rows.any (fun r => r.id == id) then .error .duplicate else
    match reject (clsOf sch c).cols rows id (enum vals) with
    | some e => .error e
    | none =>
      let s1 := setTab s c (rows ++ [⟨id, vals⟩])
      let sq := s1.seqs.set c (max (s1.seqs.getD c 0) id)
      .ok { s1 with seqs := sq, lastId := id }
  | .update c id asg =>
    let rows := s.tab c
    if rows.any (fun r => r.id == id) then
      match reject (clsOf sch c).cols rows id asg with
      | some e => .error e
      | none => .ok (setTab s c (rows.map fun r => if r.id == id then { r with vals := assign r.vals asg } else r))
    else .ok s
  | .delete c id => .ok (setTab s c ((s.tab c).filter fun r => r.id != id))
  | .delLinks t side id =>
    let ls := (s.core.links.getD t []).filter fun l => (if side then l.2 else l.1) != id
    .ok { s with core := { s.core with links := s.core.links.set t ls } }

/-! ## in-memory effects -/

inductive Mem
  /-- `setattr(self, '_SO_val_…', value)` for some columns -/
  | cache (c id : Nat) (asg : List (Nat × Val))
  /-- lazy / creating branch: cache the values and `_SO_createValues.update` -/
  | pend (c id : Nat) (asg : List (Nat × Val))
  | dirty (c id : Nat) (b : Bool)
  /-- after `syncUpdate`'s UPDATE: nothing pending, not dirty -/
  | synced (c id : Nat)
  /-- `cache.created(id, cls, self)`: the new instance (showing the values it was given) is registered -/
  | addInst (c id : Nat) (vals : List Val)
  /-- `_init` / `_SO_selectInit`: cached values := the stored row -/
  | reload (c id : Nat)
  /-- `cls.get(id, selectResults=row)` inside `destroySelf`: the registered instance (refreshed
      unless dirty) or a new registered one -/
  | fetch (c id : Nat)
  /-- `cache.expire(id, cls)` -/
  | unreg (c id : Nat)
  /-- `sqlmeta._obsolete = True` -/
  | obsolete (c id : Nat)
  /-- the instance became unreachable (constructor failed, not in the cache) -/
  | drop (c id : Nat)
  deriving Repr

def Inst.is (i : Inst) (c id : Nat) : Bool := i.cls == c && i.id == id

def mapInst (k : Core) (c id : Nat) (f : Inst → Inst) : Core :=
  { k with insts := k.insts.map fun i => if i.is c id then f i else i }

def rowVals (k : Core) (c id : Nat) : Option (List Val) :=
  ((k.tabs.getD c []).find? fun r => r.id == id).map (·.vals)

def updPending (p : List (Nat × Val)) (asg : List (Nat × Val)) : List (Nat × Val) :=
  asg.foldl (fun p a => (p.filter fun b => b.1 != a.1) ++ [a]) p

def applyMem (m : Mem) (k : Core) : Core :=
  match m with
  | .cache c id asg => mapInst k c id fun i => { i with vals := assign i.vals asg }
  | .pend c id asg => mapInst k c id fun i =>
      { i with vals := assign i.vals asg, pending := updPending i.pending asg }
  | .dirty c id b => mapInst k c id fun i => { i with dirty := b }
  | .synced c id => mapInst k c id fun i => { i with pending := [], dirty := false }
  | .addInst c id vals =>
      { k with insts := k.insts ++ [⟨c, id, vals, [], false, false⟩], reg := k.reg ++ [(c, id)] }
  | .reload c id =>
      match rowVals k c id with
      | some vs => mapInst k c id fun i => { i with vals := vs }
      | none => k
  | .fetch c id =>
      match rowVals k c id with
      | none => k
      | some vs =>
        if k.reg.contains (c, id) then mapInst k c id fun i => if i.dirty then i else { i with vals := vs }
        else { k with insts := k.insts ++ [⟨c, id, vs, [], false, false⟩], reg := k.reg ++ [(c, id)] }
  | .unreg c id => { k with reg := k.reg.filter fun r => r != (c, id) }
  | .obsolete c id => mapInst k c id fun i => { i with obsolete := true }
  | .drop c id => { k with insts := k.insts.filter fun i => !(i.is c id) }

/-! ## programs of micro-steps and their interpreter -/

inductive Prog
  | done
  /-- `raise` -/
  | fail (e : Err)
  /-- `from_python` / `to_python` of one value: raises Invalid when the value is bad -/
  | validate (ok : Bool) (k : Prog)
  /-- `sqlmeta.send(<signal>)` (no listener is modelled) -/
  | event (sig : Nat) (k : Prog)
  | stmt (q : Stmt) (k : Prog)
  | mem (m : Mem) (k : Prog)
  /-- the code reads the current state to decide how to go on -/
  | dyn (f : St → Prog)
  /-- `try: body  except BaseException: handler; raise` then `k` -/
  | guard (body handler k : Prog)

/-- database error injected at the k-th statement of the operation -/
structure Inj where
  k : Nat
  err : Err
  deriving DecidableEq, Repr

def hit (inj : Option Inj) (n : Nat) : Option Err :=
  match inj with
  | some i => if i.k = n then some i.err else none
  | none => none

/-- count a completed micro-step if it changed something -/
def bump (s0 s1 : St) : St :=
  if s1.core = s0.core then s1 else { s1 with changes := s1.changes + 1 }

def run (sch : Schema) (inj : Option Inj) : Prog → St → St × Option Err
  | .done, s => (s, none)
  | .fail e, s => (s, some e)
  | .validate ok k, s => if ok then run sch inj k s else (s, some .invalid)
  | .event _ k, s => run sch inj k s
  | .stmt q k, s =>
    let s1 := { s with n := s.n + 1, log := q :: s.log }
    match hit inj s1.n with
    | some e => (s1, some e)
    | none =>
      match exec sch q s1 with
      | .error e => (s1, some e)
      | .ok s2 => run sch inj k (bump s1 s2)
  | .mem m k, s => run sch inj k (bump s { s with core := applyMem m s.core })
  | .dyn f, s => run sch inj (f s) s
  | .guard b h k, s =>
    match run sch inj b s with
    | (s1, none) => run sch inj k s1
    | (s1, some e) =>
      match run sch inj h s1 with
      | (s2, none) => (s2, some e)
      | (s2, some e2) => (s2, some e2)

/-! ## the operations, in the code's order -/

/-- a value handed to the ORM: fails validation, or converts to a database value -/
inductive In
  /-- `from_python` rejects the value (Invalid) -/
  | bad
  /-- `from_python` accepts it (database value `v`) but `to_python` rejects that value: an
      asymmetric validator pair (an int beyond the range of a quantized DecimalStringCol, a user
      validator that only checks on the way back) -/
  | bad2 (v : Val)
  | ok (v : Val)
  deriving DecidableEq, Repr

/-- step 1 of a column's validation: `from_python` -/
def In.fromOk : In → Bool
  | .bad => false
  | _ => true

/-- step 2: `to_python` of the converted value -/
def In.toOk : In → Bool
  | .bad2 _ => false
  | _ => true

def In.isOk (v : In) : Bool := v.fromOk && v.toOk

def In.val : In → Val
  | .ok v => v
  | .bad2 v => v
  | .bad => none

/-- a keyword of `set()` that is not a column -/
inductive Extra
  | unknown    -- no such attribute: TypeError
  | okProp     -- a property whose setter works (and writes nothing)
  | badProp    -- a property whose setter raises AttributeError
  /-- a ForeignKey given by object (`x=obj`, not a plain setter): `setattr` writes the column at once -/
  | fk (col : Nat) (v : Val)
  /-- a column inherited from an ancestor class `p` (InheritableSQLObject): not a plain setter of the
      child, so `set()` hands it to `setattr`, which assigns it on the ancestor's instance — validated
      there and written by its own UPDATE of the ancestor's row -/
  | parentAttr (p col : Nat) (v : In)
  deriving DecidableEq, Repr

/-- per column, in keyword order: `from_python`, then `to_python` — both before any statement -/
def validates (kw : List (Nat × In)) (k : Prog) : Prog :=
  kw.foldr (fun a acc => .validate a.2.fromOk (.validate a.2.toOk acc)) k

/-- `setattr(self, name, value)` for one already converted column value (`_SO_setValue`) -/
def attrProg (sch : Schema) (c id col : Nat) (v : Val) (k : Prog) : Prog :=
  if (clsOf sch c).lazy then
    .event 1 <| .mem (.pend c id [(col, v)]) <| .mem (.dirty c id true) k
  else
    .event 1 <| .stmt (.update c id [(col, v)]) <| .mem (.cache c id [(col, v)]) <| .event 2 k

/-- the loop over the non-column keywords: `setattr(self, name, value)` each, in order -/
def extras (sch : Schema) (c id : Nat) (ex : List Extra) (k : Prog) : Prog :=
  ex.foldr (fun e acc => match e with
    | .unknown => .fail .typeError
    | .badProp => .fail .attrError
    | .okProp => acc
    | .fk col v => attrProg sch c id col v acc
    | .parentAttr p col v => .validate v.fromOk (.validate v.toOk (attrProg sch p id col v.val acc))) k

/-- the same loop while creating (nothing is written before the INSERT) -/
def extrasPure (ex : List Extra) (k : Prog) : Prog :=
  ex.foldr (fun e acc => match e with
    | .unknown => .fail .typeError
    | .badProp => .fail .attrError
    | _ => acc) k

def hasUnknown (ex : List Extra) : Bool := ex.any fun e => e == .unknown

/-- lazy / creating branch of `set()`: an unknown keyword is refused before anything is changed -/
def precheck (ex : List Extra) (k : Prog) : Prog :=
  if hasUnknown ex then .fail .typeError else k

def asgOf (kw : List (Nat × In)) : List (Nat × Val) := kw.map fun a => (a.1, a.2.val)

/-- `UPDATE` lists the columns in creation order -/
def insertAsg (a : Nat × Val) : List (Nat × Val) → List (Nat × Val)
  | [] => [a]
  | b :: bs => if a.1 ≤ b.1 then a :: b :: bs else b :: insertAsg a bs
def sortAsg (asg : List (Nat × Val)) : List (Nat × Val) := asg.foldr insertAsg []

/-- `SQLObject.set(**kw)`; `_SO_setValue` is the one-keyword case without extras -/
def setProg (sch : Schema) (c id : Nat) (kw : List (Nat × In)) (ex : List Extra) (k : Prog) : Prog :=
  let asg := asgOf kw
  if (clsOf sch c).lazy then
    .event 1 <| validates kw <| precheck ex <| .mem (.pend c id asg) <| extras sch c id ex <|
      (if asg.isEmpty then k else .mem (.dirty c id true) k)
  else
    .event 1 <| validates kw <| extras sch c id ex <|
      (if asg.isEmpty then .mem (.cache c id asg) (.event 2 k)
       else .stmt (.update c id (sortAsg asg)) <| .mem (.cache c id asg) <| .event 2 k)

def pendingOf (s : St) (c id : Nat) : List (Nat × Val) :=
  match s.core.insts.find? fun i => i.is c id with
  | some i => i.pending
  | none => []

/-- `syncUpdate()` of a lazy instance -/
def syncProg (c id : Nat) (k : Prog) : Prog :=
  .dyn fun s =>
    let p := pendingOf s c id
    if p.isEmpty then k
    else .stmt (.update c id (sortAsg p)) <| .mem (.synced c id) <| .event 2 k

def valsOf (ncols : Nat) (asg : List (Nat × Val)) : List Val :=
  (List.range ncols).map fun j => match asg.find? fun a => a.1 == j with
    | some a => a.2
    | none => none

/-- `__init__` → `_create` → `set` (creating branch) → `_SO_finishCreate`; `kw` in the order
    the values are validated (keywords, then defaulted columns); `k` receives the new id -/
def createProg (sch : Schema) (c : Nat) (id? : Option Nat) (missing : Bool) (kw : List (Nat × In))
    (ex : List Extra) (k : Nat → Prog) : Prog :=
  let vals := valsOf (clsOf sch c).cols.length (asgOf kw)
  .event 3 <|
  (if missing then .fail .typeError else
   validates kw <| precheck ex <| extrasPure ex <|
   .stmt (.insert c id? vals) <| .dyn fun s =>
     let id := s.lastId
     .mem (.addInst c id vals) <| .stmt (.select c) <| .mem (.reload c id) <| k id)

def fkCols (cols : List Col) (target : Nat) : List (Nat × Pol) :=
  (enumFrom cols).filterMap fun jc => match jc.2.fk with
    | some (t, p) => if t == target && p != .none then some (jc.1, p) else none
    | none => none
where enumFrom (cols : List Col) : List (Nat × Col) := (List.range cols.length).zip cols

def rowRefs (fk : List (Nat × Pol)) (id : Nat) (vals : List Val) : Bool :=
  fk.any fun a => vals.getD a.1 none == some (Int.ofNat id)

def instVals (s : St) (c id : Nat) (dflt : List Val) : List Val :=
  match s.core.insts.find? fun i => i.is c id with
  | some i => i.vals
  | none => dflt

/-- `for row in results`: `SelectResults.__iter__` materialises the whole list first, so every
    matching row is fetched (registered / refreshed) before the loop body runs for the first -/
def fetchAll (kidx : Nat) (rows : List Row) (k : Prog) : Prog :=
  rows.foldr (fun r acc => .mem (.fetch kidx r.id) acc) k

/-! one entry of `destroySelf`'s dependents loop (class `kidx` depending on victim `(c, vid)`),
    as a composition of segments, each taking the rest of the operation as its continuation -/

/-- related joins of class `kidx` towards the victim's class: DELETE the link rows -/
def freeLinksSeg (kc : Cls) (c vid : Nat) (cont : Prog) : Prog :=
  (kc.joins.filter fun j => j.other == c).foldr (fun j acc => .stmt (.delLinks j.tab (!j.side) vid) acc) cont

def restrictCols (fk : List (Nat × Pol)) : List (Nat × Pol) := fk.filter fun a => a.2 == .restrict
def nullCols (fk : List (Nat × Pol)) : List Nat := (fk.filter fun a => a.2 == .null).map (·.1)
def hasCascade (fk : List (Nat × Pol)) : Bool := fk.any fun a => a.2 == .cascade

/-- rows of class `kidx` that reference the victim through a `cascade=False` key -/
def restrictingRows (s : St) (fk : List (Nat × Pol)) (kidx vid : Nat) : Bool :=
  (s.tab kidx).any fun r => rowRefs (restrictCols fk) vid r.vals

/-- rows of class `kidx` that reference the victim through any key with a policy -/
def refRows (s : St) (fk : List (Nat × Pol)) (kidx vid : Nat) : List Row :=
  (s.tab kidx).filter fun r => rowRefs fk vid r.vals

/-- `if restrict and k.select(OR(*restrict)).count(): raise` -/
def restrictSeg (fk : List (Nat × Pol)) (kidx vid : Nat) (cont : Prog) : Prog :=
  if (restrictCols fk).isEmpty then cont else
    .stmt (.select kidx) <| .dyn fun s =>
      if restrictingRows s fk kidx vid then .fail .integrity else cont

/-- `if setnull: for row in results: row.set(**clear)` (and `syncUpdate()` for a lazy class) -/
def nullSeg (sch : Schema) (fk : List (Nat × Pol)) (kidx vid : Nat) (cont : Prog) : Prog :=
  if (nullCols fk).isEmpty then cont else
    .stmt (.select kidx) <| .dyn fun s =>
      let rows := refRows s fk kidx vid
      fetchAll kidx rows <| rows.foldr
        (fun r acc => .dyn fun s1 =>
          let vs := instVals s1 kidx r.id r.vals
          let clear := (nullCols fk).filter fun j => vs.getD j none == some (Int.ofNat vid)
          setProg sch kidx r.id (clear.map fun j => (j, In.ok none)) [] <|
            (if (clsOf sch kidx).lazy then syncProg kidx r.id acc else acc)) cont

/-- `if delete: for row in results: row.destroySelf()` -/
def cascadeSeg (rec : Nat → Nat → Prog → Prog) (fk : List (Nat × Pol)) (kidx vid : Nat) (cont : Prog) : Prog :=
  if hasCascade fk then
    .stmt (.select kidx) <| .dyn fun s =>
      let rows := refRows s fk kidx vid
      fetchAll kidx rows <| rows.foldr (fun r acc => rec kidx r.id acc) cont
  else cont

def depEntry (rec : Nat → Nat → Prog → Prog) (sch : Schema) (c vid kidx : Nat) (k : Prog) : Prog :=
  let kc := clsOf sch kidx
  let fk := fkCols kc.cols c
  if fk.isEmpty then freeLinksSeg kc c vid k else
  freeLinksSeg kc c vid <| restrictSeg fk kidx vid <| nullSeg sch fk kidx vid <| cascadeSeg rec fk kidx vid k

/-- the victim's own related joins: DELETE its link rows -/
def ownLinksSeg (cl : Cls) (id : Nat) (cont : Prog) : Prog :=
  cl.joins.foldr (fun j acc => .stmt (.delLinks j.tab j.side id) acc) cont

/-- the whole dependents loop, in registry order -/
def depLoop (rec : Nat → Nat → Prog → Prog) (sch : Schema) (c id : Nat) (ks : List Nat) (cont : Prog) : Prog :=
  ks.foldr (fun kidx acc => depEntry rec sch c id kidx acc) cont

/-- own DELETE, then `_obsolete = True`, `cache.expire`, RowDestroyedSignal -/
def destroyTail (c id : Nat) (k : Prog) : Prog :=
  .stmt (.delete c id) <| .mem (.obsolete c id) <| .mem (.unreg c id) <| .event 6 k

/-- `destroySelf()` (the inheritable override destroys the parent instance first) -/
def destroyProg (sch : Schema) : Nat → Nat → Nat → Prog → Prog
  | 0, _, _, _ => .fail .recursion
  | fuel + 1, c, id, k =>
    let cl := clsOf sch c
    let own : Prog :=
      .event 5 <| ownLinksSeg cl id <|
      depLoop (destroyProg sch fuel) sch c id (List.range sch.length) <| destroyTail c id k
    match cl.parent with
    | some p => destroyProg sch fuel p id own
    | none => own

def fuelOf (s : St) : Nat := (s.core.tabs.map List.length).sum + 3

/-- `InheritableSQLObject._create`, any depth; levels leaf first, each with its class and its
    keywords in validation order.  The parent instance is created first (recursively: its own
    `_create` creates the grandparent …); the level's own `_create` then runs under
    `try … except BaseException: self._parent.destroySelf(); raise` (the inheritable
    `destroySelf` of the parent instance removes the ancestors' rows too). -/
def createInh (sch : Schema) (fuel : Nat) : List (Nat × List (Nat × In)) → (Nat → Prog) → Prog
  | [], k => k 0
  | [(c, kw)], k => createProg sch c none false kw [] k
  | (c, kw) :: (p, pkw) :: rest, k =>
    let cvals := valsOf (clsOf sch c).cols.length (asgOf kw)
    createInh sch fuel ((p, pkw) :: rest) fun pid =>
      .guard
        (validates kw <| .stmt (.insert c (some pid) cvals) <| .mem (.addInst c pid cvals) <|
          .stmt (.select c) <| .mem (.reload c pid) .done)
        (destroyProg sch fuel p pid <|
          -- the destroyed parent instances are unreachable now
          (((p, pkw) :: rest).foldr (fun a acc => .mem (.drop a.1 pid) acc) .done))
        (k pid)

def createChildProg (sch : Schema) (fuel : Nat) (c p : Nat) (pkw ckw : List (Nat × In)) : Prog :=
  createInh sch fuel [(c, ckw), (p, pkw)] fun _ => .done

inductive Op
  /-- `obj.col = v` -/
  | setattr (c id col : Nat) (v : In)
  /-- `obj.set(col=v, …, extra=…)` -/
  | set (c id : Nat) (kw : List (Nat × In)) (ex : List Extra)
  /-- `obj.syncUpdate()` -/
  | sync (c id : Nat)
  /-- `Cls(col=v, …)`; `missing`: a required keyword was not given -/
  | create (c : Nat) (missing : Bool) (kw : List (Nat × In)) (ex : List Extra)
  /-- `Child(…)` of an inheritable pair: parent keywords, child keywords -/
  | createChild (c : Nat) (pkw ckw : List (Nat × In))
  /-- `Leaf(…)` of an inheritable chain of any depth: (class, keywords) leaf first -/
  | createChain (levels : List (Nat × List (Nat × In)))
  /-- `obj.destroySelf()` -/
  | destroy (c id : Nat)
  deriving Repr

def progOf (sch : Schema) (s : St) : Op → Prog
  | .setattr c id col v => setProg sch c id [(col, v)] [] .done
  | .set c id kw ex => setProg sch c id kw ex .done
  | .sync c id => syncProg c id .done
  | .create c missing kw ex => createProg sch c none missing kw ex fun _ => .done
  | .createChild c pkw ckw =>
    match (clsOf sch c).parent with
    | some p => createChildProg sch (fuelOf s) c p pkw ckw
    | none => createProg sch c none false ckw [] fun _ => .done
  | .createChain levels => createInh sch (fuelOf s) levels fun _ => .done
  | .destroy c id => destroyProg sch (fuelOf s) c id .done

/-- one operation, with an optional database error injected at its k-th statement -/
def step (sch : Schema) (s : St) (op : Op) (inj : Option Inj) : St × Option Err :=
  let s0 := { s with n := 0, log := [] }
  run sch inj (progOf sch s0 op) s0

def St.empty (sch : Schema) (nlinks : Nat) : St :=
  { core := { tabs := sch.map fun _ => [], links := List.replicate nlinks [], insts := [], reg := [] },
    seqs := sch.map fun _ => 0, lastId := 0, n := 0, changes := 0, log := [] }

end SqlObjVerif.Fail
