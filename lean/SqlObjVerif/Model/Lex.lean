import SqlObjVerif.Model.LexSyn
import SqlObjVerif.Extracted.Lex
/-!
# `Lex` — the literal pipeline of sqlobject and the reference lexers it is judged against

Two halves.

* **Model of the code** (`converters.py`, `sqlbuilder.quote_str`, `dbconnection.py` statement
  formats), written over the constants of `Extracted/Lex.lean`:
  `escape`, `renderString`, `quoteStr`, `render` (values), `insertSQL` / `updateSQL` / `columnClause`.
* **Specification** written from the vendors' documented lexical rules (trusted; SQLite's is
  cross-checked by execution): `lexString` (one string literal) and `tokens` (a whole statement).

Public API used by other models: `Dialect`, `Str`, `escape`, `renderString`, `quoteStr`, `lexString`,
`digits`, `fmt`, `joinSep`, `Val`, `render`, `Tok`, `tokens`.
-/
namespace SqlObjVerif.Lex
open Extracted

/-! ## model of the code -/

/-- Python `s.replace(o, r)` for a one-character `o` -/
def replace1 (o : Nat) (r : Str) (s : Str) : Str :=
  s.flatMap fun c => if c = o then r else [c]

/-- `for orig, repl in tbl: value = value.replace(orig, repl)` -/
def escapeSeq (tbl : List (Nat × Str)) (s : Str) : Str :=
  tbl.foldl (fun v p => replace1 p.1 p.2 v) s

/-- the branch of `StringLikeConverter` taken for `d` (`none`: the `assert 0` branch) -/
def escAction (d : Dialect) : Option EscAction :=
  (stringBranches.find? fun b => b.1.contains d).map (·.2)

/-- the escaped body `StringLikeConverter` puts between the quotes -/
def escape (d : Dialect) (s : Str) : Str :=
  match escAction d with
  | some .table => escapeSeq sqlStringReplace s
  | some (.single o r) => replace1 o r s
  | none => s

/-- `"E'%s'" % body` when the dialect is listed and the trigger occurs in the body, else `"'%s'"` -/
def quoteWith (ds : List Dialect) (trig : Nat) (eo ec po pc : Str) (d : Dialect) (body : Str) : Str :=
  if ds.contains d && body.contains trig then eo ++ body ++ ec else po ++ body ++ pc

/-- `sqlrepr(s, d)` for a `str` -/
def renderString (d : Dialect) (s : Str) : Str :=
  quoteWith ePrefixDialects ePrefixTrigger eOpen eClose plainOpen plainClose d (escape d s)

/-- `sqlbuilder.quote_str(s, d)` (no escaping, only the quotes) -/
def quoteStr (d : Dialect) (s : Str) : Str :=
  quoteWith qsDialects qsTrigger qsEOpen qsEClose qsOpen qsClose d s

/-- decimal digits of a natural number (`repr(int)`) -/
def digits (n : Nat) : Str :=
  if n < 10 then [48 + n] else digits (n / 10) ++ [48 + n % 10]
termination_by n
decreasing_by omega

def padZero (w : Nat) (s : Str) : Str := List.replicate (w - s.length) 48 ++ s

/-- `repr(int(v))` -/
def renderInt (i : Int) : Str :=
  if i < 0 then 45 :: digits (-i).toNat else digits i.toNat

/-- `fmt % args`: `ns` are the numeric fields (`.num w k` takes the k-th), `as` the `%s` arguments in order -/
def fmt : List FmtPiece → List Nat → List Str → Str
  | [], _, _ => []
  | .lit t :: ps, ns, as => t ++ fmt ps ns as
  | .num w k :: ps, ns, as => padZero w (digits (ns.getD k 0)) ++ fmt ps ns as
  | .arg :: ps, ns, a :: as => a ++ fmt ps ns as
  | .arg :: ps, ns, [] => fmt ps ns []

/-- `sep.join(l)` -/
def joinSep (sep : Str) : List Str → Str
  | [] => []
  | a :: t => a ++ (t.map (sep ++ ·)).flatten

/-- Python values given as data -/
inductive Val where
  | str (s : Str)
  | int (i : Int)
  | bool (b : Bool)
  | null
  | date (y m d : Nat)
  | time (h mi s us : Nat)
  | datetime (y m d h mi s us : Nat)
  | num (neg : Bool) (mant : Str) (exp : Option (Nat × Str))
      -- `repr(float)` / `Decimal.to_eng_string()`: `[-]mantissa[(+|-)exponent]`, the runs uninterpreted (`1.5e`, `07`, `inf`, `NaN`)
  | seq (l : List Val)      -- tuple / list
  | instInt (id : Int)      -- an SQLObject instance with an integer id: `SQLObject.__sqlrepr__` = `sqlrepr(self.id, db)`
  | instStr (id : Str)      -- … with a string id (`sqlmeta.idType = str`)

def Val.isNull : Val → Bool
  | .null => true
  | _ => false

def renderBool (d : Dialect) (b : Bool) : Str :=
  if boolSpecialDialects.contains d then (if b then boolSpecialTrue else boolSpecialFalse)
  else (if b then boolTrue else boolFalse)

def expText : Option (Nat × Str) → Str
  | some (sg, e) => sg :: e
  | none => []

def renderNum (neg : Bool) (mant : Str) (exp : Option (Nat × Str)) : Str :=
  (if neg then [45] else []) ++ mant ++ expText exp

mutual
/-- `sqlrepr(v, d)` -/
def render (d : Dialect) : Val → Str
  | .str s => renderString d s
  | .int i => renderInt i
  | .bool b => renderBool d b
  | .null => noneLit
  | .date y m dd => fmt dateFmt [y, m, dd] []
  | .time h mi s us => fmt timeFmt [h, mi, s, us] []
  | .datetime y m dd h mi s us => fmt dateTimeFmt [y, m, dd, h, mi, s, us] []
  | .num neg mant exp => renderNum neg mant exp
  | .instInt i => renderInt i
  | .instStr s => renderString d s
  | .seq l => seqOpen ++ renderSeq d l ++ seqClose
/-- `", ".join([sqlrepr(v, d) for v in l])` -/
def renderSeq (d : Dialect) : List Val → Str
  | [] => []
  | v :: vs => render d v ++ renderTail d vs
def renderTail (d : Dialect) : List Val → Str
  | [] => []
  | v :: vs => seqSep ++ render d v ++ renderTail d vs
end

/-- `DBAPI._insertSQL(table, names, values)` -/
def insertSQL (d : Dialect) (table : Str) (names : List Str) (vs : List Val) : Str :=
  fmt insertFmt [] [table, joinSep insertNameSep names, joinSep insertValueSep (vs.map (render d))]

/-- the statement `DBAPI._SO_update` sends -/
def updateSQL (d : Dialect) (table : Str) (sets : List (Str × Val)) (idName : Str) (idv : Val) : Str :=
  fmt updateFmt [] [table,
    joinSep updateSetSep (sets.map fun p => fmt updateSetFmt [] [p.1, render d p.2]),
    idName, render d idv]

/-- the WHERE text `DBAPI._SO_columnClause` returns for the collected `(dbName, value)` list -/
def columnClause (d : Dialect) (data : List (Str × Val)) : Str :=
  joinSep clauseSep (data.map fun p =>
    fmt clauseFmt [] [p.1, if p.2.isNull then clauseIsOp else clauseEqOp, render d p.2])

/-! ## specification: reference lexers (trusted; written from the vendors' documentation)

* `ansi`: SQLite, Firebird, Sybase, MaxDB, MSSQL, and PostgreSQL's plain `'…'` with
  `standard_conforming_strings = on`: `''` is a quote, everything else is itself.
* `mysql`: default `sql_mode` (no `NO_BACKSLASH_ESCAPES`): `''` and the backslash escapes of the
  manual ("String Literals", table of special character escape sequences); `\%` and `\_` keep the backslash.
* `pgE`: PostgreSQL `E'…'`: `''`, `\b \f \n \r \t`, `\o \oo \ooo`, any other `\c` is `c`; an octal
  escape producing byte 0 is an error ("invalid byte sequence"); `\x`, `\u`, `\U`, `\'` and octal
  values ≥ 128 are not modelled and make the lexer fail (never emitted by the renderer).
* A raw NUL cannot be sent in a statement (C-string APIs; python's sqlite3 raises): error.
-/

inductive Mode where
  | ansi | mysql | pgE
deriving DecidableEq, Repr

def push (p : Str) : Option (Str × Str) → Option (Str × Str)
  | some (s, r) => some (p ++ s, r)
  | none => none

def isOct (c : Nat) : Bool := 48 ≤ c && c ≤ 55

def mysqlEsc (c : Nat) : Str :=
  if c = 48 then [0] else if c = 98 then [8] else if c = 110 then [10] else if c = 114 then [13]
  else if c = 116 then [9] else if c = 90 then [26] else if c = 37 then [92, 37]
  else if c = 95 then [92, 95] else [c]

def pgEsc (c : Nat) : Option Nat :=
  if c = 98 then some 8 else if c = 102 then some 12 else if c = 110 then some 10
  else if c = 114 then some 13 else if c = 116 then some 9
  else if c = 120 ∨ c = 117 ∨ c = 85 ∨ c = 39 then none else some c

def isOctHead : Str → Bool
  | c :: _ => isOct c
  | [] => false

def octPush (v : Nat) (k : Option (Str × Str)) : Option (Str × Str) :=
  if v % 256 = 0 ∨ 128 ≤ v then none else push [v] k

/-- body of a string literal after the opening quote: `(decoded, text after the closing quote)` -/
def lexBody (m : Mode) : Str → Option (Str × Str)
  | [] => none
  | c :: cs =>
    if c = 39 then
      match cs with
      | [] => some ([], [])
      | c2 :: cs2 => if c2 = 39 then push [39] (lexBody m cs2) else some ([], cs)
    else if c = 0 then none
    else if c = 92 ∧ m ≠ .ansi then
      match cs with
      | [] => none
      | e :: cs2 =>
        if m = .mysql then push (mysqlEsc e) (lexBody m cs2)
        else if isOct e then
          if isOctHead cs2 then
            match cs2 with
            | [] => none
            | o2 :: cs3 =>
              if isOctHead cs3 then
                match cs3 with
                | [] => none
                | o3 :: cs4 => octPush (((e - 48) * 8 + (o2 - 48)) * 8 + (o3 - 48)) (lexBody m cs4)
              else octPush ((e - 48) * 8 + (o2 - 48)) (lexBody m cs3)
          else octPush (e - 48) (lexBody m cs2)
        else
          match pgEsc e with
          | some x => push [x] (lexBody m cs2)
          | none => none
    else push [c] (lexBody m cs)

def plainMode : Dialect → Mode
  | .mysql => .mysql
  | _ => .ansi

/-- reference lexer for one string literal at the head of the input -/
def lexString (d : Dialect) (inp : Str) : Option (Str × Str) :=
  match inp with
  | [] => none
  | c :: cs =>
    if c = 39 then lexBody (plainMode d) cs
    else if d = .postgres ∧ (c = 69 ∨ c = 101) then
      match cs with
      | [] => none
      | q :: cs2 => if q = 39 then lexBody .pgE cs2 else none
    else none

/-- tokens of the reference statement lexer -/
inductive Tok where
  | str (s : Str)      -- a string literal, decoded
  | word (w : Str)     -- keyword / identifier / number: maximal run of word characters
  | punct (c : Nat)    -- any other single character
deriving DecidableEq, Repr

def isSpace (c : Nat) : Bool := c = 32 || c = 9 || c = 10 || c = 13 || c = 12

def isWordChar (c : Nat) : Bool :=
  (48 ≤ c && c ≤ 57) || (65 ≤ c && c ≤ 90) || (97 ≤ c && c ≤ 122) || c = 95 || c = 46 || 128 ≤ c

/-- characters the reference lexer refuses outside string literals: NUL `"` `` ` `` `#` `$` `\`
    (quoted identifiers, MySQL `#` comments, dollar quoting, stray escapes are not modelled — refusing
    them is conservative: a statement that tokenises contains none of them outside literals) -/
def isRefused (c : Nat) : Bool := c = 0 || c = 34 || c = 96 || c = 35 || c = 36 || c = 92

/-- reference lexer for a whole statement.  Fails on an unterminated literal, on a comment opener
    (`--`, `/*`) outside a literal, on a word glued to a following quote (`N'…'`, `X'…'`, `_utf8'…'`
    literal prefixes are not modelled) and on the refused characters. -/
def tokens (d : Dialect) (inp : Str) : Option (List Tok) :=
  match inp with
  | [] => some []
  | c :: cs =>
    if isSpace c then tokens d cs
    else if c = 39 ∨ (d = .postgres ∧ (c = 69 ∨ c = 101) ∧ cs.head? = some 39) then
      match lexString d (c :: cs) with
      | some (s, r) => if r.length < (c :: cs).length then (tokens d r).map (Tok.str s :: ·) else none
      | none => none
    else if isWordChar c then
      if (cs.dropWhile isWordChar).head? = some 39 then none
      else (tokens d (cs.dropWhile isWordChar)).map (Tok.word (c :: cs.takeWhile isWordChar) :: ·)
    else if isRefused c then none
    else if (c = 45 ∧ cs.head? = some 45) ∨ (c = 47 ∧ cs.head? = some 42) then none
    else (tokens d cs).map (Tok.punct c :: ·)
termination_by inp.length
decreasing_by
  · simp
  · assumption
  · have := (List.dropWhile_suffix (l := cs) isWordChar).length_le
    simp only [List.length_cons]; omega
  · simp

end SqlObjVerif.Lex
