import SqlObjVerif.Model.Tx
import SqlObjVerif.Model.PyTx
import SqlObjVerif.Extracted.PyTx
/-!
# C07 — the `Transaction` methods as TRANSLATED from the source

`assertActiveX`, `soDeleteX`, `beginX`, `makeObsoleteX`, `rollbackX`, `commitX`, `delX` RUN the PyTx programs
`vlib/extractors/pytx.py` translated from /repo's `dbconnection.py` on this very run.  `img s lo` is the image of a
state `s` of the hand-written model (`Model/Tx.lean`) together with the low-level facts `lo` that model leaves
out (they are the per-connection fields of `Model/Hub.lean`: `autoCommit` of the parent connection, the autocommit
mode of the transaction's low-level connection, how many low-level connections are checked out of the pool).
`Lemmas/TxX.lean` (loop-free methods) and `Lemmas/TxXLoop.lean` (`rollback`, `commit`, `__del__`) prove that
each translated method, run from the image of ANY model state, ends in the image of the state the hand model's
function for that operation yields.

Class names are the model's class numbers, ids are `k % 1000`, a key is `class * 1000 + id` (the hand model's
own convention, `clsOf k = k / 1000`).  `self._deletedCache` (a dict class ↦ list of ids) is a dict VALUE of the
embedding; the model's `del` list is its flattening (`encDel`).

## The assumed interface (the parameters of the interpreter)
attributes of `self`:
* `_obsolete`, `_deletedCache`, `_updatedCache`, `_connection` (None exactly when no low-level connection is held),
  `_dbConnection.debug`, `_dbConnection.autoCommit` (truthiness), `_dbConnection`, `_dbConnection.cache`, `cache`;
* `inst.id`, `inst.__class__.__name__` of a transaction-side instance: id and class of its key;
* `PY2` is False.
queries (assumed not to change anything):
* `self.cache.allSubCachesByClassNames()` / `.allSubCaches()` : the per-class caches of the transaction's CacheSet —
  the classes `A.classes t`, in any order, possibly more than hold anything;
* `sub.allIDs()` : `A.ids dc t c`, ANY list (any order, repetitions allowed) whose members are exactly the ids `i`
  with `Conn.inAllIDs dc t (key c i)` (`AllIDsSpec`; C04 ties `CacheFactory.allIDs` to this reading);
* `sub.tryGet(id)`, `self._dbConnection.cache.tryGetByName(id, cls)` : `Conn.tryGet` on the transaction's / the
  parent's cache (C04 ties `CacheFactory.tryGet`).
calls:
* `self._connection.commit()` : the low-level COMMIT: the transaction's view becomes the committed rows, the write
  set is empty, SQLite's write lock is released (`lowCommit`); `.rollback()` : the write set is dropped, the
  lock released (`lowRollback`);
* `inst.expire()` : `Model/Tx.lean`'s `opExpire` on that side: the instance's cached values are dropped and its
  key leaves its connection's cache;
* `self._send_event(signal)`, `self._dbConnection.printDebug(…)` : no effect on the modelled state (listeners
  that use the connection are outside the model);
* `self._dbConnection._setAutoCommit(conn, b)` : the low-level connection's autocommit mode becomes `b`;
  `self._dbConnection.releaseConnection(conn, explicit=True)` : the connection goes back to the pool, nothing is
  committed or rolled back on the way (only with `explicit=True`); `self._dbConnection.getConnection()` : one is
  checked out;
* `meth(inst)` with `meth = types.MethodType(self._dbConnection._SO_delete.__func__, self)` : `DBAPI._SO_delete`
  with the transaction as `self`, i.e. `self.query("DELETE …")`: AssertionError (`assertActive`) when obsolete, else
  the first write takes the lock and the row, if visible, is deleted in the write set;
* `meth(so, values)` with `meth = types.MethodType(self._dbConnection._SO_update.__func__, self)` : `DBAPI._SO_update` with
  the transaction as `self`, i.e. `self.query("UPDATE …")`: AssertionError when obsolete, else the first write takes the
  lock and the row, if visible, gets the new column value in the write set (`values` = `encValues col v`);
* `self._makeObsolete()`, `self.rollback()` : the translated programs themselves.
-/
namespace SqlObjVerif.Tx
open SqlObjVerif.PyTx (Iface CallRes R vdGet vdHas vdSet vlSnoc)

/-- values of the embedding (`Tx.Val` is the model's column value) -/
abbrev PVal := PyTx.Val
open SqlObjVerif.PyTx.Extracted

def idOf (k : Key) : Nat := k % 1000
def mkKey (c i : Nat) : Key := c * 1000 + i

/-- `self._deletedCache` after `_SO_delete` logged key `k` -/
def delAdd (d : PVal) (k : Key) : PVal :=
  match vdGet (.int (clsOf k)) d with
  | some l => vdSet (.int (clsOf k)) (vlSnoc (.int (idOf k)) l) d
  | none => vdSet (.int (clsOf k)) (.cons (.int (idOf k)) .nil) d

/-- the dict the model's deleted log (newest first) stands for -/
def encDel : List Key → PVal
  | [] => .nil
  | k :: l => delAdd (encDel l) k

/-- what the model leaves out about the low-level connection -/
structure Low where
  /-- `self._dbConnection.autoCommit` is truthy -/
  ac : Bool
  debug : Bool
  /-- autocommit mode of the transaction's low-level connection -/
  lowAuto : Bool
  /-- low-level connections checked out of the pool -/
  inUse : Nat

/-- `_makeObsolete` on the low-level side: autocommit back on if the connection wants it, connection released -/
def Low.release (lo : Low) : Low := { lo with lowAuto := if lo.ac then true else lo.lowAuto, inUse := lo.inUse - 1 }

/-- `begin` on the low-level side -/
def Low.acquire (lo : Low) : Low := { lo with lowAuto := false, inUse := lo.inUse + 1 }

structure XT where
  dc : Bool
  db : Key → Option Row
  ws : Key → Option (Option Row)
  lock : Bool
  obsolete : Bool
  /-- `self._deletedCache` -/
  delv : PVal
  /-- `self._updatedCache` -/
  updv : PVal
  dom : List Key
  p : Conn
  t : Conn
  lo : Low
  /-- `self._connection is not None` -/
  hasConn : Bool

def img (s : St) (lo : Low) : XT :=
  { dc := s.dc, db := s.db, ws := s.ws, lock := s.lock, obsolete := s.obsolete, delv := encDel s.del, updv := encDel s.upd, dom := s.dom,
    p := s.p, t := s.t, lo := lo, hasConn := !s.obsolete }

/-- the per-class caches of the transaction's CacheSet and what their `allIDs()` return -/
structure AllIDs where
  classes : Conn → List Nat
  ids : Bool → Conn → Nat → List Nat

/-- what is assumed of `allIDs()` in the state at hand (`dc`, transaction-side connection `t`) -/
structure AllIDsSpec (A : AllIDs) (dc : Bool) (t : Conn) : Prop where
  small : ∀ c i, i ∈ A.ids dc t c → i < 1000
  mem : ∀ k, (clsOf k ∈ A.classes t ∧ idOf k ∈ A.ids dc t (clsOf k)) ↔ t.inAllIDs dc k = true

def optInst (kind : Nat) : Option Nat → PVal
  | some j => .ref kind j
  | none => .none

def XT.viewT (x : XT) (k : Key) : Option Row :=
  match x.ws k with
  | some w => w
  | none => x.db k

/-- object handles: 0 the parent connection, 1 the low-level connection, 2 the transaction's CacheSet, 3 the parent's
    CacheSet, 4 `c`: the transaction's cache of class `c`, 5 `j` / 6 `j`: parent-side / transaction-side instance `j`,
    7 the transaction itself -/
def txGetAttr (x : XT) (path : List String) : R PVal :=
  if path = ["_obsolete"] then .ok (.bool x.obsolete)
  else if path = ["_deletedCache"] then .ok x.delv
  else if path = ["_updatedCache"] then .ok x.updv
  else if path = ["_connection"] then .ok (if x.hasConn then .ref 1 0 else .none)
  else if path = ["_dbConnection"] then .ok (.ref 0 0)
  else if path = ["_dbConnection", "debug"] then .ok (.bool x.lo.debug)
  else if path = ["_dbConnection", "autoCommit"] then .ok (.bool x.lo.ac)
  else if path = ["_dbConnection", "cache"] then .ok (.ref 3 0)
  else if path = ["cache"] then .ok (.ref 2 0)
  else .stuck

def txSetAttr (x : XT) (path : List String) (v : PVal) : Option XT :=
  if path = ["_obsolete"] then
    match v with
    | .bool b => some { x with obsolete := b }
    | _ => none
  else if path = ["_deletedCache"] then some { x with delv := v }
  else if path = ["_updatedCache"] then some { x with updv := v }
  else if path = ["_connection"] then
    match v with
    | .none => some { x with hasConn := false }
    | .ref 1 0 => some { x with hasConn := true }
    | _ => none
  else none

def txAttrOf (x : XT) (v : PVal) (path : List String) : R PVal :=
  match v with
  | .ref 6 j =>
    if path = ["id"] then .ok (.int (idOf (x.t.insts j).key))
    else if path = ["__class__", "__name__"] then .ok (.int (clsOf (x.t.insts j).key))
    else .stuck
  | _ => .stuck

def txQuery (A : AllIDs) (x : XT) (recv : PVal) (m : String) (args : List PVal) : R PVal :=
  match recv, args with
  | .ref 2 0, [] =>
    if m = "allSubCachesByClassNames" then
      .ok (PyTx.Val.ofList ((A.classes x.t).map fun c => .pair (.int c) (.ref 4 c)))
    else if m = "allSubCaches" then .ok (PyTx.Val.ofList ((A.classes x.t).map fun c => .ref 4 c))
    else .stuck
  | .ref 4 c, [] =>
    if m = "allIDs" then .ok (PyTx.Val.ofList ((A.ids x.dc x.t c).map .int)) else .stuck
  | .ref 4 c, [.int i] =>
    if m = "tryGet" then .ok (optInst 6 (x.t.tryGet x.dc (mkKey c i))) else .stuck
  | .ref 3 0, [.int i, .int c] =>
    if m = "tryGetByName" then .ok (optInst 5 (x.p.tryGet x.dc (mkKey c i))) else .stuck
  | _, _ => .stuck

/-- the low-level COMMIT -/
def XT.lowCommit (x : XT) : XT := { x with db := x.viewT, ws := fun _ => none, lock := false }
/-- the low-level ROLLBACK -/
def XT.lowRollback (x : XT) : XT := { x with ws := fun _ => none, lock := false }

/-- `inst.expire()` (`opExpire`) -/
def expireInst (c : Conn) (j : Nat) : Conn := (c.modify j Inst.expire).evict (c.insts j).key

/-- calls that are not calls of the transaction's own methods -/
def txCall0 (x : XT) (recv : PVal) (m : String) (args : List PVal) (kw : List (String × PVal)) : CallRes XT :=
  match recv with
  | .ref 1 0 =>
    if m = "commit" ∧ args = [] ∧ kw = [] then .ret x.lowCommit .none
    else if m = "rollback" ∧ args = [] ∧ kw = [] then .ret x.lowRollback .none
    else .stuck
  | .ref 5 j => if m = "expire" ∧ args = [] ∧ kw = [] then .ret { x with p := expireInst x.p j } .none else .stuck
  | .ref 6 j => if m = "expire" ∧ args = [] ∧ kw = [] then .ret { x with t := expireInst x.t j } .none else .stuck
  | .ref 7 0 => if m = "_send_event" ∧ kw = [] then .ret x .none else .stuck
  | .ref 0 0 =>
    if m = "printDebug" then .ret x .none
    else if m = "_setAutoCommit" ∧ kw = [] then
      match args with
      | [.ref 1 0, .bool b] => .ret { x with lo := { x.lo with lowAuto := b } } .none
      | _ => .stuck
    else if m = "releaseConnection" ∧ args = [.ref 1 0] ∧ kw = [("explicit", .bool true)] then
      .ret { x with lo := { x.lo with inUse := x.lo.inUse - 1 } } .none
    else if m = "getConnection" ∧ args = [] ∧ kw = [] then
      .ret { x with lo := { x.lo with inUse := x.lo.inUse + 1 } } (.ref 1 0)
    else .stuck
  | _ => .stuck

/-- the `values` argument of `_SO_update` for an assignment of `v` to column `c` (what the UPDATE will write) -/
def encValues (c : Col) (v : Tx.Val) : PVal := .pair (.int c) (.pair (.bool (decide (v < 0))) (.int v.natAbs))

def decValues : PVal → Option (Col × Tx.Val)
  | .pair (.int c) (.pair (.bool neg) (.int n)) => some (c, if neg then -(n : Int) else (n : Int))
  | _ => none

/-- `DBAPI._SO_delete` / `DBAPI._SO_update` with the transaction as `self` -/
def txCallFn (x : XT) (f : PVal) (args : List PVal) : CallRes XT :=
  match f, args with
  | .meth n, [.ref 6 j] =>
    if n ≠ "_SO_delete" then .stuck
    else if x.obsolete then .exc x ⟨.assertionError, 0⟩
    else .ret { x with lock := true,
                       ws := if (x.viewT (x.t.insts j).key).isSome then upd x.ws (x.t.insts j).key (some none) else x.ws }
              .none
  | .meth n, [.ref 6 j, vals] =>
    if n ≠ "_SO_update" then .stuck
    else match decValues vals with
      | none => .stuck
      | some (c, v) =>
        if x.obsolete then .exc x ⟨.assertionError, 0⟩
        else .ret { x with lock := true,
                           ws := match x.viewT (x.t.insts j).key with
                             | some r => upd x.ws (x.t.insts j).key (some (some (upd r c v)))
                             | none => x.ws }
                  .none
  | _, _ => .stuck

def txIface (A : AllIDs) (call : XT → PVal → String → List PVal → List (String × PVal) → CallRes XT) : Iface XT :=
  { self := .ref 7 0
    getAttr := txGetAttr
    setAttr := txSetAttr
    attrOf := txAttrOf
    global := fun n => if n = "PY2" then some (.bool false)
                       else if n = "CommitSignal" ∨ n = "RollbackSignal" then some (.str n) else none
    isinstance := fun _ _ => none
    query := txQuery A
    call := call
    callFn := txCallFn }

/-- a method that calls no method of the transaction -/
@[reducible] def iface0 (A : AllIDs) : Iface XT := txIface A txCall0

def makeObsoleteX (A : AllIDs) (x : XT) : CallRes XT := PyTx.run (iface0 A) makeObsoleteProg [] makeObsolete_nlocals x

/-- `self._makeObsolete()` as seen by `commit` and `rollback` -/
def txCall1 (A : AllIDs) (x : XT) (recv : PVal) (m : String) (args : List PVal) (kw : List (String × PVal)) : CallRes XT :=
  if recv = .ref 7 0 ∧ m = "_makeObsolete" ∧ args = [] ∧ kw = [] then makeObsoleteX A x
  else txCall0 x recv m args kw

@[reducible] def iface1 (A : AllIDs) : Iface XT := txIface A (txCall1 A)

def assertActiveX (A : AllIDs) (x : XT) : CallRes XT := PyTx.run (iface0 A) assertActiveProg [] assertActive_nlocals x
def soDeleteX (A : AllIDs) (x : XT) (j : Nat) : CallRes XT := PyTx.run (iface0 A) SO_deleteProg [.ref 6 j] SO_delete_nlocals x
def soUpdateX (A : AllIDs) (x : XT) (j : Nat) (c : Col) (v : Tx.Val) : CallRes XT :=
  PyTx.run (iface0 A) SO_updateProg [.ref 6 j, encValues c v] SO_update_nlocals x
def beginX (A : AllIDs) (x : XT) : CallRes XT := PyTx.run (iface0 A) beginProg [] begin_nlocals x
def rollbackX (A : AllIDs) (x : XT) : CallRes XT := PyTx.run (iface1 A) rollbackProg [] rollback_nlocals x
def commitX (A : AllIDs) (x : XT) (close : Bool) : CallRes XT := PyTx.run (iface1 A) commitProg [.bool close] commit_nlocals x

/-- `self.rollback()` as seen by `__del__` -/
def txCall2 (A : AllIDs) (x : XT) (recv : PVal) (m : String) (args : List PVal) (kw : List (String × PVal)) : CallRes XT :=
  if recv = .ref 7 0 ∧ m = "rollback" ∧ args = [] ∧ kw = [] then rollbackX A x
  else txCall0 x recv m args kw

def delX (A : AllIDs) (x : XT) : CallRes XT := PyTx.run (txIface A (txCall2 A)) delProg [] del_nlocals x

/-! ### the part of the hand model's `opDestroy` on the transaction side that is `Transaction._SO_delete`
(the rest — marking the instance, dropping it from the cache — is `SQLObject.destroySelf`) -/

def soDelete (s : St) (j : Nat) : St × Out :=
  if s.obsolete then ({ s with del := (s.t.insts j).key :: s.del }, .assert)
  else ({ s with del := (s.t.insts j).key :: s.del, lock := true,
                 ws := if (s.view .T (s.t.insts j).key).isSome then upd s.ws (s.t.insts j).key (some none) else s.ws }, .ok)

/-! ### the part of `opSet` on the transaction side that is `Transaction._SO_update` (the rest — caching the value on the
instance — is `SQLObject._SO_setValue`) -/

def soUpdate (s : St) (j : Nat) (c : Col) (v : Tx.Val) : St × Out :=
  if s.obsolete then ({ s with upd := (s.t.insts j).key :: s.upd }, .assert)
  else ({ s with upd := (s.t.insts j).key :: s.upd, lock := true,
                 ws := match s.view .T (s.t.insts j).key with
                   | some r => upd s.ws (s.t.insts j).key (some (some (upd r c v)))
                   | none => s.ws }, .ok)

def afterSoUpdate (r : St × Out) (j : Nat) (c : Col) (v : Tx.Val) : St × Out :=
  match r.2 with
  | .ok => ({ r.1 with t := r.1.t.modify j fun i => { i with cached := upd i.cached c (some v), loaded := true } }, .ok)
  | _ => r

def afterSoDelete (r : St × Out) (j : Nat) : St × Out :=
  match r.2 with
  | .ok => ({ r.1 with t := (r.1.t.modify j fun i => { i with destroyed := true }).evict (r.1.t.insts j).key }, .ok)
  | _ => r

end SqlObjVerif.Tx
