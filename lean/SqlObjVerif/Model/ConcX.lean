import SqlObjVerif.Model.PyCacheSS
import SqlObjVerif.Extracted.PyCache
/-!
# ConcX — the interleaving semantics of the TRANSLATED `CacheFactory` methods (property C09)

Any number of threads (`Tid = Nat`), any schedule (`List Tid`), each thread running a list of operations
(`Conc.Op`: get / create / expire / expireAll / cull).  Inside `CacheFactory.get / put / finishPut / created /
expire / expireAll / cull` a thread executes the program `vlib/extractors/pycache.py` translated from /repo's
`cache.py` on this very run (`Extracted/PyCache.lean`), by the small-step semantics of `Model/PyCacheSS.lean`
(continuation = explicit data `MTh`; the lock is data: `owner`, `acquire` blocks).  One step of a thread
(`stepTh`) = the shared access it is parked at, followed by its thread-local (silent) micro-steps up to its next
shared access — the way the harness' deterministic scheduler runs the real code.

ASSUMED INTERFACE (hand-written, as in `Model/Conc.lean`; everything else is translated):
* the CALLERS of the factory: `SQLObject.get` (`val = cache.get(id, cls)`; on `None`: SELECT — a new instance if
  the row exists — then `cache.put`, and `cache.finishPut` in a `finally`), `_SO_finishCreate` (INSERT,
  `cache.created`, SELECT), `CacheSet.get/created/expire/weakrefAll` (look the class' factory up in `caches`,
  install it on first use by the atomic `setdefault`; `expire` / `weakrefAll` / a direct `cull()` do nothing
  while the class has no factory).  These are the control states `CPc` other than `inM`; `onReturn` is what the
  caller does with a method's result.  `vlib/extractors/pycachesteps.py` refuses a `CacheSet` whose methods
  changed shape.
* the database: `db` (ids of existing rows), `fresh` (next object identity).
* the heap `concOps`: CPython reference counting — an object is alive iff a thread obtained it (`refs`; threads
  keep what they got), the environment holds it (`pins`), `self.cache` holds it, or an abandoned dict that is
  still aliased holds it.
-/
namespace SqlObjVerif.ConcX
open SqlObjVerif.PyCache (Val Block Dict DictAttr)
open SqlObjVerif.PyCache.Extracted
open SqlObjVerif.PyCacheSS
open SqlObjVerif.Conc (Id Obj Op Out K aliveIn ovals)

/-- the reference-counting heap: who holds strong references besides the dicts -/
structure RC where
  refs : List Obj
  pins : List Obj

def concOps : HeapOps RC :=
  { dead := fun sh o => !(aliveIn sh.heap.refs (sh.heap.pins ++ ovals sh.olds) sh.cache o)
    falsy := fun _ _ => false
    drop := fun h _ => h
    keep := fun h o => { h with refs := h.refs ++ [o] } }

/-- `self.cull()` is the only call of a method of `self` in the methods in scope -/
def meths : Meths := fun name =>
  if name = "cull" then some (cullProg, cull_nargs + cull_nlocals, cull_nlists) else none

inductive MName where
  | get | put | finishPut | created | expire | expireAll | cull
deriving Repr, DecidableEq

def startOf : MName → List Val → MTh
  | .get, args => MTh.start getProg args get_nlocals get_nlists
  | .put, args => MTh.start putProg args put_nlocals put_nlists
  | .finishPut, args => MTh.start finishPutProg args finishPut_nlocals finishPut_nlists
  | .created, args => MTh.start createdProg args created_nlocals created_nlists
  | .expire, args => MTh.start expireProg args expire_nlocals expire_nlists
  | .expireAll, args => MTh.start expireAllProg args expireAll_nlocals expireAll_nlists
  | .cull, args => MTh.start cullProg args cull_nlocals cull_nlists

/-- what the caller does when the method it called returns -/
inductive CK where
  | get (i : Id)               -- `SQLObject.get`: `val = cache.get(id, cls)`
  | put (i : Id) (o : Obj)     -- … `cache.put(id, cls, val)` inside `try`
  | fin (out : Out)            -- … `finally: cache.finishPut(cls)`, then the operation ends with `out`
  | created (i : Id) (o : Obj) -- `_SO_finishCreate`: `cache.created(id, cls, self)`, then the SELECT of `_init`
  | unit                       -- `expire` / `weakrefAll` / `cull()`: nothing more
deriving Repr, DecidableEq

/-- control state of the caller layer -/
inductive CPc where
  | idle
  | csGet (k : K) | csSet (k : K)          -- `CacheSet.caches` while the class has no factory yet
  | select (i : Id)                        -- the SELECT of a cache miss (cache lock held)
  | insert (i : Id)                        -- the INSERT of a create
  | crSelect (i : Id) (o : Obj)            -- the SELECT of `_init` after `cache.created`
  | eaEntry | cuEntry
  | inM (ck : CK)                          -- inside a translated method
deriving Repr, DecidableEq

structure XTh where
  cpc : CPc
  m : MTh
  prog : List Op
  outs : List Out

structure XShared where
  sh : Shared RC
  caches : Bool
  db : List Id
  fresh : Nat

structure XState where
  g : XShared
  th : Tid → XTh

def enter (th : XTh) (mn : MName) (args : List Val) (ck : CK) : XTh :=
  { th with cpc := .inM ck, m := startOf mn args }

def park (th : XTh) (pc : CPc) : XTh := { th with cpc := pc, m := MTh.idle }

/-- where an operation starts -/
def entryX (dc c : Bool) (base : XTh) : Op → XTh
  | .get i => if c then enter base .get [.key i] (.get i) else park base (.csGet (.get i))
  | .create i => park base (.insert i)
  | .expire i => if c then enter base .expire [.key i] .unit else park base (.csGet (.expire i))
  | .expireAll => if dc then (if c then enter base .expireAll [] .unit else park base (.csGet .expireAll))
                  else park base .eaEntry
  | .cull => park base .cuEntry

/-- the current operation ends with outcome `o` -/
def finishX (g : XShared) (th : XTh) (o : Out) : XTh :=
  match th.prog with
  | [] => { cpc := .idle, m := MTh.idle, prog := [], outs := th.outs ++ [o] }
  | op :: rest => entryX g.sh.doCache g.caches { cpc := .idle, m := MTh.idle, prog := rest, outs := th.outs ++ [o] } op

/-- after the class' factory was found in / installed into `caches` -/
def afterCachesX (th : XTh) : K → XTh
  | .get i => enter th .get [.key i] (.get i)
  | .create i o => enter th .created [.key i, .obj o] (.created i o)
  | .expire i => enter th .expire [.key i] .unit
  | .expireAll => enter th .expireAll [] .unit
  | .cull => enter th .cull [] .unit

/-- exceptions of the fragment as `Conc` outcomes (only KeyError and RuntimeError can arise from a dict / the lock;
    ValueError / ZeroDivisionError need `cullFraction = 0`, IndexError a list index out of range) -/
def excMap : PyCache.Exc → Conc.Exc
  | .keyError => .keyError
  | _ => .runtimeError

def onReturn (g : XShared) (th : XTh) : CK → Pending → Option XTh
  | .get i, .ret (.obj o) => some (finishX g th (.obj i o))
  | .get i, .ret .none => some (park th (.select i))
  | .get i, .norm => some (park th (.select i))
  | .get _, .exc e => some (finishX g th (.exc (excMap e)))
  | .get _, _ => none
  | .put _ _, .exc e => some (enter th .finishPut [] (.fin (.exc (excMap e))))
  | .put i o, _ => some (enter th .finishPut [] (.fin (.obj i o)))
  | .fin _, .exc e => some (finishX g th (.exc (excMap e)))
  | .fin out, _ => some (finishX g th out)
  | .created _ _, .exc e => some (finishX g th (.exc (excMap e)))
  | .created i o, _ => some (park th (.crSelect i o))
  | .unit, .exc e => some (finishX g th (.exc (excMap e)))
  | .unit, _ => some (finishX g th .unit)

/-- a shared access of the whole system: inside a translated method, or of the caller layer -/
inductive AccessX where
  | m (a : Access)
  | caches | dbSelect | dbInsert | eaEntry | cullEntry
deriving Repr, DecidableEq

def accessX (t : Tid) (g : XShared) (th : XTh) : Option AccessX :=
  match th.cpc with
  | .idle => none
  | .inM _ => (match th.m.result with
    | some _ => none
    | none => (match nextAccess concOps t g.sh th.m with
      | some a => some (.m a)
      | none => none))
  | .csGet _ => some .caches
  | .csSet _ => some .caches
  | .select _ => some .dbSelect
  | .insert _ => some .dbInsert
  | .crSelect _ _ => some .dbSelect
  | .eaEntry => some .eaEntry
  | .cuEntry => some .cullEntry

/-- one micro-step of thread `t` -/
def microX (t : Tid) (g : XShared) (th : XTh) : Option (XTh × XShared) :=
  match th.cpc with
  | .idle => none
  | .inM ck => (match th.m.result with
    | some p => (match onReturn g th ck p with
      | some th' => some (th', g)
      | none => none)
    | none => (match micro concOps meths t g.sh th.m with
      | some (m', sh') => some ({ th with m := m' }, { g with sh := sh' })
      | none => none))
  | .csGet k =>
    if g.caches then
      (match k, g.sh.doCache with
       | .expireAll, false => some (finishX g th .unit, g)
       | _, _ => some (afterCachesX th k, g))
    else (match k with
      | .get _ => some (park th (.csSet k), g)
      | .create _ _ => some (park th (.csSet k), g)
      | _ => some (finishX g th .unit, g))
  | .csSet k => some (afterCachesX th k, { g with caches := true })
  | .select i =>
    if i ∈ g.db then
      some (enter th .put [.key i, .obj g.fresh] (.put i g.fresh),
            { g with fresh := g.fresh + 1, sh := { g.sh with heap := { g.sh.heap with refs := g.sh.heap.refs ++ [g.fresh] } } })
    else some (enter th .finishPut [] (.fin (.notFound i)), g)
  | .insert i =>
    if i ∈ g.db then some (finishX g th (.exc .integrity), g)
    else
      let g' : XShared := { g with db := g.db ++ [i], fresh := g.fresh + 1,
                                   sh := { g.sh with heap := { g.sh.heap with refs := g.sh.heap.refs ++ [g.fresh] } } }
      if g.caches then some (enter th .created [.key i, .obj g.fresh] (.created i g.fresh), g')
      else some (park th (.csGet (.create i g.fresh)), g')
  | .crSelect i o => if i ∈ g.db then some (finishX g th (.obj i o), g) else some (finishX g th (.notFound i), g)
  | .eaEntry => if g.caches then some (finishX g th .unit, g) else some (park th (.csGet .expireAll), g)
  | .cuEntry => if g.caches && g.sh.doCache then some (enter th .cull [] .unit, g) else some (finishX g th .unit, g)

/-- the thread rests: finished, or parked at a shared access -/
def parked (t : Tid) (g : XShared) (th : XTh) : Bool :=
  (th.cpc == .idle) || (accessX t g th).isSome

/-- silent micro-steps up to the next shared access (`none`: more than `n` of them, or stuck) -/
def silentRun (t : Tid) : Nat → XShared → XTh → Option (XTh × XShared)
  | 0, g, th => if parked t g th then some (th, g) else none
  | n + 1, g, th =>
    if parked t g th then some (th, g)
    else match microX t g th with
      | some (th', g') => silentRun t n g' th'
      | none => none

/-- bound on the silent micro-steps between two shared accesses of one thread (the longest run of the
    translated methods, `created` finishing an embedded `cull` and starting the next operation, takes 33) -/
def FUEL : Nat := 64

/-- one step of thread `t`: the access it is parked at, then its silent micro-steps -/
def stepTh (t : Tid) (g : XShared) (th : XTh) : Option (XTh × XShared) :=
  match accessX t g th with
  | none => none
  | some _ => (match microX t g th with
    | some (th', g') => silentRun t FUEL g' th'
    | none => none)

def setThX (f : Tid → XTh) (t : Tid) (v : XTh) : Tid → XTh := fun u => if u = t then v else f u

def step (x : XState) (t : Tid) : Option XState :=
  match stepTh t x.g (x.th t) with
  | some (th', g') => some { g := g', th := setThX x.th t th' }
  | none => none

/-- a schedule is a list of thread ids; choosing a blocked or finished thread does nothing -/
def run (x : XState) : List Tid → XState
  | [] => x
  | t :: ts => match step x t with
    | some x' => run x' ts
    | none => run x ts

/-- threads start parked at the first shared access of their first operation -/
def startX (t : Tid) (g : XShared) : List Op → XTh
  | [] => { cpc := .idle, m := MTh.idle, prog := [], outs := [] }
  | op :: rest =>
    match silentRun t FUEL g (entryX g.sh.doCache g.caches { cpc := .idle, m := MTh.idle, prog := rest, outs := [] } op) with
    | some (th, _) => th
    | none => { cpc := .idle, m := MTh.idle, prog := [], outs := [] }

def mkInitX (dc caches : Bool) (strong weak : Dict) (db : List Id) (fresh freq frac cc off : Nat)
    (pins : List Obj) (progs : Tid → List Op) : XState :=
  let g : XShared :=
    { sh := { cache := strong, expiredCache := weak, cullCount := cc, cullOffset := off, cullFrequency := freq,
              cullFraction := frac, doCache := dc, owner := none, gen := 0, hold := 0, olds := [],
              heap := { refs := [], pins := pins } },
      caches := caches, db := db, fresh := fresh }
  { g := g, th := fun t => startX t g (progs t) }

def finished (x : XState) (t : Tid) : Bool := (x.th t).cpc == .idle

/-- run the schedule, then drain: lowest enabled thread among `0 … n-1` first -/
def drain (n : Nat) : Nat → XState → XState
  | 0, x => x
  | fuel + 1, x =>
    match (List.range n).findSome? (fun t => step x t) with
    | some x' => drain n fuel x'
    | none => x

/-- the name of an access in the harness' trace -/
def kindX : AccessX → String
  | .m .ccRead => "cc.read"
  | .m .ccWrite => "cc.write"
  | .m .acquire => "acquire"
  | .m .release => "release"
  | .m .load => "strong.load"
  | .m (.dict d k) =>
    (match d with | .cache => "strong" | .expiredCache => "weak") ++
    (match k with
     | .get => ".get" | .set => ".set" | .del => ".del" | .in_ => ".in" | .keys => ".keys" | .swap => ".swap"
     | .clear => ".clear" | .next => ".next")
  | .caches => "caches"
  | .dbSelect => "db.select"
  | .dbInsert => "db.insert"
  | .eaEntry => "ea.entry"
  | .cullEntry => "cull.entry"

end SqlObjVerif.ConcX
