import SqlObjVerif.Extracted.Graph
/-!
# C12 — model of `SQLObject.destroySelf` over a whole reference graph

Mirrors `main.py` `destroySelf`, `findDependencies`, `findDependantColumns` step by step, in the
code's order:

1. DELETE the link rows of the victim's own related joins (`joinColumn = id`);
2. for every dependent class `k` in **registry order** (`findDependencies`):
   a. DELETE the link rows of `k`'s related joins that point at the victim (`otherColumn = id`);
   b. `cols` := the foreign keys of `k` to the victim's class whose `cascade is not None`;
      none -> next class;
   c. `results` := rows of `k` with *any* of `cols` equal to the victim's id (a lazy select:
      evaluated again at every use);
   d. some row of `k` holds the victim's id in a `cascade=False` column of `cols` ->
      `SQLObjectIntegrityError` (whatever was done before stays done);
   e. every `cascade='null'` column of `cols` that holds the victim's id is set to NULL, row by row;
   f. if some column of `cols` is `cascade=True`: every row of `results` (re-evaluated) is destroyed
      recursively;
3. DELETE the victim's row, purge it from the cache.

Python's unbounded recursion is modelled with fuel; `Res.fuel` is the `RecursionError` outcome.
-/
namespace SqlObjVerif.Graph

/-- `ForeignKey(cascade=…)`: `True` / `False` / `'null'` / `None` -/
inductive Policy where
  | cascade | restrict | setNull | keep
deriving DecidableEq, Repr

structure FK where
  target : Nat
  policy : Policy
deriving DecidableEq, Repr

/-- a `RelatedJoin` / `SQLRelatedJoin` declaration: link table, and which of its two columns holds
    the declaring side's id (`joinColumn`); the other column is `otherColumn`. -/
structure RJ where
  other : Nat
  table : Nat
  ownFirst : Bool
deriving DecidableEq, Repr

structure Cls where
  fks : List FK
  joins : List RJ
deriving Repr

/-- classes in registry (declaration) order; a class is named by its index -/
abbrev Schema := List Cls

structure Row where
  cls : Nat
  id : Nat
  vals : List (Option Nat)
deriving DecidableEq, Repr

structure Link where
  table : Nat
  a : Nat
  b : Nat
deriving DecidableEq, Repr

structure DB where
  rows : List Row
  links : List Link
  /-- (class, id) of the instances the connection's cache holds -/
  cache : List (Nat × Nat)
deriving DecidableEq, Repr

def Schema.cls (S : Schema) (k : Nat) : Cls := S.getD k ⟨[], []⟩
def Schema.fk (S : Schema) (k f : Nat) : FK := (S.cls k).fks.getD f ⟨0, .keep⟩

def Row.val (r : Row) (f : Nat) : Option Nat := r.vals.getD f none

def Link.col (l : Link) (first : Bool) : Nat := if first then l.a else l.b

/-- `DELETE FROM <table> WHERE <column> = <id>` on a link table -/
def delLinks (t : Nat) (first : Bool) (i : Nat) (ls : List Link) : List Link :=
  ls.filter fun l => !(l.table == t && l.col first == i)

/-- the physical column (`true` = first) that a join's `joinColumn` / `otherColumn` denotes -/
def _root_.SqlObjVerif.Extracted.Graph.JCol.first (ownFirst : Bool) : Extracted.Graph.JCol → Bool
  | .joinColumn => ownFirst
  | .otherColumn => !ownFirst

/-- step 1: the victim's own related joins; the column is the one named in the **extracted** DELETE -/
def delOwnLinks (S : Schema) (c i : Nat) (ls : List Link) : List Link :=
  (S.cls c).joins.foldl (fun ls j => delLinks j.table (Extracted.Graph.ownDeleteCol.first j.ownFirst) i ls) ls

/-- step 2a: joins of dependent class `k` whose other side is the victim's class -/
def delDepLinks (S : Schema) (k c i : Nat) (ls : List Link) : List Link :=
  (S.cls k).joins.foldl (fun ls j =>
    if j.other == c then delLinks j.table (Extracted.Graph.depDeleteCol.first j.ownFirst) i ls else ls) ls

/-- `findDependantColumns(name, klass)`: indices of the keys of `k` to class `c` with a policy -/
def depCols (S : Schema) (c k : Nat) : List Nat :=
  (List.range (S.cls k).fks.length).filter fun f =>
    (S.fk k f).target == c && (S.fk k f).policy != .keep

/-- `findDependencies`: registry order -/
def isDependent (S : Schema) (c k : Nat) : Bool :=
  !(depCols S c k).isEmpty || (S.cls k).joins.any (·.other == c)

def dependents (S : Schema) (c : Nat) : List Nat :=
  (List.range S.length).filter (isDependent S c)

/-- `OR(col1 == id, col2 == id, …)` -/
def refsVia (r : Row) (cols : List Nat) (i : Nat) : Bool :=
  cols.any fun f => r.val f == some i

def matching (db : DB) (k : Nat) (cols : List Nat) (i : Nat) : List Row :=
  db.rows.filter fun r => r.cls == k && refsVia r cols i

def hasPolicy (S : Schema) (k : Nat) (cols : List Nat) (p : Policy) : Bool :=
  cols.any fun f => (S.fk k f).policy == p

/-- the `cascade=False` columns among `cols` (the `restrict` list of `destroySelf`) -/
def restrictCols (S : Schema) (k : Nat) (cols : List Nat) : List Nat :=
  cols.filter fun f => (S.fk k f).policy == .restrict

/-- step 2e on one row -/
def nullRow (S : Schema) (k : Nat) (cols : List Nat) (i : Nat) (r : Row) : Row :=
  if r.cls == k then
    { r with vals := r.vals.mapIdx fun f v =>
        if cols.contains f && (S.fk k f).policy == .setNull && v == some i then none else v }
  else r

def nullRefs (S : Schema) (db : DB) (k : Nat) (cols : List Nat) (i : Nat) : DB :=
  { db with rows := db.rows.map (nullRow S k cols i) }

def present (db : DB) (k i : Nat) : Bool := db.rows.any fun r => r.cls == k && r.id == i

inductive Res where
  | ok (db : DB)
  | refused (db : DB)   -- SQLObjectIntegrityError, with the state it leaves behind
  | fuel (db : DB)      -- RecursionError
deriving DecidableEq, Repr

/-- step 2f: `for row in results: row.destroySelf()`; a row deleted meanwhile is not visited -/
def destroyRows (rec : DB → Nat → Nat → Res) (k : Nat) : List Nat → DB → Res
  | [], db => .ok db
  | i :: is, db =>
    if present db k i then
      match rec db k i with
      | .ok db' => destroyRows rec k is db'
      | r => r
    else destroyRows rec k is db

/-- step 2 for one dependent class -/
def procDep (S : Schema) (rec : DB → Nat → Nat → Res) (c i : Nat) (db : DB) (k : Nat) : Res :=
  let db1 : DB := { db with links := delDepLinks S k c i db.links }
  let cols := depCols S c k
  if cols.isEmpty then .ok db1 else
  if !(matching db1 k (restrictCols S k cols) i).isEmpty then .refused db1 else
  let db2 := nullRefs S db1 k cols i
  if hasPolicy S k cols .cascade then
    destroyRows rec k ((matching db2 k cols i).map (·.id)) db2
  else .ok db2

def procDeps (S : Schema) (rec : DB → Nat → Nat → Res) (c i : Nat) : List Nat → DB → Res
  | [], db => .ok db
  | k :: ks, db =>
    match procDep S rec c i db k with
    | .ok db' => procDeps S rec c i ks db'
    | r => r

def delRow (db : DB) (c i : Nat) : DB :=
  { db with rows := db.rows.filter (fun r => !(r.cls == c && r.id == i)),
            cache := db.cache.filter (fun x => !(x.1 == c && x.2 == i)) }

/-- one activation of `destroySelf`, the recursive calls going to `rec` -/
def destroyStep (S : Schema) (rec : DB → Nat → Nat → Res) (db : DB) (c i : Nat) : Res :=
  let db1 : DB := { db with links := delOwnLinks S c i db.links }
  match procDeps S rec c i (dependents S c) db1 with
  | .ok db2 => .ok (delRow db2 c i)
  | r => r

def destroy (S : Schema) : Nat → DB → Nat → Nat → Res
  | 0 => fun db _ _ => .fuel db
  | n + 1 => destroyStep S (destroy S n)

/-- `obj.destroySelf()` when the interpreter's recursion limit exceeds the number of rows (one activation per row
    of a cascade chain is all acyclic data can need, `C12_destroy_terminates_of_acyclic`) -/
def destroySelf (S : Schema) (db : DB) (c i : Nat) : Res := destroy S (db.rows.length + 1) db c i

/-- `Class.get(id)` afterwards: a cached instance is returned without looking at the table -/
def reachable (db : DB) (c i : Nat) : Bool := db.cache.contains (c, i) || present db c i

end SqlObjVerif.Graph
