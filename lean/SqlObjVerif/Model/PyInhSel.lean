/-!
# PyInhSel — a deep embedding of the Python fragment the SELECT / CLASS-CONSTRUCTION side of
`sqlobject/inheritance/__init__.py` and `sqlobject/inheritance/iteration.py` is written in

`vlib/extractors/pyinhsel.py` TRANSLATES `InheritableSelectResults.__init__`, `InheritableSQLObject.select / selectBy /
_findAlternateID`, `InheritableIteration.next / fetchChildren` from /repo's AST into `Block`s of this language on every
run (`Extracted/PyInhSel.lean`).  This file is the fixed vocabulary and its reference semantics (the design of
`Model/PyInherit.lean`: generic in the type `W` of worlds, every access to an object other than the code's own locals goes
through an `Iface W`), extended with what this code needs:

* locals live in a FUNCTION environment (`Env = Nat → Option Val`);
* `continue` / `break` (outcomes `cont` / `brk`, consumed by the innermost loop), `while … else`, `for … else`;
* set values (duplicate-free cons lists: `s.add(v)`, `s.update(t)`, `v in s`), dict values (insertion-ordered lists of
  pairs: `d[k] = v`, `del d[k]`, `k in d`, `d.get(k[, default])`, `d.copy()`, `for k in d`, `d.items()`), list values
  (`l.append(v)`, `l[0]`, `l[k:]`, `del l[0]`, `len(l)`), also when the container is held by an ATTRIBUTE of `self`
  (`self._results`): the attribute is read, the new container value is written back (Python's semantics as long as the
  container has one owner, which the translator checks syntactically);
* SQL expression values (`Sql`): what `cls.q.id == other.q.id`, `parent.q.childName == name`, `getattr(cls.q, name) ==
  value`, `sqlbuilder.AND(a, b)`, `sqlbuilder.IN(cls.q.id, ids)`, `reduce(sqlbuilder.AND, list[, init])` build;
* `x.update(dict([(k, v) for (a, b) in it if c]))` on a dict local (`updatePairs`);
* nested functions (`def f(p): …` inside the translated function, reading locals of the enclosing function): translated
  as blocks of their own whose parameters are `p` and then the captured locals; a call `f(arg)` goes through
  `Iface.proc` and writes the final value of `p` back to `arg` (`procCall`: Python changes the argument object in place;
  sound when that object is not shared); `x.a = e` on such a parameter is `setAttrVar`; `d.pop(k, dflt)`;
  calls with `*args` (`callV`, `superCallV`);
* `e1 or e2` as a VALUE, `str(e)`, `getattr(e, name[, default])`;
* PURE calls (module functions / methods that only read: `tablesUsedSet(clause, db)`, `classregistry.registry(r)`,
  `r.allClasses()`, `findClass(name, registry)`, `klass.select(…)` building a select object, `dbconn.queryForSelect`) go
  through `Iface.pure`; calls that may change the world (`super().__init__`, `cursor.fetchmany()`, `cls.get(…)`, …)
  are statements and go through `Iface.call / callFn / super`.
-/
namespace SqlObjVerif.PyIS

inductive Cmp where
  | eq | ne | lt | le | gt | ge
deriving DecidableEq, Repr

/-- sqlbuilder expressions over the tables of a class tree (`a`, `b`, `p` : classes = their tables) -/
inductive Sql where
  /-- `SQLTrueClause` -/
  | tt
  /-- `a.q.<column k of a> <op> constant` -/
  | col (a k : Nat) (op : Cmp) (v : Int)
  /-- `a.q.id <op> constant` -/
  | idc (a : Nat) (op : Cmp) (v : Int)
  /-- `a.q.id == b.q.id` -/
  | idEq (a b : Nat)
  /-- `IN(a.q.id, ids)` -/
  | idIn (a : Nat) (ids : List Nat)
  /-- `p.q.childName == <childName of c>` -/
  | kind (p c : Nat)
  | and (x y : Sql)
  | or (x y : Sql)
  | not (x : Sql)
deriving DecidableEq, Repr

inductive Val where
  | none
  | bool (b : Bool)
  /-- a column value -/
  | int (n : Int)
  /-- a row id / small number -/
  | nat (n : Nat)
  | str (s : String)
  /-- the keyword / attribute name of column `k` declared by class `a` -/
  | name (a k : Nat)
  /-- a class object -/
  | cls (c : Nat)
  /-- a connection object -/
  | conn (k : Nat)
  /-- the instance of class `c` with id `i` bound to connection `k` -/
  | inst (k c i : Nat)
  /-- any other object handle -/
  | ref (kind id : Nat)
  /-- the table name of class `c` (a string) -/
  | tab (c : Nat)
  /-- the `childName` of class `c` (a string) -/
  | kindName (c : Nat)
  /-- `a.q.id`, `a.q.childName`, `a.q.<column k>` -/
  | fldId (a : Nat)
  | fldKind (a : Nat)
  | fldCol (a k : Nat)
  | sql (e : Sql)
  | pair (a b : Val)
  | nil
  | cons (h t : Val)
deriving Repr, DecidableEq

def Val.ofList : List Val → Val
  | [] => .nil
  | v :: l => .cons v (Val.ofList l)

def Val.toList : Val → Option (List Val)
  | .nil => some []
  | .cons h t => match Val.toList t with
    | some l => some (h :: l)
    | Option.none => Option.none
  | _ => Option.none

def Val.isNone : Val → Bool
  | .none => true
  | _ => false

inductive ExcCls where
  | typeError | keyError | attributeError | indexError | stopIteration
  | notFound
  | exception
  | baseOnly
deriving Repr, DecidableEq

structure Exc where
  cls : ExcCls
  id : Nat
deriving Repr, DecidableEq

inductive ExcPat where
  | typeError | keyError | attributeError | exception | baseException
deriving Repr, DecidableEq

def ExcPat.catches : ExcPat → Exc → Bool
  | .baseException, _ => true
  | .exception, e => e.cls != .baseOnly
  | .typeError, e => e.cls == .typeError
  | .keyError, e => e.cls == .keyError
  | .attributeError, e => e.cls == .attributeError

inductive R (α : Type) where
  | ok (a : α)
  | exc (e : Exc)
  | stuck

inductive CallRes (W : Type) where
  | ret (w : W) (v : Val)
  | exc (w : W) (e : Exc)
  | stuck

structure Iface (W : Type) where
  self : Val
  attrOf : W → Val → List String → R Val
  setAttrOf : W → Val → List String → Val → Option W
  /-- `getattr(v, name)` with a computed name (AttributeError possible) -/
  getattr : W → Val → Val → R Val
  hasattr : W → Val → Val → Option Bool
  global : String → Option Val
  isinstance : W → Val → String → Option Bool
  /-- calls that only read -/
  pure : W → String → List Val → List (String × Val) → R Val
  call : W → Val → String → List Val → List (String × Val) → Val → CallRes W
  callFn : W → Val → List Val → List (String × Val) → Val → CallRes W
  super : W → String → List Val → List (String × Val) → Val → CallRes W
  fuel : W → Nat
  /-- a call of a NESTED function of the translated function (`def f(p): …` inside it): `proc name (p :: captured)`
      gives the final value of the parameter `p` and the return value (nested functions of the fragment are pure) -/
  proc : String → List Val → R (Val × Val) := fun _ _ => .stuck
  /-- `v.a = x` for an immutable VALUE `v` held by a local (an SQL expression): the updated value -/
  updVal : Val → List String → Val → Option Val := fun _ _ _ => Option.none

/-! ### container values -/

def isListVal : Val → Bool
  | .nil => true
  | .cons _ t => isListVal t
  | _ => false

def vdGet (k : Val) : Val → Option Val
  | .cons (.pair k' v) t => if k' = k then some v else vdGet k t
  | _ => Option.none

def vdHas (k : Val) (d : Val) : Bool := (vdGet k d).isSome

/-- `d[k] = v` -/
def vdSet (k v : Val) : Val → Val
  | .cons (.pair k' v') t => if k' = k then .cons (.pair k v) t else .cons (.pair k' v') (vdSet k v t)
  | _ => .cons (.pair k v) .nil

/-- `del d[k]` (of a present key) -/
def vdDel (k : Val) : Val → Val
  | .cons (.pair k' v') t => if k' = k then t else .cons (.pair k' v') (vdDel k t)
  | v => v

/-- the keys of a dict value -/
def vdKeys : Val → Val
  | .cons (.pair k _) t => .cons k (vdKeys t)
  | _ => .nil

/-- `v in l` for a list / set value -/
def vsHas (v : Val) : Val → Bool
  | .cons h t => h = v || vsHas v t
  | _ => false

/-- `s.add(v)` -/
def vsAdd (v : Val) : Val → Val
  | .cons h t => if h = v then .cons h t else .cons h (vsAdd v t)
  | _ => .cons v .nil

/-- `s.update(t)` -/
def vsUpdate (s : Val) : Val → Val
  | .cons h t => vsUpdate (vsAdd h s) t
  | _ => s

/-- `l.append(v)` -/
def vlAppend (v : Val) : Val → Val
  | .cons h t => .cons h (vlAppend v t)
  | _ => .cons v .nil

def vlLen : Val → Nat
  | .cons _ t => vlLen t + 1
  | _ => 0

/-- `l[n:]` -/
def vlDrop : Nat → Val → Val
  | 0, v => v
  | n + 1, .cons _ t => vlDrop n t
  | _ + 1, v => v

/-- `l[n]` -/
def vlIdx : Nat → Val → Option Val
  | 0, .cons h _ => some h
  | n + 1, .cons _ t => vlIdx n t
  | _, _ => Option.none

/-- `del l[n]` (of an index in range) -/
def vlDelIdx : Nat → Val → Val
  | 0, .cons _ t => t
  | n + 1, .cons h t => .cons h (vlDelIdx n t)
  | _, v => v

/-- `bool(v)`; objects of the fragment are truthy -/
def pyBool : Val → Bool
  | .none => false
  | .bool b => b
  | .int n => n != 0
  | .nat n => n != 0
  | .str s => s != ""
  | .nil => false
  | _ => true

/-- `a == b` as a VALUE: sqlbuilder builds an expression when the left operand is a field -/
def eqVal (a b : Val) : Option Val :=
  match a, b with
  | .fldId x, .fldId y => some (.sql (.idEq x y))
  | .fldId x, .nat i => some (.sql (.idc x .eq (i : Int)))
  | .fldId x, .int i => some (.sql (.idc x .eq i))
  | .fldKind p, .kindName c => some (.sql (.kind p c))
  | .fldCol x k, .int v => some (.sql (.col x k .eq v))
  | .fldId _, _ => Option.none
  | .fldKind _, _ => Option.none
  | .fldCol _ _, _ => Option.none
  | x, y => some (.bool (decide (x = y)))

/-- `sqlbuilder.AND(a, b)` -/
def andVal (a b : Val) : Option Val :=
  match a, b with
  | .sql x, .sql y => some (.sql (.and x y))
  | _, _ => Option.none

/-- `reduce(sqlbuilder.AND, l, init)` -/
def foldAnd : Val → List Val → Option Val
  | acc, [] => some acc
  | acc, v :: l => match andVal acc v with
    | some x => foldAnd x l
    | Option.none => Option.none

def natsOf : List Val → Option (List Nat)
  | [] => some []
  | .nat n :: l => (natsOf l).map (n :: ·)
  | _ :: _ => Option.none

/-- `sqlbuilder.IN(a.q.id, ids)` -/
def inVal (a ids : Val) : Option Val :=
  match a, ids.toList with
  | .fldId x, some l => (natsOf l).map fun ns => .sql (.idIn x ns)
  | _, _ => Option.none

/-- `str(v)` of a string -/
def strVal : Val → Option Val
  | .str s => some (.str s)
  | .tab c => some (.tab c)
  | .kindName c => some (.kindName c)
  | _ => Option.none

inductive Expr where
  | var (x : Nat)
  | const (v : Val)
  | self
  | attrOf (e : Expr) (path : List String)
  | global (name : String)
  | pair (a b : Expr)
  | tuple1 (e : Expr)
  | listOf (e : Expr)                           -- `list(e)`
  | items (e : Expr)                            -- `e.items()`
  | keys (e : Expr)                             -- iterating a dict value
  | copy (e : Expr)                             -- `e.copy()` of a dict value
  | subscript (d k : Expr)                      -- `d[k]` of a dict value (KeyError)
  | index (l : Expr) (n : Nat)                  -- `l[n]`, `n` a literal
  | indexE (l k : Expr)                         -- `l[k]`, `k` a number
  | addNat (a : Expr) (n : Nat)                 -- `a + n`
  | dropE (l : Expr) (n : Nat)                  -- `l[n:]`
  | len (e : Expr)
  | emptyList
  | emptyDict
  | strOf (e : Expr)                            -- `str(e)`
  | orE (a b : Expr)                            -- `a or b`
  | dictGet (d k dflt : Expr)                   -- `d.get(k, dflt)` of a dict value
  | eqE (a b : Expr)                            -- `a == b` as a value
  | andE (a b : Expr)                           -- `sqlbuilder.AND(a, b)`
  | inE (a b : Expr)                            -- `sqlbuilder.IN(a, b)`
  | reduceAnd (l : Expr) (init : Option Expr)   -- `reduce(sqlbuilder.AND, l[, init])`
  | getattr (e n : Expr)                        -- `getattr(e, n)`
  | pure (f : String) (args : List Expr) (kwn : List String) (kwv : List Expr)

inductive Cond where
  | truthy (e : Expr)
  | isNone (e : Expr)
  | isNotNone (e : Expr)
  | is (a b : Expr)
  | eq (a b : Expr)
  | ne (a b : Expr)
  | isinstance (e : Expr) (cls : String)
  | inDict (k d : Expr)
  | inList (k l : Expr)
  | hasattr (e n : Expr)
  | not (c : Cond)
  | and (c d : Cond)
  | or (c d : Cond)

/-- where the argument of a nested-function call lives: a local, or an attribute of the value a local holds -/
inductive Place where
  | pvar (x : Nat)
  | pattr (x : Nat) (path : List String)

mutual
inductive Stmt where
  | assign (x : Nat) (e : Expr)
  | setAttr (obj : Expr) (path : List String) (e : Expr)
  | setItem (x : Nat) (k v : Expr)                           -- `x[k] = v`, dict local
  | delItem (x : Nat) (k : Expr)                             -- `del x[k]`, dict local
  | setAdd (x : Nat) (e : Expr)                              -- `x.add(e)`
  | setUpdate (x : Nat) (e : Expr)                           -- `x.update(e)`
  | append (x : Nat) (e : Expr)                              -- `x.append(e)`
  /-- `d.setdefault(k, []).append(v)` written as `x = d.get(k)` / `if x is None: x = d[k] = []` / `x.append(v)` -/
  | dictAppend (d : Nat) (k v : Expr)
  /-- `x = d.pop(k, dflt)`, dict local `d` -/
  | dictPop (x d : Nat) (k dflt : Expr)
  /-- `x.a = e` for a local `x` that holds an immutable value (in-out parameter of a nested function) -/
  | setAttrVar (x : Nat) (path : List String) (e : Expr)
  /-- `[x =] f(arg)` for a nested function `f`; `caps`: the enclosing function's locals `f` reads.  The argument's final
      value is written back to where it came from (Python: `f` changes the object in place; the object has one owner) -/
  | procCall (x : Option Nat) (f : String) (arg : Place) (caps : List Expr)
  /-- `recv.m(args, k=v, *vstar, **star)` -/
  | callV (x : Option Nat) (recv : Expr) (m : String) (args : List Expr) (vstar : Expr) (kwn : List String)
      (kwv : List Expr) (star : Option Expr)
  | superCallV (x : Option Nat) (m : String) (args : List Expr) (vstar : Expr) (kwn : List String) (kwv : List Expr)
      (star : Option Expr)
  /-- `x.update(dict([(k, v) for (a, b) in it if c]))`, dict local `x`; `a`, `b` are the comprehension's own variables -/
  | updatePairs (x a b : Nat) (it : Expr) (c : Cond) (k v : Expr)
  | attrSetItem (obj : Expr) (path : List String) (k v : Expr)   -- `obj.a[k] = v`
  | attrDelItem (obj : Expr) (path : List String) (k : Expr)     -- `del obj.a[k]` (dict)
  | attrDelIdx (obj : Expr) (path : List String) (n : Nat)       -- `del obj.a[n]` (list)
  | call (x : Option Nat) (recv : Expr) (m : String) (args : List Expr) (kwn : List String) (kwv : List Expr)
      (star : Option Expr)
  | callFn (x : Option Nat) (f : Expr) (args : List Expr) (kwn : List String) (kwv : List Expr) (star : Option Expr)
  | superCall (x : Option Nat) (m : String) (args : List Expr) (kwn : List String) (kwv : List Expr) (star : Option Expr)
  | ite (c : Cond) (t e : Block)
  | for1 (x : Nat) (it : Expr) (body orelse : Block)
  | for2 (x y : Nat) (it : Expr) (body orelse : Block)
  | while (c : Cond) (body orelse : Block)
  | tryExcept (body : Block) (pat : ExcPat) (handler orelse : Block)
  | reraise
  | raise (cls : ExcCls)
  | ret (e : Expr)
  | retNone
  | continue
  | break
  | pass
inductive Block where
  | nil
  | cons (s : Stmt) (rest : Block)
end

abbrev Env := Nat → Option Val

def Env.put (env : Env) (x : Nat) (v : Val) : Env := fun y => if y = x then some v else env y

def Env.ofArgs : List Val → Nat → Env
  | [], _ => fun _ => Option.none
  | v :: l, n => (Env.ofArgs l (n + 1)).put n v

def R.bind {α β : Type} (r : R α) (f : α → R β) : R β :=
  match r with
  | .ok a => f a
  | .exc e => .exc e
  | .stuck => .stuck

def R.ofOpt {α : Type} : Option α → R α
  | some a => .ok a
  | Option.none => .stuck

/-- evaluate a list left to right -/
def mapR {α β : Type} (f : α → R β) : List α → R (List β)
  | [] => .ok []
  | a :: l => (f a).bind fun b => (mapR f l).bind fun bs => .ok (b :: bs)

def zipKw : List String → List Val → List (String × Val)
  | n :: ns, v :: vs => (n, v) :: zipKw ns vs
  | _, _ => []

/-- `a or b` once `a` is known -/
def orThen (v : Val) (k : R Val) : R Val := if pyBool v then .ok v else k

def listOnly (v : Val) : R Val := if isListVal v then .ok v else .stuck

def subscriptRes (dv kv : Val) : R Val :=
  if isListVal dv then
    (match vdGet kv dv with
     | some v => .ok v
     | Option.none => .exc ⟨.keyError, 0⟩)
  else .stuck

def indexRes (n : Nat) (l : Val) : R Val :=
  if isListVal l then
    (match vlIdx n l with
     | some v => .ok v
     | Option.none => .exc ⟨.indexError, 0⟩)
  else .stuck

def natOf : Val → Option Nat
  | .nat n => some n
  | _ => Option.none

mutual
def Expr.eval {W : Type} (I : Iface W) (w : W) (env : Env) : Expr → R Val
  | .var x => R.ofOpt (env x)
  | .const v => .ok v
  | .self => .ok I.self
  | .attrOf e path => (e.eval I w env).bind fun v => I.attrOf w v path
  | .global name => R.ofOpt (I.global name)
  | .pair a b => (a.eval I w env).bind fun x => (b.eval I w env).bind fun y => .ok (.pair x y)
  | .tuple1 e => (e.eval I w env).bind fun v => .ok (.cons v .nil)
  | .listOf e => (e.eval I w env).bind listOnly
  | .items e => (e.eval I w env).bind listOnly
  | .keys e => (e.eval I w env).bind fun v => (listOnly v).bind fun v => .ok (vdKeys v)
  | .copy e => (e.eval I w env).bind listOnly
  | .subscript d k => (d.eval I w env).bind fun dv => (k.eval I w env).bind fun kv => subscriptRes dv kv
  | .index l n => (l.eval I w env).bind (indexRes n)
  | .indexE l k => (l.eval I w env).bind fun lv => (k.eval I w env).bind fun kv =>
      (R.ofOpt (natOf kv)).bind fun n => indexRes n lv
  | .addNat a n => (a.eval I w env).bind fun av => (R.ofOpt (natOf av)).bind fun m => .ok (.nat (m + n))
  | .dropE l n => (l.eval I w env).bind fun v => (listOnly v).bind fun v => .ok (vlDrop n v)
  | .len e => (e.eval I w env).bind fun v => (listOnly v).bind fun v => .ok (.nat (vlLen v))
  | .emptyList => .ok .nil
  | .emptyDict => .ok .nil
  | .strOf e => (e.eval I w env).bind fun v => R.ofOpt (strVal v)
  | .orE a b => (a.eval I w env).bind fun v => orThen v (b.eval I w env)
  | .dictGet d k dflt => (d.eval I w env).bind fun dv => (k.eval I w env).bind fun kv =>
      (dflt.eval I w env).bind fun fv => (listOnly dv).bind fun dv => .ok ((vdGet kv dv).getD fv)
  | .eqE a b => (a.eval I w env).bind fun x => (b.eval I w env).bind fun y => R.ofOpt (eqVal x y)
  | .andE a b => (a.eval I w env).bind fun x => (b.eval I w env).bind fun y => R.ofOpt (andVal x y)
  | .inE a b => (a.eval I w env).bind fun x => (b.eval I w env).bind fun y => R.ofOpt (inVal x y)
  | .reduceAnd l Option.none => (l.eval I w env).bind fun lv =>
      match lv.toList with
      | some (v :: vs) => R.ofOpt (foldAnd v vs)
      | _ => .stuck
  | .reduceAnd l (some i) => (l.eval I w env).bind fun lv => (i.eval I w env).bind fun iv =>
      match lv.toList with
      | some vs => R.ofOpt (foldAnd iv vs)
      | Option.none => .stuck
  | .getattr e n => (e.eval I w env).bind fun v => (n.eval I w env).bind fun nv => I.getattr w v nv
  | .pure f args kwn kwv => (Expr.evalList I w env args).bind fun as => (Expr.evalList I w env kwv).bind fun ks =>
      I.pure w f as (zipKw kwn ks)
def Expr.evalList {W : Type} (I : Iface W) (w : W) (env : Env) : List Expr → R (List Val)
  | [] => .ok []
  | e :: l => (e.eval I w env).bind fun v => (Expr.evalList I w env l).bind fun vs => .ok (v :: vs)
end

def eval2 {W : Type} (I : Iface W) (w : W) (env : Env) (a b : Expr) : R (Val × Val) :=
  (a.eval I w env).bind fun x => (b.eval I w env).bind fun y => .ok (x, y)

def Cond.eval {W : Type} (I : Iface W) (w : W) (env : Env) : Cond → R Bool
  | .truthy e => (e.eval I w env).bind fun v => .ok (pyBool v)
  | .isNone e => (e.eval I w env).bind fun v => .ok v.isNone
  | .isNotNone e => (e.eval I w env).bind fun v => .ok (!v.isNone)
  | .is a b => (eval2 I w env a b).bind fun p => .ok (decide (p.1 = p.2))
  | .eq a b => (eval2 I w env a b).bind fun p => .ok (decide (p.1 = p.2))
  | .ne a b => (eval2 I w env a b).bind fun p => .ok (!decide (p.1 = p.2))
  | .isinstance e cls => (e.eval I w env).bind fun v => R.ofOpt (I.isinstance w v cls)
  | .inDict k d => (eval2 I w env k d).bind fun p => if isListVal p.2 then .ok (vdHas p.1 p.2) else .stuck
  | .inList k l => (eval2 I w env k l).bind fun p => if isListVal p.2 then .ok (vsHas p.1 p.2) else .stuck
  | .hasattr e n => (eval2 I w env e n).bind fun p => R.ofOpt (I.hasattr w p.1 p.2)
  | .not c => (c.eval I w env).bind fun b => .ok (!b)
  | .and c d => (c.eval I w env).bind fun b => if b then d.eval I w env else .ok false
  | .or c d => (c.eval I w env).bind fun b => if b then .ok true else d.eval I w env

structure St (W : Type) where
  w : W
  env : Env

def St.setVar {W : Type} (st : St W) (x : Nat) (v : Val) : St W := { st with env := st.env.put x v }

def St.setOpt {W : Type} (st : St W) (x : Option Nat) (v : Val) : St W :=
  match x with
  | some x => st.setVar x v
  | Option.none => st

inductive Res (W : Type) where
  | norm (st : St W)
  | ret (st : St W) (v : Val)
  | exc (st : St W) (e : Exc)
  | cont (st : St W)
  | brk (st : St W)
  | stuck

/-- sequencing: continue with `k` after a statement that ended normally -/
def Res.seq {W : Type} (r : Res W) (k : St W → Res W) : Res W :=
  match r with
  | .norm st => k st
  | r => r

/-- run `k` on the value of an expression -/
def withR {W α : Type} (st : St W) (r : R α) (k : α → Res W) : Res W :=
  match r with
  | .ok a => k a
  | .exc e => .exc st e
  | .stuck => .stuck

/-- `for`: `orelse` runs unless the loop was left by `break` -/
def forLoop {W α : Type} (f : St W → α → Res W) (orelse : St W → Res W) : List α → St W → Res W
  | [], st => orelse st
  | v :: vs, st => match f st v with
    | .norm st' => forLoop f orelse vs st'
    | .cont st' => forLoop f orelse vs st'
    | .brk st' => .norm st'
    | r => r

def pairBody {W : Type} (f : St W → Val → Val → Res W) (st : St W) (a : Val) : Res W :=
  match a with
  | .pair p q => f st p q
  | _ => .stuck

def whileLoop {W : Type} (c : St W → R Bool) (f : St W → Res W) (orelse : St W → Res W) : Nat → St W → Res W
  | 0, _ => .stuck
  | n + 1, st => match c st with
    | .ok true => (match f st with
      | .norm st' => whileLoop c f orelse n st'
      | .cont st' => whileLoop c f orelse n st'
      | .brk st' => .norm st'
      | r => r)
    | .ok false => orelse st
    | .exc e => .exc st e
    | .stuck => .stuck

def afterCall {W : Type} (r : CallRes W) (st : St W) (x : Option Nat) : Res W :=
  match r with
  | .ret w v => .norm ({ st with w := w }.setOpt x v)
  | .exc w e => .exc { st with w := w } e
  | .stuck => .stuck

def evalStar {W : Type} (I : Iface W) (w : W) (env : Env) : Option Expr → R Val
  | Option.none => .ok .none
  | some e => e.eval I w env

structure Args where
  pos : List Val
  kw : List (String × Val)
  star : Val

def evalArgs {W : Type} (I : Iface W) (w : W) (env : Env) (args : List Expr) (kwn : List String) (kwv : List Expr)
    (star : Option Expr) : R Args :=
  (Expr.evalList I w env args).bind fun as => (Expr.evalList I w env kwv).bind fun ks =>
    (evalStar I w env star).bind fun s => .ok ⟨as, zipKw kwn ks, s⟩

/-- a local that must hold a container value -/
def withList {W : Type} (st : St W) (x : Nat) (k : Val → Res W) : Res W :=
  match st.env x with
  | some d => if isListVal d then k d else .stuck
  | Option.none => .stuck

def setAttrRes {W : Type} (I : Iface W) (st : St W) (o : Val) (path : List String) (v : Val) : Res W :=
  match I.setAttrOf st.w o path v with
  | some w' => .norm { st with w := w' }
  | Option.none => .stuck

def delItemRes {W : Type} (st : St W) (k d : Val) (store : Val → Res W) : Res W :=
  if vdHas k d then store (vdDel k d) else .exc st ⟨.keyError, 0⟩

def delIdxRes {W : Type} (st : St W) (n : Nat) (d : Val) (store : Val → Res W) : Res W :=
  if n < vlLen d then store (vlDelIdx n d) else .exc st ⟨.indexError, 0⟩

def tryRes {W : Type} (r : Res W) (pat : ExcPat) (handler : Exc → St W → Res W) (orelse : St W → Res W) : Res W :=
  match r with
  | .norm st' => orelse st'
  | .exc st' e => if pat.catches e then handler e st' else .exc st' e
  | r => r

/-- `dict([(k, v) for (a, b) in l if c])` merged into the dict value `d`, entry by entry; the comprehension's
    variables live in a scratch environment -/
def updPairs {W : Type} (I : Iface W) (w : W) (env : Env) (a b : Nat) (c : Cond) (k v : Expr) : List Val → Val → R Val
  | [], d => .ok d
  | .pair p q :: l, d =>
    (c.eval I w ((env.put a p).put b q)).bind fun t =>
      if t then (eval2 I w ((env.put a p).put b q) k v).bind fun kv => updPairs I w env a b c k v l (vdSet kv.1 kv.2 d)
      else updPairs I w env a b c k v l d
  | _ :: _, _ => .stuck

def Place.read {W : Type} (I : Iface W) (w : W) (env : Env) : Place → R Val
  | .pvar x => R.ofOpt (env x)
  | .pattr x path => (R.ofOpt (env x)).bind fun v => I.attrOf w v path

def Place.write {W : Type} (I : Iface W) (env : Env) (v : Val) : Place → Option Env
  | .pvar x => some (env.put x v)
  | .pattr x path => match env x with
    | some o => (I.updVal o path v).map fun o' => env.put x o'
    | Option.none => Option.none

/-- positional arguments followed by the elements of `*vstar` -/
def evalArgsV {W : Type} (I : Iface W) (w : W) (env : Env) (args : List Expr) (vstar : Expr) (kwn : List String)
    (kwv : List Expr) (star : Option Expr) : R Args :=
  (evalArgs I w env args kwn kwv star).bind fun a => (vstar.eval I w env).bind fun vs =>
    (R.ofOpt vs.toList).bind fun l => .ok { a with pos := a.pos ++ l }

mutual
def Stmt.exec {W : Type} (I : Iface W) (cur : Option Exc) (st : St W) : Stmt → Res W
  | .assign x e => withR st (e.eval I st.w st.env) fun v => .norm (st.setVar x v)
  | .setAttr obj path e => withR st (eval2 I st.w st.env obj e) fun p => setAttrRes I st p.1 path p.2
  | .setItem x k v => withList st x fun d => withR st (eval2 I st.w st.env k v) fun p =>
      .norm (st.setVar x (vdSet p.1 p.2 d))
  | .delItem x k => withList st x fun d => withR st (k.eval I st.w st.env) fun kv =>
      delItemRes st kv d fun d' => .norm (st.setVar x d')
  | .setAdd x e => withList st x fun d => withR st (e.eval I st.w st.env) fun v => .norm (st.setVar x (vsAdd v d))
  | .setUpdate x e => withList st x fun d => withR st (e.eval I st.w st.env) fun v =>
      if isListVal v then .norm (st.setVar x (vsUpdate d v)) else .stuck
  | .updatePairs x a b it c k v => withList st x fun d => withR st (it.eval I st.w st.env) fun itv =>
      withR st (R.ofOpt itv.toList) fun l => withR st (updPairs I st.w st.env a b c k v l d) fun d' =>
        .norm (st.setVar x d')
  | .dictAppend d k v => withList st d fun dv => withR st (eval2 I st.w st.env k v) fun p =>
      if isListVal ((vdGet p.1 dv).getD .nil) then
        .norm (st.setVar d (vdSet p.1 (vlAppend p.2 ((vdGet p.1 dv).getD .nil)) dv))
      else .stuck
  | .dictPop x d k dflt => withList st d fun dv => withR st (eval2 I st.w st.env k dflt) fun p =>
      .norm ((st.setVar x ((vdGet p.1 dv).getD p.2)).setVar d (vdDel p.1 dv))
  | .setAttrVar x path e => withR st (R.ofOpt (st.env x)) fun o => withR st (e.eval I st.w st.env) fun v =>
      withR st (R.ofOpt (I.updVal o path v)) fun o' => .norm (st.setVar x o')
  | .procCall x f arg caps => withR st (arg.read I st.w st.env) fun av =>
      withR st (Expr.evalList I st.w st.env caps) fun cs => withR st (I.proc f (av :: cs)) fun r =>
        withR st (R.ofOpt (arg.write I st.env r.1)) fun env' => .norm ({ st with env := env' }.setOpt x r.2)
  | .callV x recv m args vstar kwn kwv star =>
    withR st (recv.eval I st.w st.env) fun r => withR st (evalArgsV I st.w st.env args vstar kwn kwv star) fun a =>
      afterCall (I.call st.w r m a.pos a.kw a.star) st x
  | .superCallV x m args vstar kwn kwv star =>
    withR st (evalArgsV I st.w st.env args vstar kwn kwv star) fun a =>
      afterCall (I.super st.w m a.pos a.kw a.star) st x
  | .append x e => withList st x fun d => withR st (e.eval I st.w st.env) fun v => .norm (st.setVar x (vlAppend v d))
  | .attrSetItem obj path k v => withR st (obj.eval I st.w st.env) fun o => withR st (I.attrOf st.w o path) fun d =>
      withR st (eval2 I st.w st.env k v) fun p =>
        if isListVal d then setAttrRes I st o path (vdSet p.1 p.2 d) else .stuck
  | .attrDelItem obj path k => withR st (obj.eval I st.w st.env) fun o => withR st (I.attrOf st.w o path) fun d =>
      withR st (k.eval I st.w st.env) fun kv =>
        if isListVal d then delItemRes st kv d fun d' => setAttrRes I st o path d' else .stuck
  | .attrDelIdx obj path n => withR st (obj.eval I st.w st.env) fun o => withR st (I.attrOf st.w o path) fun d =>
      if isListVal d then delIdxRes st n d fun d' => setAttrRes I st o path d' else .stuck
  | .call x recv m args kwn kwv star =>
    withR st (recv.eval I st.w st.env) fun r => withR st (evalArgs I st.w st.env args kwn kwv star) fun a =>
      afterCall (I.call st.w r m a.pos a.kw a.star) st x
  | .callFn x f args kwn kwv star =>
    withR st (f.eval I st.w st.env) fun fv => withR st (evalArgs I st.w st.env args kwn kwv star) fun a =>
      afterCall (I.callFn st.w fv a.pos a.kw a.star) st x
  | .superCall x m args kwn kwv star =>
    withR st (evalArgs I st.w st.env args kwn kwv star) fun a => afterCall (I.super st.w m a.pos a.kw a.star) st x
  | .ite c t e => withR st (c.eval I st.w st.env) fun b => if b then t.exec I cur st else e.exec I cur st
  | .for1 x it body orelse => withR st (it.eval I st.w st.env) fun v => withR st (R.ofOpt v.toList) fun l =>
      forLoop (fun st a => body.exec I cur (st.setVar x a)) (fun st => orelse.exec I cur st) l st
  | .for2 x y it body orelse => withR st (it.eval I st.w st.env) fun v => withR st (R.ofOpt v.toList) fun l =>
      forLoop (pairBody fun st p q => body.exec I cur ((st.setVar x p).setVar y q)) (fun st => orelse.exec I cur st) l st
  | .while c body orelse =>
    whileLoop (fun st => c.eval I st.w st.env) (fun st => body.exec I cur st) (fun st => orelse.exec I cur st)
      (I.fuel st.w) st
  | .tryExcept body pat handler orelse =>
    tryRes (body.exec I cur st) pat (fun e st' => handler.exec I (some e) st') (fun st' => orelse.exec I cur st')
  | .reraise => match cur with
    | some e => .exc st e
    | Option.none => .stuck
  | .raise cls => .exc st ⟨cls, 0⟩
  | .ret e => withR st (e.eval I st.w st.env) fun v => .ret st v
  | .retNone => .ret st .none
  | .continue => .cont st
  | .break => .brk st
  | .pass => .norm st
def Block.exec {W : Type} (I : Iface W) (cur : Option Exc) (st : St W) : Block → Res W
  | .nil => .norm st
  | .cons s rest => (s.exec I cur st).seq fun st' => rest.exec I cur st'
end

def Res.toCall {W : Type} : Res W → CallRes W
  | .norm st => .ret st.w .none
  | .ret st v => .ret st.w v
  | .exc st e => .exc st.w e
  | .cont _ => .stuck
  | .brk _ => .stuck
  | .stuck => .stuck

/-- run a nested function (pure: the world `w` is only read): final value of its first parameter, return value -/
def runProc {W : Type} (I : Iface W) (prog : Block) (args : List Val) (w : W) : R (Val × Val) :=
  match prog.exec I Option.none { w := w, env := Env.ofArgs args 0 } with
  | .norm st => (R.ofOpt (st.env 0)).bind fun p => .ok (p, .none)
  | .ret st v => (R.ofOpt (st.env 0)).bind fun p => .ok (p, v)
  | .exc _ e => .exc e
  | _ => .stuck

/-- call a method: `args` are the parameters after `self` / `cls` (a `**kw` parameter: the dict value) -/
def run {W : Type} (I : Iface W) (prog : Block) (args : List Val) (w : W) : CallRes W :=
  (prog.exec I Option.none { w := w, env := Env.ofArgs args 0 }).toCall

end SqlObjVerif.PyIS
