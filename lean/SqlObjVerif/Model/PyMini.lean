/-!
# PyMini — a deep embedding of the small Python fragment that `SelectResults.__getitem__` is written in

`vlib/extractors/getitem.py` TRANSLATES the body of `__getitem__` from /repo's AST into a
`Block` of this language on every run (`Extracted/GetItem.lean`); this file is its fixed
vocabulary and its reference semantics (Python 3 semantics of the constructs that occur:
integers and `None`, `+ -`, comparisons, truthiness, short-circuit `and`/`or`/`not`,
`is None`, `assert`, `if/else`, assignment to locals, the five kinds of `return` and
`raise IndexError`).
-/
namespace SqlObjVerif.PyMini

/-- a Python value of the fragment: `none` = `None`, `some i` = the int `i` -/
abbrev PVal := Option Int

inductive AExpr where
  | var (x : String)
  | int (i : Int)
  | pyNone
  | add (a b : AExpr)
  | sub (a b : AExpr)
deriving Repr, DecidableEq

inductive Cmp where
  | lt | le | gt | ge
deriving Repr, DecidableEq

inductive CExpr where
  | truthy (a : AExpr)
  | cmp (op : Cmp) (a b : AExpr)
  | isNone (a : AExpr)
  | isNotNone (a : AExpr)
  | not (c : CExpr)
  | and (c d : CExpr)
  | or (c d : CExpr)
deriving Repr, DecidableEq

inductive Ret where
  | self                                   -- `return self`
  | clone (start stop : AExpr)             -- `return self.clone(start=…, end=…)`
  | listSlice (a b : AExpr)                -- `return list(self)[a:b]`
  | listIndex (i : AExpr)                  -- `return list(iter(self))[i]`
  | firstOfClone (start stop : AExpr)      -- `return list(self.clone(start=…, end=…))[0]`
deriving Repr, DecidableEq

mutual
inductive Stmt where
  | assign (x : String) (e : AExpr)
  | ite (c : CExpr) (t e : Block)
  | assert (c : CExpr)
  | ret (r : Ret)
  | raiseIndexError
inductive Block where
  | nil
  | cons (s : Stmt) (rest : Block)
end

abbrev Env := List (String × PVal)

def Env.get? (env : Env) (x : String) : Option PVal :=
  match env with
  | [] => none
  | (y, v) :: rest => if x == y then some v else Env.get? rest x

def Env.set (env : Env) (x : String) (v : PVal) : Env := (x, v) :: env

/-- value of an arithmetic expression; outer `none` = Python raises (TypeError / NameError) -/
def AExpr.eval (env : Env) : AExpr → Option PVal
  | .var x => env.get? x
  | .int i => some (some i)
  | .pyNone => some Option.none
  | .add a b => match a.eval env, b.eval env with
    | some (some x), some (some y) => some (some (x + y))
    | _, _ => Option.none
  | .sub a b => match a.eval env, b.eval env with
    | some (some x), some (some y) => some (some (x - y))
    | _, _ => Option.none

def Cmp.holds : Cmp → Int → Int → Bool
  | .lt, x, y => x < y
  | .le, x, y => x ≤ y
  | .gt, x, y => x > y
  | .ge, x, y => x ≥ y

def pyTruthy : PVal → Bool
  | none => false
  | some i => i != 0

/-- truth value of a condition, with Python's short-circuit evaluation; `none` = raises -/
def CExpr.eval (env : Env) : CExpr → Option Bool
  | .truthy a => (a.eval env).map pyTruthy
  | .cmp op a b => match a.eval env, b.eval env with
    | some (some x), some (some y) => some (op.holds x y)
    | _, _ => none                       -- `None < 0` is a TypeError in Python 3
  | .isNone a => (a.eval env).map (fun v => v.isNone)
  | .isNotNone a => (a.eval env).map (fun v => v.isSome)
  | .not c => (c.eval env).map (!·)
  | .and c d => match c.eval env with
    | some true => d.eval env
    | some false => some false
    | none => none
  | .or c d => match c.eval env with
    | some true => some true
    | some false => d.eval env
    | none => none

/-- how a call of the translated function ends -/
inductive Outcome where
  | self
  | clone (start stop : PVal)
  | listSlice (a b : PVal)
  | listIndex (i : PVal)
  | firstOfClone (start stop : PVal)
  | indexError
  | assertFail
  | error            -- TypeError / NameError / falling off the end
deriving Repr, DecidableEq

def Ret.eval (env : Env) : Ret → Outcome
  | .self => .self
  | .clone s e => match s.eval env, e.eval env with
    | some s, some e => .clone s e
    | _, _ => .error
  | .listSlice a b => match a.eval env, b.eval env with
    | some a, some b => .listSlice a b
    | _, _ => .error
  | .listIndex i => match i.eval env with
    | some i => .listIndex i
    | none => .error
  | .firstOfClone s e => match s.eval env, e.eval env with
    | some s, some e => .firstOfClone s e
    | _, _ => .error

mutual
/-- `.error o` = the function finished with outcome `o`; `.ok env` = fell through -/
def Stmt.exec (env : Env) : Stmt → Except Outcome Env
  | .assign x e => match e.eval env with
    | some v => .ok (env.set x v)
    | none => .error .error
  | .ite c t e => match c.eval env with
    | some true => t.exec env
    | some false => e.exec env
    | none => .error .error
  | .assert c => match c.eval env with
    | some true => .ok env
    | some false => .error .assertFail
    | none => .error .error
  | .ret r => .error (r.eval env)
  | .raiseIndexError => .error .indexError
def Block.exec (env : Env) : Block → Except Outcome Env
  | .nil => .ok env
  | .cons s rest => match s.exec env with
    | .ok env' => rest.exec env'
    | .error o => .error o
end

def run (prog : Block) (env : Env) : Outcome :=
  match prog.exec env with
  | .error o => o
  | .ok _ => .error

end SqlObjVerif.PyMini
