/-!
# Conc — small-step interleaving semantics of sqlobject's instance cache (property C09)

Mirrors `/repo/sqlobject/cache.py` (`CacheFactory.get/put/finishPut/created/cull/expire/expireAll`,
`CacheSet.get/created/expire/weakrefAll` after the `setdefault` fix) and the cache-facing part of
`/repo/sqlobject/main.py` (`SQLObject.get` miss path with `try … finally finishPut`,
`_SO_finishCreate` → INSERT → `cache.created` → `_init` SELECT) for one class on one connection, in both
modes of the connection: `doCache = True` (`dc`), and `doCache = False` where only `expiredCache` is used
(unlocked weak probe, acquire, weak probe again; `put` / `created` store a weak reference; `expireAll` is a
no-op; no cull bookkeeping).

WHICH DICT an access uses: `self.cache` is an attribute that `expireAll` REBINDS (`self.cache = {}`), so the
attribute load is an action of its own whenever the loading thread does not hold the cache lock (the
rebinding needs the lock, so a load by the holder commutes with everything): `probeL` / `crSetL` load the
attribute and remember the generation `gen` of the dict they got; the following dict operation acts on that
dict — the current one, or an abandoned one kept in `olds` while aliases of it exist (its values stay alive).
The code re-reads `self.cache` for every operation, so an alias lives across one scheduling point only.

ATOMIC ACTIONS ARE THE SHARED ACCESSES: one dict get/set/del/`in`, one `list(d.keys())`, one `next()`
of a dict iterator, the `self.cache = {}` rebinding, one lock acquire (blocking) / release, one read
or write of `cullCount`, one `CacheSet.caches` access while the class has no entry yet, one DB
statement.  A step of a thread = the access it is parked at plus the thread-local code up to its next
shared access (this is how the harness' deterministic scheduler runs the real code).

Weak references: CPython frees an instance the moment its last strong reference goes (instances are
not part of reference cycles: `sqlmeta.instance` and `SQLObjectState.soObject` are weak proxies), so an
`expiredCache` entry is dead exactly when its object is referenced neither by `cache`, nor by a thread
(`refs`: every instance a thread has obtained; threads keep what they got), nor by the environment
(`pins`).  `alive` computes that; the dead-weakref branches of `get` and `cull` follow it.

Not modelled (see META['modelled'] of harness/c09.py): preemption inside a C-level dict
operation, a cyclic-GC / non-refcounting interpreter, OS scheduling/fairness.
-/
namespace SqlObjVerif.Conc

abbrev Tid := Nat
abbrev Id := Nat
abbrev Obj := Nat

/-! ## Python dicts with int keys: association lists in insertion order -/
abbrev AMap := List (Id × Obj)

def aget : AMap → Id → Option Obj
  | [], _ => none
  | (k, v) :: m, i => if k = i then some v else aget m i

/-- `d[i] = o`: replace in place, or append (a new key goes last) -/
def aset : AMap → Id → Obj → AMap
  | [], i, o => [(i, o)]
  | (k, v) :: m, i, o => if k = i then (k, o) :: m else (k, v) :: aset m i o

/-- `del d[i]` (keys are unique, so at most one entry goes) -/
def adel : AMap → Id → AMap
  | [], _ => []
  | (k, v) :: m, i => if k = i then adel m i else (k, v) :: adel m i

def akeys (m : AMap) : List Id := m.map Prod.fst
def avals (m : AMap) : List Obj := m.map Prod.snd

/-- `keys[off], keys[off+frac], …` (`range(off, len(keys), frac)`); `frac = 0` is outside the model
    (Python raises ValueError; the configuration constant is 2) and yields nothing -/
def stride : Nat → Nat → List Id → List Id
  | _, _, [] => []
  | 0, frac, k :: ks => k :: stride (frac - 1) frac ks
  | off + 1, frac, _ :: ks => stride off frac ks

def strideKeys (off frac : Nat) (ks : List Id) : List Id :=
  if frac = 0 then [] else stride off frac ks

/-! ## Programs -/
inductive Op where
  | get (i : Id)        -- `Cls.get(i)`
  | create (i : Id)     -- `Cls(id=i, …)`
  | expire (i : Id)     -- `connection.cache.expire(i, Cls)` (what `obj.expire()` / `destroySelf` call)
  | expireAll           -- `connection.cache.weakrefAll(Cls)`
  | cull                -- `CacheFactory.cull()` called directly (no-op while the class has no cache)
deriving DecidableEq, Repr

inductive Exc where
  | runtimeError | keyError | integrity
deriving DecidableEq, Repr

inductive Out where
  | obj (i : Id) (o : Obj)   -- the operation returned instance `o` for row `i`
  | notFound (i : Id)        -- SQLObjectNotFound (documented)
  | unit
  | exc (e : Exc)            -- any other exception
deriving DecidableEq, Repr

/-- what a thread does once the cullCount bookkeeping / an embedded cull / the first-use detour is over -/
inductive K where
  | get (i : Id)
  | create (i : Id) (o : Obj)
  | expire (i : Id)
  | expireAll
  | cull
deriving DecidableEq, Repr

inductive Pc where
  | idle
  -- CacheSet first use (only while `caches` has no entry for the class)
  | csGet (k : K) | csSet (k : K)
  -- cullCount bookkeeping of CacheFactory.get / created
  | ccTest (k : K) | ccRead (k : K) | ccWrite (k : K) (v : Nat) | ccReset (k : K)
  -- CacheFactory.get + SQLObject.get
  | probeL (i : Id) | probe (i : Id) (g : Nat) | acq (i : Id) | relook (i : Id) | relRel (i : Id) (o : Obj)
  | weakGet (i : Id) | weakDel (i : Id) (o : Obj) | weakDelDead (i : Id) (o : Obj) | strongSet (i : Id) (o : Obj) | relSet (i : Id) (o : Obj)
  | select (i : Id) | put (i : Id) (o : Obj) | finRel (i : Id) (o : Obj) | finRelNF (i : Id)
  -- CacheFactory.get with doCache = False
  | nProbe (i : Id) | nAcq (i : Id) | nRelook (i : Id)
  -- create
  | insert (i : Id) | crSetL (i : Id) (o : Obj) | crSet (i : Id) (o : Obj) (g : Nat) | crSelect (i : Id) (o : Obj)
  -- expire
  | exAcq (i : Id) | exInStrong (i : Id) | exDelStrong (i : Id) | exInWeak (i : Id) | exDelWeak (i : Id)
  | exRel | exRelErr
  -- expireAll
  | eaEntry | eaAcq | eaNext (pos used : Nat) | eaSetWeak (k : Id) (v : Obj) (pos used : Nat) | eaSwap | eaRel | eaRelErr
  -- cull (embedded in get/created, or called directly)
  | cuEntry | cuAcq (k : K) | cuWeakKeys (k : K) | cuWeakChk (k : K) (ks : List Id)
  | cuWeakPop (k : K) (key : Id) (o : Obj) (rest : List Id) | cuStrongKeys (k : K)
  | cuStrongGet (k : K) (i : Id) (rest : List Id) | cuStrongDel (k : K) (i : Id) (o : Obj) (rest : List Id)
  | cuWeakSet (k : K) (i : Id) (o : Obj) (rest : List Id) | cuRel (k : K) | cuRelErr
deriving DecidableEq, Repr

structure Th where
  pc : Pc
  prog : List Op          -- operations after the current one
  outs : List Out         -- outcomes of the completed operations, oldest first
deriving Repr

structure State where
  dc : Bool               -- `doCache` of the connection (constant)
  caches : Bool           -- `CacheSet.caches` has the class' CacheFactory
  strong : AMap           -- `CacheFactory.cache`
  weak : AMap             -- `CacheFactory.expiredCache` (id ↦ weakly referenced object, all alive)
  lock : Option Tid       -- holder of `CacheFactory.lock`
  cc : Nat                -- cullCount
  off : Nat               -- cullOffset
  freq : Nat              -- cullFrequency
  frac : Nat              -- cullFraction
  db : List Id            -- ids of the rows that exist
  fresh : Nat             -- next object identity
  stale : List Obj        -- ghost: objects removed from the cache by `expire`
  transit : Option (Id × Obj)  -- ghost: entry being moved between the maps by the lock holder
  refs : List Obj         -- instances some thread has obtained (and keeps)
  gen : Nat               -- how often `self.cache` has been rebound: names the current dict object
  hold : Nat              -- aliases of the current dict held by threads between a load and the operation
  olds : List (Nat × AMap × Nat)   -- abandoned dicts that still have aliases: (generation, content, aliases)
  pins : List Obj         -- instances the environment keeps a reference to
  th : Tid → Th

/-- the object still has a strong reference (so a weak reference to it is not dead) -/
def aliveIn (refs pins : List Obj) (strong : AMap) (o : Obj) : Bool :=
  refs.contains o || pins.contains o || (avals strong).contains o

/-- the values of the abandoned dicts that are still aliased: the alias keeps the dict, the dict its values -/
def ovals (olds : List (Nat × AMap × Nat)) : List Obj := (olds.map fun e => avals e.2.1).flatten

def alive (s : State) (o : Obj) : Bool := aliveIn s.refs (s.pins ++ ovals s.olds) s.strong o

def oget : List (Nat × AMap × Nat) → Nat → Option AMap
  | [], _ => none
  | (g', m, _) :: r, g => if g' = g then some m else oget r g

/-- `d[i] = o` on an abandoned dict -/
def oset : List (Nat × AMap × Nat) → Nat → Id → Obj → List (Nat × AMap × Nat)
  | [], _, _, _ => []
  | (g', m, c) :: r, g, i, o => if g' = g then (g', aset m i o, c) :: r else (g', m, c) :: oset r g i o

/-- an alias of the abandoned dict of generation `g` goes away; the dict with its last alias -/
def orelease : List (Nat × AMap × Nat) → Nat → List (Nat × AMap × Nat)
  | [], _ => []
  | (g', m, c) :: r, g => if g' = g then (if c ≤ 1 then r else (g', m, c - 1) :: r) else (g', m, c) :: orelease r g

def setTh (f : Tid → Th) (t : Tid) (v : Th) : Tid → Th := fun u => if u = t then v else f u

/-- where an operation first parks -/
def entry (dc c : Bool) : Op → Pc
  | .get i => if c then (if dc then .ccTest (.get i) else .nProbe i) else .csGet (.get i)
  | .create i => .insert i
  | .expire i => if c then .exAcq i else .csGet (.expire i)
  | .expireAll => if dc then (if c then .eaAcq else .csGet .expireAll) else .eaEntry
  | .cull => .cuEntry

def goto (s : State) (t : Tid) (pc : Pc) : State :=
  { s with th := setTh s.th t { s.th t with pc := pc } }

/-- the current operation of `t` ends with outcome `o`; the thread runs on to the first shared access
    of its next operation -/
def finish (s : State) (t : Tid) (o : Out) : State :=
  match (s.th t).prog with
  | [] => { s with th := setTh s.th t { pc := .idle, prog := [], outs := (s.th t).outs ++ [o] } }
  | op :: rest =>
    { s with th := setTh s.th t { pc := entry s.dc s.caches op, prog := rest, outs := (s.th t).outs ++ [o] } }

/-- after the cullCount bookkeeping (and the embedded cull, if any) -/
def afterCC (s : State) (t : Tid) : K → State
  | .get i => goto s t (.probeL i)
  | .create i o => goto s t (.crSetL i o)
  | _ => finish s t .unit

/-- after the class' CacheFactory was found in / installed into `caches` -/
def afterCaches (s : State) (t : Tid) : K → State
  | .get i => if s.dc then goto s t (.ccTest (.get i)) else goto s t (.nProbe i)
  | .create i o => if s.dc then goto s t (.ccTest (.create i o)) else goto s t (.crSet i o s.gen)
  | .expire i => goto s t (.exAcq i)
  | .expireAll => goto s t .eaAcq
  | .cull => goto s t (.cuAcq .cull)

def cuWeakNext (k : K) : List Id → Pc
  | [] => .cuStrongKeys k
  | ks => .cuWeakChk k ks

def cuStrongNext (k : K) : List Id → Pc
  | [] => .cuRel k
  | i :: rest => .cuStrongGet k i rest

/-- `lock.release()` by `t` (a `threading.Lock` may be released by any thread; releasing a free lock
    raises RuntimeError) followed by the end of the operation with outcome `o` -/
def releaseFinish (s : State) (t : Tid) (o : Out) : State :=
  match s.lock with
  | none => finish s t (.exc .runtimeError)
  | some _ => finish { s with lock := none } t o

/-- one atomic action of thread `t`; `none` = finished, or blocked on the cache lock -/
def step (s : State) (t : Tid) : Option State :=
  match (s.th t).pc with
  | .idle => none
  -- first use of the class on this connection
  | .csGet k =>
    if s.caches then
      (match k, s.dc with
       | .expireAll, false => some (finish s t .unit)      -- doCache = False: expireAll returns at once
       | _, _ => some (afterCaches s t k))
    else match k with
      | .get _ | .create _ _ => some (goto s t (.csSet k))
      | _ => some (finish s t .unit)
  | .csSet k => some (afterCaches { s with caches := true } t k)
  -- cullCount bookkeeping
  | .ccTest k => if s.cc > s.freq then some (goto s t (.ccReset k)) else some (goto s t (.ccRead k))
  | .ccRead k => some (goto s t (.ccWrite k (s.cc + 1)))
  | .ccWrite k v => some (afterCC { s with cc := v } t k)
  | .ccReset k => some (goto { s with cc := 0 } t (.cuAcq k))
  -- get
  | .probeL i => some (goto { s with hold := s.hold + 1 } t (.probe i s.gen))     -- `self.cache` (unlocked)
  | .probe i g =>
    if g = s.gen then
      match aget s.strong i with
      | some o => some (finish { s with refs := s.refs ++ [o], hold := s.hold - 1 } t (.obj i o))
      | none => some (goto { s with hold := s.hold - 1 } t (.acq i))
    else
      -- the attribute was rebound after the load: the probe reads the abandoned dict
      match oget s.olds g with
      | some m =>
        (match aget m i with
         | some o => some (finish { s with refs := s.refs ++ [o], olds := orelease s.olds g } t (.obj i o))
         | none => some (goto { s with olds := orelease s.olds g } t (.acq i)))
      | none => some (goto s t (.acq i))
  | .acq i =>
    match s.lock with
    | none => some (goto { s with lock := some t } t (.relook i))
    | some _ => none
  | .relook i =>
    match aget s.strong i with
    | some o => some (goto { s with refs := s.refs ++ [o] } t (.relRel i o))
    | none => some (goto s t (.weakGet i))
  | .relRel i o => some (releaseFinish s t (.obj i o))
  | .weakGet i =>
    match aget s.weak i with
    | some o =>
      if alive s o then some (goto { s with refs := s.refs ++ [o] } t (.weakDel i o))
      else some (goto s t (.weakDelDead i o))      -- dead weak reference: `val is None`
    | none => some (goto s t (.select i))
  | .weakDel i o =>
    match aget s.weak i with
    | some _ => some (goto { s with weak := adel s.weak i, transit := some (i, o) } t (.strongSet i o))
    | none => some (finish s t (.exc .keyError))
  | .weakDelDead i _ =>
    match aget s.weak i with
    | some _ => some (goto { s with weak := adel s.weak i } t (.select i))
    | none => some (finish s t (.exc .keyError))
  | .strongSet i o => some (goto { s with strong := aset s.strong i o, transit := none } t (.relSet i o))
  | .relSet i o => some (releaseFinish s t (.obj i o))
  | .select i =>
    if i ∈ s.db then some (goto { s with fresh := s.fresh + 1, refs := s.refs ++ [s.fresh] } t (.put i s.fresh))
    else some (goto s t (.finRelNF i))
  | .put i o =>
    if s.dc then some (goto { s with strong := aset s.strong i o } t (.finRel i o))
    else some (goto { s with weak := aset s.weak i o } t (.finRel i o))     -- `expiredCache[id] = ref(obj)`
  | .finRel i o => some (releaseFinish s t (.obj i o))
  | .finRelNF i => some (releaseFinish s t (.notFound i))
  -- get, doCache = False
  | .nProbe i =>
    match aget s.weak i with
    | some o =>
      if alive s o then some (finish { s with refs := s.refs ++ [o] } t (.obj i o))
      else some (goto s t (.nAcq i))
    | none => some (goto s t (.nAcq i))
  | .nAcq i =>
    match s.lock with
    | none => some (goto { s with lock := some t } t (.nRelook i))
    | some _ => none
  | .nRelook i =>
    match aget s.weak i with
    | some o =>
      if alive s o then some (goto { s with refs := s.refs ++ [o] } t (.relRel i o))
      else some (goto s t (.weakDelDead i o))
    | none => some (goto s t (.select i))
  -- create
  | .insert i =>
    if i ∈ s.db then some (finish s t (.exc .integrity))
    else
      let s' := { s with db := s.db ++ [i], fresh := s.fresh + 1, refs := s.refs ++ [s.fresh] }
      if s.caches then
        (if s.dc then some (goto s' t (.ccTest (.create i s.fresh))) else some (goto s' t (.crSet i s.fresh s.gen)))
      else some (goto s' t (.csGet (.create i s.fresh)))
  | .crSetL i o => some (goto { s with hold := s.hold + 1 } t (.crSet i o s.gen))     -- `self.cache` (lock-free)
  | .crSet i o g =>
    if s.dc then
      (if g = s.gen then
        some (goto { s with strong := aset s.strong i o, hold := s.hold - 1 } t (.crSelect i o))
       else
        -- stale alias: the entry goes into the abandoned dict
        some (goto { s with olds := orelease (oset s.olds g i o) g } t (.crSelect i o)))
    else some (goto { s with weak := aset s.weak i o } t (.crSelect i o))
  | .crSelect i o => if i ∈ s.db then some (finish s t (.obj i o)) else some (finish s t (.notFound i))
  -- expire
  | .exAcq i =>
    match s.lock with
    | none =>
      if s.dc then some (goto { s with lock := some t } t (.exInStrong i))
      else some (goto { s with lock := some t } t (.exInWeak i))
    | some _ => none
  | .exInStrong i =>
    match aget s.strong i with
    | some _ => some (goto s t (.exDelStrong i))
    | none => some (goto s t (.exInWeak i))
  | .exDelStrong i =>
    match aget s.strong i with
    | some o => some (goto { s with strong := adel s.strong i, stale := o :: s.stale } t (.exInWeak i))
    | none => some (goto s t .exRelErr)
  | .exInWeak i =>
    match aget s.weak i with
    | some _ => some (goto s t (.exDelWeak i))
    | none => some (goto s t .exRel)
  | .exDelWeak i =>
    match aget s.weak i with
    | some o => some (goto { s with weak := adel s.weak i, stale := o :: s.stale } t .exRel)
    | none => some (goto s t .exRelErr)
  | .exRel => some (releaseFinish s t .unit)
  | .exRelErr => some (releaseFinish s t (.exc .keyError))
  -- expireAll
  | .eaEntry => if s.caches then some (finish s t .unit) else some (goto s t (.csGet .expireAll))
  | .eaAcq =>
    match s.lock with
    | none => some (goto { s with lock := some t } t (.eaNext 0 s.strong.length))
    | some _ => none
  | .eaNext pos used =>
    if s.strong.length ≠ used then some (goto s t .eaRelErr)
    else match s.strong[pos]? with
      | some (k, v) => some (goto s t (.eaSetWeak k v (pos + 1) used))
      | none => some (goto s t .eaSwap)
  | .eaSetWeak k v pos used => some (goto { s with weak := aset s.weak k v } t (.eaNext pos used))
  | .eaSwap =>
    some (goto { s with strong := [], gen := s.gen + 1, hold := 0,
                        olds := if s.hold = 0 then s.olds else s.olds ++ [(s.gen, s.strong, s.hold)] } t .eaRel)
  | .eaRel => some (releaseFinish s t .unit)
  | .eaRelErr => some (releaseFinish s t (.exc .runtimeError))
  -- cull
  | .cuEntry => if s.caches && s.dc then some (goto s t (.cuAcq .cull)) else some (finish s t .unit)
  | .cuAcq k =>
    match s.lock with
    | none => some (goto { s with lock := some t } t (.cuWeakKeys k))
    | some _ => none
  | .cuWeakKeys k => some (goto s t (cuWeakNext k (akeys s.weak)))
  | .cuWeakChk k ks =>
    match ks with
    | [] => some (goto s t (.cuStrongKeys k))
    | key :: rest =>
      match aget s.weak key with
      | some o =>
        if alive s o then some (goto s t (cuWeakNext k rest))
        else some (goto s t (.cuWeakPop k key o rest))   -- dead: `self.expiredCache.pop(key, None)`
      | none => some (goto s t .cuRelErr)
  | .cuWeakPop k key _ rest => some (goto { s with weak := adel s.weak key } t (cuWeakNext k rest))
  | .cuStrongKeys k => some (goto s t (cuStrongNext k (strideKeys s.off s.frac (akeys s.strong))))
  | .cuStrongGet k i rest =>
    match aget s.strong i with
    | some o => some (goto s t (.cuStrongDel k i o rest))
    | none => some (goto s t .cuRelErr)
  | .cuStrongDel k i o rest =>
    match aget s.strong i with
    | some _ =>
      -- "the object may have been gc'd when removed from the cache above"
      if aliveIn s.refs (s.pins ++ ovals s.olds) (adel s.strong i) o then
        some (goto { s with strong := adel s.strong i, transit := some (i, o) } t (.cuWeakSet k i o rest))
      else some (goto { s with strong := adel s.strong i } t (cuStrongNext k rest))
    | none => some (goto s t .cuRelErr)
  | .cuWeakSet k i o rest =>
    some (goto { s with weak := aset s.weak i o, transit := none } t (cuStrongNext k rest))
  | .cuRel k =>
    match s.lock with
    | none => some (finish s t (.exc .runtimeError))
    | some _ => some (afterCC { s with lock := none, off := (s.off + 1) % s.frac } t k)
  | .cuRelErr => some (releaseFinish s t (.exc .keyError))

/-- a schedule is a list of thread ids; choosing a blocked or finished thread does nothing -/
def run (s : State) : List Tid → State
  | [] => s
  | t :: ts => match step s t with
    | some s' => run s' ts
    | none => run s ts

/-- threads start parked at the first shared access of their first operation -/
def startTh (dc c : Bool) : List Op → Th
  | [] => { pc := .idle, prog := [], outs := [] }
  | op :: rest => { pc := entry dc c op, prog := rest, outs := [] }

/-- initial state: `strong`/`weak` hold objects `0 … fresh-1`; the environment references `pins` -/
def mkInit (dc caches : Bool) (strong weak : AMap) (db : List Id) (fresh freq frac cc off : Nat)
    (pins : List Obj) (progs : Tid → List Op) : State :=
  { dc := dc, caches := caches, strong := strong, weak := weak, lock := none, cc := cc, off := off, freq := freq,
    frac := frac, db := db, fresh := fresh, stale := [], transit := none, refs := [], pins := pins, gen := 0,
    hold := 0, olds := [],
    th := fun t => startTh dc caches (progs t) }

def finished (s : State) (t : Tid) : Bool := (s.th t).pc = .idle

/-- run the schedule, then drain: lowest enabled thread among `0 … n-1` first, until none is enabled -/
def drain (n : Nat) : Nat → State → State
  | 0, s => s
  | fuel + 1, s =>
    match (List.range n).findSome? (fun t => step s t) with
    | some s' => drain n fuel s'
    | none => s

end SqlObjVerif.Conc
