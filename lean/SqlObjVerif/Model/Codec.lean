import SqlObjVerif.Model.CodecSyn
import SqlObjVerif.Extracted.Codec
/-!
# C01 — model `Codec`: Python value → validator `from_python` → SQL literal (`sqlrepr`, sqlite)
→ SQLite literal evaluation + column affinity → sqlite3 driver value → validator `to_python`

Characters are `Nat` code points, bytes are `Nat` < 256.

* `toDb T`  = the column's validator chain `from_python` (col.py; hand-written, tied by the
  correspondence stream "toDb").  `toPy T` = the chain's `to_python`.
* `lit`     = `sqlrepr(dbvalue, 'sqlite')` (converters.py), from the **extracted** format strings,
  bool / NULL literals and the sqlite replace pair.
* `evalLit` / `applyAff` / `affinityOf` = SQLite's literal evaluation and the documented column
  affinity rules (specification side; cross-checked by execution on every run).
* `fetch`   = what the sqlite3 driver hands back with `text_factory = str`.
* float / Decimal / uuid / json / pickle values are *tokens*: the model does not interpret
  `repr(float)`, `Decimal`, `UUID`, `json`, `pickle`; it only moves their text around.
-/
namespace SqlObjVerif.Codec

/-! ## values -/

/-- an IEEE double, uninterpreted: the one a decimal text denotes, or the one nearest to an integer -/
inductive FTok where
  | lit (t : Str)
  | ofInt (i : Int)
deriving DecidableEq, Repr

inductive PyVal where
  | none
  | bool (b : Bool)
  | int (i : Int)
  | float (t : FTok)
  | str (s : Str)
  | bytes (b : Str)
  | datetime (y mo d h mi s us : Nat)
  | date (y mo d : Nat)
  | time (h mi s us : Nat)
  | decimal (t : Str)    -- identified by `to_eng_string()`
  | uuid (t : Str)       -- identified by `str(uuid)`
  | json (t : Str)       -- a JSON-able object identified by `json.dumps`
  | pickled (b : Str)    -- any object, identified by its pickle bytes
  | sqlobj (id : Int)    -- an SQLObject instance with an int id
  | sqlobjS (id : Str)   -- an SQLObject instance of a class with idType = str
  | other                -- anything else
deriving DecidableEq, Repr

/-- outcome of a Python-level step -/
inductive Res (α : Type) where
  | ok (a : α)
  | invalid        -- formencode `Invalid`
  | reject         -- any other exception (TypeError, ValueError, OperationalError, …): nothing stored
  | unmodelled     -- outside what the model interprets
deriving DecidableEq, Repr

def Res.bind {α β} (r : Res α) (f : α → Res β) : Res β :=
  match r with
  | .ok a => f a
  | .invalid => .invalid
  | .reject => .reject
  | .unmodelled => .unmodelled

/-- what SQLite holds in a cell -/
inductive DbVal where
  | null
  | integer (i : Int)
  | real (t : FTok)
  | text (s : Str)
  | blob (b : Str)
deriving DecidableEq, Repr

inductive ColT where
  | string | unicode
  | int | tinyInt | smallInt | mediumInt | bigInt
  | bool | float
  | dateTime | date | time | timestamp
  | decimal | currency | decimalString
  | enum (vals : List Str)
  | blob | pickle | uuid | json
  | fkInt      -- ForeignKey: int-id class → int-id class
  | fkStr      -- ForeignKey: int-id class → str-id class (ids are text)
  | fkIntS     -- ForeignKey: str-id class → int-id class
deriving DecidableEq, Repr

/-! ## decimal digits -/

def isDigit (c : Nat) : Bool := 48 ≤ c && c ≤ 57

/-- value of a digit string, most significant first -/
def valD (s : Str) : Nat := s.foldl (fun a c => a * 10 + (c - 48)) 0

/-- exactly `w` digits of `n` (mod 10^w) -/
def digitsW : Nat → Nat → Str
  | 0, _ => []
  | w + 1, n => digitsW w (n / 10) ++ [48 + n % 10]

/-- `str(n)` for a natural number -/
def showNat (n : Nat) : Str :=
  if n < 10 then [48 + n] else showNat (n / 10) ++ [48 + n % 10]
decreasing_by omega

/-- `'%0wd' % n` for `n ≥ 0` -/
def fmtD (w n : Nat) : Str :=
  List.replicate (w - (showNat n).length) 48 ++ showNat n

/-- `repr(i)` -/
def reprInt (i : Int) : Str :=
  if i < 0 then 45 :: showNat i.natAbs else showNat i.toNat

def int64 (i : Int) : Bool := -9223372036854775808 ≤ i && i ≤ 9223372036854775807

/-! ## `sqlrepr` for sqlite -/

def printf : List FPiece → List Nat → Str
  | [], _ => []
  | .lit c :: ps, args => c :: printf ps args
  | .pad w :: ps, a :: args => fmtD w a ++ printf ps args
  | .pad _ :: ps, [] => printf ps []

structure DT where
  y : Nat
  mo : Nat
  d : Nat
  h : Nat
  mi : Nat
  s : Nat
  us : Nat
deriving DecidableEq, Repr

def DField.get (v : DT) : DField → Nat
  | .year => v.y | .month => v.mo | .day => v.d | .hour => v.h
  | .minute => v.mi | .second => v.s | .microsecond => v.us

def Conv.render (c : Conv) (v : DT) : Str := printf c.fmt (c.args.map (DField.get v))

/-- `value.replace(orig, repl)` for a one-character `orig` -/
def replace1 (orig : Nat) (repl : Str) : Str → Str
  | [] => []
  | c :: cs => if c = orig then repl ++ replace1 orig repl cs else c :: replace1 orig repl cs

/-- StringLikeConverter(value, 'sqlite') -/
def quoteStr (s : Str) : Str :=
  Extracted.strPre ++ replace1 Extracted.strReplOrig Extracted.strReplNew s ++ Extracted.strPost

/-- `sqlrepr(v, 'sqlite')`; `reject` = "Unknown SQL builtin type" -/
def lit : PyVal → Res Str
  | .none => .ok Extracted.nullLit
  | .bool b => .ok (if b then Extracted.boolTrue else Extracted.boolFalse)
  | .int i => .ok (reprInt i)
  | .float (.lit t) => .ok t
  | .float (.ofInt _) => .unmodelled
  | .str s => .ok (quoteStr s)
  | .bytes _ => .reject
  | .datetime y mo d h mi s us => .ok (Extracted.convDateTime.render ⟨y, mo, d, h, mi, s, us⟩)
  | .date y mo d => .ok (Extracted.convDate.render ⟨y, mo, d, 0, 0, 0, 0⟩)
  | .time h mi s us => .ok (Extracted.convTime.render ⟨0, 0, 0, h, mi, s, us⟩)
  | .decimal t => .ok t
  | .uuid _ => .reject
  | .json _ => .reject
  | .pickled _ => .unmodelled
  | .sqlobj id => .ok (reprInt id)
  | .sqlobjS id => .ok (quoteStr id)      -- `SQLObject.__sqlrepr__` = sqlrepr(self.id)
  | .other => .unmodelled

/-! ## SQLite: literal evaluation, affinity, storage -/

/-- body of a string literal after the opening quote: `''` is a quote, a single `'` ends it -/
def lexStr : Str → Option (Str × Str)
  | [] => none
  | c :: cs =>
    if c = 39 then
      match cs with
      | c2 :: cs2 =>
        if c2 = 39 then (lexStr cs2).map (fun p => (39 :: p.1, p.2)) else some ([], c2 :: cs2)
      | [] => some ([], [])
    else (lexStr cs).map (fun p => (c :: p.1, p.2))

def dropDigits : Str → Str
  | [] => []
  | c :: cs => if isDigit c then dropDigits cs else c :: cs

def isSpace (c : Nat) : Bool := c = 32 || (9 ≤ c && c ≤ 13)

def stripSign : Str → Str
  | [] => []
  | c :: r => if c = 43 ∨ c = 45 then r else c :: r

/-- `[eE][+-]?digits+` then only spaces, or only spaces -/
def expTail : Str → Bool
  | [] => true
  | c :: r =>
    if c = 101 ∨ c = 69 then
      match stripSign r with
      | d :: r' => isDigit d && (dropDigits (d :: r')).all isSpace
      | [] => false
    else (c :: r).all isSpace

/-- after the integer digits: optional fraction, optional exponent, trailing spaces -/
def numTail (hadInt : Bool) : Str → Bool
  | [] => hadInt
  | c :: r =>
    if c = 46 then (hadInt || decide ((dropDigits r).length < r.length)) && expTail (dropDigits r)
    else hadInt && expTail (c :: r)

/-- SQLite's "well-formed integer or real literal" test on text (sqlite3AtoF): optional spaces and sign,
    digits with an optional fraction and exponent, trailing spaces -/
def isNumericText (s : Str) : Bool :=
  numTail (decide ((dropDigits (stripSign (s.dropWhile isSpace))).length < (stripSign (s.dropWhile isSpace)).length))
    (dropDigits (stripSign (s.dropWhile isSpace)))

/-- numeric literal token as produced by `repr(int)`, `repr(float)`, `Decimal.to_eng_string()` -/
def numLit (neg : Bool) (r : Str) : Option DbVal :=
  if r ≠ [] ∧ r.all isDigit then
    let v : Int := if neg then -(valD r : Int) else (valD r : Int)
    if int64 v then some (.integer v) else some (.real (.ofInt v))
  else if (match r with | c :: _ => isDigit c || c = 46 | [] => false) && !(r.any isSpace) && isNumericText r then
    some (.real (.lit (if neg then 45 :: r else r)))
  else none

/-- value of a literal in a statement; `none` = the statement is refused (NUL character,
    `inf` / `nan` / `NaN` are not literals, …) -/
def evalLit (l : Str) : Option DbVal :=
  if 0 ∈ l then none
  else if l = Extracted.nullLit then some .null
  else match l with
    | [] => none
    | c :: r =>
      if c = 39 then
        match lexStr r with
        | some (s, []) => some (.text s)
        | _ => none
      else if c = 45 then numLit true r
      else numLit false (c :: r)

inductive Aff where
  | text | numeric | integer | real | blob
deriving DecidableEq, Repr

def upper (c : Nat) : Nat := if 97 ≤ c ∧ c ≤ 122 then c - 32 else c

def isPrefix : Str → Str → Bool
  | [], _ => true
  | _ :: _, [] => false
  | a :: as, b :: bs => a = b && isPrefix as bs

def contains (sub : Str) : Str → Bool
  | [] => sub.isEmpty
  | c :: cs => isPrefix sub (c :: cs) || contains sub cs

/-- SQLite "Determination Of Column Affinity", rules 1–5 in order -/
def affinityOf (decl : Str) : Aff :=
  let d := decl.map upper
  if contains [73, 78, 84] d then .integer                       -- INT
  else if contains [67, 72, 65, 82] d || contains [67, 76, 79, 66] d || contains [84, 69, 88, 84] d then .text
  else if contains [66, 76, 79, 66] d || d.isEmpty then .blob
  else if contains [82, 69, 65, 76] d || contains [70, 76, 79, 65] d || contains [68, 79, 85, 66] d then .real
  else .numeric

/-- declared SQLite type of the column (extracted from col.py) -/
def sqliteType : ColT → Str
  | .string | .unicode | .blob | .pickle | .json => Extracted.ty_text
  | .decimalString => Extracted.ty_varchar
  | .int => Extracted.ty_int
  | .tinyInt => Extracted.ty_tinyInt
  | .smallInt => Extracted.ty_smallInt
  | .mediumInt => Extracted.ty_mediumInt
  | .bigInt => Extracted.ty_bigInt
  | .bool => Extracted.ty_bool
  | .float => Extracted.ty_float
  | .dateTime | .timestamp => Extracted.ty_dateTime
  | .date => Extracted.ty_date
  | .time => Extracted.ty_time
  | .decimal | .currency => Extracted.ty_decimal
  | .enum _ => Extracted.ty_enum
  | .uuid => Extracted.ty_uuid
  | .fkInt => Extracted.ty_keyInt
  | .fkStr => if Extracted.fkTypeFollowsReferenced then Extracted.ty_keyStr else Extracted.ty_keyInt
  | .fkIntS => if Extracted.fkTypeFollowsReferenced then Extracted.ty_keyInt else Extracted.ty_keyStr

def aff (T : ColT) : Aff := affinityOf (sqliteType T)

/-- text that is exactly an optional `-` and digits (what NUMERIC affinity turns into an INTEGER) -/
def intText (s : Str) : Option Int :=
  match s with
  | 45 :: r => if r ≠ [] ∧ r.all isDigit then some (-(valD r : Int)) else none
  | _ => if s ≠ [] ∧ s.all isDigit then some (valD s : Int) else none

/-- column affinity applied to a value being stored; `none` = outside the model
    (conversions between text and doubles) -/
def applyAff : Aff → DbVal → Option DbVal
  | _, .null => some .null
  | _, .blob b => some (.blob b)
  | .blob, v => some v
  | .text, .text s => some (.text s)
  | .text, .integer i => some (.text (reprInt i))
  | .text, .real _ => none
  | .real, .integer i => some (.real (.ofInt i))
  | .real, .real t => some (.real t)
  | _, .integer i => some (.integer i)
  | _, .real (.ofInt i) => if int64 i then none else some (.real (.ofInt i))
  | _, .real (.lit _) => none
  | a, .text s =>
    if isNumericText s then
      match intText s with
      | some i => if int64 i then (if a = .real then some (.real (.ofInt i)) else some (.integer i)) else none
      | none => none
    else some (.text s)

/-- INSERT / UPDATE of a literal into a column with affinity `a` -/
def store (a : Aff) (l : Str) : Option DbVal := (evalLit l).bind (applyAff a)

/-- the sqlite3 driver, `text_factory = str` -/
def fetch : DbVal → PyVal
  | .null => .none
  | .integer i => .int i
  | .real t => .float t
  | .text s => .str s
  | .blob b => .bytes b

/-! ## `strptime` (CPython `_strptime`, the directives the formats use; ASCII digits; exact literals) -/

def takeDigits : Nat → Str → Str × Str
  | 0, s => ([], s)
  | _ + 1, [] => ([], [])
  | n + 1, c :: cs =>
    if isDigit c then ((c :: (takeDigits n cs).1), (takeDigits n cs).2) else ([], c :: cs)

def isLeap (y : Nat) : Bool := y % 4 = 0 && (y % 100 ≠ 0 || y % 400 = 0)

def daysIn (y mo : Nat) : Nat :=
  if mo = 2 then (if isLeap y then 29 else 28)
  else if mo = 4 ∨ mo = 6 ∨ mo = 9 ∨ mo = 11 then 30 else 31

def DT.valid (v : DT) : Bool :=
  1 ≤ v.y && v.y ≤ 9999 && 1 ≤ v.mo && v.mo ≤ 12 && 1 ≤ v.d && v.d ≤ daysIn v.y v.mo
  && v.h < 24 && v.mi < 60 && v.s < 60 && v.us < 1000000

def DT.set (v : DT) (p : SPiece) (n : Nat) : DT :=
  match p with
  | .Y => { v with y := n } | .m => { v with mo := n } | .d => { v with d := n }
  | .H => { v with h := n } | .M => { v with mi := n } | .S => { v with s := n }
  | .f => { v with us := n } | .lit _ => v

/-- (max digits, exact?) of a numeric directive -/
def SPiece.width : SPiece → Nat
  | .Y => 4 | .f => 6 | .lit _ => 0 | _ => 2

/-- `\s` of Python's `re` on str patterns -/
def isPyWs (c : Nat) : Bool :=
  c = 32 || (9 ≤ c && c ≤ 13) || (28 ≤ c && c ≤ 31) || c = 133 || c = 160 || c = 5760
    || (8192 ≤ c && c ≤ 8202) || c = 8232 || c = 8233 || c = 8239 || c = 8287 || c = 12288

def strp : List SPiece → Str → DT → Option DT
  | [], [], acc => some acc
  | [], _ :: _, _ => none
  | .lit c :: ps, s, acc =>
    match s with
    | x :: xs =>
      if isPyWs c then (if isPyWs x then strp ps (xs.dropWhile isPyWs) acc else none)   -- whitespace is `\s+`
      else if x = c then strp ps xs acc else none
    | [] => none
  | p :: ps, s, acc =>
    let a := (takeDigits p.width s).1
    let r := (takeDigits p.width s).2
    if a.isEmpty then none
    else if p = .Y ∧ a.length ≠ 4 then none
    else
      let n := if p = .f then valD (a ++ List.replicate (6 - a.length) 48) else valD a
      strp ps r (acc.set p n)

/-- `datetime.datetime.strptime(s, fmt)`; defaults 1900-01-01 00:00:00 -/
def strptime (fmt : List SPiece) (s : Str) : Option DT :=
  match strp fmt s ⟨1900, 1, 1, 0, 0, 0, 0⟩ with
  | some v => if v.valid then some v else none
  | none => none

def hasDotF : List SPiece → Bool
  | .lit 46 :: .f :: _ => true
  | _ :: ps => hasDotF ps
  | [] => false

/-- text after the last `.` and the text up to and including it -/
def splitLastDot (v : Str) : Option (Str × Str) :=
  let r := v.reverse
  let suf := r.takeWhile (· ≠ 46)
  if suf.length = r.length then none
  else some ((r.drop suf.length).reverse, suf.reverse)

/-- the `.%f` pre-processing of `DateTimeValidator.to_python` -/
def fixMicro (v : Str) : Str :=
  match splitLastDot v with
  | some (pre, us) =>
    if us.length < 6 then pre ++ us ++ List.replicate (6 - us.length) 48
    else if us.length > 6 then pre ++ us.take 6
    else v
  | none => v ++ [46, 48]

def parseWith (fmt : List SPiece) (s : Str) : Option DT :=
  strptime fmt (if hasDotF fmt then fixMicro s else s)

/-! ## base64 (`base64.b64encode` / `b64decode` on well-formed input) -/

def b64chr (i : Nat) : Nat :=
  if i < 26 then 65 + i else if i < 52 then 97 + (i - 26) else if i < 62 then 48 + (i - 52)
  else if i = 62 then 43 else 47

def b64idx (c : Nat) : Option Nat :=
  if 65 ≤ c ∧ c ≤ 90 then some (c - 65) else if 97 ≤ c ∧ c ≤ 122 then some (c - 97 + 26)
  else if 48 ≤ c ∧ c ≤ 57 then some (c - 48 + 52) else if c = 43 then some 62
  else if c = 47 then some 63 else none

def b64enc : Str → Str
  | [] => []
  | [a] => [b64chr (a / 4), b64chr (a % 4 * 16), 61, 61]
  | [a, b] => [b64chr (a / 4), b64chr (a % 4 * 16 + b / 16), b64chr (b % 16 * 4), 61]
  | a :: b :: c :: rest =>
    b64chr (a / 4) :: b64chr (a % 4 * 16 + b / 16) :: b64chr (b % 16 * 4 + c / 64) :: b64chr (c % 64)
      :: b64enc rest

def b64dec : Str → Option Str
  | [] => some []
  | c0 :: c1 :: c2 :: c3 :: rest =>
    match b64idx c0, b64idx c1 with
    | some i0, some i1 =>
      if c2 = 61 ∧ c3 = 61 ∧ rest = [] then some [i0 * 4 + i1 / 16]
      else match b64idx c2 with
        | some i2 =>
          if c3 = 61 ∧ rest = [] then some [i0 * 4 + i1 / 16, i1 % 16 * 16 + i2 / 4]
          else match b64idx c3, b64dec rest with
            | some i3, some tl => some ((i0 * 4 + i1 / 16) :: (i1 % 16 * 16 + i2 / 4) :: (i2 % 4 * 64 + i3) :: tl)
            | _, _ => none
        | none => none
    | _, _ => none
  | _ => none

def isAscii (s : Str) : Bool := s.all (· < 128)

/-! ## validators (col.py), Python 3, sqlite -/

def passes (l : List PassKind) : PyVal → Bool
  | .datetime .. => l.contains .datetime
  | .date .. => l.contains .date
  | .time .. => l.contains .time
  | _ => false

def dtOf (v : DT) : PyVal := .datetime v.y v.mo v.d v.h v.mi v.s v.us

/-- DateTimeValidator.to_python with format `fmt` -/
def dtToPython (fmt : List SPiece) : PyVal → Res PyVal
  | .none => .ok .none
  | .other => .unmodelled
  | v =>
    if passes Extracted.dtToPythonPass v then .ok v
    else match v with
      | .str s => match parseWith fmt s with
        | some d => .ok (dtOf d)
        | none => .invalid
      | _ => .invalid

/-- DateTimeValidator.from_python: the extracted classes pass unchanged; otherwise a bare date means
    midnight of that day (`datetime.combine(value, time())`), anything else is Invalid -/
def dtFromPython : PyVal → Res PyVal
  | .none => .ok .none
  | .other => .unmodelled
  | v =>
    if passes Extracted.dtFromPythonPass v then .ok v
    else match v with
      | .date y mo d => .ok (.datetime y mo d 0 0 0 0)
      | _ => .invalid

/-- DateValidator.to_python (= from_python) -/
def dateToPython : PyVal → Res PyVal
  | .datetime y mo d _ _ _ _ => .ok (.date y mo d)
  | .date y mo d => .ok (.date y mo d)
  | v => match dtToPython Extracted.fmtDate v with
    | .ok (.datetime y mo d _ _ _ _) => .ok (.date y mo d)
    | .ok (.time ..) => .invalid
    | r => r

/-- TimeValidator.to_python (= from_python); timedelta is `other` -/
def timeToPython : PyVal → Res PyVal
  | .time h mi s us => .ok (.time h mi s us)
  | v => match dtToPython Extracted.fmtTime v with
    | .ok (.datetime _ _ _ h mi s us) => .ok (.time h mi s us)
    | .ok (.date ..) => .invalid
    | r => r

/-- StringValidator.to_python (= from_python); `dec` = dataType is Decimal -/
def stringV (dec : Bool) : PyVal → Res PyVal
  | .none => .ok .none
  | .str s => .ok (.str s)
  | .bytes b => .ok (.bytes b)
  | .decimal t => if dec then .ok (.decimal t) else .invalid
  | .other => .unmodelled
  | _ => .invalid

def unicodeV : PyVal → Res PyVal
  | .none => .ok .none
  | .str s => .ok (.str s)
  | .other => .unmodelled
  | _ => .invalid

/-- is the integer exactly representable as an IEEE double (53-bit significand; overflow ignored) -/
def exactNat (n : Nat) : Bool := n ≤ 9007199254740992 || n % 2 ^ (n.log2 - 52) == 0

def exactInt (i : Int) : Bool := exactNat i.natAbs

/-- what the decimal text of a float (`repr`) says about it -/
inductive FClass where
  | nonfinite            -- inf, -inf, nan
  | fractional           -- has a fractional part
  | integral (n : Int)   -- an integer below 10^15 (so the text is its exact value)
  | unknown              -- integral but large (the text is the shortest repr, not the exact value), or not repr syntax
deriving DecidableEq, Repr

def stripTrailingZeros (s : Str) : Str := (s.reverse.dropWhile (· = 48)).reverse

/-- `[+-]digits` of an exponent -/
def expOf : Str → Option Int
  | [] => some 0
  | 101 :: 45 :: q => if q ≠ [] ∧ q.all isDigit then some (-(valD q : Int)) else none
  | 101 :: 43 :: q => if q ≠ [] ∧ q.all isDigit then some (valD q : Int) else none
  | 101 :: q => if q ≠ [] ∧ q.all isDigit then some (valD q : Int) else none
  | _ => none

/-- classify `repr(float)` text `[-]d+[.d+][e[+-]d+]` / `inf` / `nan`.  For a double below 2^53 the shortest
    repr shows a non-zero fraction digit exactly when the double is not an integer. -/
def floatClass (t : Str) : FClass :=
  let r := match t with
    | 45 :: r => r
    | _ => t
  let neg := match t with
    | 45 :: _ => true
    | _ => false
  if r = [105, 110, 102] ∨ r = [110, 97, 110] then .nonfinite
  else
    let ip := r.takeWhile isDigit
    let r1 := r.drop ip.length
    let fpAll := match r1 with
      | 46 :: q => q.takeWhile isDigit
      | _ => []
    let r2 := match r1 with
      | 46 :: q => q.drop fpAll.length
      | _ => r1
    let fp := stripTrailingZeros fpAll
    if ip = [] then .unknown
    else match expOf r2 with
      | none => .unknown
      | some e =>
        let m := valD (ip ++ fp)
        let k : Int := e - fp.length
        if m = 0 then .integral 0
        else if k < 0 then (if m % 10 ^ k.natAbs = 0 then
            (let n := m / 10 ^ k.natAbs
             if n < 10 ^ 15 then .integral (if neg then -(n : Int) else n) else .unknown)
          else .fractional)
        else
          let n := m * 10 ^ k.toNat
          if n < 10 ^ 15 then .integral (if neg then -(n : Int) else n) else .unknown

/-- IntValidator on a float: a fractional part (or nan / inf) is Invalid, an integral float is `int(value)` -/
def intOfFloat : FTok → Res PyVal
  | .lit t => match floatClass t with
    | .nonfinite => .invalid
    | .fractional => .invalid
    | .integral n => .ok (.int n)
    | .unknown => .unmodelled
  | .ofInt i => if exactInt i then .ok (.int i) else .unmodelled

/-- IntValidator.to_python (= from_python): `int` (and `bool`) unchanged; a float with a fractional part is
    refused; otherwise `__int__` → `int(value)` -/
def intV : PyVal → Res PyVal
  | .none => .ok .none
  | .int i => .ok (.int i)
  | .bool b => .ok (.bool b)
  | .float t => intOfFloat t
  | .decimal _ => .unmodelled
  | .uuid _ => .unmodelled      -- UUID has `__int__`
  | .other => .unmodelled
  | _ => .invalid

/-- BoolValidator.to_python (= from_python): `bool` unchanged, `__bool__` → `bool(value)` -/
def boolV : PyVal → Res PyVal
  | .none => .ok .none
  | .bool b => .ok (.bool b)
  | .int i => .ok (.bool (i != 0))
  | .float _ => .unmodelled
  | .decimal _ => .unmodelled
  | .other => .unmodelled
  | _ => .invalid

def floatV : PyVal → Res PyVal
  | .none => .ok .none
  | .float t => .ok (.float t)
  | .int i => .ok (.int i)
  | .bool b => .ok (.bool b)
  | .decimal _ => .unmodelled
  | .uuid _ => .unmodelled
  | .other => .unmodelled
  | _ => .invalid

/-- `int(s)` for the strings the model interprets: optional `-` and ASCII digits -/
def fkFromPython : PyVal → Res PyVal
  | .none => .ok .none
  | .sqlobj id => .ok (.int id)        -- an instance stands for its id
  | .int i => .ok (.int i)
  | .bool b => .ok (.int (if b then 1 else 0))
  | .str s =>
    match intText s with
    | some i => .ok (.int i)
    | none => if s.any isDigit then .unmodelled else .invalid
  | .datetime .. => .invalid
  | .date .. => .invalid
  | .time .. => .invalid
  | .float (.lit t) =>                 -- (c408a4f) a fractional float (or nan / inf) is refused, never truncated
    match floatClass t with
    | .nonfinite => .invalid
    | .fractional => .invalid
    | _ => .unmodelled                 -- `int(<integral float>)` as an id: not interpreted
  | _ => .unmodelled

/-- ForeignKeyValidator.from_python when the referenced class has `idType = str`: `str(value)` -/
def fkStrFromPython : PyVal → Res PyVal
  | .none => .ok .none
  | .sqlobjS id => .ok (.str id)
  | .str s => .ok (.str s)
  | .int i => .ok (.str (reprInt i))
  | _ => .unmodelled

def enumV (vals : List Str) : PyVal → Res PyVal
  | .none => .ok .none
  | .str s => if vals.contains s then .ok (.str s) else .invalid
  | .other => .unmodelled
  | _ => .invalid

/-- BinaryValidator.from_python on sqlite: `str(b64encode(value), 'ascii')` -/
def binFromPython : PyVal → Res PyVal
  | .none => .ok .none
  | .bytes b => .ok (.str (b64enc b))
  | .other => .unmodelled
  | _ => .reject

/-- BinaryValidator.to_python on sqlite -/
def binToPython : PyVal → Res PyVal
  | .none => .ok .none
  | .str s => if isAscii s then (match b64dec s with | some b => .ok (.bytes b) | none => .reject) else .reject
  | .bytes b => .ok (.bytes b)
  | .other => .unmodelled
  | _ => .invalid

def toDb : ColT → PyVal → Res PyVal
  | .string, v => stringV false v
  | .unicode, v => unicodeV v
  | .int, v | .tinyInt, v | .smallInt, v | .mediumInt, v | .bigInt, v => intV v
  | .bool, v => boolV v
  | .float, v => floatV v
  | .dateTime, v | .timestamp, v => dtFromPython v
  | .date, v => dateToPython v
  | .time, v => timeToPython v
  | .decimal, v | .currency, v =>
    match v with
    | .none => .ok .none
    | .int i => .ok (.int i)
    | .bool b => .ok (.bool b)
    | .decimal t => .ok (.decimal t)
    | .float _ => .unmodelled
    | .str _ => .unmodelled
    | .other => .unmodelled
    | _ => .invalid
  | .decimalString, v =>
    match v with
    | .none => .ok .none
    | .decimal t => .ok (.str t)
    | .int i => .ok (.str (reprInt i))
    | .bool _ => .unmodelled
    | .float _ => .unmodelled
    | .str _ => .unmodelled
    | .other => .unmodelled
    | _ => .invalid
  | .enum vals, v => enumV vals v
  | .blob, v => (binFromPython v).bind (stringV false)
  | .pickle, v =>
    match v with
    | .none => .ok .none
    | .pickled b => (binFromPython (.bytes b)).bind (stringV false)
    | _ => .unmodelled
  | .uuid, v =>
    match v with
    | .none => .ok .none
    | .uuid t => .ok (.str t)
    | .other => .unmodelled
    | _ => .invalid
  | .json, v =>
    match v with
    | .none => .ok .none
    | .json t => .ok (.str t)
    | .bytes _ | .datetime .. | .date .. | .time .. | .decimal _ | .uuid _ | .sqlobj _ | .sqlobjS _ | .pickled _ => .invalid
    | _ => .unmodelled
  | .fkInt, v | .fkIntS, v => fkFromPython v
  | .fkStr, v => fkStrFromPython v

def toPy : ColT → PyVal → Res PyVal
  | .string, v => stringV false v
  | .unicode, v => unicodeV v
  | .int, v | .tinyInt, v | .smallInt, v | .mediumInt, v | .bigInt, v => intV v
  | .bool, v => boolV v
  | .float, v => floatV v
  | .dateTime, v | .timestamp, v => dtToPython Extracted.fmtDateTime v
  | .date, v => dateToPython v
  | .time, v => timeToPython v
  | .decimal, v | .currency, v =>
    match v with
    | .none => .ok .none
    | .int i => .ok (.decimal (reprInt i))                       -- Decimal(int)
    | .bool b => .ok (.decimal (if b then [49] else [48]))       -- Decimal(True) = Decimal('1')
    | .decimal t => .ok (.decimal t)
    | _ => .unmodelled
  | .decimalString, v =>
    match stringV true v with
    | .ok .none => .ok .none
    | .ok (.str s) => .ok (.decimal s)
    | .ok (.decimal t) => .ok (.decimal t)
    | .ok _ => .unmodelled
    | r => r
  | .enum vals, v => enumV vals v
  | .blob, v => (stringV false v).bind binToPython
  | .pickle, v =>
    match (stringV false v).bind binToPython with
    | .ok .none => .ok .none
    | .ok (.bytes b) => .ok (.pickled b)
    | .ok _ => .unmodelled
    | r => r
  | .uuid, v =>
    match v with
    | .none => .ok .none
    | .str s => .ok (.uuid s)
    | .uuid t => .ok (.uuid t)
    | .other => .unmodelled
    | _ => .invalid
  | .json, v =>
    match v with
    | .none => .ok .none
    | .str s => .ok (.json s)
    | .bool b => .ok (.bool b)
    | .int i => .ok (.int i)
    | .float t => .ok (.float t)
    | .json t => .ok (.json t)
    | .other => .unmodelled
    | _ => .invalid
  | .fkInt, v | .fkStr, v | .fkIntS, v => .ok v

/-! ## the pipeline -/

/-- write `y` (a db value) into a column of type `T`, read the cell back through the driver -/
def roundtrip (T : ColT) (y : PyVal) : Res PyVal :=
  match lit y with
  | .ok l =>
    match evalLit l with
    | none => .reject
    | some v =>
      match applyAff (aff T) v with
      | none => .unmodelled
      | some c => .ok (fetch c)
  | .invalid => .invalid
  | .reject => .reject
  | .unmodelled => .unmodelled

/-- value seen by a fresh reader after writing `x` -/
def readBack (T : ColT) (x : PyVal) : Res PyVal :=
  (toDb T x).bind fun y => (roundtrip T y).bind (toPy T)

/-- value the writing instance caches without a round trip (`to_python(from_python(x))`) -/
def writerCache (T : ColT) (x : PyVal) : Res PyVal := (toDb T x).bind (toPy T)

/-! ## `WHERE col = <literal>` -/

/-- conversion of a literal operand compared with a column of affinity `a` (SQLite "Type Conversions Prior
    To Comparison"): a TEXT column makes a numeric operand text; a numeric column makes a text operand
    numeric if it looks numeric; numeric operands are compared by value as they are -/
def cmpConv : Aff → DbVal → Option DbVal
  | .text, v => applyAff .text v
  | .blob, v => some v
  | _, .text s => applyAff .numeric (.text s)
  | _, v => some v

/-- SQLite `=` on stored values (NULL never equal); int vs double compared exactly: an integer
    equals the double nearest to `j` only if it is `j` and `j` is exactly representable -/
def sqlEq : DbVal → DbVal → Bool
  | .null, _ => false
  | _, .null => false
  | .integer i, .integer j => i == j
  | .real a, .real b => a == b
  | .integer i, .real (.ofInt j) => i == j && exactInt j
  | .real (.ofInt j), .integer i => i == j && exactInt j
  | .text a, .text b => a == b
  | .blob a, .blob b => a == b
  | _, _ => false

/-- does `WHERE col = <lit y>` (or `col IS NULL` for None) select a row whose cell is `cell`? -/
def whereFinds (T : ColT) (y : PyVal) (cell : DbVal) : Res Bool :=
  match y with
  | .none => .ok (cell == .null)
  | _ =>
    match lit y with
    | .ok l =>
      match evalLit l with
      | none => .reject
      | some v =>
        match cmpConv (aff T) v with
        | none => .unmodelled
        | some w => .ok (sqlEq cell w)
    | .invalid => .invalid
    | .reject => .reject
    | .unmodelled => .unmodelled

/-! ## Python `==` on the universe (specification) -/

def pyEq : PyVal → PyVal → Bool
  | .bool a, .int i => (if a then 1 else 0) == i
  | .int i, .bool a => (if a then 1 else 0) == i
  | .int i, .float (.ofInt j) => i == j && exactInt j
  | .float (.ofInt j), .int i => i == j && exactInt j
  | .bool a, .float (.ofInt j) => (if a then 1 else 0) == j
  | .float (.ofInt j), .bool a => (if a then 1 else 0) == j
  | a, b => a == b

/-- documented coercions of a column: what an accepted value of another type becomes -/
def coerces (T : ColT) (x v : PyVal) : Bool :=
  match T, x, v with
  | .date, .datetime y mo d _ _ _ _, .date y' mo' d' => y == y' && mo == mo' && d == d'
  | .time, .datetime _ _ _ h mi s us, .time h' mi' s' us' => h == h' && mi == mi' && s == s' && us == us'
  | .date, .str s, .date y mo d =>
    (match parseWith Extracted.fmtDate s with | some p => p.y == y && p.mo == mo && p.d == d | none => false)
  | .time, .str s, .time h mi se us =>
    (match parseWith Extracted.fmtTime s with
     | some p => p.h == h && p.mi == mi && p.s == se && p.us == us | none => false)
  | .bool, .int i, .bool b => b == (i != 0)
  | .fkInt, .str s, .int i => intText s == some i
  | .fkInt, .sqlobj id, .int i => id == i
  | .fkIntS, .str s, .int i => intText s == some i
  | .fkIntS, .sqlobj id, .int i => id == i
  | .fkStr, .sqlobjS id, .str t => id == t
  | .fkStr, .int i, .str t => t == reprInt i
  | .decimalString, .int i, .decimal t => t == reprInt i
  | .decimal, .int i, .decimal t => t == reprInt i
  | .currency, .int i, .decimal t => t == reprInt i
  | .decimal, .bool b, .decimal t => t == (if b then [49] else [48])
  | .currency, .bool b, .decimal t => t == (if b then [49] else [48])
  | .dateTime, .date y mo d, .datetime y' mo' d' h mi s us =>
    y == y' && mo == mo' && d == d' && h == 0 && mi == 0 && s == 0 && us == 0
  | .timestamp, .date y mo d, .datetime y' mo' d' h mi s us =>
    y == y' && mo == mo' && d == d' && h == 0 && mi == 0 && s == 0 && us == 0
  | _, _, _ => false

def normalises (T : ColT) (x v : PyVal) : Bool := pyEq x v || coerces T x v

end SqlObjVerif.Codec
