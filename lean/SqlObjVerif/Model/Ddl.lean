import SqlObjVerif.Model.DdlSyn
import SqlObjVerif.Model.DdlStyle
import SqlObjVerif.Model.DdlCat
/-!
# C14 — executable model of schema generation (`col.py`, `dbconnection.py`, the seven connection classes)

A class declaration (`Decl`) is rendered to the `CREATE TABLE` text of each dialect.  A column
definition is the db name followed by blank-separated *pieces* (`' '.join([...])` in the source):
type pieces, the `_extraSQL` pieces in the extracted order, and trailing pieces (foreign-key clause,
Firebird's CHECK).  All literal type names / keywords come from the `Tables` argument (extracted).
-/
namespace SqlObjVerif.Ddl

inductive Kind where
  | simple (k : SimpleKind)
  | int (k : IntKind) (length : Nat) (unsigned zerofill : Bool)
  | str (unicode : Bool) (length : Nat) (varchar : Option Bool)   -- StringCol / UnicodeCol / JSONCol
  | blob (length : Nat) (varchar : Option Bool)
  | pickle (length : Nat) (varchar : Option Bool)
  | decimal (size precision : Nat)
  | currency
  | enum (values : List (Option Str))
  | fk (tTable tId : Str) (tIdStr : Bool) (cas : Cascade)
deriving DecidableEq, Repr

structure Col where
  name : Str                 -- attribute name as written in the class (foreign keys: without `ID`)
  dbName : Option Str
  kind : Kind
  notNone : Bool
  unique : Option Bool       -- `NoDefault` ↦ none (then `unique = alternateID`)
  alternateID : Bool
  defaultSQL : Option Str
deriving DecidableEq, Repr

structure Index where
  name : Str
  unique : Bool
  cols : List Nat            -- positions in `Decl.cols`
deriving DecidableEq, Repr

structure Join where
  table : Str
  joinColumn : Str
  otherColumn : Str
deriving DecidableEq, Repr

structure Decl where
  className : Str
  style : Style
  longID : Bool
  table : Option Str
  idName : Option Str
  idStr : Bool
  idSize : IdSize
  cols : List Col
  indexes : List Index
  joins : List Join
deriving Repr

/-! ### names -/

def Decl.tableName (d : Decl) : Str := d.table.getD (d.style.classToTable d.className)

def Decl.idCol (d : Decl) : Str := d.idName.getD (d.style.idForTable d.longID d.tableName)

def Col.isFk (c : Col) : Bool := match c.kind with | .fk .. => true | _ => false

/-- `SOCol.name` (foreign keys get the `ID` suffix) -/
def Col.attr (c : Col) : Str := if c.isFk then Style.attrToIDAttr c.name else c.name

def Col.db (st : Style) (c : Col) : Str := c.dbName.getD (st.attrToCol c.attr)

def Col.nn (c : Col) : Bool := c.notNone || c.alternateID
def Col.uq (c : Col) : Bool := c.unique.getD c.alternateID || c.alternateID

/-! ### type pieces -/

def wordParen (w : Str) (inner : Str) : Str := w ++ 40 :: (inner ++ [41])

def joinWith (sep : Str) : List Str → Str
  | [] => []
  | [a] => a
  | a :: rest => a ++ sep ++ joinWith sep rest

/-- `varchar` after `SOStringLikeCol.__init__` / `SOBLOBCol.__init__` -/
def varcharEff (length : Nat) (v : Option Bool) (dflt : Bool) : Bool :=
  if length = 0 then false else v.getD dflt

def strSqlType (T : Tables) (length : Nat) (vc : Bool) : Str :=
  if length = 0 then T.strText
  else if vc then wordParen T.strVarchar.1 (natDigits length)
  else wordParen T.strChar.1 (natDigits length)

def strType (T : Tables) (d : Dialect) (c : Caps) (unicode : Bool) (length : Nat) (vc : Bool) : Str :=
  match d with
  | .firebird => if length = 0 then T.strFirebirdNoLen else strSqlType T length vc
  | .maxdb => if length = 0 then T.strMaxdbNoLen else strSqlType T length vc
  | .mssql =>
    let base :=
      if length = 0 then (if c.maxTypes then T.strMssqlMax else T.strMssqlNoMax)
      else if vc then wordParen T.strMssqlVarchar.1 (natDigits length)
      else wordParen T.strMssqlChar.1 (natDigits length)
    if unicode then T.unicodeMssqlPrefix ++ base else base
  | _ => strSqlType T length vc

def lookupThreshold {α} (tbl : List (Nat × α)) (dflt : α) (length : Nat) : α :=
  match tbl with
  | [] => dflt
  | (t, a) :: rest => if length ≥ t then a else lookupThreshold rest dflt length

def blobType (T : Tables) (d : Dialect) (c : Caps) (pickle : Bool) (length : Nat) (vc : Bool) : Str :=
  match d with
  | .mysql =>
    if pickle then lookupThreshold T.pickleMysql T.pickleMysqlElse length
    else
      let p := lookupThreshold T.blobMysql T.blobMysqlElse length
      if vc then p.1 else p.2
  | .postgres => T.blobPostgres
  | .mssql => if c.maxTypes then T.blobMssqlMax else T.blobMssqlNoMax
  | d => strType T d c false length vc

def kwNULLlit : Str := [78, 85, 76, 76]

def enumLit (l : LitDb) : Option Str → Str
  | none => kwNULLlit
  | some v => sqlLit l v

def enumMaxLen : List (Option Str) → Nat
  | [] => 0
  | none :: rest => enumMaxLen rest
  | some v :: rest => max v.length (enumMaxLen rest)

/-- `(col in (v1, v2))` -/
def enumCheckGroup (T : Tables) (db : Str) (lits : List Str) : Str :=
  40 :: (db ++ T.enumCheck.2.1 ++ joinWith T.enumSep lits ++ T.enumCheck.2.2)

/-- (pieces before the `_extraSQL` part, pieces after it); `none`: the renderer raises -/
def typePieces (T : Tables) (d : Dialect) (c : Caps) (db : Str) : Kind → Option (List Str × List Str)
  | .simple k => ((T.simpleType d k).eval c).map fun t => ([t], [])
  | .int k length u z =>
    let base := T.intBase k
    let t := if length ≥ 1 then wordParen base (natDigits length) else base
    some ([t] ++ (if u then [T.intUnsigned] else []) ++ (if z then [T.intZerofill] else []), [])
  | .str unicode length v => some ([strType T d c unicode length (varcharEff length v true)], [])
  | .blob length v => some ([blobType T d c false length (varcharEff length v false)], [])
  | .pickle length v => some ([blobType T d c true length (varcharEff length v false)], [])
  | .decimal s p => some ([wordParen T.decimalFmt.1 (natDigits s ++ T.decimalFmt.2.1 ++ natDigits p)], [])
  | .currency =>
    some ([wordParen T.decimalFmt.1 (natDigits T.currencySize ++ T.decimalFmt.2.1 ++ natDigits T.currencyPrecision)], [])
  | .enum vals =>
    match d with
    | .maxdb => none
    | .mysql =>
      let lits := (vals.filterMap id).map (sqlLit .mysql)
      let e := wordParen T.enumMysql.1 (joinWith T.enumSep lits)
      if vals.contains none ∨ T.enumMysqlExtra = [] then some ([e], []) else some ([e, T.enumMysqlExtra], [])
    | d =>
      if vals = [] then none else
      let lits := vals.map (enumLit (T.enumLit d))
      let vc := wordParen T.enumVarchar.1 (natDigits (enumMaxLen vals))
      let chk := [T.enumCheck.1, enumCheckGroup T db lits]
      if d = .firebird then some ([vc], chk) else some (vc :: chk, [])
  | .fk tTable tId tIdStr cas =>
    let t := T.keyType d tIdStr
    let ref := tTable ++ 40 :: (tId ++ [41])
    match d with
    | .sqlite => some ([t], [kwCONSTRAINT, db ++ sfxExists, kwREFERENCES, ref, T.fkAction cas])
    | .mssql | .sybase => some ([t], [kwREFERENCES, ref, []])
    | _ => some ([t], [])
where
  sfxExists : Str := [95, 101, 120, 105, 115, 116, 115]

def extraPiece (T : Tables) (col : Col) : Extra → List Str
  | .notNull => if col.nn then [T.kwNotNull] else []
  | .unique => if col.uq then [T.kwUnique] else []
  | .default => match col.defaultSQL with
    | some ds => [T.kwDefault ++ 32 :: ds]
    | none => []

def extraPieces (T : Tables) (col : Col) : List Str := T.extraOrder.flatMap (extraPiece T col)

def colPieces (T : Tables) (d : Dialect) (c : Caps) (st : Style) (col : Col) : Option (List Str) :=
  (typePieces T d c (col.db st) col.kind).map fun (pre, post) => pre ++ extraPieces T col ++ post

def spaced (pieces : List Str) : Str := pieces.flatMap (32 :: ·)

/-- the table-level clause `FOREIGN KEY (col) REFERENCES t(id)` of `SOForeignKey.maxdbCreateSQL` -/
def maxdbFkPieces (db tTable tId : Str) : List Str :=
  [kwFOREIGN, kwKEY, 40 :: (db ++ [41]), kwREFERENCES, tTable ++ 40 :: (tId ++ [41])]

/-- `",\nFOREIGN KEY (col) REFERENCES t(id)"` -/
def maxdbFkTail (db tTable tId : Str) : Str :=
  44 :: 10 :: (spaced (maxdbFkPieces db tTable tId)).drop 1

def colText (T : Tables) (d : Dialect) (c : Caps) (st : Style) (col : Col) : Option Str :=
  match d, col.kind with
  | .maxdb, .fk tTable tId _ _ =>
    (colPieces T d c st col).map fun ps => col.db st ++ spaced ps ++ maxdbFkTail (col.db st) tTable tId
  | _, _ => (colPieces T d c st col).map fun ps => col.db st ++ spaced ps

def idText (T : Tables) (d : Dialect) (decl : Decl) : Option Str :=
  (T.idSuffix d decl.idStr decl.idSize).map fun s => decl.idCol ++ s

def allSome {α} : List (Option α) → Option (List α)
  | [] => some []
  | none :: _ => none
  | some a :: rest => (allSome rest).map (a :: ·)

def bodyItems (T : Tables) : List Str → Str
  | [] => []
  | [it] => T.indent ++ it
  | it :: rest => T.indent ++ it ++ T.colSep ++ bodyItems T rest

def createText (T : Tables) (table : Str) (items : List Str) : Str :=
  T.createTable.1 ++ table ++ T.createTable.2.1 ++ bodyItems T items ++ T.createTable.2.2

/-- `DBAPI.createTableSQL` (first component) -/
def createTableSQL (T : Tables) (d : Dialect) (c : Caps) (decl : Decl) : Option Str :=
  match idText T d decl, allSome (decl.cols.map (colText T d c decl.style)) with
  | some i, some cs => some (createText T decl.tableName (i :: cs))
  | _, _ => none

/-! ### reference constraints (second component of `createTableSQL`) -/

def lit (s : String) : Str := s.toList.map Char.toNat

def afterLastDot (s : Str) : Str :=
  (s.foldl (fun acc c => if c = 46 then [] else acc ++ [c]) [])

def alterFk (T : Tables) (d : Dialect) (decl : Decl) (col : Col) : Option Str :=
  match col.kind with
  | .fk tTable tId _ cas =>
    let db := col.db decl.style
    let st := decl.tableName
    let cname :=
      match d with
      | .mysql => afterLastDot st ++ [95] ++ db ++ lit "_exists"
      | _ => db ++ lit "_exists"
    match d with
    | .mysql | .postgres =>
      some (lit "ALTER TABLE " ++ st ++ lit " ADD CONSTRAINT " ++ cname ++ lit " FOREIGN KEY (" ++ db ++
        lit ") REFERENCES " ++ tTable ++ lit " (" ++ tId ++ lit ") " ++ T.fkAction cas)
    | _ => none
  | _ => none

def constraints (T : Tables) (d : Dialect) (decl : Decl) : List Str :=
  decl.cols.filterMap (alterFk T d decl)

/-! ### indexes and join tables -/

def indexCols (decl : Decl) (ix : Index) : List Str :=
  ix.cols.filterMap fun i => (decl.cols[i]?).map (Col.db decl.style)

def indexSQL (d : Dialect) (decl : Decl) (ix : Index) : Str :=
  let spec := joinWith (lit ", ") (indexCols decl ix)
  match d with
  | .mysql =>
    lit "ALTER TABLE " ++ decl.tableName ++ lit " ADD " ++ (if ix.unique then lit "UNIQUE" else lit "INDEX") ++
      [32] ++ ix.name ++ lit " (" ++ spec ++ lit ")"
  | _ =>
    lit "CREATE " ++ (if ix.unique then lit "UNIQUE INDEX" else lit "INDEX") ++ [32] ++ decl.tableName ++ [95] ++
      ix.name ++ lit " ON " ++ decl.tableName ++ lit " (" ++ spec ++ lit ")"

def indexesSQL (d : Dialect) (decl : Decl) : Str :=
  joinWith (lit ";\n") (decl.indexes.map (indexSQL d decl))

/-- `_SO_createJoinTableSQL` -/
def joinTableSQL (T : Tables) (d : Dialect) (j : Join) : Str :=
  T.createTable.1 ++ j.table ++ T.createTable.2.1 ++
    (j.joinColumn ++ 32 :: T.joinType d) ++ T.colSep ++ (j.otherColumn ++ 32 :: T.joinType d) ++ T.createTable.2.2

def joinTablesSQL (T : Tables) (d : Dialect) (decl : Decl) : Str :=
  joinWith (lit ";\n") (decl.joins.map (joinTableSQL T d))

/-! ### which side of a many-to-many join owns (creates / drops) the link table -/

structure ClsNames where
  cls : Str
  table : Str
deriving DecidableEq, Repr

def LinkKey.of : LinkKey → ClsNames → Str
  | .className, c => c.cls
  | .tableName, c => c.table

/-- `if join.soClass.<key> > join.otherClass.<key>: continue` -/
def sideActs (k : LinkKey) (self other : ClsNames) : Bool := createsLink (k.of self) (k.of other)

/-- state of one link table under `X.createTable()` / `X.dropTable()` of the two classes of a pair that
    both declare the join (`ifNotExists` / `ifExists` variants: no error, same effect) -/
def linkAfterCreate (ck : LinkKey) (x other : ClsNames) (present : Bool) : Bool := present || sideActs ck x other
def linkAfterDrop (dk : LinkKey) (x other : ClsNames) (present : Bool) : Bool := present && !sideActs dk x other

/-! ### `createTable` / `dropTable` with their `createJoinTables` / `dropJoinTables` flags

`pass`: whether the if-(not-)exists flag is handed on to the join-table loop; `dedup`: whether a link table listed
twice by the class (self-referential join declared in both directions) is handled once.  Both are read from the
source (`Extracted.dropPassesIfExists`, …). -/

def dedupNames : List Name → List Name
  | [] => []
  | a :: rest => if a ∈ rest then dedupNames rest else a :: dedupNames rest

def linksOf (dedup : Bool) (links : List Name) : List Name :=
  if dedup then (dedupNames links.reverse).reverse else links

def dropTableG (pass dedup : Bool) (ifExists dropJoins : Bool) (r : Req) (c : Cat) : Except Unit Cat :=
  if ifExists = true ∧ r.table ∉ c.tables then .ok c
  else if r.table ∉ c.tables then .error ()
  else if dropJoins then dropLinks (pass && ifExists) (linksOf dedup r.links) (dropTbl r.table c)
  else .ok (dropTbl r.table c)

def createTableG (pass dedup : Bool) (ifNotExists createJoins : Bool) (r : Req) (c : Cat) : Except Unit Cat :=
  if ifNotExists = true ∧ r.table ∈ c.tables then .ok c
  else if r.table ∈ c.tables then .error ()
  else
    match (if createJoins then createLinks (pass && ifNotExists) (linksOf dedup r.links) (addTbl r.table c)
           else .ok (addTbl r.table c)) with
    | .error e => .error e
    | .ok c2 => createIdx r.table r.idx c2

end SqlObjVerif.Ddl
