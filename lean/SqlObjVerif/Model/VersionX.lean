import SqlObjVerif.Model.Version
import SqlObjVerif.Model.PyVersion
import SqlObjVerif.Extracted.PyVersion
/-!
# C20 — the run-time methods of `sqlobject/versioning/__init__.py` as TRANSLATED from the source

`rowUpdateX`, `restoreX`, `getX`, `selectX`, `nextVersionX`, `getChangedFieldsX`, `getattrX` RUN the PyVersion
programs `vlib/extractors/pyversion.py` translated from /repo's `sqlobject/versioning/__init__.py` on this very run.
A world `XW` is the image of the hand model's state: `S` is the `DState` of `Model/Version.lean` (connection ↦ master
table, version table, counters, ghost history), plus what that model leaves out: the `_connection` attribute of the
version class (`vconn`).  `Lemmas/VersionX*.lean` prove that each translated method, run from ANY state, ends in the
state the hand model's function for that step yields.

Values: `.cls 0` the master class, `.cls 1` its version class, `.inst d c i` the instance of class `c` with id `i` bound
to connection `d`, `.conn d` connection `d`, `vobj = .ref 1 0` the `Versioning` descriptor object; a column value is
`enc v` (`int n ↦ .int n`, `None ↦ .none`, a value the validator rejects ↦ `.ref 9 0`); column `k` of the master has
the keyword `X.names[k]`; `.obj "sqlmeta" inst .none` is `inst.sqlmeta`, `.obj "q" cls .none` is `cls.q`,
`.obj "field" cls (.str n)` is `cls.q.n`, `.obj "==" a b` … the SQL clauses, `.obj "select" (.pair cls args) (.pair kw
conn)` a select result, `.obj "method" o (.str n)` a bound method.

## The assumed interface (the parameters of the interpreter)
attributes:
* master instance: `childName` None (the master class is not inheritable — versioned inheritable classes are outside
  the model), `sqlmeta`, `id`, `_connection` = `.conn d`, `<column keyword>` the value in its row;
* version instance: `sqlmeta`, `id`, `masterID` / `master` (row's master id / that master instance on the SAME
  connection), `_connection`, `masterClass` = `.cls 0`, `extraCols` = the dict `X.extra ↦ column objects`,
  `q`, `__dict__` (`.ref 2 _`: an instance dict holding nothing the code looks up — `__getattr__` is only called for names
  normal lookup did not find), `<column keyword>` the value in its row;
* `vobj.soClass` = `.cls 0`, `vobj.versionClass` = `.cls 1`; `(.cls 0).__name__` = `X.mname`, `(.cls 0)._connection` =
  `X.mconn`, `(.cls 0).sqlmeta.columns` = the dict of the master's columns (keys: `X.names`);
  `(.cls 1)._connection` = the world's `vconn` (read and WRITTEN), `(.cls 1).masterClass` = `.cls 0`, `(.cls 1).q`.
calls:
* `inst.sqlmeta.asDict()` : a dict with the row's columns in declaration order, then `id` (main.py `sqlmeta.asDict`);
  the values are those of the row (one live instance per row and connection: C04/C05) — master: `X.names ↦ row`;
  version: `dateArchived, masterID, X.names ↦ vals, X.extra ↦ …`;
* `vobj.versionClass(connection=conn, **values)` : the constructor INSERTs a version row on `conn`: next id, master =
  `values['masterID']`, column `k` = `values[X.names[k]]` (a missing key: the column default); an unknown keyword is a
  TypeError; values read from a row passed validation when they were written — the constructor accepts them;
* `(.cls 0).get(id, connection=conn)` : SQLObjectNotFound when `conn`'s master table has no such row, else the instance;
* `master.set(**values)` : main.py `SQLObject.set` — sends RowUpdateSignal to the class's listeners = the translated
  `Versioning.rowUpdate` (registered by `__addtoclass__`, see `Model/VersionXC.lean`; parameter `Calls.rowUpdate`), then
  validates (Invalid), refuses unknown keywords (TypeError), UPDATEs (`Duplicate` from the UNIQUE first column): `setRest`,
  the part of the hand model's `vUpdateVec` after the snapshot;
* `(.cls 1).select(clause, *rest, connection=…)`, `version.select(…)` : the translated classmethod `Version.select`
  (`Calls.select`) with Python's argument binding; `super(Version, cls).select(clause, *args, **kw)` = `SQLObject.select`:
  returns the select result value — nothing is sent to the database yet; its rows (`selRows`) are the rows of the
  version table of the connection in `kw['connection']` (else of the class's `_connection`) that satisfy the clause, in
  id order (trusted: SQLite's rowid order), sorted by `orderBy=id` the same;
* `AND(a, b)` : the conjunction clause; `sel.count()`, `sel[0]` : size / first row of `selRows` as an instance;
* `version.nextVersion()` : the translated method (`Calls.nextVersion`).
-/
namespace SqlObjVerif.Version
open SqlObjVerif.Events
open SqlObjVerif.PyVer (Iface CallRes ProcRes R Exc Args vdGet vdHas vdSet vdDel vdKeys)

/-- values of the embedding (`Events.Val` is the model's column value) -/
abbrev PVal := PyVer.Val
open SqlObjVerif.PyVer.Extracted

structure XW where
  S : DState
  /-- `_connection` of the version class -/
  vconn : PVal

def XW.setS (w : XW) (d : Nat) (s : VState) : XW := { w with S := dset w.S d s }

structure Ctx where
  c : VCfg
  /-- keywords of the master's columns, in declaration order -/
  names : List String
  /-- keys of `extraCols` -/
  extra : List String
  mname : String
  /-- `_connection` of the master class -/
  mconn : PVal
  /-- `dateArchived` of version `(d, vid)` -/
  date : Nat → Nat → PVal
  /-- the extra columns' values of version `(d, vid)` -/
  xval : Nat → Nat → String → PVal

def reserved : List String := ["id", "masterID", "dateArchived"]

/-- the keywords are distinct, none is `id` / `masterID` / `dateArchived`, one per column -/
structure Ctx.OK (X : Ctx) : Prop where
  len : X.names.length = X.c.ncols
  nodup : (X.names ++ X.extra).Nodup
  res : ∀ n ∈ X.names ++ X.extra, n ∉ reserved

def vobj : PVal := .ref 1 0
def badVal : PVal := .ref 9 0

def enc : Val → PVal
  | .int n => .int n
  | .null => .none
  | .bad => badVal

def dec : PVal → Val
  | .int n => .int n
  | .none => .null
  | _ => .bad

/-- a dict body from keyword/value pairs -/
def body (ps : List (String × PVal)) : PVal := PyVer.Val.ofList (ps.map fun p => .pair (.str p.1) p.2)

def colPairs (names : List String) (row : List Val) : List (String × PVal) :=
  List.zipWith (fun n v => (n, enc v)) names row

/-- `master.sqlmeta.asDict()` -/
def masterDict (X : Ctx) (m : Nat) (row : List Val) : PVal :=
  .dictv (body (colPairs X.names row ++ [("id", .nat m)]))

/-- `version.sqlmeta.asDict()` -/
def versionDict (X : Ctx) (d : Nat) (v : VRow) : PVal :=
  .dictv (body ([("dateArchived", X.date d v.vid), ("masterID", .nat v.master)] ++ colPairs X.names v.vals
    ++ X.extra.map (fun e => (e, X.xval d v.vid e)) ++ [("id", .nat v.vid)]))

def findV (s : VState) (vid : Nat) : Option VRow := s.versions.find? (fun v => v.vid = vid)

/-- the value of column `n` in a row -/
def colOf (names : List String) (row : List Val) (n : String) : Option PVal :=
  (List.lookup n (colPairs names row))

def xcolObj (e : String) : PVal := .obj "col" (.str e) .none

def xAttr (X : Ctx) (w : XW) (v : PVal) (n : String) : R PVal :=
  match v with
  | .inst d c i =>
    if c = 0 then
      if n = "childName" then .ok .none
      else if n = "sqlmeta" then .ok (.obj "sqlmeta" v .none)
      else if n = "id" then .ok (.nat i)
      else if n = "_connection" then .ok (.conn d)
      else match rowOf? (w.S d).masters i with
        | some row => R.ofOpt (colOf X.names row n)
        | none => .stuck
    else if c = 1 then
      if n = "sqlmeta" then .ok (.obj "sqlmeta" v .none)
      else if n = "id" then .ok (.nat i)
      else if n = "_connection" then .ok (.conn d)
      else if n = "masterClass" then .ok (.cls 0)
      else if n = "extraCols" then .ok (.dictv (body (X.extra.map fun e => (e, xcolObj e))))
      else if n = "q" then .ok (.obj "q" (.cls 1) .none)
      else if n = "__dict__" then .ok (.ref 2 i)
      else match findV (w.S d) i with
        | some r =>
          if n = "masterID" then .ok (.nat r.master)
          else if n = "master" then .ok (.inst d 0 r.master)
          else R.ofOpt (colOf X.names r.vals n)
        | none => .stuck
    else .stuck
  | .ref 1 0 =>
    if n = "soClass" then .ok (.cls 0)
    else if n = "versionClass" then .ok (.cls 1)
    else .stuck
  | .cls c =>
    if c = 0 then
      if n = "__name__" then .ok (.str X.mname)
      else if n = "_connection" then .ok X.mconn
      else if n = "sqlmeta" then .ok (.obj "sqlmeta" v .none)
      else .stuck
    else if c = 1 then
      if n = "_connection" then .ok w.vconn
      else if n = "masterClass" then .ok (.cls 0)
      else if n = "q" then .ok (.obj "q" (.cls 1) .none)
      else .stuck
    else .stuck
  | .obj t a _ =>
    if t = "q" then .ok (.obj "field" a (.str n))
    else if t = "sqlmeta" ∧ a = .cls 0 ∧ n = "columns" then .ok (.dictv (body (X.names.map fun e => (e, xcolObj e))))
    else .stuck
  | _ => .stuck

def xSetAttr (w : XW) (v : PVal) (n : String) (x : PVal) : Option XW :=
  match v with
  | .cls c => if c = 1 ∧ n = "_connection" then some { w with vconn := x } else none
  | _ => none

def kwGet (n : String) : List (String × PVal) → Option PVal
  | [] => none
  | (m, v) :: l => if m = n then some v else kwGet n l

/-- the column vector a `**values` dict carries -/
def vecOf (X : Ctx) (star : PVal) : List (Option Val) :=
  X.names.map fun n => (vdGet (.str n) star).map dec

/-- the dict has a key that is not a column keyword -/
def unkOf (X : Ctx) (star : PVal) : Bool :=
  (vdKeys star).any fun k => !(X.names.map PyVer.Val.str).contains k

/-- the version row appended by the snapshot -/
def snap (s : VState) (m : Nat) (row : List Val) : VState :=
  { s with versions := s.versions ++ [⟨s.nextV, m, row⟩], nextV := s.nextV + 1 }

/-- `SQLObject.set` below its RowUpdateSignal: the part of `vUpdateVec` after the snapshot (`s1`: the state the
    listeners left) -/
def setRest (c : VCfg) (s1 : VState) (m : Nat) (row : List Val) (vec : List (Option Val)) (unk : Bool) : VState × VOut :=
  if vecInvalid vec then (s1, .invalid)
  else if unk then (s1, .typeError)
  else if !vecEmpty vec && dupl c s1.masters m vec then (s1, .duplicate)
  else if vecEmpty vec then ({ s1 with hist := setHist s1 m (s1.hist m ++ [row]) }, .ok)
  else ({ s1 with masters := updRows s1.masters m vec, hist := setHist s1 m (s1.hist m ++ [applyVec row vec]) }, .ok)

def outRes (w : XW) : VOut → CallRes XW
  | .ok => .ret w .none
  | .invalid => .exc w ⟨.invalid, 0⟩
  | .typeError => .exc w ⟨.typeError, 0⟩
  | .duplicate => .exc w ⟨.duplicate, 0⟩
  | .nohandle => .exc w ⟨.notFound, 0⟩

/-- the translated methods the interface calls back into -/
structure Calls where
  rowUpdate : XW → PVal → PVal → CallRes XW
  select : PVal → XW → PVal → PVal → PVal → CallRes XW
  nextVersion : PVal → XW → CallRes XW

/-- `master.set(**star)` -/
def xSet (X : Ctx) (C : Calls) (w : XW) (d m : Nat) (star : PVal) : CallRes XW :=
  match rowOf? (w.S d).masters m with
  | none => .stuck
  | some row =>
    match C.rowUpdate w (.inst d 0 m) (.dictv star) with
    | .ret w1 _ =>
      let q := setRest X.c (w1.S d) m row (vecOf X star) (unkOf X star)
      outRes (w1.setS d q.1) q.2
    | r => r

/-- the constructor of the version class: `(.cls 1)(connection=.conn d, **star)` -/
def xNewVersion (X : Ctx) (w : XW) (d : Nat) (star : PVal) : CallRes XW :=
  match vdGet (.str "masterID") star with
  | some (.nat m) =>
    if (vdKeys star).any (fun k => !(("masterID" :: "dateArchived" :: (X.names ++ X.extra)).map PyVer.Val.str).contains k) then
      .exc w ⟨.typeError, 0⟩
    else
      let s := w.S d
      let vals := (List.range X.names.length).map fun k =>
        ((vdGet (.str (X.names.getD k "")) star).map dec).getD (X.c.dflt k)
      .ret (w.setS d { s with versions := s.versions ++ [⟨s.nextV, m, vals⟩], nextV := s.nextV + 1 }) (.inst d 1 s.nextV)
  | _ => .stuck

/-- Python's binding of call arguments to `select(cls, clause=None, *args, **kw)` -/
def bindSelect (a : Args) : PVal × PVal × PVal :=
  let kwd : PVal := .dictv (PyVer.vdUpdate (body a.kw) (match a.star with | .dictv b => b | _ => .nil))
  match a.pos with
  | [] => (.none, .nil, kwd)
  | cl :: rest => (cl, PyVer.Val.ofList rest, kwd)

/-- does version row `r` satisfy the clause? (the clauses the module builds) -/
def clauseHolds (r : VRow) : PVal → Bool
  | .obj t a b =>
    if t = "AND" then clauseHolds r a && clauseHolds r b
    else if t = "==" ∧ a = .obj "field" (.cls 1) (.str "masterID") then decide (b = .nat r.master)
    else if t = ">" ∧ a = .obj "field" (.cls 1) (.str "id") then
      (match b with
       | .nat i => decide (i < r.vid)
       | _ => false)
    else false
  | .none => true
  | _ => false

/-- the connection a select result reads through -/
def selConn : PVal → Option Nat
  | .obj _ _ (.pair (.dictv kw) dflt) =>
    (match vdGet (.str "connection") kw with
     | some (.conn d) => some d
     | some _ => none
     | none => (match dflt with
       | .conn d => some d
       | _ => none))
  | _ => none

def selClause : PVal → PVal
  | .obj _ (.pair _ (.cons cl _)) _ => cl
  | _ => .none

/-- the rows a select result of the version class yields, in id order -/
def selRows (w : XW) (sel : PVal) : Option (List VRow) :=
  (selConn sel).map fun d => (w.S d).versions.filter fun r => clauseHolds r (selClause sel)

def xCall (X : Ctx) (C : Calls) (w : XW) (recv : PVal) (m : String) (a : Args) : CallRes XW :=
  match recv with
  | .obj t inst _ =>
    if t = "sqlmeta" ∧ m = "asDict" ∧ a.pos = [] ∧ a.kw = [] ∧ a.star = .none then
      (match inst with
       | .inst d c i =>
         if c = 0 then
           (match rowOf? (w.S d).masters i with
            | some row => .ret w (masterDict X i row)
            | none => .stuck)
         else if c = 1 then
           (match findV (w.S d) i with
            | some v => .ret w (versionDict X d v)
            | none => .stuck)
         else .stuck
       | _ => .stuck)
    else if t = "select" ∧ m = "count" ∧ a.pos = [] ∧ a.kw = [] ∧ a.star = .none then
      (match selRows w recv with
       | some l => .ret w (.nat l.length)
       | none => .stuck)
    else .stuck
  | .ref 1 0 =>
    if m = "versionClass" ∧ a.pos = [] then
      (match a.kw, a.star with
       | [("connection", .conn d)], .dictv star => xNewVersion X w d star
       | _, _ => .stuck)
    else .stuck
  | .cls c =>
    if c = 0 ∧ m = "get" then
      (match a.pos, a.kw, a.star with
       | [.nat i], [("connection", .conn d)], .none =>
         if (rowOf? (w.S d).masters i).isSome then .ret w (.inst d 0 i) else .exc w ⟨.notFound, 0⟩
       | _, _, _ => .stuck)
    else if c = 1 ∧ m = "select" then
      let b := bindSelect a
      C.select (.cls 1) w b.1 b.2.1 b.2.2
    else .stuck
  | .inst d c i =>
    if c = 0 ∧ m = "set" ∧ a.pos = [] ∧ a.kw = [] then
      (match a.star with
       | .dictv star => xSet X C w d i star
       | _ => .stuck)
    else if c = 1 ∧ m = "select" then
      let b := bindSelect a
      C.select (.cls 1) w b.1 b.2.1 b.2.2
    else if c = 1 ∧ m = "nextVersion" ∧ a.pos = [] ∧ a.kw = [] ∧ a.star = .none then C.nextVersion recv w
    else .stuck
  | _ => .stuck

def xCallFn (w : XW) (f : PVal) (a : Args) : CallRes XW :=
  match f, a.pos, a.kw, a.star with
  | .obj "global" (.str "AND") _, [x, y], [], .none => .ret w (.obj "AND" x y)
  | _, _, _, _ => .stuck

/-- `super(Version, cls).select(clause, *args, **kw)` = `SQLObject.select` -/
def xSuper (self : PVal) (w : XW) (cls m : String) (a : Args) : CallRes XW :=
  if cls = "Version" ∧ m = "select" ∧ self = .cls 1 ∧ a.kw = [] then
    .ret w (.obj "select" (.pair self (PyVer.Val.ofList a.pos)) (.pair a.star w.vconn))
  else .stuck

def xGetItem (w : XW) (v k : PVal) : R PVal :=
  match v, k with
  | .obj _ _ _, .nat j =>
    (match selRows w v, selConn v with
     | some l, some d => (match l[j]? with
       | some r => .ok (.inst d 1 r.vid)
       | none => .exc ⟨.exception, 0⟩)
     | _, _ => .stuck)
  | _, _ => .stuck

def xContains (v : PVal) (_k : PVal) : Option Bool :=
  match v with
  | .ref 2 _ => some false
  | _ => none

def xIface (X : Ctx) (C : Calls) (self : PVal) : Iface XW where
  self := self
  attr := xAttr X
  setAttr := xSetAttr
  global := fun n => if n = "AND" then some (.obj "global" (.str "AND") .none) else none
  isinstance := fun _ _ _ => none
  contains := fun _ v k => xContains v k
  getItem := xGetItem
  setItem := fun _ _ _ _ => none
  delItem := fun _ _ _ => .stuck
  iter := fun _ _ => none
  items := fun _ _ => none
  dictOf := fun _ _ => none
  call := xCall X C
  callFn := xCallFn
  super := xSuper self
  proc := fun _ _ _ => .stuck

def stuckCalls : Calls := ⟨fun _ _ _ => .stuck, fun _ _ _ _ _ => .stuck, fun _ _ => .stuck⟩

/-- `vobj.rowUpdate(instance, kwargs)`, the translated program -/
def rowUpdateX (X : Ctx) (w : XW) (inst kwargs : PVal) : ProcRes XW :=
  PyVer.run (xIface X stuckCalls vobj) rowUpdateProg [inst, kwargs] rowUpdate_nlocals w

/-- `Version.select(cls, clause, *args, **kw)`, the translated program -/
def selectX (X : Ctx) (self : PVal) (w : XW) (clause rest kw : PVal) : ProcRes XW :=
  PyVer.run (xIface X stuckCalls self) selectProg [clause, rest, kw] select_nlocals w

/-- level 1: `rowUpdate` and `select` are the translated programs -/
def calls1 (X : Ctx) : Calls :=
  ⟨fun w i k => (rowUpdateX X w i k).toCall, fun self w c r k => (selectX X self w c r k).toCall, fun _ _ => .stuck⟩

/-- `version.restore()`, the translated program -/
def restoreX (X : Ctx) (w : XW) (d vid : Nat) : ProcRes XW :=
  PyVer.run (xIface X (calls1 X) (.inst d 1 vid)) restoreProg [] restore_nlocals w

/-- `vobj.__get__(obj, type)`, the translated program -/
def getX (X : Ctx) (w : XW) (obj ty : PVal) : ProcRes XW :=
  PyVer.run (xIface X (calls1 X) vobj) getProg [obj, ty] get_nlocals w

/-- `version.nextVersion()`, the translated program -/
def nextVersionX (X : Ctx) (self : PVal) (w : XW) : ProcRes XW :=
  PyVer.run (xIface X (calls1 X) self) nextVersionProg [] nextVersion_nlocals w

def calls2 (X : Ctx) : Calls :=
  { calls1 X with nextVersion := fun self w => (nextVersionX X self w).toCall }

/-- `version.getChangedFields()`, the translated program -/
def getChangedFieldsX (X : Ctx) (w : XW) (d vid : Nat) : ProcRes XW :=
  PyVer.run (xIface X (calls2 X) (.inst d 1 vid)) getChangedFieldsProg [] getChangedFields_nlocals w

/-- `version.__getattr__(attr)`, the translated program -/
def getattrX (X : Ctx) (w : XW) (d vid : Nat) (attr : PVal) : ProcRes XW :=
  PyVer.run (xIface X stuckCalls (.inst d 1 vid)) getattrProg [attr] getattr_nlocals w

/-- the hand model's view of how a translated call ended -/
def outOf : ProcRes XW → Option (DState × VOut)
  | .ret w _ _ => some (w.S, .ok)
  | .exc w e =>
    (match e.cls with
     | .invalid => some (w.S, .invalid)
     | .typeError => some (w.S, .typeError)
     | .duplicate => some (w.S, .duplicate)
     | .notFound => some (w.S, .nohandle)
     | _ => none)
  | .stuck => none

end SqlObjVerif.Version
