import SqlObjVerif.Model.Codec
/-!
# PyCodec — a deep embedding of the Python fragment the column validators of sqlobject are written in

`vlib/extractors/pycodec.py` TRANSLATES `IntValidator.to_python`, `BoolValidator.to_python`, `StringValidator.to_python`,
`UnicodeStringValidator.to_python / from_python`, `EnumValidator.to_python`, `ForeignKeyValidator.from_python`,
`DateTimeValidator.to_python / from_python`, `DateValidator.to_python`, `TimeValidator.to_python`,
`DecimalValidator.to_python / from_python`, `BinaryValidator.to_python / from_python` (sqlobject/col.py), the
`createValidators` methods of the column classes and `SQLObject._SO_selectInit` (main.py) from /repo's AST into `Block`s
of this language on every run (`Extracted/PyCodec.lean`).  This file is the fixed vocabulary and its reference semantics
(total functions, no fuel: the only loop iterates over a tuple / list value).

Values (`Val`): `py v` — a value of the hand model's tagged universe `Codec.PyVal` (None, bool, int, float token, str,
bytes, datetime / date / time records, Decimal token, uuid / json / pickled tokens, instance handles, `other`);
`strs` — a list of `str` (what `str.split` returns); `cls` — a class or function object named by its (dotted) source
name (`int`, `datetime.datetime`, `Decimal`, …); `tuple`; `col i` — the i-th column object of the class; `obj` — an object identified by its ACCESS PATH (`self`,
`state`, `state.soObject._connection`, …): its attributes are read through the interface; `mview` — a `memoryview`
over bytes; `floorOf t` — the float `t // 1` (float arithmetic is not interpreted).

Everything that is not Python's core is a PARAMETER of the interpreter (`Iface`):
* `glob`     : module-level names of col.py (`PY2`, `long`, `unicode_type`, `mxdatetime_available`, …); a name that is
               not in the table is the class / function of that name;
* `isInst`   : `isinstance(v, C)` for a universe value and ONE class name (`none` = not interpreted: `other`);
* `hasAttr`  : `hasattr(v, name)` (the name as a list of code points);
* `getAttr`  : attribute reads (`self.format`, `state.connection`, `value.id`, `connection.dbName`, …); may raise
               `AttributeError`;
* `call`     : a call of a class / function named `f` (`int(v)`, `str(v)`, `bool(v)`, `Decimal(v)`, `bytes(v, 'ascii')`,
               `type(None)`, `findClass(…)`, `datetime.time()`, …);
* `method`   : a method call on anything but a `str` receiver with the methods built in below (`value.date()`,
               `datetime.datetime.strptime(v, fmt)`, `connection.module.decode(v)`, `connection.createBinary(v)`,
               `self.getDbEncoding(state)`, `super(C, self).to_python(value, state)`, `binary.tobytes()`, …);
* `binop` / `cmp` / `truth` : arithmetic, comparison and truth value of operands the core below does not cover
               (floats, Decimals, `other`).
Built into the semantics (Python itself): `is None`, `and` / `or` / `not` on values with a core truth value (None, bool,
int, str, bytes, lists, tuples, classes, objects, date/time records), `==` / `!=` / `<` / `<=` / `>` / `>=` on ints,
`==` / `!=` on str, `in` for `str in str`, `value in list-of-str` and `class in tuple-of-classes`, `+` on str and int, `-` on int, `str * int`,
`len` of str / list, `s[i]` / `l[i]` (negative indices), `s[:n]`, `l[-1] = v` on a list local, `str.split(sep)`,
`sep.join(list)`, `str.find(t)`, tuple unpacking, `if`, `for` with `break`, `try / except <classes> / else`, `raise`,
`return`; `setattr(self, name, v)` with a computed name appends to a WRITE LOG kept in the reserved slot `LOG` (the
embedding has no heap).

`R.unmodelled` = the hand model of the standard library has no answer (it propagates like an error that nothing
catches); `stuck` = outside the fragment (a `NameError`, an unbound local, a construct the semantics does not cover):
a theorem `translated = model` shows in particular that this never happens.

`raise C(msg, …)` is executed as `raise C`: the message expression is not evaluated (Python evaluates it, but its value
is not observed by the property, and building it from `self.name`, `type(value)` and `repr(value)` does not raise for
the values of the universe).  Locals are numbered in order of first binding, parameters first: renaming a local does
not change the translation.
-/
namespace SqlObjVerif.PyCodec

open SqlObjVerif.Codec (Str PyVal FTok)

inductive Val where
  | py (v : PyVal)
  | strs (l : List Str)
  | cls (name : String)
  | tuple (vs : List Val)
  | obj (path : String)
  | mview (b : Str)
  | floorOf (t : FTok)
  | col (i : Nat)                  -- the i-th column object of the class (`sqlmeta.columnList[i]`)

inductive Exc where
  | invalid | attributeError | valueError | typeError | assertionError | other
deriving Repr, DecidableEq

inductive R (α : Type) where
  | ok (a : α)
  | exc (e : Exc)
  | unmodelled
  | stuck

def R.bind {α β : Type} : R α → (α → R β) → R β
  | .ok a, f => f a
  | .exc e, _ => .exc e
  | .unmodelled, _ => .unmodelled
  | .stuck, _ => .stuck

@[simp] theorem R.bind_ok {α β : Type} (a : α) (f : α → R β) : (R.ok a).bind f = f a := by rw [R.bind]
@[simp] theorem R.bind_exc {α β : Type} (e : Exc) (f : α → R β) : (R.exc e : R α).bind f = .exc e := by rw [R.bind]
@[simp] theorem R.bind_unmodelled {α β : Type} (f : α → R β) : (R.unmodelled : R α).bind f = .unmodelled := by rw [R.bind]
@[simp] theorem R.bind_stuck {α β : Type} (f : α → R β) : (R.stuck : R α).bind f = .stuck := by rw [R.bind]

def ofOpt {α : Type} : Option α → R α
  | some a => .ok a
  | Option.none => .stuck

@[simp] theorem ofOpt_some {α : Type} (a : α) : ofOpt (some a) = .ok a := rfl
@[simp] theorem ofOpt_none {α : Type} : ofOpt (Option.none : Option α) = .stuck := rfl

/-- an interface answer: `none` = the hand model does not interpret this -/
def ofModel {α : Type} : Option α → R α
  | some a => .ok a
  | Option.none => .unmodelled

@[simp] theorem ofModel_some {α : Type} (a : α) : ofModel (some a) = .ok a := rfl
@[simp] theorem ofModel_none {α : Type} : ofModel (Option.none : Option α) = .unmodelled := rfl

inductive BinOp where
  | add | sub | mul | floordiv | mod
deriving Repr, DecidableEq

inductive CmpOp where
  | eq | ne | lt | le | gt | ge | isIn | notIn
deriving Repr, DecidableEq

structure Iface where
  glob : String → Option Val
  isInst : PyVal → String → Option Bool
  hasAttr : Val → Str → Option Bool
  getAttr : Val → String → R Val
  call : String → List Val → List (String × Val) → R Val
  method : Val → String → List Val → List (String × Val) → R Val
  binop : BinOp → Val → Val → R Val
  cmp : CmpOp → Val → Val → R Val
  truth : Val → R Bool

/-! ### Python's own operations -/

/-- `bool(v)` where the core decides it -/
def truthy (I : Iface) : Val → R Bool
  | .py .none => .ok false
  | .py (.bool b) => .ok b
  | .py (.int i) => .ok (i != 0)
  | .py (.str s) => .ok (!s.isEmpty)
  | .py (.bytes s) => .ok (!s.isEmpty)
  | .py (.datetime ..) => .ok true
  | .py (.date ..) => .ok true
  | .py (.time ..) => .ok true
  | .strs l => .ok (!l.isEmpty)
  | .tuple l => .ok (!l.isEmpty)
  | .cls _ => .ok true
  | .obj _ => .ok true
  | .col _ => .ok true
  | v => I.truth v

/-- `isinstance(v, C)` for one class -/
def isInst1 (I : Iface) (v : Val) (c : String) : R Bool :=
  match v with
  | .py p => ofModel (I.isInst p c)
  | .strs _ => .ok (c == "list")
  | .tuple _ => .ok (c == "tuple")
  | .cls _ => .ok (c == "type")
  | .mview _ => .ok (c == "memoryview")
  | .floorOf _ => .ok (c == "float")
  | .obj _ => .unmodelled
  | .col _ => .unmodelled

/-- `isinstance(v, (C1, C2, …))`: Python tests the classes in order and stops at the first hit -/
def isInstAny (I : Iface) (v : Val) : List Val → R Bool
  | [] => .ok false
  | .cls c :: rest => (isInst1 I v c).bind fun b => if b then .ok true else isInstAny I v rest
  | _ :: _ => .exc .typeError

def isInstOf (I : Iface) (v : Val) : Val → R Bool
  | .cls c => isInst1 I v c
  | .tuple cs => isInstAny I v cs
  | _ => .exc .typeError

/-- `sep.join(l)` -/
def joinStr (sep : Str) : List Str → Str
  | [] => []
  | [a] => a
  | a :: b :: l => a ++ sep ++ joinStr sep (b :: l)

/-- `s.split(c)` for a one-character separator -/
def splitChr (c : Nat) : Str → List Str
  | [] => [[]]
  | x :: xs =>
    if x = c then [] :: splitChr c xs
    else match splitChr c xs with
      | h :: t => (x :: h) :: t
      | [] => [[x]]

/-- first position at which `t` occurs in `s`, counting from `i` -/
def findFrom (t : Str) : Str → Nat → Option Nat
  | [], i => if t.isEmpty then some i else Option.none
  | c :: cs, i => if t.isPrefixOf (c :: cs) then some i else findFrom t cs (i + 1)

def strIn (t s : Str) : Bool := (findFrom t s 0).isSome

def strFind (t s : Str) : Int :=
  match findFrom t s 0 with
  | some i => (i : Int)
  | Option.none => -1

/-- `s * n` -/
def strMul (s : Str) (n : Int) : Str := (List.replicate n.toNat s).flatten

/-- replace the last element -/
def setLast {α : Type} (l : List α) (x : α) : List α := l.dropLast ++ [x]

def cmpInt : CmpOp → Int → Int → Option Bool
  | .eq, a, b => some (a == b)
  | .ne, a, b => some (a != b)
  | .lt, a, b => some (decide (a < b))
  | .le, a, b => some (decide (a ≤ b))
  | .gt, a, b => some (decide (a > b))
  | .ge, a, b => some (decide (a ≥ b))
  | _, _, _ => Option.none

/-- `C in (C1, C2, …)` for class objects -/
def clsIn (c : String) : List Val → Bool
  | [] => false
  | .cls d :: l => d == c || clsIn c l
  | _ :: l => clsIn c l

def pyCmp (I : Iface) (op : CmpOp) (a b : Val) : R Val :=
  match a, b with
  | .cls c, .tuple l =>
    match op with
    | .isIn => .ok (.py (.bool (clsIn c l)))
    | .notIn => .ok (.py (.bool (!clsIn c l)))
    | _ => I.cmp op a b
  | .py (.int x), .py (.int y) =>
    match cmpInt op x y with
    | some r => .ok (.py (.bool r))
    | Option.none => .exc .typeError
  | .py (.str x), .py (.str y) =>
    match op with
    | .eq => .ok (.py (.bool (x == y)))
    | .ne => .ok (.py (.bool (x != y)))
    | .isIn => .ok (.py (.bool (strIn x y)))
    | .notIn => .ok (.py (.bool (!strIn x y)))
    | _ => I.cmp op a b
  | _, _ => I.cmp op a b

def pyBin (I : Iface) (op : BinOp) (a b : Val) : R Val :=
  match op, a, b with
  | .add, .py (.str x), .py (.str y) => .ok (.py (.str (x ++ y)))
  | .add, .py (.int x), .py (.int y) => .ok (.py (.int (x + y)))
  | .sub, .py (.int x), .py (.int y) => .ok (.py (.int (x - y)))
  | .mul, .py (.str x), .py (.int y) => .ok (.py (.str (strMul x y)))
  | _, _, _ => I.binop op a b

/-- position denoted by the index `i` in a sequence of length `n` -/
def normIdx (n : Nat) (i : Int) : Option Nat :=
  if 0 ≤ i then (if i.toNat < n then some i.toNat else Option.none)
  else if (-i).toNat ≤ n then some (n - (-i).toNat) else Option.none

def pyIndex : Val → Val → R Val
  | .strs l, .py (.int i) =>
    match (normIdx l.length i).bind (l[·]?) with
    | some s => .ok (.py (.str s))
    | Option.none => .exc .other
  | .py (.str s), .py (.int i) =>
    match (normIdx s.length i).bind (s[·]?) with
    | some c => .ok (.py (.str [c]))
    | Option.none => .exc .other
  | .tuple l, .py (.int i) =>
    match (normIdx l.length i).bind (l[·]?) with
    | some v => .ok v
    | Option.none => .exc .other
  | _, _ => .unmodelled

/-- `s[:n]` for `n ≥ 0` -/
def pySliceTo : Val → Val → R Val
  | .py (.str s), .py (.int n) => if 0 ≤ n then .ok (.py (.str (s.take n.toNat))) else .unmodelled
  | _, _ => .unmodelled

/-- the methods of `str` that are part of the core -/
def strMethod (I : Iface) (s : Str) (m : String) (args : List Val) (kw : List (String × Val)) : R Val :=
  if m = "split" then
    match args, kw with
    | [.py (.str [c])], [] => .ok (.strs (splitChr c s))
    | _, _ => I.method (.py (.str s)) m args kw
  else if m = "join" then
    match args, kw with
    | [.strs l], [] => .ok (.py (.str (joinStr s l)))
    | _, _ => I.method (.py (.str s)) m args kw
  else if m = "find" then
    match args, kw with
    | [.py (.str t)], [] => .ok (.py (.int (strFind t s)))
    | _, _ => I.method (.py (.str s)) m args kw
  else I.method (.py (.str s)) m args kw

def methodOf (I : Iface) (r : Val) (m : String) (args : List Val) (kw : List (String × Val)) : R Val :=
  match r with
  | .py (.str s) => strMethod I s m args kw
  | _ => I.method r m args kw

/-- a call of a value: a class / function object by its name; `len` is core -/
def callVal (I : Iface) (f : Val) (args : List Val) (kw : List (String × Val)) : R Val :=
  match f with
  | .cls name =>
    if name = "len" then
      match args, kw with
      | [.py (.str s)], [] => .ok (.py (.int s.length))
      | [.strs l], [] => .ok (.py (.int l.length))
      | _, _ => I.call name args kw
    else I.call name args kw
  | _ => .exc .typeError

/-! ### syntax -/

mutual
inductive Expr where
  | var (x : Nat)
  | glob (name : String)                                  -- a module-level / builtin name, dotted names included
  | none
  | true
  | false
  | int (i : Int)
  | str (s : Str)
  | attr (e : Expr) (a : String)                          -- `e.a`
  | selfAttr (slot : Nat) (a : String)                    -- `self.a` for an attribute the function also assigns
  | tuple (es : Exprs)
  | not (e : Expr)
  | and (a b : Expr)
  | or (a b : Expr)
  | isNone (e : Expr)
  | isNotNone (e : Expr)
  | isinstance (e c : Expr)
  | hasattr (e a : Expr)
  | cmp (op : CmpOp) (a b : Expr)
  | bin (op : BinOp) (a b : Expr)
  | index (e i : Expr)
  | sliceTo (e hi : Expr)                                 -- `e[:hi]`
  | slice (e lo hi : Expr)                                -- `e[lo:hi]` (not interpreted)
  | call (f : Expr) (args : Exprs) (kwn : List String) (kwv : Exprs)      -- `f(args, k=v)`
  | callStar (f : Expr) (star : Expr) (kwn : List String) (kwv : Exprs)   -- `f(*star, k=v)` (not interpreted)
  | method (recv : Expr) (m : String) (args : Exprs) (kwn : List String) (kwv : Exprs)
  | super (cls : String) (m : String) (args : Exprs)      -- `super(C, self).m(args)`
inductive Exprs where
  | nil
  | cons (e : Expr) (rest : Exprs)
end

inductive Target where
  | one (x : Nat)
  | tup (xs : List Nat)
deriving Repr, DecidableEq

mutual
inductive Stmt where
  | assign (t : Target) (e : Expr)
  | setLast (x : Nat) (v : Expr)                          -- `x[-1] = v` (a list local)
  | setSelfAttr (slot : Nat) (e : Expr)                   -- `self.a = e`
  | setattr (o n v : Expr)                                -- `setattr(o, n, v)` with a computed name
  | ite (c : Expr) (t e : Block)
  | for (t : Target) (it : Expr) (body : Block)
  | try (body : Block) (hs : Handlers) (orelse : Block)
  | raise (cls : String)
  | assert (c : Expr)                                    -- `assert c, msg` (the message is not evaluated)
  | ret (e : Expr)
  | expr (e : Expr)
  | brk
  | pass
inductive Block where
  | nil
  | cons (s : Stmt) (rest : Block)
inductive Handlers where
  | nil
  | cons (classes : List String) (body : Block) (rest : Handlers)
end

/-! ### semantics -/

abbrev Env := Nat → Option Val

def Env.empty : Env := fun _ => Option.none

def Env.put (env : Env) (x : Nat) (v : Val) : Env := fun y => if y = x then some v else env y

@[simp] theorem Env.put_apply (env : Env) (x : Nat) (v : Val) (y : Nat) :
    (env.put x v) y = if y = x then some v else env y := rfl

def Env.ofArgs : List Val → Env
  | [] => Env.empty
  | v :: l => fun y => match y with
    | 0 => some v
    | y + 1 => Env.ofArgs l y

def zipKw : List String → List Val → List (String × Val)
  | n :: ns, v :: vs => (n, v) :: zipKw ns vs
  | _, _ => []

/-- a module-level name: the table, else the class / function of that name -/
def globOf (I : Iface) (name : String) : Val :=
  match I.glob name with
  | some v => v
  | Option.none => .cls name

def boolV (b : Bool) : Val := .py (.bool b)

def isNoneV : Val → Bool
  | .py .none => Bool.true
  | _ => Bool.false

@[simp] theorem isNoneV_py (p : PyVal) : isNoneV (.py p) = (match p with | .none => Bool.true | _ => Bool.false) := by
  cases p <;> rfl

mutual
def Expr.eval (I : Iface) (env : Env) : Expr → R Val
  | .var x => ofOpt (env x)
  | .glob name => .ok (globOf I name)
  | .none => .ok (.py .none)
  | .true => .ok (boolV Bool.true)
  | .false => .ok (boolV Bool.false)
  | .int i => .ok (.py (.int i))
  | .str s => .ok (.py (.str s))
  | .attr e a => (e.eval I env).bind fun v => I.getAttr v a
  | .selfAttr slot a =>
    match env slot with
    | some v => .ok v
    | Option.none => (ofOpt (env 0)).bind fun self => I.getAttr self a
  | .tuple es => (es.eval I env).bind fun vs => .ok (.tuple vs)
  | .not e => (e.eval I env).bind fun v => (truthy I v).bind fun b => .ok (boolV (!b))
  | .and a b => (a.eval I env).bind fun v => (truthy I v).bind fun t => if t then b.eval I env else .ok v
  | .or a b => (a.eval I env).bind fun v => (truthy I v).bind fun t => if t then .ok v else b.eval I env
  | .isNone e => (e.eval I env).bind fun v => .ok (boolV (isNoneV v))
  | .isNotNone e => (e.eval I env).bind fun v => .ok (boolV (!isNoneV v))
  | .isinstance e c => (e.eval I env).bind fun v => (c.eval I env).bind fun cv =>
      (isInstOf I v cv).bind fun b => .ok (boolV b)
  | .hasattr e a => (e.eval I env).bind fun v => (a.eval I env).bind fun av =>
      match av with
      | .py (.str s) => (ofModel (I.hasAttr v s)).bind fun b => .ok (boolV b)
      | _ => .exc .typeError
  | .cmp op a b => (a.eval I env).bind fun x => (b.eval I env).bind fun y => pyCmp I op x y
  | .bin op a b => (a.eval I env).bind fun x => (b.eval I env).bind fun y => pyBin I op x y
  | .index e i => (e.eval I env).bind fun x => (i.eval I env).bind fun y => pyIndex x y
  | .sliceTo e hi => (e.eval I env).bind fun x => (hi.eval I env).bind fun y => pySliceTo x y
  | .slice e lo hi => (e.eval I env).bind fun _ => (lo.eval I env).bind fun _ => (hi.eval I env).bind fun _ =>
      .unmodelled
  | .call f args kwn kwv => (f.eval I env).bind fun fv => (args.eval I env).bind fun as =>
      (kwv.eval I env).bind fun ks => callVal I fv as (zipKw kwn ks)
  | .callStar f star _ kwv => (f.eval I env).bind fun _ => (star.eval I env).bind fun _ =>
      (kwv.eval I env).bind fun _ => .unmodelled
  | .method recv m args kwn kwv => (recv.eval I env).bind fun r => (args.eval I env).bind fun as =>
      (kwv.eval I env).bind fun ks => methodOf I r m as (zipKw kwn ks)
  | .super cls m args => (ofOpt (env 0)).bind fun self => (args.eval I env).bind fun as =>
      I.method (.tuple [.cls cls, self]) m as []
def Exprs.eval (I : Iface) (env : Env) : Exprs → R (List Val)
  | .nil => .ok []
  | .cons e rest => (e.eval I env).bind fun v => (rest.eval I env).bind fun vs => .ok (v :: vs)
end

def bindAll (env : Env) : List Nat → List Val → Option Env
  | [], [] => some env
  | x :: xs, v :: vs => bindAll (env.put x v) xs vs
  | _, _ => Option.none

def Target.bind (env : Env) : Target → Val → Option Env
  | .one x, v => some (env.put x v)
  | .tup xs, .tuple vs => bindAll env xs vs
  | .tup _, _ => Option.none

/-- how a statement ends -/
inductive Res where
  | norm (env : Env)
  | ret (env : Env) (v : Val)
  | exc (env : Env) (e : Exc)
  | brk (env : Env)
  | unmodelled
  | stuck

def Res.seq (r : Res) (k : Env → Res) : Res :=
  match r with
  | .norm env => k env
  | r => r

theorem Res.seq_norm (env : Env) (k : Env → Res) : (Res.norm env).seq k = k env := by rw [Res.seq]
@[simp] theorem Res.seq_ret (env : Env) (v : Val) (k : Env → Res) : (Res.ret env v).seq k = .ret env v := by simp [Res.seq]
@[simp] theorem Res.seq_exc (env : Env) (e : Exc) (k : Env → Res) : (Res.exc env e).seq k = .exc env e := by simp [Res.seq]
@[simp] theorem Res.seq_brk (env : Env) (k : Env → Res) : (Res.brk env).seq k = .brk env := by simp [Res.seq]
@[simp] theorem Res.seq_unmodelled (k : Env → Res) : Res.unmodelled.seq k = .unmodelled := by simp [Res.seq]
@[simp] theorem Res.seq_stuck (k : Env → Res) : Res.stuck.seq k = .stuck := by simp [Res.seq]

/-- go on with `k` when the expression has a value -/
def withR {α : Type} (env : Env) (r : R α) (k : α → Res) : Res :=
  match r with
  | .ok v => k v
  | .exc e => .exc env e
  | .unmodelled => .unmodelled
  | .stuck => .stuck

@[simp] theorem withR_ok {α : Type} (env : Env) (v : α) (k : α → Res) : withR env (.ok v) k = k v := by rw [withR]
@[simp] theorem withR_exc {α : Type} (env : Env) (e : Exc) (k : α → Res) : withR env (.exc e) k = .exc env e := by rw [withR]
@[simp] theorem withR_unmodelled {α : Type} (env : Env) (k : α → Res) : withR env (R.unmodelled : R α) k = .unmodelled := by
  rw [withR]
@[simp] theorem withR_stuck {α : Type} (env : Env) (k : α → Res) : withR env (R.stuck : R α) k = .stuck := by rw [withR]

def normOpt : Option Env → Res
  | some env => .norm env
  | Option.none => .stuck

@[simp] theorem normOpt_some (env : Env) : normOpt (some env) = .norm env := rfl
@[simp] theorem normOpt_none : normOpt Option.none = .stuck := rfl

/-- `for`: `break` ends the loop normally -/
def forLoop (f : Env → Val → Res) : List Val → Env → Res
  | [], env => .norm env
  | v :: vs, env => match f env v with
    | .norm env' => forLoop f vs env'
    | .brk env' => .norm env'
    | r => r

def loopStep (t : Target) (body : Env → Res) (env : Env) (v : Val) : Res :=
  match t.bind env v with
  | some env' => body env'
  | Option.none => .stuck

def iterOf : Val → Option (List Val)
  | .tuple vs => some vs
  | .strs l => some (l.map fun s => .py (.str s))
  | _ => Option.none

/-- does `except <classes>` catch `e`?  (`Invalid` is an `Exception`) -/
def catches (classes : List String) (e : Exc) : Bool :=
  classes.contains "Exception" ||
  (match e with
   | .attributeError => classes.contains "AttributeError"
   | .valueError => classes.contains "ValueError"
   | .typeError => classes.contains "TypeError"
   | .assertionError => classes.contains "AssertionError"
   | .invalid => classes.contains "validators.Invalid"
   | .other => Bool.false)

def excOfClass (c : String) : Option Exc :=
  if c = "validators.Invalid" then some .invalid
  else if c = "AttributeError" then some .attributeError
  else if c = "ValueError" then some .valueError
  else if c = "TypeError" then some .typeError
  else Option.none

/-- `x[-1] = v` -/
def setLastOf (env : Env) (x : Nat) (v : Val) : Option Env :=
  match env x, v with
  | some (.strs l), .py (.str s) => if l.isEmpty then Option.none else some (env.put x (.strs (setLast l s)))
  | _, _ => Option.none

/-- the slot in which the semantics keeps the WRITE LOG of `setattr(self, name, value)`: the instance attributes
    assigned under computed names, in order (the embedding has no heap: what a method does to the instance's `__dict__`
    is observable as this log) -/
def LOG : Nat := 1000

def logOf (env : Env) : List Val :=
  match env LOG with
  | some (.tuple l) => l
  | _ => []

/-- `setattr(self, name, v)` -/
def setattrOf (env : Env) (o n v : Val) : Option Env :=
  match o, n with
  | .obj _, .py (.str _) => some (env.put LOG (.tuple (logOf env ++ [.tuple [n, v]])))
  | _, _ => Option.none

/-- what a `try` does with the outcome of its body -/
def tryRes (r : Res) (handle : Env → Exc → Res) (orelse : Env → Res) : Res :=
  match r with
  | .exc env e => handle env e
  | .norm env => orelse env
  | r => r

@[simp] theorem tryRes_exc (env : Env) (e : Exc) (h : Env → Exc → Res) (o : Env → Res) :
    tryRes (.exc env e) h o = h env e := by rw [tryRes]
@[simp] theorem tryRes_norm (env : Env) (h : Env → Exc → Res) (o : Env → Res) : tryRes (.norm env) h o = o env := by
  rw [tryRes]
@[simp] theorem tryRes_ret (env : Env) (v : Val) (h : Env → Exc → Res) (o : Env → Res) :
    tryRes (.ret env v) h o = .ret env v := by simp [tryRes]
@[simp] theorem tryRes_brk (env : Env) (h : Env → Exc → Res) (o : Env → Res) : tryRes (.brk env) h o = .brk env := by
  simp [tryRes]
@[simp] theorem tryRes_unmodelled (h : Env → Exc → Res) (o : Env → Res) : tryRes .unmodelled h o = .unmodelled := by
  simp [tryRes]
@[simp] theorem tryRes_stuck (h : Env → Exc → Res) (o : Env → Res) : tryRes .stuck h o = .stuck := by simp [tryRes]

mutual
def Stmt.exec (I : Iface) (env : Env) : Stmt → Res
  | .assign t e => withR env (e.eval I env) fun v => normOpt (t.bind env v)
  | .setLast x v => withR env (v.eval I env) fun vv => normOpt (setLastOf env x vv)
  | .setSelfAttr slot e => withR env (e.eval I env) fun v => .norm (env.put slot v)
  | .setattr o n v => withR env (o.eval I env) fun ov => withR env (n.eval I env) fun nv =>
      withR env (v.eval I env) fun vv => normOpt (setattrOf env ov nv vv)
  | .ite c t e => withR env (c.eval I env) fun v => withR env (truthy I v) fun b =>
      if b then t.exec I env else e.exec I env
  | .for t it body => withR env (it.eval I env) fun v =>
      match iterOf v with
      | some l => forLoop (loopStep t fun env' => body.exec I env') l env
      | Option.none => .stuck
  | .try body hs orelse =>
      tryRes (body.exec I env) (fun env' e => hs.exec I env' e) (fun env' => orelse.exec I env')
  | .raise c =>
      match excOfClass c with
      | some e => .exc env e
      | Option.none => .stuck
  | .assert c => withR env (c.eval I env) fun v => withR env (truthy I v) fun b =>
      if b then .norm env else .exc env .assertionError
  | .ret e => withR env (e.eval I env) fun v => .ret env v
  | .expr e => withR env (e.eval I env) fun _ => .norm env
  | .brk => .brk env
  | .pass => .norm env
def Block.exec (I : Iface) (env : Env) : Block → Res
  | .nil => .norm env
  | .cons s rest => (s.exec I env).seq fun env' => rest.exec I env'
def Handlers.exec (I : Iface) (env : Env) (e : Exc) : Handlers → Res
  | .nil => .exc env e
  | .cons classes body rest => if catches classes e then body.exec I env else rest.exec I env e
end

theorem exec_cons (I : Iface) (env : Env) (s : Stmt) (rest : Block) :
    Block.exec I env (.cons s rest) = (s.exec I env).seq fun env' => rest.exec I env' := by rw [Block.exec]

theorem exec_nil (I : Iface) (env : Env) : Block.exec I env .nil = .norm env := by rw [Block.exec]

/-- what the caller of a function sees -/
inductive Out where
  | ret (v : Val)
  | exc (e : Exc)
  | unmodelled
  | stuck

def Res.out : Res → Out
  | .norm _ => .ret (.py .none)          -- falling off the end returns None
  | .ret _ v => .ret v
  | .exc _ e => .exc e
  | .brk _ => .stuck
  | .unmodelled => .unmodelled
  | .stuck => .stuck

/-- call a translated function on its arguments -/
def run (I : Iface) (prog : Block) (args : List Val) : Out := (prog.exec I (Env.ofArgs args)).out

/-- the outcome in the hand model's terms: a value of the universe, `Invalid`, any other exception, not interpreted;
    `none`: stuck, or a value outside the universe -/
def Out.toModel : Out → Option (Codec.Res PyVal)
  | .ret (.py v) => some (.ok v)
  | .ret _ => Option.none
  | .exc .invalid => some .invalid
  | .exc _ => some .reject
  | .unmodelled => some .unmodelled
  | .stuck => Option.none

end SqlObjVerif.PyCodec
