/-!
# Helpers shared by the line-protocol drivers (`Drv/Cnn.lean`)

One request per input line, one answer line per request.  Strings travel as hex of their
code points joined by `.` (e.g. `61.27.1f600`), so NUL, quotes and newlines survive; the
empty string is `-`.
-/
namespace SqlObjVerif.DrvUtil

partial def loop {σ : Type} (step : σ → String → σ × String) (s : σ) : IO Unit := do
  let stdin ← IO.getStdin
  let stdout ← IO.getStdout
  let rec go (s : σ) : IO Unit := do
    let line ← stdin.getLine
    if line.isEmpty then
      stdout.flush
      return ()
    let line := line.trimAscii.toString
    let (s', out) := step s line
    stdout.putStrLn out
    go s'
  go s

/-- stateless variant -/
def loopPure (f : String → String) : IO Unit :=
  loop (σ := Unit) (fun _ l => ((), f l)) ()

def hexDigit? (c : Char) : Option Nat :=
  if '0' ≤ c ∧ c ≤ '9' then some (c.toNat - '0'.toNat)
  else if 'a' ≤ c ∧ c ≤ 'f' then some (c.toNat - 'a'.toNat + 10)
  else none

def hexNat? (s : String) : Option Nat :=
  if s.isEmpty then none else
  s.foldl (fun acc c => match acc, hexDigit? c with
    | some a, some d => some (a * 16 + d)
    | _, _ => none) (some 0)

/-- `61.27` ↦ `[0x61, 0x27]`, `-` ↦ `[]` -/
def decodeCps? (s : String) : Option (List Nat) :=
  if s == "-" then some [] else
  (s.splitOn ".").foldr (fun t acc => match hexNat? t, acc with
    | some n, some l => some (n :: l)
    | _, _ => none) (some [])

def hexOfNat (n : Nat) : String := String.ofList (Nat.toDigits 16 n)

def encodeCps (l : List Nat) : String :=
  if l.isEmpty then "-" else ".".intercalate (l.map hexOfNat)

def int? (s : String) : Option Int := s.toInt?

/-- `-` ↦ none (Python `None`) -/
def optInt? (s : String) : Option (Option Int) :=
  if s == "-" then some none else (s.toInt?).map some

def words (s : String) : List String := (s.splitOn " ").filter (· ≠ "")

end SqlObjVerif.DrvUtil
