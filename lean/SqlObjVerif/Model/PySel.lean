import SqlObjVerif.Model.PyExpr
/-!
# PySel — the Python fragment the `sqlbuilder.Select` class is written in, with a HEAP for its `ops` dict

`vlib/extractors/pysel.py` TRANSLATES, on every run, `Select.__init__ / clone / newItems / newClause / orderBy /
unlimited / limit / lazyColumns / reversed / distinct / filter / __sqlrepr__`, `_str_or_sqlrepr`,
`SQLExpression.components / tablesUsed / tablesUsedSet / tablesUsedImmediate`, the module function `tablesUsedSet`,
`SQLOp / SQLPrefix / SQLCall / INSubquery .components` and `Field.tablesUsedImmediate` from /repo's AST into `Block`s of
this language (`Extracted/PySel.lean`).  Values are the values of `Model/PyExpr.lean` (so the expression objects built
by the translated overloads are the same values); three encodings are added:
* a Python `dict` object is a REFERENCE `refV a` into the heap (`Heap`: address ↦ items in insertion order) — so that
  two names for the same dict see each other's writes: `ops = self.ops` followed by `ops.update(…)` writes the dict of
  `self`, `ops = self.ops.copy()` allocates;
* a `set` of strings is `setV items` (duplicate-free list; only `add / update / remove / in / sorted / bool` are used);
* a module-level object used as a value is `globV "@Name"` (`NoDefault`, the class `DESC`), the local function
  `def reverser(x): return x` is `globV "@ident"`.
Lists, tuples, sets and objects are immutable values: `x.append(e)` & co. REBIND the local (the translator checks that
no second name for the mutated list / set exists); only dicts live in the heap.

Expressions are PURE (they read the heap).  Everything that allocates or writes is a STATEMENT: `x.a = {}`,
`x.a[k] = v`, `t = e.copy()`, `x.update(y)` on a dict, and method calls whose result is returned / bound / dropped
(`return self.__class__(**ops)`, `return self.clone(k=v)`, `self.clone(limit=limit)`): these go through `I.callH`,
which receives the positional arguments and the ADDRESS of a freshly allocated keyword dict (CPython builds a new dict
for every call with keywords / `**d`) and returns the result and the new heap.

Parameters of the interpreter (`SIface`): `E h` (the pure interface of `Model/PyExpr.lean`, which may READ the heap `h`: module functions, classes,
`sqlrepr`, methods of other objects such as `dbConnectionForScheme(db)._queryAddLimitOffset(…)`), `callH` (heap-changing
method calls), `hasAttr` (`hasattr(v, name)`), `strLe` (the order `sorted` uses on `str`).
-/
namespace SqlObjVerif.PySel
open SqlObjVerif.PyExpr

/-! ### encodings -/

def refV (a : Nat) : Val := .obj "dict" [("@", .int a)]
def setV (items : List Val) : Val := .obj "set" [("@", .list items)]
def globV (tag : String) : Val := .obj tag []

def refOf : Val → Option Nat
  | .obj c [(k, .int a)] => if c = "dict" ∧ k = "@" ∧ 0 ≤ a then some a.toNat else Option.none
  | _ => Option.none

@[simp] theorem refOf_refV (a : Nat) : refOf (refV a) = some a := by simp [refOf, refV]

def setOf : Val → Option (List Val)
  | .obj c [(k, .list xs)] => if c = "set" ∧ k = "@" then some xs else Option.none
  | _ => Option.none

@[simp] theorem setOf_setV (xs : List Val) : setOf (setV xs) = some xs := by simp [setOf, setV]

abbrev Dict := List (Str × Val)

structure Heap where
  cells : Nat → Option Dict
  next : Nat

def Heap.empty : Heap := ⟨fun _ => Option.none, 0⟩

def Heap.alloc (h : Heap) (d : Dict) : Heap × Nat :=
  (⟨fun q => if q = h.next then some d else h.cells q, h.next + 1⟩, h.next)

def Heap.write (h : Heap) (a : Nat) (d : Dict) : Heap := ⟨fun q => if q = a then some d else h.cells q, h.next⟩

@[simp] theorem Heap.alloc_cells (h : Heap) (d : Dict) (q : Nat) :
    (h.alloc d).1.cells q = if q = h.next then some d else h.cells q := rfl
@[simp] theorem Heap.alloc_next (h : Heap) (d : Dict) : (h.alloc d).1.next = h.next + 1 := rfl
@[simp] theorem Heap.alloc_addr (h : Heap) (d : Dict) : (h.alloc d).2 = h.next := rfl
@[simp] theorem Heap.write_cells (h : Heap) (a : Nat) (d : Dict) (q : Nat) :
    (h.write a d).cells q = if q = a then some d else h.cells q := rfl
@[simp] theorem Heap.write_next (h : Heap) (a : Nat) (d : Dict) : (h.write a d).next = h.next := rfl

/-- nothing is stored at or beyond the allocation pointer -/
def Heap.WF (h : Heap) : Prop := ∀ q, h.next ≤ q → h.cells q = Option.none

/-- `d.update(e)` -/
def dupdate (d : Dict) : Dict → Dict
  | [] => d
  | e :: l => dupdate (aset d e.1 e.2) l

structure SIface where
  E : Heap → Iface
  callH : Val → String → List Val → Nat → Heap → R (Val × Heap)
  hasAttr : Val → String → Bool
  strLe : Str → Str → Bool

/-! ### pure operations on the added encodings -/

/-- `sorted(xs)` of strings: insertion sort with the interface's order -/
def insertS (le : Str → Str → Bool) (x : Str) : List Str → List Str
  | [] => [x]
  | y :: l => if le x y then x :: y :: l else y :: insertS le x l

def sortS (le : Str → Str → Bool) : List Str → List Str
  | [] => []
  | x :: l => insertS le x (sortS le l)

def valEqStr (a b : Val) : Bool :=
  match a, b with
  | .str x, .str y => x == y
  | _, _ => false

/-- `s.add(x)` on the duplicate-free list of a set of strings -/
def setAdd (xs : List Val) (x : Val) : List Val := if xs.any (valEqStr x) then xs else xs ++ [x]

def setUnion (xs : List Val) : List Val → List Val
  | [] => xs
  | y :: l => setUnion (setAdd xs y) l

def setRemove (xs : List Val) (x : Val) : List Val := xs.filter fun y => !valEqStr x y

def isStrs : List Val → Bool
  | [] => true
  | .str _ :: l => isStrs l
  | _ :: _ => false

/-- truthiness with the added encodings (an empty set is false; a dict reference is not tested by the fragment) -/
def truthyS (v : Val) : Bool :=
  match setOf v with
  | some xs => !xs.isEmpty
  | Option.none => truthy v

/-- `v[lo:hi]` of a `str` with both bounds -/
def pySlice2 : Val → Val → Val → R Val
  | .str s, .int lo, .int hi =>
    let a := clampIdx s.length lo
    let b := clampIdx s.length hi
    .ok (.str ((s.drop a).take (b - a)))
  | _, _, _ => .stuck

inductive CmpS where
  | eq | ne | isIn
deriving Repr, DecidableEq

def pyCmpS : CmpS → Val → Val → R Val
  | .eq, a, b => pyCmp .eq a b
  | .ne, a, b => pyCmp .ne a b
  | .isIn, a, b =>
    match setOf b with
    | some xs => .ok (.bool (xs.any (valEqStr a)))
    | Option.none => .stuck

/-! ### syntax -/

mutual
inductive Expr where
  | var (x : Nat)
  | none
  | true
  | false
  | int (i : Int)
  | str (s : Str)
  | glob (tag : String)                                   -- `NoDefault`, `DESC` as values
  | attr (e : Expr) (a : String)
  | tuple (es : Exprs)
  | list (es : Exprs)
  | emptyDict                                             -- `{}` as a returned value (never mutated)
  | not (e : Expr)
  | and (a b : Expr)
  | or (a b : Expr)
  | isNone (e : Expr)
  | isNotNone (e : Expr)
  | isGlob (e : Expr) (tag : String)                      -- `e is NoDefault`
  | isNotGlob (e : Expr) (tag : String)
  | isinstance (e : Expr) (classes : List String)
  | hasattr (e : Expr) (a : String)                       -- `hasattr(e, 'a')`
  | cmp (op : CmpS) (a b : Expr)
  | add (a b : Expr)
  | mod (f a : Expr)
  | index (e i : Expr)                                    -- `e[i]` (a dict reference: through the heap)
  | slice2 (e lo hi : Expr)                               -- `e[lo:hi]`
  | call (f : String) (args : Exprs)                      -- a module-level name / builtin
  | method (recv : Expr) (m : String) (args : Exprs)      -- a pure method call
  | callVal (f : Expr) (args : Exprs)                     -- `f(args)` for a local holding `DESC` / the identity
  | comp (elem : Expr) (x : Nat) (it : Expr)              -- `[elem for x in it]`
inductive Exprs where
  | nil
  | cons (e : Expr) (rest : Exprs)
end

inductive Mode where
  | ret | drop | bind (x : Nat)
deriving Repr, DecidableEq

mutual
inductive Stmt where
  | assign (t : Target) (e : Expr)
  | setAttr (x : Nat) (a : String) (e : Expr)             -- `x.a = e`
  | setAttrNewDict (x : Nat) (a : String)                 -- `x.a = {}`
  | setAttrItem (x : Nat) (a : String) (k v : Expr)       -- `x.a[k] = v`
  | copyDict (t : Nat) (e : Expr)                         -- `t = e.copy()`
  | mutate (x : Nat) (m : String) (args : Exprs)          -- `x.append(e)` / `extend` / `add` / `update` / `remove`
  | callH (mode : Mode) (recv : Expr) (m : String) (args : Exprs) (kwn : List Str) (kwv : Exprs) (kstar : Option Nat)
  | ite (c : Expr) (t e : Block)
  | for (x : Nat) (it : Expr) (body : Block)
  | ret (e : Expr)
  | expr (e : Expr)
  | pass
inductive Block where
  | nil
  | cons (s : Stmt) (rest : Block)
end

/-! ### semantics -/

/-- `v.a` -/
def attrS (I : SIface) (h : Heap) (v : Val) (a : String) : R Val := attrOf (I.E h) v a

/-- `v[i]` -/
def indexS (h : Heap) (v i : Val) : R Val :=
  match refOf v with
  | some a =>
    match h.cells a, i with
    | some d, .str k => keyRes (aget k d)
    | _, _ => .stuck
  | Option.none => pyIndex v i

/-- builtins of the fragment: `set()`, `list(v)`, `str(s)`, `sorted(set)`; everything else is `PyExpr.callFn` -/
def callS (I : SIface) (h : Heap) (f : String) (args : List Val) : R Val :=
  if f = "set" then
    match args with
    | [] => .ok (setV [])
    | _ => .stuck
  else if f = "list" then
    match args with
    | [.list vs] => .ok (.list vs)
    | [.tuple vs] => .ok (.list vs)
    | _ => .stuck
  else if f = "str" then
    match args with
    | [.str s] => .ok (.str s)
    | _ => .stuck
  else if f = "sorted" then
    match args with
    | [v] =>
      match setOf v with
      | some xs => (ofOpt (strsOf xs)).bind fun ss => .ok (.list ((sortS I.strLe ss).map .str))
      | Option.none => .stuck
    | _ => .stuck
  else callFn (I.E h) f args

/-- a pure method call: `d.get(k, dflt)` on a dict reference, the `str` methods, else the interface -/
def methodS (I : SIface) (h : Heap) (r : Val) (m : String) (args : List Val) : R Val :=
  match refOf r with
  | some a =>
    if m = "get" then
      match h.cells a, args with
      | some d, [.str k, dflt] => .ok ((aget k d).getD dflt)
      | _, _ => .stuck
    else .stuck
  | Option.none => methodOf (I.E h) r m args

/-- `f(x)` for a local `f`: the identity function, or a class called through the interface -/
def callValS (I : SIface) (h : Heap) (f : Val) (args : List Val) : R Val :=
  match f, args with
  | .obj tag [], [x] =>
    if tag = "@ident" then .ok x
    else if tag = "@DESC" then (I.E h).call "DESC" [x]
    else .stuck
  | _, _ => .stuck

def addS : Val → Val → R Val
  | .list a, .list b => .ok (.list (a ++ b))
  | a, b => pyAdd a b

mutual
def Expr.eval (I : SIface) (h : Heap) (env : Env) : Expr → R Val
  | .var x => ofOpt (env x)
  | .none => .ok .none
  | .true => .ok (.bool Bool.true)
  | .false => .ok (.bool Bool.false)
  | .int i => .ok (.int i)
  | .str s => .ok (.str s)
  | .glob tag => .ok (globV tag)
  | .attr e a => (e.eval I h env).bind fun v => attrS I h v a
  | .tuple es => (es.eval I h env).bind fun vs => .ok (.tuple vs)
  | .list es => (es.eval I h env).bind fun vs => .ok (.list vs)
  | .emptyDict => .ok (.dict [])
  | .not e => (e.eval I h env).bind fun v => .ok (.bool (!truthyS v))
  | .and a b => (a.eval I h env).bind fun v => if truthyS v then b.eval I h env else .ok v
  | .or a b => (a.eval I h env).bind fun v => if truthyS v then .ok v else b.eval I h env
  | .isNone e => (e.eval I h env).bind fun v => .ok (.bool (isNoneV v))
  | .isNotNone e => (e.eval I h env).bind fun v => .ok (.bool (!isNoneV v))
  | .isGlob e tag => (e.eval I h env).bind fun v => .ok (.bool (typeName v == tag))
  | .isNotGlob e tag => (e.eval I h env).bind fun v => .ok (.bool (!(typeName v == tag)))
  | .isinstance e cs => (e.eval I h env).bind fun v => .ok (.bool (cs.any fun c => (I.E h).isSub (typeName v) c))
  | .hasattr e a => (e.eval I h env).bind fun v => .ok (.bool (I.hasAttr v a))
  | .cmp op a b => (a.eval I h env).bind fun x => (b.eval I h env).bind fun y => pyCmpS op x y
  | .add a b => (a.eval I h env).bind fun x => (b.eval I h env).bind fun y => addS x y
  | .mod f a => (f.eval I h env).bind fun x => (a.eval I h env).bind fun y => pyMod x y
  | .index e i => (e.eval I h env).bind fun x => (i.eval I h env).bind fun y => indexS h x y
  | .slice2 e lo hi => (e.eval I h env).bind fun x => (lo.eval I h env).bind fun a => (hi.eval I h env).bind fun b =>
      pySlice2 x a b
  | .call f args => (args.eval I h env).bind fun as => callS I h f as
  | .method recv m args => (recv.eval I h env).bind fun r => (args.eval I h env).bind fun as => methodS I h r m as
  | .callVal f args => (f.eval I h env).bind fun fv => (args.eval I h env).bind fun as => callValS I h fv as
  | .comp elem x it => (it.eval I h env).bind fun iv => (ofOpt (iterOf iv)).bind fun l =>
      (mapR (fun v => elem.eval I h (env.put x v)) l).bind fun vs => .ok (.list vs)
def Exprs.eval (I : SIface) (h : Heap) (env : Env) : Exprs → R (List Val)
  | .nil => .ok []
  | .cons e rest => (e.eval I h env).bind fun v => (rest.eval I h env).bind fun vs => .ok (v :: vs)
end

structure St where
  env : Env
  heap : Heap

inductive Res where
  | norm (s : St)
  | ret (s : St) (v : Val)
  | exc (s : St) (e : Exc)
  | stuck

def Res.seq (r : Res) (k : St → Res) : Res :=
  match r with
  | .norm s => k s
  | r => r

@[simp] theorem Res.seq_norm (s : St) (k : St → Res) : (Res.norm s).seq k = k s := by rw [Res.seq]
@[simp] theorem Res.seq_ret (s : St) (v : Val) (k : St → Res) : (Res.ret s v).seq k = .ret s v := by simp [Res.seq]
@[simp] theorem Res.seq_exc (s : St) (e : Exc) (k : St → Res) : (Res.exc s e).seq k = .exc s e := by simp [Res.seq]
@[simp] theorem Res.seq_stuck (k : St → Res) : Res.stuck.seq k = .stuck := by simp [Res.seq]

def withV {α : Type} (s : St) (r : R α) (k : α → Res) : Res :=
  match r with
  | .ok v => k v
  | .exc e => .exc s e
  | .stuck => .stuck

@[simp] theorem withV_ok {α : Type} (s : St) (v : α) (k : α → Res) : withV s (.ok v) k = k v := by rw [withV]
@[simp] theorem withV_exc {α : Type} (s : St) (e : Exc) (k : α → Res) : withV s (.exc e : R α) k = .exc s e := by rw [withV]
@[simp] theorem withV_stuck {α : Type} (s : St) (k : α → Res) : withV s (.stuck : R α) k = .stuck := by rw [withV]

def normO : Option St → Res
  | some s => .norm s
  | Option.none => .stuck

@[simp] theorem normO_some (s : St) : normO (some s) = .norm s := rfl
@[simp] theorem normO_none : normO Option.none = .stuck := rfl

def St.put (s : St) (x : Nat) (v : Val) : St := ⟨s.env.put x v, s.heap⟩

/-- `x.a = v` -/
def setAttrS (s : St) (x : Nat) (a : String) (v : Val) : Option St :=
  match s.env x with
  | some (.obj c fs) => some (s.put x (.obj c (aset fs a v)))
  | _ => Option.none

/-- the address the dict attribute `x.a` refers to -/
def attrRef (s : St) (x : Nat) (a : String) : Option Nat :=
  match s.env x with
  | some (.obj _ fs) => (aget a fs).bind refOf
  | _ => Option.none

/-- `x.a[k] = v` -/
def setAttrItemS (s : St) (x : Nat) (a : String) (k v : Val) : Option St :=
  match k with
  | .str ks => (attrRef s x a).bind fun p => (s.heap.cells p).map fun d => ⟨s.env, s.heap.write p (aset d ks v)⟩
  | _ => Option.none

def listOf : Val → Option (List Val)
  | .list xs => some xs
  | _ => Option.none

@[simp] theorem listOf_list (xs : List Val) : listOf (.list xs) = some xs := rfl
@[simp] theorem listOf_refV (a : Nat) : listOf (refV a) = Option.none := rfl
@[simp] theorem listOf_setV (xs : List Val) : listOf (setV xs) = Option.none := rfl
@[simp] theorem setOf_refV (a : Nat) : setOf (refV a) = Option.none := by simp [setOf, refV]
@[simp] theorem setOf_list (xs : List Val) : setOf (.list xs) = Option.none := rfl
@[simp] theorem refOf_setV (l : List Val) : refOf (setV l) = Option.none := by simp [refOf, setV]

/-- `xs.append(v)` / `xs.extend(v)` -/
def listMut (m : String) (xs : List Val) (v : Val) : Option Val :=
  if m = "append" then some (.list (xs ++ [v]))
  else if m = "extend" then (iterOf v).map fun l => .list (xs ++ l)
  else Option.none

/-- the items `s.update(v)` adds: a set's items, or the keys of a dict value (`tables.update({})`) -/
def updItems (v : Val) : Option (List Val) :=
  match setOf v with
  | some ys => some ys
  | Option.none =>
    match v with
    | .dict d => some (d.map fun e => .str e.1)
    | _ => Option.none

@[simp] theorem updItems_setV (ys : List Val) : updItems (setV ys) = some ys := by simp [updItems]
@[simp] theorem updItems_dict (d : List (Str × Val)) : updItems (.dict d) = some (d.map fun e => .str e.1) := by
  simp [updItems, setOf]

/-- `s.add(v)` / `s.remove(v)` / `s.update(v)` on a set -/
def setMut (m : String) (xs : List Val) (v : Val) : Option Val :=
  if m = "add" then some (setV (setAdd xs v))
  else if m = "remove" then some (setV (setRemove xs v))
  else if m = "update" then (updItems v).map fun ys => setV (setUnion xs ys)
  else Option.none

/-- `d.update(e)` on the dict at address `p` -/
def dictMut (h : Heap) (m : String) (p : Nat) (v : Val) : Option Heap :=
  if m = "update" then
    (refOf v).bind fun q => (h.cells p).bind fun d => (h.cells q).map fun e => h.write p (dupdate d e)
  else Option.none

/-- `x.m(v)` as a statement on a local: lists and sets are rebound, a dict is written in the heap -/
def mutate1 (s : St) (x : Nat) (m : String) (xv v : Val) : Option St :=
  match listOf xv with
  | some xs => (listMut m xs v).map fun r => s.put x r
  | Option.none =>
    match setOf xv with
    | some xs => (setMut m xs v).map fun r => s.put x r
    | Option.none => (refOf xv).bind fun p => (dictMut s.heap m p v).map fun h' => ⟨s.env, h'⟩

def mutateS (s : St) (x : Nat) (m : String) (args : List Val) : Option St :=
  match args with
  | [v] => (s.env x).bind fun xv => mutate1 s x m xv v
  | _ => Option.none

def zipKw : List Str → List Val → Dict
  | n :: ns, v :: vs => (n, v) :: zipKw ns vs
  | _, _ => []

def forLoop (f : St → Val → Res) : List Val → St → Res
  | [], s => .norm s
  | v :: vs, s => match f s v with
    | .norm s' => forLoop f vs s'
    | r => r

/-- what a heap-changing call does with its result -/
def finish (mode : Mode) (env : Env) (r : R (Val × Heap)) (s : St) : Res :=
  match r with
  | .ok (v, h') =>
    match mode with
    | .ret => .ret ⟨env, h'⟩ v
    | .drop => .norm ⟨env, h'⟩
    | .bind x => .norm ⟨env.put x v, h'⟩
  | .exc e => .exc s e
  | .stuck => .stuck

mutual
def Stmt.exec (I : SIface) (s : St) : Stmt → Res
  | .assign t e => withV s (e.eval I s.heap s.env) fun v => normO ((t.bind s.env v).map fun env => ⟨env, s.heap⟩)
  | .setAttr x a e => withV s (e.eval I s.heap s.env) fun v => normO (setAttrS s x a v)
  | .setAttrNewDict x a =>
      normO (setAttrS ⟨s.env, (s.heap.alloc []).1⟩ x a (refV s.heap.next))
  | .setAttrItem x a k v => withV s (k.eval I s.heap s.env) fun kv => withV s (v.eval I s.heap s.env) fun vv =>
      normO (setAttrItemS s x a kv vv)
  | .copyDict t e => withV s (e.eval I s.heap s.env) fun v =>
      match (refOf v).bind s.heap.cells with
      | some d => .norm ⟨s.env.put t (refV s.heap.next), (s.heap.alloc d).1⟩
      | Option.none => .stuck
  | .mutate x m args => withV s (args.eval I s.heap s.env) fun as => normO (mutateS s x m as)
  | .callH mode recv m args kwn kwv kstar =>
      withV s (recv.eval I s.heap s.env) fun r => withV s (args.eval I s.heap s.env) fun as =>
      withV s (kwv.eval I s.heap s.env) fun ks =>
        let star : Option Dict := match kstar with
          | Option.none => some []
          | some x => ((s.env x).bind refOf).bind s.heap.cells
        match star with
        | some d => finish mode s.env (I.callH r m as s.heap.next (s.heap.alloc (zipKw kwn ks ++ d)).1) s
        | Option.none => .stuck
  | .ite c t e => withV s (c.eval I s.heap s.env) fun v => if truthyS v then t.exec I s else e.exec I s
  | .for x it body => withV s (it.eval I s.heap s.env) fun v =>
      match iterOf v with
      | some l => forLoop (fun s' v => body.exec I (s'.put x v)) l s
      | Option.none => .stuck
  | .ret e => withV s (e.eval I s.heap s.env) fun v => .ret s v
  | .expr e => withV s (e.eval I s.heap s.env) fun _ => .norm s
  | .pass => .norm s
def Block.exec (I : SIface) (s : St) : Block → Res
  | .nil => .norm s
  | .cons st rest => (st.exec I s).seq fun s' => rest.exec I s'
end

theorem exec_cons (I : SIface) (s : St) (st : Stmt) (rest : Block) :
    Block.exec I s (.cons st rest) = (st.exec I s).seq fun s' => rest.exec I s' := by rw [Block.exec]

theorem exec_nil (I : SIface) (s : St) : Block.exec I s .nil = .norm s := by rw [Block.exec]

/-- the caller's view of a call: the returned value (falling off the end returns `None`) and the heap -/
def Res.outH : Res → R (Val × Heap)
  | .norm s => .ok (.none, s.heap)
  | .ret s v => .ok (v, s.heap)
  | .exc _ e => .exc e
  | .stuck => .stuck

@[simp] theorem Res.outH_norm (s : St) : (Res.norm s).outH = .ok (.none, s.heap) := rfl
@[simp] theorem Res.outH_ret (s : St) (v : Val) : (Res.ret s v).outH = .ok (v, s.heap) := rfl
@[simp] theorem Res.outH_exc (s : St) (e : Exc) : (Res.exc s e).outH = .exc e := rfl
@[simp] theorem Res.outH_stuck : Res.stuck.outH = .stuck := rfl

/-- an `__init__`: the initialised `self` and the heap -/
def Res.selfH : Res → R (Val × Heap)
  | .norm s => (ofOpt (s.env 0)).bind fun v => .ok (v, s.heap)
  | .ret s _ => (ofOpt (s.env 0)).bind fun v => .ok (v, s.heap)
  | .exc _ e => .exc e
  | .stuck => .stuck

@[simp] theorem Res.selfH_norm (s : St) : (Res.norm s).selfH = (ofOpt (s.env 0)).bind fun v => .ok (v, s.heap) := rfl
@[simp] theorem Res.selfH_exc (s : St) (e : Exc) : (Res.exc s e).selfH = .exc e := rfl
@[simp] theorem Res.selfH_stuck : Res.stuck.selfH = .stuck := rfl

/-- run a translated function on its arguments in a heap -/
def runH (I : SIface) (prog : Block) (args : List Val) (h : Heap) : R (Val × Heap) :=
  (prog.exec I ⟨Env.ofArgs args, h⟩).outH

/-- run a translated `__init__` on `self :: args` -/
def runInitH (I : SIface) (prog : Block) (args : List Val) (h : Heap) : R (Val × Heap) :=
  (prog.exec I ⟨Env.ofArgs args, h⟩).selfH

/-- a pure function (no heap writes): its value -/
def runP (I : SIface) (prog : Block) (args : List Val) (h : Heap) : R Val :=
  (runH I prog args h).bind fun r => .ok r.1

end SqlObjVerif.PySel
