/-!
# PyDestroy — a deep embedding of the Python fragment `SQLObject.destroySelf` (and `findDependantColumns`) of
`sqlobject/main.py` is written in

`vlib/extractors/pydestroy.py` TRANSLATES the function bodies from /repo's AST into `Block`s of this language on
every run (`Extracted/PyDestroy.lean`).  This file is the fixed vocabulary and its reference semantics (total
functions, no fuel: a loop iterates over a candidate list computed when the loop is entered).

The interpreter is generic in the type `H` of object handles and the type `W` of worlds.  Everything the code does
to objects other than its own locals goes through an `Iface H W` — the PARAMETERS of the interpreter:
* `getAttr w o n`      : `o.a` (`n = .str "a"`) and `getattr(o, n)` for a computed name `n`;
* `setAttr w o a v`    : `o.a = v`;
* `glob`, `isinstance` : module-level names (`events.RowDestroySignal`), `isinstance(v, <dotted name>)`;
* `eqOver a b`         : an overloaded `==` (`some v`: the operator builds the value `v`; `none`: plain equality);
* `query w o m args kw`: a method call that changes nothing (`k.select(…)`, `….count()`, `self._SO_depends()`;
                         which names are queries is fixed in the translator);
* `fn w name args`     : a call of a module-level function that changes nothing (`findDependantColumns`,
                         `sqlbuilder.OR`);
* `iter w v`, `live w v x` : iterating something that is not a list or dict VALUE of the embedding (a select result):
                         `iter` gives the candidates when the loop is entered, and each candidate `x` is yielded only if
                         `live w' v x` holds in the world `w'` of the moment the iteration reaches it;
* `call w o m args kw`, `callFn w f args` : a method call / a call of a function value that may change the world,
                         return a value or raise.
`Model/GraphX.lean` instantiates the interface with the hand model's functions.

Python features covered: locals (numbered in order of first binding, parameters first; unbound = `stuck`), constants,
`e.a`, `getattr(e, n)`, `len`, `==`, `is` / `is not` (a constant or another object), `isinstance`, `"fmt" % (a, b, …)` (the formatted
string is kept symbolic: `app "%" [fmt, a, b, …]`), `[]`, `{}`, list locals with `x.append(e)`, dict locals with
`x[k] = v`, `f(*x)`, `o.m(**d)`, `not`/`and`/`or` in conditions, `if`, `for x in e` (lists, dict keys, interface
iterables), `continue`, `break`, `raise <Class>(…)` (the message is dropped), `assert`, `return`, `o.a = v`.
-/
namespace SqlObjVerif.PyDestroy

inductive Val (H : Type) where
  | none
  | bool (b : Bool)
  | int (n : Nat)
  | str (s : String)
  /-- an object handle (the instantiation says what there is) -/
  | obj (h : H)
  | pair (a b : Val H)
  | nil
  | cons (h t : Val H)
  /-- a dict: `d` is the list of its `(key, value)` pairs in insertion order -/
  | dict (d : Val H)
  /-- a value built by a pure constructor-like operation, kept symbolic: `"…" % (…)`, an overloaded `==`,
      `sqlbuilder.OR(…)`, a select result, … -/
  | app (tag : String) (args : Val H)
deriving DecidableEq, Repr

variable {H : Type}

def Val.ofList : List (Val H) → Val H
  | [] => .nil
  | v :: l => .cons v (Val.ofList l)

def Val.toList : Val H → Option (List (Val H))
  | .nil => some []
  | .cons h t => match Val.toList t with
    | some l => some (h :: l)
    | Option.none => Option.none
  | _ => Option.none

/-- the keys of a dict body -/
def keysOf : Val H → Option (List (Val H))
  | .nil => some []
  | .cons (.pair k _) t => match keysOf t with
    | some l => some (k :: l)
    | Option.none => Option.none
  | _ => Option.none

/-- the `(key, value)` pairs of a dict body -/
def pairsOf : Val H → Option (List (Val H × Val H))
  | .nil => some []
  | .cons (.pair k v) t => match pairsOf t with
    | some l => some ((k, v) :: l)
    | Option.none => Option.none
  | _ => Option.none

/-- `l + [v]` -/
def vlSnoc (v : Val H) : Val H → Val H
  | .cons h t => .cons h (vlSnoc v t)
  | _ => .cons v .nil

def isListVal : Val H → Bool
  | .nil => true
  | .cons _ t => isListVal t
  | _ => false

/-- `d[k] = v` on a dict body -/
def vdSet [DecidableEq H] (k v : Val H) : Val H → Val H
  | .cons (.pair k' v') t => if k' = k then .cons (.pair k v) t else .cons (.pair k' v') (vdSet k v t)
  | _ => .cons (.pair k v) .nil

def vlen : Val H → Nat
  | .cons _ t => vlen t + 1
  | _ => 0

/-- `len(v)` of a list or dict value -/
def lenOf : Val H → Option Nat
  | .dict d => if isListVal d then some (vlen d) else Option.none
  | v => if isListVal v then some (vlen v) else Option.none

inductive Const where
  | none
  | bool (b : Bool)
  | int (n : Nat)
  | str (s : String)
deriving DecidableEq, Repr

def Const.val : Const → Val H
  | .none => .none
  | .bool b => .bool b
  | .int n => .int n
  | .str s => .str s

/-- an exception: its class name -/
abbrev Exc := String

inductive R (α : Type) where
  | ok (a : α)
  | exc (e : Exc)
  /-- outside the fragment / outside the interface -/
  | stuck

/-- how a call into another object ends -/
inductive CallRes (H W : Type) where
  | ret (w : W) (v : Val H)
  | exc (w : W) (e : Exc)
  | stuck

structure Iface (H W : Type) where
  self : Val H
  getAttr : W → Val H → Val H → R (Val H)
  setAttr : W → Val H → String → Val H → Option W
  glob : String → Option (Val H)
  isinstance : Val H → String → Option Bool
  eqOver : Val H → Val H → Option (Val H)
  query : W → Val H → String → List (Val H) → List (Val H × Val H) → R (Val H)
  fn : W → String → List (Val H) → R (Val H)
  iter : W → Val H → Option (List (Val H))
  live : W → Val H → Val H → Bool
  call : W → Val H → String → List (Val H) → List (Val H × Val H) → CallRes H W
  callFn : W → Val H → List (Val H) → CallRes H W

mutual
/-- expressions: none of them changes the world -/
inductive Expr where
  | var (x : Nat)
  | const (c : Const)
  | self
  | glob (name : String)
  | attr (e : Expr) (a : String)                -- `e.a`
  | getattr (e n : Expr)                        -- `getattr(e, n)`
  | len (e : Expr)
  | eq (a b : Expr)                             -- `a == b`
  | isC (e : Expr) (c : Const)                  -- `e is <None/True/False>`
  | isNotC (e : Expr) (c : Const)
  | is (a b : Expr)                             -- `a is b` (identity of handles / None / True / False)
  | isNot (a b : Expr)
  | isinstance (e : Expr) (cls : String)
  | mod (f : Expr) (args : Exprs)               -- `f % (a, b, …)`
  | emptyList
  | emptyDict
  | query (recv : Expr) (m : String) (args : Exprs) (kwn : List String) (kwv : Exprs)
  | fn (name : String) (args : Exprs)           -- `name(args)`
  | fnStar (name : String) (star : Expr)        -- `name(*star)`
inductive Exprs where
  | nil
  | cons (e : Expr) (rest : Exprs)
end

inductive Cond where
  | truthy (e : Expr)
  | not (c : Cond)
  | and (c d : Cond)
  | or (c d : Cond)

mutual
inductive Stmt where
  | assign (x : Nat) (e : Expr)
  | append (x : Nat) (e : Expr)                          -- `x.append(e)`, `x` a list local
  | setItem (x : Nat) (k v : Expr)                       -- `x[k] = v`, `x` a dict local
  | setAttr (o : Expr) (a : String) (v : Expr)           -- `o.a = v`
  | call (x : Option Nat) (recv : Expr) (m : String) (args : Exprs) (kwn : List String) (kwv : Exprs)
         (starKw : Option Nat)                           -- `[x =] recv.m(args, kw=…, **d)`
  | callFn (x : Option Nat) (f : Expr) (args : Exprs)    -- `[x =] f(args)`
  | ite (c : Cond) (t e : Block)
  | for (x : Nat) (it : Expr) (body : Block)
  | raise (cls : String)
  | assert (c : Cond)
  | continue
  | break
  | ret (e : Expr)
  | retNone
  | pass
inductive Block where
  | nil
  | cons (s : Stmt) (rest : Block)
end

abbrev Env (H : Type) := Nat → Option (Val H)

def Env.empty : Env H := fun _ => Option.none

def Env.put (env : Env H) (x : Nat) (v : Val H) : Env H := fun y => if y = x then some v else env y

@[simp] theorem Env.put_apply (env : Env H) (x : Nat) (v : Val H) (y : Nat) :
    (env.put x v) y = if y = x then some v else env y := rfl

def Env.ofArgs : List (Val H) → Env H
  | [] => Env.empty
  | v :: l => fun y => match y with
    | 0 => some v
    | y + 1 => Env.ofArgs l y

def zipKw : List String → List (Val H) → List (Val H × Val H)
  | n :: ns, v :: vs => (.str n, v) :: zipKw ns vs
  | _, _ => []

/-- `bool(v)`; objects are truthy -/
def pyBool : Val H → Bool
  | .none => false
  | .bool b => b
  | .int n => n != 0
  | .str s => s != ""
  | .nil => false
  | .dict .nil => false
  | _ => true

section
variable {W : Type} [DecidableEq H]

mutual
def Expr.eval (I : Iface H W) (w : W) (env : Env H) : Expr → R (Val H)
  | .var x => match env x with
    | some v => .ok v
    | Option.none => .stuck
  | .const c => .ok c.val
  | .self => .ok I.self
  | .glob name => match I.glob name with
    | some v => .ok v
    | Option.none => .stuck
  | .attr e a => match e.eval I w env with
    | .ok v => I.getAttr w v (.str a)
    | r => r
  | .getattr e n => match e.eval I w env with
    | .ok v => (match n.eval I w env with
      | .ok nv => I.getAttr w v nv
      | r => r)
    | r => r
  | .len e => match e.eval I w env with
    | .ok v => (match lenOf v with
      | some n => .ok (.int n)
      | Option.none => .stuck)
    | r => r
  | .eq a b => match a.eval I w env with
    | .ok x => (match b.eval I w env with
      | .ok y => (match I.eqOver x y with
        | some v => .ok v
        | Option.none => .ok (.bool (decide (x = y))))
      | r => r)
    | r => r
  | .isC e c => match e.eval I w env with
    | .ok v => .ok (.bool (decide (v = c.val)))
    | r => r
  | .isNotC e c => match e.eval I w env with
    | .ok v => .ok (.bool (!decide (v = c.val)))
    | r => r
  | .is a b => match a.eval I w env with
    | .ok x => (match b.eval I w env with
      | .ok y => .ok (.bool (decide (x = y)))
      | r => r)
    | r => r
  | .isNot a b => match a.eval I w env with
    | .ok x => (match b.eval I w env with
      | .ok y => .ok (.bool (!decide (x = y)))
      | r => r)
    | r => r
  | .isinstance e cls => match e.eval I w env with
    | .ok v => (match I.isinstance v cls with
      | some b => .ok (.bool b)
      | Option.none => .stuck)
    | r => r
  | .mod f args => match f.eval I w env with
    | .ok fv => (match args.eval I w env with
      | .ok as => .ok (.app "%" (.cons fv (Val.ofList as)))
      | .exc e => .exc e
      | .stuck => .stuck)
    | r => r
  | .emptyList => .ok .nil
  | .emptyDict => .ok (.dict .nil)
  | .query recv m args kwn kwv => match recv.eval I w env with
    | .ok r => (match args.eval I w env with
      | .ok as => (match kwv.eval I w env with
        | .ok ks => I.query w r m as (zipKw kwn ks)
        | .exc e => .exc e
        | .stuck => .stuck)
      | .exc e => .exc e
      | .stuck => .stuck)
    | r => r
  | .fn name args => match args.eval I w env with
    | .ok as => I.fn w name as
    | .exc e => .exc e
    | .stuck => .stuck
  | .fnStar name star => match star.eval I w env with
    | .ok v => (match v.toList with
      | some as => I.fn w name as
      | Option.none => .stuck)
    | r => r
def Exprs.eval (I : Iface H W) (w : W) (env : Env H) : Exprs → R (List (Val H))
  | .nil => .ok []
  | .cons e rest => match e.eval I w env with
    | .ok v => (match rest.eval I w env with
      | .ok vs => .ok (v :: vs)
      | r => r)
    | .exc e => .exc e
    | .stuck => .stuck
end

def Cond.eval (I : Iface H W) (w : W) (env : Env H) : Cond → R Bool
  | .truthy e => match e.eval I w env with
    | .ok v => .ok (pyBool v)
    | .exc e => .exc e
    | .stuck => .stuck
  | .not c => match c.eval I w env with
    | .ok b => .ok (!b)
    | r => r
  | .and c d => match c.eval I w env with
    | .ok b => if b then d.eval I w env else .ok false
    | r => r
  | .or c d => match c.eval I w env with
    | .ok b => if b then .ok true else d.eval I w env
    | r => r

structure St (H W : Type) where
  w : W
  vars : Env H

def St.setVar (st : St H W) (x : Nat) (v : Val H) : St H W := { st with vars := st.vars.put x v }

def St.setOpt (st : St H W) (x : Option Nat) (v : Val H) : St H W :=
  match x with
  | some x => st.setVar x v
  | Option.none => st

/-- how a statement ends -/
inductive Res (H W : Type) where
  | norm (st : St H W)
  | cont (st : St H W)
  | brk (st : St H W)
  | ret (st : St H W) (v : Val H)
  | exc (st : St H W) (e : Exc)
  | stuck

/-- sequencing: go on with `k` after a statement that ended normally -/
def Res.seq (r : Res H W) (k : St H W → Res H W) : Res H W :=
  match r with
  | .norm st' => k st'
  | r => r

def forLoop {α : Type} (f : St H W → α → Res H W) : List α → St H W → Res H W
  | [], st => .norm st
  | v :: vs, st => match f st v with
    | .norm st' => forLoop f vs st'
    | .cont st' => forLoop f vs st'
    | .brk st' => .norm st'
    | r => r

/-- what `for … in v` iterates over: the items of a list value, the keys of a dict value, else the interface's
    candidates -/
def iterOf (I : Iface H W) (w : W) (v : Val H) : Option (List (Val H)) :=
  match v with
  | .dict d => keysOf d
  | .nil => some []
  | .cons _ _ => v.toList
  | _ => I.iter w v

/-- is candidate `x` yielded when the iteration over `src` reaches it in world `w`? -/
def liveAt (I : Iface H W) (w : W) (src x : Val H) : Bool :=
  match src with
  | .dict _ => true
  | .nil => true
  | .cons _ _ => true
  | _ => I.live w src x

/-- one step of a `for` loop: bind the target and run the body, unless the candidate is no longer yielded -/
def loopStep (I : Iface H W) (src : Val H) (x : Nat) (body : St H W → Res H W) (st : St H W) (a : Val H) : Res H W :=
  if liveAt I st.w src a then body (st.setVar x a) else .norm st

/-- the caller's view of a finished call -/
def afterCall (r : CallRes H W) (st : St H W) (x : Option Nat) : Res H W :=
  match r with
  | .ret w v => .norm ({ st with w := w }.setOpt x v)
  | .exc w e => .exc { st with w := w } e
  | .stuck => .stuck

/-- the `**d` part of a call -/
def starKwOf (env : Env H) : Option Nat → Option (List (Val H × Val H))
  | Option.none => some []
  | some d => match env d with
    | some (.dict b) => pairsOf b
    | _ => Option.none

mutual
def Stmt.exec (I : Iface H W) (st : St H W) : Stmt → Res H W
  | .assign x e => match e.eval I st.w st.vars with
    | .ok v => .norm (st.setVar x v)
    | .exc e => .exc st e
    | .stuck => .stuck
  | .append x e => match st.vars x, e.eval I st.w st.vars with
    | some l, .ok v => if isListVal l then .norm (st.setVar x (vlSnoc v l)) else .stuck
    | some _, .exc e => .exc st e
    | _, _ => .stuck
  | .setItem x k v => match st.vars x, k.eval I st.w st.vars, v.eval I st.w st.vars with
    | some (.dict d), .ok kv, .ok vv => if isListVal d then .norm (st.setVar x (.dict (vdSet kv vv d))) else .stuck
    | some (.dict _), .exc e, _ => .exc st e
    | some (.dict _), .ok _, .exc e => .exc st e
    | _, _, _ => .stuck
  | .setAttr o a v => match o.eval I st.w st.vars, v.eval I st.w st.vars with
    | .ok ov, .ok vv => (match I.setAttr st.w ov a vv with
      | some w' => .norm { st with w := w' }
      | Option.none => .stuck)
    | .exc e, _ => .exc st e
    | .ok _, .exc e => .exc st e
    | _, _ => .stuck
  | .call x recv m args kwn kwv starKw =>
    match recv.eval I st.w st.vars, args.eval I st.w st.vars, kwv.eval I st.w st.vars, starKwOf st.vars starKw with
    | .ok r, .ok as, .ok ks, some sk => afterCall (I.call st.w r m as (zipKw kwn ks ++ sk)) st x
    | .exc e, _, _, _ => .exc st e
    | .ok _, .exc e, _, _ => .exc st e
    | .ok _, .ok _, .exc e, _ => .exc st e
    | _, _, _, _ => .stuck
  | .callFn x f args => match f.eval I st.w st.vars, args.eval I st.w st.vars with
    | .ok fv, .ok as => afterCall (I.callFn st.w fv as) st x
    | .exc e, _ => .exc st e
    | .ok _, .exc e => .exc st e
    | _, _ => .stuck
  | .ite c t e => match c.eval I st.w st.vars with
    | .ok true => t.exec I st
    | .ok false => e.exec I st
    | .exc e => .exc st e
    | .stuck => .stuck
  | .for x it body => match it.eval I st.w st.vars with
    | .ok v => (match iterOf I st.w v with
      | some l => forLoop (loopStep I v x fun st' => body.exec I st') l st
      | Option.none => .stuck)
    | .exc e => .exc st e
    | .stuck => .stuck
  | .raise cls => .exc st cls
  | .assert c => match c.eval I st.w st.vars with
    | .ok true => .norm st
    | .ok false => .exc st "AssertionError"
    | .exc e => .exc st e
    | .stuck => .stuck
  | .continue => .cont st
  | .break => .brk st
  | .ret e => match e.eval I st.w st.vars with
    | .ok v => .ret st v
    | .exc e => .exc st e
    | .stuck => .stuck
  | .retNone => .ret st .none
  | .pass => .norm st
def Block.exec (I : Iface H W) (st : St H W) : Block → Res H W
  | .nil => .norm st
  | .cons s rest => (s.exec I st).seq fun st' => rest.exec I st'
end

def Res.toCall : Res H W → CallRes H W
  | .norm st => .ret st.w .none          -- falling off the end returns None
  | .ret st v => .ret st.w v
  | .exc st e => .exc st.w e
  | .cont _ => .stuck                    -- `continue` / `break` outside a loop
  | .brk _ => .stuck
  | .stuck => .stuck

/-- call a function / method: `args` are the parameters (after `self`) -/
def run (I : Iface H W) (prog : Block) (args : List (Val H)) (w : W) : CallRes H W :=
  (prog.exec I { w := w, vars := Env.ofArgs args }).toCall

end
end SqlObjVerif.PyDestroy
