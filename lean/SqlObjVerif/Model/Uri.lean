import SqlObjVerif.Extracted.Uri
/-!
# Model `Uri` (C18): connection URIs

Strings are lists of code points (`Nat`), byte strings lists of `Nat < 256`.

* UTF-8 encoder (`str.encode('utf-8')`, strict: surrogates / out-of-range are an error) and
  CPython's UTF-8 decoder with `errors='replace'` (one U+FFFD per maximal invalid prefix, the
  rest of the input on a truncated sequence).
* `urllib.parse.quote(s, safe)` / `unquote(s)` (CPython 3.12): unreserved set `A-Za-z0-9_.-~`,
  upper-case hex, `unquote` leaves a malformed `%xy` alone, percent-decodes maximal ASCII runs and
  decodes each run as UTF-8 with replacement; non-ASCII characters pass through.
* `DBConnection.uri`, `SQLiteConnection.uri`, `SQLiteConnection._connectionFromParams` (file name
  part) — the literals and `safe` arguments are the constants of `Extracted/Uri.lean`.
* `urlsplit`/`urlparse` restricted to what `_parseURI` reads, and `_parseURI` itself (posix branch).

Bracketed hosts: `_check_bracketed_host` is modelled (`ipaddress.ip_address` accepting an IPv6
literal with optional scope id / IPv4 suffix, and the IPvFuture regex).
Not modelled: for non-ASCII netlocs the NFKC
check of `_checknetloc` and the Unicode part of `str.lower()` (the model lower-cases ASCII only; the
harness compares such cases only when the real `lower()`/NFKC are the identity on the netloc).
-/
namespace SqlObjVerif.Uri

abbrev Str := List Nat

/-! ## UTF-8 -/

/-- Unicode scalar value (what `str.encode('utf-8')` accepts) -/
def validCp (c : Nat) : Bool := c < 0x110000 && !(0xD800 ≤ c && c ≤ 0xDFFF)

def validStr (s : Str) : Bool := s.all validCp

def utf8Cp (c : Nat) : List Nat :=
  if c < 0x80 then [c]
  else if c < 0x800 then [0xC0 + c / 64, 0x80 + c % 64]
  else if c < 0x10000 then [0xE0 + c / 4096, 0x80 + c / 64 % 64, 0x80 + c % 64]
  else [0xF0 + c / 262144, 0x80 + c / 4096 % 64, 0x80 + c / 64 % 64, 0x80 + c % 64]

def utf8 (s : Str) : List Nat := s.flatMap utf8Cp

def isCont (b : Nat) : Bool := 0x80 ≤ b && b < 0xC0

/-- one step of CPython's decoder (`errors='replace'`, final): decoded code point and the number
    of bytes consumed (≥ 1 on a non-empty input). -/
def decStep : List Nat → Nat × Nat
  | [] => (0, 1)
  | b0 :: rest =>
    if b0 < 0x80 then (b0, 1)
    else if b0 < 0xC2 then (0xFFFD, 1)
    else if b0 < 0xE0 then
      match rest with
      | [] => (0xFFFD, 1)
      | b1 :: _ => if isCont b1 then ((b0 - 0xC0) * 64 + (b1 - 0x80), 2) else (0xFFFD, 1)
    else if b0 < 0xF0 then
      match rest with
      | [] => (0xFFFD, 1)
      | b1 :: rest2 =>
        if !isCont b1 || (if b1 < 0xA0 then b0 == 0xE0 else b0 == 0xED) then (0xFFFD, 1)
        else match rest2 with
          | [] => (0xFFFD, 2)
          | b2 :: _ =>
            if isCont b2 then ((b0 - 0xE0) * 4096 + (b1 - 0x80) * 64 + (b2 - 0x80), 3)
            else (0xFFFD, 2)
    else if b0 < 0xF5 then
      match rest with
      | [] => (0xFFFD, 1)
      | b1 :: rest2 =>
        if !isCont b1 || (if b1 < 0x90 then b0 == 0xF0 else b0 == 0xF4) then (0xFFFD, 1)
        else match rest2 with
          | [] => (0xFFFD, 2)
          | b2 :: rest3 =>
            if !isCont b2 then (0xFFFD, 2)
            else match rest3 with
              | [] => (0xFFFD, 3)
              | b3 :: _ =>
                if isCont b3 then
                  ((b0 - 0xF0) * 262144 + (b1 - 0x80) * 4096 + (b2 - 0x80) * 64 + (b3 - 0x80), 4)
                else (0xFFFD, 3)
    else (0xFFFD, 1)

/-- `bytes.decode('utf-8', 'replace')`; `fuel` bounds the number of code points produced -/
def utf8DecodeF : Nat → List Nat → Str
  | 0, _ => []
  | _, [] => []
  | fuel + 1, b :: bs =>
    (decStep (b :: bs)).1 :: utf8DecodeF fuel (bs.drop ((decStep (b :: bs)).2 - 1))

def utf8Decode (l : List Nat) : Str := utf8DecodeF l.length l

/-! ## percent coding -/

/-- `_ALWAYS_SAFE`: `A-Z a-z 0-9 _ . - ~` -/
def isAlwaysSafe (b : Nat) : Bool :=
  (65 ≤ b && b ≤ 90) || (97 ≤ b && b ≤ 122) || (48 ≤ b && b ≤ 57) ||
  b == 95 || b == 46 || b == 45 || b == 126

/-- byte `b` is left alone by `quote(_, safe)`; non-ASCII members of `safe` are ignored -/
def isSafe (safe : List Nat) (b : Nat) : Bool := isAlwaysSafe b || (b < 128 && safe.contains b)

/-- `'%X'` digit -/
def hexU (d : Nat) : Nat := if d < 10 then 48 + d else 55 + d

def quoteByte (safe : List Nat) (b : Nat) : List Nat :=
  if isSafe safe b then [b] else [37, hexU (b / 16), hexU (b % 16)]

def quoteBytes (safe : List Nat) (bs : List Nat) : Str := bs.flatMap (quoteByte safe)

/-- `quote(s, safe)` for a `str`; `none` = UnicodeEncodeError (surrogate in `s`) -/
def quote (safe : List Nat) (s : Str) : Option Str :=
  if validStr s then some (quoteBytes safe (utf8 s)) else none

def hexVal? (c : Nat) : Option Nat :=
  if 48 ≤ c ∧ c ≤ 57 then some (c - 48)
  else if 65 ≤ c ∧ c ≤ 70 then some (c - 55)
  else if 97 ≤ c ∧ c ≤ 102 then some (c - 87)
  else none

def pctByte? (c a b : Nat) : Option Nat :=
  if c = 37 then
    match hexVal? a, hexVal? b with
    | some x, some y => some (x * 16 + y)
    | _, _ => none
  else none

/-- `_unquote_impl` on an ASCII run: `%xy` with two hex digits becomes one byte, any other `%`
    stays (this is what splitting at `%` and looking up the first two characters of every piece
    computes). -/
def pctDecode : List Nat → List Nat
  | c :: a :: b :: rest =>
    match pctByte? c a b with
    | some v => v :: pctDecode rest
    | none => c :: pctDecode (a :: b :: rest)
  | l => l

def flush (acc : List Nat) : Str := utf8Decode (pctDecode acc)

def unquoteGo (acc : List Nat) : Str → Str
  | [] => flush acc
  | c :: cs => if c < 128 then unquoteGo (acc ++ [c]) cs else flush acc ++ c :: unquoteGo [] cs

/-- `unquote(s)` (`encoding='utf-8', errors='replace'`) -/
def unquote (s : Str) : Str := unquoteGo [] s

/-! ## small string functions -/

/-- `s.partition(c)` when `c` occurs: (before, after) of the first occurrence -/
def breakOn (c : Nat) : Str → Option (Str × Str)
  | [] => none
  | x :: xs => if x = c then some ([], xs) else (breakOn c xs).map fun (a, b) => (x :: a, b)

/-- `s.rpartition(c)` when `c` occurs: (before, after) of the last occurrence -/
def rbreakOn (c : Nat) (s : Str) : Option (Str × Str) :=
  (breakOn c s.reverse).map fun (a, b) => (b.reverse, a.reverse)

/-- (longest prefix without a character satisfying `p`, the rest) -/
def breakP (p : Nat → Bool) : Str → Str × Str
  | [] => ([], [])
  | x :: xs => if p x then ([], x :: xs) else ((breakP p xs).1.cons x, (breakP p xs).2)

def startsWith (pre s : Str) : Bool := pre.isPrefixOf s

def decDigits (n : Nat) : Str :=
  if n < 10 then [48 + n] else decDigits (n / 10) ++ [48 + n % 10]
termination_by n
decreasing_by omega

/-- `'%d' % i` -/
def fmtD (i : Int) : Str := if i < 0 then 45 :: decDigits i.natAbs else decDigits i.toNat

def isDigit (c : Nat) : Bool := 48 ≤ c && c ≤ 57

/-- `int(s)` for an ASCII digit string -/
def parseDec (s : Str) : Nat := s.foldl (fun a d => a * 10 + (d - 48)) 0

def lowerAscii (c : Nat) : Nat := if 65 ≤ c ∧ c ≤ 90 then c + 32 else c

def isAsciiAlpha (c : Nat) : Bool := (65 ≤ c && c ≤ 90) || (97 ≤ c && c ≤ 122)

/-- `scheme_chars` -/
def isSchemeChar (c : Nat) : Bool := isAsciiAlpha c || isDigit c || c == 43 || c == 45 || c == 46

/-! ## builders -/

/-- the attributes `DBConnection.uri` reads; `none` = `None`.  (`user` is read with
    `getattr(self, 'user', '') or ''`, so a missing attribute is `none` too.) -/
structure Conn where
  scheme : Str
  user : Option Str
  password : Option Str
  host : Option Str
  port : Option Int
  db : Str

inductive BuildOut
  | ok (uri : Str)
  | assertionError
  | unicodeEncodeError
deriving DecidableEq, Repr

/-- Python truthiness of `None | str` -/
def truthyS : Option Str → Option Str
  | some (c :: cs) => some (c :: cs)
  | _ => none

/-- Python truthiness of `None | int` -/
def truthyI : Option Int → Option Int
  | some i => if i = 0 then none else some i
  | none => none

inductive AuthOut
  | ok (auth : Str)
  | assertionError
  | unicodeEncodeError

open Extracted in
/-- the `auth` prefix of `DBConnection.uri` -/
def authOf (c : Conn) : AuthOut :=
  match truthyS c.user with
  | some u =>
    match quote userSafe u with
    | none => .unicodeEncodeError
    | some qu =>
      match truthyS c.password with
      | some p =>
        match quote passwordSafe p with
        | none => .unicodeEncodeError
        | some qp => .ok (qu ++ passwordSep ++ qp ++ authEnd)
      | none => .ok (qu ++ authEnd)
  | none =>
    match truthyS c.password with
    | some _ => .assertionError
    | none => .ok []

/-- `t in h` for a one-character `t` -/
def hasChar (t h : Str) : Bool :=
  match t with
  | [c] => h.contains c
  | _ => false

open Extracted in
/-- `'[%s]' % host if ':' in host and not host.startswith('[') else host` -/
def hostText (h : Str) : Str :=
  if hasChar hostBracketTest h && !startsWith hostBracketSkip h then hostBracketOpen ++ h ++ hostBracketClose
  else h

open Extracted in
/-- `if self.host: uri += <host text>` then `if self.port: uri += ':%d' % self.port` -/
def hostportOf (c : Conn) : Str :=
  (match truthyS c.host with
   | some h => hostText h
   | none => []) ++
  (match truthyI c.port with
   | some p => portSep ++ fmtD p
   | none => [])

open Extracted in
/-- `db = self.db; if db.startswith('/'): db = db[1:]` -/
def dbOf (c : Conn) : Str :=
  if startsWith dbStrip c.db then c.db.drop dbStrip.length else c.db

open Extracted in
/-- `DBConnection.uri` -/
def genericUri (c : Conn) : BuildOut :=
  match authOf c with
  | .assertionError => .assertionError
  | .unicodeEncodeError => .unicodeEncodeError
  | .ok auth =>
    match quote dbSafe (dbOf c) with
    | none => .unicodeEncodeError
    | some qdb => .ok (c.scheme ++ schemeSep ++ auth ++ hostportOf c ++ pathSep ++ qdb)

open Extracted in
/-- `SQLiteConnection.uri` (`filename` is a `str`) -/
def sqliteUri (filename : Str) : BuildOut :=
  if filename = sqliteMemoryName then .ok (sqlitePrefix ++ sqliteMemoryPath)
  else
    let p := (if startsWith sqliteAbsTest filename then sqliteAbsPrefix else sqliteRelPrefix) ++ filename
    match quote sqliteSafe p with
    | none => .unicodeEncodeError
    | some q => .ok (sqlitePrefix ++ q)

/-! ## `urlsplit` / `urlparse` (the parts `_parseURI` reads) -/

/-- `url.lstrip(_WHATWG_C0_CONTROL_OR_SPACE)` -/
def lstripC0 : Str → Str
  | [] => []
  | c :: cs => if c ≤ 32 then lstripC0 cs else c :: cs

/-- removal of `\t`, `\r`, `\n` -/
def removeTRN (s : Str) : Str := s.filter fun c => !(c == 9 || c == 13 || c == 10)

/-- (lower-cased scheme or `[]`, rest) -/
def splitScheme (url : Str) : Str × Str :=
  match breakOn 58 url with
  | some (c :: pre, post) =>
    if (c < 128 && isAsciiAlpha c) && (c :: pre).all isSchemeChar then ((c :: pre).map lowerAscii, post)
    else ([], url)
  | _ => ([], url)

def isNetlocEnd (c : Nat) : Bool := c == 47 || c == 63 || c == 35

/-- `uses_params` of CPython 3.12 as code points (the empty scheme is a member):
    '' 'ftp' 'hdl' 'prospero' 'http' 'imap' 'https' 'shttp' 'rtsp' 'rtsps' 'rtspu' 'sip' 'sips' 'mms' 'sftp' 'tel' -/
def usesParams : List Str :=
  [[],
   [102, 116, 112],
   [104, 100, 108],
   [112, 114, 111, 115, 112, 101, 114, 111],
   [104, 116, 116, 112],
   [105, 109, 97, 112],
   [104, 116, 116, 112, 115],
   [115, 104, 116, 116, 112],
   [114, 116, 115, 112],
   [114, 116, 115, 112, 115],
   [114, 116, 115, 112, 117],
   [115, 105, 112],
   [115, 105, 112, 115],
   [109, 109, 115],
   [115, 102, 116, 112],
   [116, 101, 108]]

/-- `_splitparams(url)[0]` (called only when `;` occurs in `url`) -/
def splitParamsPath (url : Str) : Str :=
  match rbreakOn 47 url with
  | some (head, tail) =>
    match breakOn 59 tail with
    | some (t, _) => head ++ [47] ++ t
    | none => url
  | none =>
    match breakOn 59 url with
    | some (h, _) => h
    | none => url

/-! ### `_check_bracketed_host`: `ipaddress.ip_address` accepts an IPv6 literal / IPvFuture regex -/

def isHexDigit (c : Nat) : Bool := (48 ≤ c && c ≤ 57) || (65 ≤ c && c ≤ 70) || (97 ≤ c && c ≤ 102)

/-- `s.split(sep)` -/
def splitOn (sep : Nat) : Str → List Str
  | [] => [[]]
  | c :: cs =>
    match splitOn sep cs with
    | [] => [[c]]     -- unreachable
    | h :: t => if c = sep then [] :: h :: t else (c :: h) :: t

/-- `IPv6Address._parse_hextet` succeeds -/
def hextetOk (s : Str) : Bool := !s.isEmpty && s.length ≤ 4 && s.all isHexDigit

/-- `IPv4Address._parse_octet` succeeds -/
def octetOk (s : Str) : Bool :=
  !s.isEmpty && s.all isDigit && s.length ≤ 3 && (s == [48] || s.head? != some 48) && parseDec s ≤ 255

/-- `IPv4Address(s)` succeeds -/
def ipv4Ok (s : Str) : Bool :=
  let os := splitOn 46 s
  os.length == 4 && os.all octetOk

/-- positions (from `i`) of the empty strings of a list -/
def emptyIdx : List Str → Nat → List Nat
  | [], _ => []
  | p :: ps, i => if p.isEmpty then i :: emptyIdx ps (i + 1) else emptyIdx ps (i + 1)

/-- `IPv6Address._ip_int_from_string(s)` succeeds -/
def ipv6Core (s : Str) : Bool :=
  if s.isEmpty then false else
  let parts0 := splitOn 58 s
  if parts0.length < 3 then false else
  let last := parts0.getLastD []
  let v4 := last.contains 46
  if v4 && !ipv4Ok last then false else
  let parts := if v4 then parts0.dropLast ++ [[48], [48]] else parts0
  let n := parts.length
  if n > 9 then false else
  match emptyIdx ((parts.drop 1).dropLast) 1 with
  | [] => n == 8 && parts.all hextetOk
  | [i] =>
    let firstEmpty := (parts.headD []).isEmpty
    let lastEmpty := (parts.getLastD []).isEmpty
    let hiOk := if firstEmpty then i == 1 else (parts.take i).all hextetOk
    let loOk := if lastEmpty then i + 2 == n else (parts.drop (i + 1)).all hextetOk
    let hi := if firstEmpty then 0 else i
    let lo := if lastEmpty then 0 else n - i - 1
    hiOk && loOk && hi + lo ≤ 7
  | _ => false

/-- `IPv6Address(s)` succeeds (scope id after `%`) -/
def ipv6Ok (s : Str) : Bool :=
  match breakOn 37 s with
  | none => ipv6Core s
  | some (a, z) => !z.isEmpty && !z.contains 37 && ipv6Core a

/-- `re.match(r"\Av[a-fA-F0-9]+\..+\Z", s)` for `s` starting with `v` -/
def ipvFutureOk (s : Str) : Bool :=
  match s with
  | _ :: rest =>
    let (hex, after) := breakP (fun c => !isHexDigit c) rest
    !hex.isEmpty && (match after with
      | 46 :: r => !r.isEmpty
      | _ => false)
  | [] => false

/-- `_check_bracketed_host(s)` does not raise -/
def bracketedHostOk (s : Str) : Bool :=
  if startsWith [118] s then ipvFutureOk s else ipv6Ok s

structure Split where
  scheme : Str
  netloc : Str
  path : Str
  query : Str

inductive SplitOut
  | ok (s : Split)
  | valueError
  | unmodelled

/-- `netloc.partition('[')[2].partition(']')[0]` -/
def bracketed (netloc : Str) : Str :=
  match breakOn 91 netloc with
  | some (_, b) =>
    match breakOn 93 b with
    | some (h, _) => h
    | none => b
  | none => []

/-- `urlparse(url)`: scheme, netloc, path (without `;params`), query -/
def urlparse (url0 : Str) : SplitOut :=
  let url := removeTRN (lstripC0 url0)
  let (scheme, url) := splitScheme url
  let (netloc, url) :=
    if startsWith [47, 47] url then breakP isNetlocEnd (url.drop 2) else ([], url)
  let hasO := netloc.contains 91
  let hasC := netloc.contains 93
  if hasO != hasC then .valueError
  else if hasO && !bracketedHostOk (bracketed netloc) then .valueError
  else
    let url := match breakOn 35 url with
      | some (u, _) => u
      | none => url
    let (path, query) := match breakOn 63 url with
      | some (u, q) => (u, q)
      | none => (url, [])
    let path :=
      if usesParams.contains scheme && path.contains 59 then splitParamsPath path
      else path
    .ok ⟨scheme, netloc, path, query⟩

/-- `_userinfo`: (username, password) -/
def userinfo (netloc : Str) : Option Str × Option Str :=
  match rbreakOn 64 netloc with
  | some (ui, _) =>
    match breakOn 58 ui with
    | some (u, p) => (some u, some p)
    | none => (some ui, none)
  | none => (none, none)

/-- `netloc.rpartition('@')[2]` -/
def hostpart (netloc : Str) : Str :=
  match rbreakOn 64 netloc with
  | some (_, h) => h
  | none => netloc

/-- `_hostinfo`: (hostname, port text) -/
def hostinfo (netloc : Str) : Str × Option Str :=
  match breakOn 91 (hostpart netloc) with
  | some (_, b) =>
    let (h, rest) := match breakOn 93 b with
      | some (h, rest) => (h, rest)
      | none => (b, [])
    match breakOn 58 rest with
    | some (_, p) => (h, if p.isEmpty then none else some p)
    | none => (h, none)
  | none =>
    match breakOn 58 (hostpart netloc) with
    | some (h, p) => (h, if p.isEmpty then none else some p)
    | none => (hostpart netloc, none)

/-- lower-casing in `.hostname`: everything before the first `%` (IPv6 zone separator) -/
def lowerHost (h : Str) : Str :=
  match breakOn 37 h with
  | some (a, z) => a.map lowerAscii ++ [37] ++ z
  | none => h.map lowerAscii

def hostnameOf (h : Str) : Option Str := if h.isEmpty then none else some (lowerHost h)

/-- `.hostname` -/
def hostname (netloc : Str) : Option Str := hostnameOf (hostinfo netloc).1

/-- `.port` from the port text: `none` = ValueError -/
def portOfText : Option Str → Option (Option Nat)
  | none => some none
  | some p =>
    if p.all isDigit then
      (if parseDec p ≤ 65535 then some (some (parseDec p)) else none)
    else none

/-- `.port`: `none` = ValueError -/
def portOf (netloc : Str) : Option (Option Nat) := portOfText (hostinfo netloc).2

/-- `replace('+', ' ')` -/
def plusToSpace (s : Str) : Str := s.map fun c => if c = 43 then 32 else c

/-- `parse_qsl(query)` with the defaults -/
def parseQsl (q : Str) : List (Str × Str) :=
  if q.isEmpty then [] else
  (splitOn 38 q).filterMap fun nv =>
    match breakOn 61 nv with
    | some (n, v) => if v.isEmpty then none else some (unquote (plusToSpace n), unquote (plusToSpace v))
    | none => none

/-- `args[name] = value` in order (a later value replaces an earlier one in place) -/
def dictSet (d : List (Str × Str)) (k v : Str) : List (Str × Str) :=
  if d.any (·.1 == k) then d.map fun (k', v') => if k' == k then (k', v) else (k', v')
  else d ++ [(k, v)]

def dictOf (l : List (Str × Str)) : List (Str × Str) := l.foldl (fun d kv => dictSet d kv.1 kv.2) []

structure Parsed where
  user : Option Str
  password : Option Str
  host : Option Str
  port : Option Nat
  path : Str
  args : List (Str × Str)
deriving DecidableEq, Repr

inductive ParseOut
  | ok (p : Parsed)
  | valueError
  | unmodelled
deriving DecidableEq, Repr

def nonEmpty? (s : Option Str) : Option Str := truthyS s

/-- `DBConnection._parseURI` (posix) -/
def parseURI (uri : Str) : ParseOut :=
  match urlparse uri with
  | .valueError => .valueError
  | .unmodelled => .unmodelled
  | .ok sp =>
    let (u, p) := userinfo sp.netloc
    match portOf sp.netloc with
    | none => .valueError
    | some port =>
      .ok { user := (nonEmpty? u).map unquote
            password := (nonEmpty? p).map unquote
            host := hostname sp.netloc
            port := match port with
              | some 0 => none
              | x => x
            path := unquote sp.path
            args := dictOf (parseQsl sp.query) }

/-- the `filename` attribute of `SQLiteConnection(filename)`; `none` = the constructor does something the model
    does not follow (`Extracted.sqliteInitStore ≠ asGiven`) -/
def sqliteNew (filename : Str) : Option Str :=
  match Extracted.sqliteInitStore with
  | .asGiven => some filename
  | .other => none

/-! ## `connectionForURI(uri, **args)`: extra parameters -/

/-- `quote_plus(s)` (`safe=''`) of a valid string: blanks become `+`, a literal `+` is escaped -/
def quotePlusB (s : Str) : Str :=
  (quoteBytes [32] (utf8 s)).map fun c => if c = 32 then 43 else c

def quotePlus (s : Str) : Option Str := if validStr s then some (quotePlusB s) else none

/-- `k=v` joined by `&` -/
def joinParams : List (Str × Str) → Str
  | [] => []
  | [(k, v)] => k ++ 61 :: v
  | (k, v) :: rest => k ++ 61 :: v ++ 38 :: joinParams rest

/-- `urlencode(args)` for `str` names and values; `none` = UnicodeEncodeError -/
def urlencode (ps : List (Str × Str)) : Option Str :=
  if ps.all (fun kv => validStr kv.1 && validStr kv.2) then
    some (joinParams (ps.map fun kv => (quotePlusB kv.1, quotePlusB kv.2)))
  else none

/-- the URI `connectionForURI(uri, **args)` goes on with:
    `uri += ('?' if '?' not in uri else '&') + urlencode(args)` when there are args -/
def withParams (uri : Str) (ps : List (Str × Str)) : Option Str :=
  if ps.isEmpty then some uri
  else (urlencode ps).map fun q => uri ++ (if uri.contains 63 then [38] else [63]) ++ q

open Extracted in
/-- file name `SQLiteConnection._connectionFromParams` opens; `none` = AssertionError -/
def sqliteOpen (p : Parsed) : Option Str :=
  if p.host.isSome || p.port.isSome || p.user.isSome || p.password.isSome then none
  else if p.path = sqliteOpenMemoryPath then some sqliteOpenMemoryName
  else some p.path

end SqlObjVerif.Uri
