import SqlObjVerif.Extracted.Cache
/-!
# Model of the identity map: `cache.py` (CacheFactory / CacheSet) + the parts of the SQLObject
instance life cycle that talk to it (`main.py`: get, _SO_finishCreate, expire, destroySelf,
`__getstate__` / `__setstate__`; `dbconnection.py`: Iteration.next, DBConnection.expireAll;
`joins.py` performJoin; `index.py` unique index `get`).

One connection, any number of classes and rows.  Column values are irrelevant for identity, so a
row is just its id; what a query returns (the ids of a select, the target of a foreign key, the
ids of a join) is an input of the op.  Object handles are natural numbers in allocation order.
Python dicts are association lists in insertion order; `aset` is `d[k] = v` (in place when the key
is there, appended otherwise), `aerase` is `del d[k]`.
-/
namespace SqlObjVerif.Cache

abbrev Cls := Nat
abbrev Id := Nat
abbrev Handle := Nat
abbrev AList := List (Id × Handle)

def aget (k : Id) : AList → Option Handle
  | [] => none
  | e :: l => if e.1 = k then some e.2 else aget k l

def aerase (k : Id) (l : AList) : AList := l.filter (fun e => decide (e.1 ≠ k))

def ahasKey (k : Id) (l : AList) : Bool := l.any (fun e => decide (e.1 = k))

def aset (k : Id) (v : Handle) (l : AList) : AList :=
  if ahasKey k l then l.map (fun e => if e.1 = k then (k, v) else e) else l ++ [(k, v)]

def ahas (h : Handle) (l : AList) : Bool := l.any (fun e => decide (e.2 = h))

/-- `for e in es: d[e.key] = e.value` -/
def asetAll (es : AList) (l : AList) : AList := es.foldl (fun w e => aset e.1 e.2 w) l

structure Obj where
  cls : Cls
  id : Id
  /-- the application holds a reference -/
  held : Bool
  /-- garbage collected -/
  dead : Bool
  /-- `sqlmeta._obsolete` (destroySelf was called on it) -/
  obsolete : Bool
  /-- its column values are gone (expire()); the next attribute read reloads the row -/
  expired : Bool
deriving Repr, DecidableEq

structure Factory where
  strong : AList
  weak : AList
  cullCount : Nat
  cullOffset : Nat
deriving Repr

structure Cfg where
  doCache : Bool
  cullFrequency : Nat
  cullFraction : Nat
  /-- CPython: an object removed from the strong cache by `cull` that nobody else refers to dies
      on the spot and gets no weak entry; `false`: it survives until a later `gc` -/
  refcount : Bool
deriving Repr

/-- the configuration `CacheFactory.__init__` defaults give (extracted from cache.py) -/
def Cfg.default (doCache : Bool) : Cfg :=
  { doCache := doCache, cullFrequency := Extracted.Cache.defaultCullFrequency,
    cullFraction := Extracted.Cache.defaultCullFraction, refcount := true }

structure State where
  cfg : Cfg
  /-- ids of the rows that exist, per class -/
  rows : Cls → List Id
  /-- largest id ever inserted (SQLite AUTOINCREMENT) -/
  maxId : Cls → Nat
  fac : Cls → Factory
  obj : Handle → Obj
  /-- next free handle -/
  n : Nat
  /-- pickled snapshots: class, id, values-gone flag -/
  pickles : List (Cls × Id × Bool)

def emptyFactory : Factory := { strong := [], weak := [], cullCount := 0, cullOffset := 0 }

def blankObj : Obj := { cls := 0, id := 0, held := false, dead := false, obsolete := false, expired := false }

def init (cfg : Cfg) : State :=
  { cfg := cfg, rows := fun _ => [], maxId := fun _ => 0, fac := fun _ => emptyFactory,
    obj := fun _ => blankObj, n := 0, pickles := [] }

def upd {β : Type} (f : Nat → β) (a : Nat) (b : β) : Nat → β := fun x => if x = a then b else f x

def setFac (s : State) (c : Cls) (f : Factory) : State := { s with fac := upd s.fac c f }

def setObj (s : State) (h : Handle) (o : Obj) : State := { s with obj := upd s.obj h o }

/-- keys at positions `off, off+frac, …` of `keys` (`range(off, len(keys), frac)`), `i` = position of the head -/
def pick (off frac : Nat) : Nat → List Id → List Id
  | _, [] => []
  | i, k :: ks => if off ≤ i ∧ (i - off) % frac = 0 then k :: pick off frac (i + 1) ks else pick off frac (i + 1) ks

/-- `CacheFactory.cull` -/
def cull (s : State) (c : Cls) : State :=
  let f := s.fac c
  let weak1 := f.weak.filter (fun e => !(s.obj e.2).dead)
  let sel := pick f.cullOffset s.cfg.cullFraction 0 (f.strong.map (·.1))
  let kept := f.strong.filter (fun e => !sel.contains e.1)
  let moved := f.strong.filter (fun e => sel.contains e.1)
  let surv := moved.filter (fun e => (s.obj e.2).held || !s.cfg.refcount)
  let obj' : Handle → Obj := fun h =>
    if s.cfg.refcount && ahas h moved && !(s.obj h).held then { s.obj h with dead := true } else s.obj h
  { s with
    fac := upd s.fac c { strong := kept, weak := asetAll surv weak1, cullCount := f.cullCount,
                         cullOffset := (f.cullOffset + 1) % s.cfg.cullFraction }
    obj := obj' }

/-- the cull bookkeeping at the head of `get` and `created` (doCache only) -/
def tick (s : State) (c : Cls) : State :=
  if s.cfg.doCache then
    let f := s.fac c
    if (if Extracted.Cache.cullTriggerStrict then decide (f.cullCount > s.cfg.cullFrequency)
        else decide (f.cullCount ≥ s.cfg.cullFrequency)) then cull (setFac s c { f with cullCount := 0 }) c
    else setFac s c { f with cullCount := f.cullCount + 1 }
  else s

/-- `CacheFactory.get` after the bookkeeping: `none` = miss -/
def lookupCache (s : State) (c : Cls) (k : Id) : State × Option Handle :=
  let f := s.fac c
  if s.cfg.doCache then
    match aget k f.strong with
    | some h => (s, some h)
    | none =>
      match aget k f.weak with
      | none => (s, none)
      | some h =>
        if (s.obj h).dead then (setFac s c { f with weak := aerase k f.weak }, none)
        else (setFac s c { f with weak := aerase k f.weak, strong := aset k h f.strong }, some h)
  else
    match aget k f.weak with
    | none => (s, none)
    | some h =>
      if (s.obj h).dead then (setFac s c { f with weak := aerase k f.weak }, none) else (s, some h)

/-- `put` / the insertion at the end of `created` -/
def insertEntry (s : State) (c : Cls) (k : Id) (h : Handle) : State :=
  let f := s.fac c
  if s.cfg.doCache then setFac s c { f with strong := aset k h f.strong }
  else setFac s c { f with weak := aset k h f.weak }

def alloc (s : State) (c : Cls) (k : Id) (expired : Bool) : State :=
  { s with obj := upd s.obj s.n { cls := c, id := k, held := true, dead := false, obsolete := false, expired := expired },
           n := s.n + 1 }

/-- `SQLObject.get(id, selectResults=…)`: every access path ends here.  `none` = SQLObjectNotFound.
    (With `selectResults` the real code does not query; its callers pass rows the database just returned,
    so the existence test is the same fact.) -/
def getObj (s : State) (c : Cls) (k : Id) (sel : Bool) : State × Option Handle :=
  match lookupCache (tick s c) c k with
  | (s1, some h) =>
    let o := s1.obj h
    (setObj s1 h { o with held := true, expired := if sel then false else o.expired }, some h)
  | (s1, none) =>
    if (s1.rows c).contains k then
      (insertEntry (alloc s1 c k false) c k s1.n, some s1.n)
    else (s1, none)

/-- `CacheFactory.expire(id)` -/
def purge (s : State) (c : Cls) (k : Id) : State :=
  let f := s.fac c
  if s.cfg.doCache || Extracted.Cache.expireDropsWeakAlways then
    setFac s c { f with strong := aerase k f.strong, weak := aerase k f.weak }
  else s

/-- `CacheFactory.tryGet` -/
def tryGet (s : State) (c : Cls) (k : Id) : Option Handle :=
  let f := s.fac c
  let strongPart : Option Handle := if s.cfg.doCache then aget k f.strong else none
  match aget k f.weak with
  | some h =>
    if (s.obj h).dead then (if Extracted.Cache.tryGetFallsThrough then strongPart else none) else some h
  | none => strongPart

/-- `item.expire()` for one item of `getAll()` -/
def expireOne (s : State) (h : Handle) : State :=
  let o := s.obj h
  purge (setObj s h { o with expired := true }) o.cls o.id

/-- `CacheFactory.expireAll` of every class (`CacheSet.weakrefAll()`) -/
def weakrefAll (s : State) : State :=
  if s.cfg.doCache then
    { s with fac := fun c => let f := s.fac c; { f with weak := asetAll f.strong f.weak, strong := [] } }
  else s

/-- the instances `CacheSet.getAll()` lists: alive and in some (their class's) cache -/
def cachedAlive (s : State) (h : Handle) : Bool :=
  let o := s.obj h
  !o.dead && (ahas h (s.fac o.cls).strong || ahas h (s.fac o.cls).weak)

inductive Op where
  | create (c : Cls) (id : Option Id)
  | get (c : Cls) (id : Id)
  /-- iteration over a select whose query yields `ids` (rows that do not exist are not yielded) -/
  | select (c : Cls) (ids : List Id)
  /-- alternate-id / unique-index lookup whose query hits row `id` -/
  | look (c : Cls) (id : Id)
  /-- FK attribute of the held object `h`; the column holds `tid` -/
  | fk (h : Handle) (tc : Cls) (tid : Option Id)
  /-- join accessor of the held object `h`; the join query yields `ids` -/
  | join (h : Handle) (tc : Cls) (ids : List Id)
  | drop (h : Handle)
  /-- the collector frees those of `hs` nobody refers to -/
  | gc (hs : List Handle)
  | expire (h : Handle)
  | expireAll
  | destroy (h : Handle)
  | pickle (h : Handle)
  | unpickle (p : Nat)
deriving Repr

inductive Out where
  | ok
  | obj (h : Handle)
  | objs (hs : List Handle)
  | none
  | notFound
  | duplicate
  | valueError
  | pickled (p : Nat)
  | gc (refused : Nat)
  | invalid
deriving Repr, DecidableEq

/-- the application can only call a method on an instance it holds -/
def usable (s : State) (h : Handle) : Bool := decide (h < s.n) && (s.obj h).held

def selectLoop (c : Cls) : List Id → State → List Handle → State × List Handle
  | [], s, acc => (s, acc.reverse)
  | k :: ks, s, acc =>
    if (s.rows c).contains k then
      match getObj s c k true with
      | (s1, some h) => selectLoop c ks s1 (h :: acc)
      | (s1, none) => selectLoop c ks s1 acc
    else selectLoop c ks s acc

def joinLoop (c : Cls) : List Id → State → List Handle → State × Option (List Handle)
  | [], s, acc => (s, some acc.reverse)
  | k :: ks, s, acc =>
    match getObj s c k false with
    | (s1, some h) => joinLoop c ks s1 (h :: acc)
    | (s1, none) => (s1, none)

def killable (s : State) (h : Handle) : Bool :=
  decide (h < s.n) && !(s.obj h).held && !ahas h (s.fac (s.obj h).cls).strong

def gcStep (s : State) (hs : List Handle) : State :=
  { s with obj := fun h => if hs.contains h && killable s h then { s.obj h with dead := true } else s.obj h }

def step (s : State) : Op → State × Out
  | .create c idopt =>
    let k := idopt.getD (s.maxId c + 1)
    if (s.rows c).contains k then (s, .duplicate) else
    let s1 := { s with rows := upd s.rows c (s.rows c ++ [k]), maxId := upd s.maxId c (max (s.maxId c) k) }
    let h := s1.n
    (insertEntry (tick (alloc s1 c k false) c) c k h, .obj h)
  | .get c k =>
    match getObj s c k false with
    | (s1, some h) => (s1, .obj h)
    | (s1, none) => (s1, .notFound)
  | .select c ids =>
    let r := selectLoop c ids s []
    (r.1, .objs r.2)
  | .look c k =>
    if (s.rows c).contains k then
      match getObj s c k true with
      | (s1, some h) => (s1, .obj h)
      | (s1, none) => (s1, .notFound)
    else (s, .notFound)
  | .fk h tc tid =>
    if usable s h then
      let o := s.obj h
      if o.expired && !(s.rows o.cls).contains o.id then (s, .notFound) else
      let s0 := setObj s h { o with expired := false }
      match tid with
      | none => (s0, .none)
      | some t =>
        match getObj s0 tc t false with
        | (s1, some r) => (s1, .obj r)
        | (s1, none) => (s1, .notFound)
    else (s, .invalid)
  | .join h tc ids =>
    if usable s h then
      match joinLoop tc ids s [] with
      | (s1, some l) => (s1, .objs l)
      | (s1, none) => (s1, .notFound)
    else (s, .invalid)
  | .drop h =>
    if usable s h then (setObj s h { s.obj h with held := false }, .ok) else (s, .invalid)
  | .gc hs =>
    (gcStep s hs, .gc (hs.filter (fun h => !killable s h && !(s.obj h).dead)).length)
  | .expire h =>
    if usable s h then (expireOne s h, .ok) else (s, .invalid)
  | .expireAll =>
    let s1 := weakrefAll s
    let items := (List.range s1.n).filter (cachedAlive s1)
    (items.foldl expireOne s1, .ok)
  | .destroy h =>
    if usable s h then
      let o := s.obj h
      let s1 := { s with rows := upd s.rows o.cls ((s.rows o.cls).filter (fun x => decide (x ≠ o.id))) }
      (purge (setObj s1 h { o with obsolete := true }) o.cls o.id, .ok)
    else (s, .invalid)
  | .pickle h =>
    if usable s h then
      let o := s.obj h
      ({ s with pickles := s.pickles ++ [(o.cls, o.id, o.expired)] }, .pickled s.pickles.length)
    else (s, .invalid)
  | .unpickle p =>
    match s.pickles[p]? with
    | none => (s, .invalid)
    | some (c, k, e) =>
      match tryGet s c k with
      | some _ => (s, .valueError)
      | none =>
        let h := s.n
        (insertEntry (tick (alloc s c k e) c) c k h, .obj h)

def run (s : State) : List Op → State
  | [] => s
  | op :: ops => run (step s op).1 ops

end SqlObjVerif.Cache
