import SqlObjVerif.Model.Graph
/-!
# C13 — model of the join accessors (`joins.py`) over the stored relation

The stored relation is the `Graph.DB` of C12: rows with foreign-key values, link tables as lists of
pairs in insertion (rowid) order.  Mirrors

* `SOMultipleJoin.performJoin` / `_SO_selectJoin`: ids of the rows whose key column equals the owner's
  id, in table order, then `doSort` when the join has an `orderBy`;
* `SORelatedJoin.performJoin` / `_SO_intermediateJoin`: `SELECT otherColumn FROM t WHERE joinColumn = id`
  (one result per link row: duplicates are kept), `add` = one INSERT, `remove` = DELETE of *every*
  matching link row;
* `SOSingleJoin.performJoin`: `None` when nothing references the owner, else the first referencing row;
* `doSort`: Python's stable `list.sort(key, reverse)` once per key, least significant key first,
  `None` sorting before everything;
* `SORelatedJoin._setOtherRelatedClass`: the default link-table name and column names.
-/
namespace SqlObjVerif.Joins
open SqlObjVerif.Graph

/-! ## Python's stable sort -/

def ins (le : α → α → Bool) (x : α) : List α → List α
  | [] => [x]
  | y :: ys => if le x y then x :: y :: ys else y :: ins le x ys

/-- stable: an element inserted from the left stays before the elements it ties with -/
def insSort (le : α → α → Bool) : List α → List α
  | [] => []
  | x :: xs => ins le x (insSort le xs)

/-- `sortkey`: `None ↦ Min` -/
def leOpt : Option Int → Option Int → Bool
  | none, _ => true
  | some _, none => false
  | some a, some b => a ≤ b

/-- one `orderBy` item: attribute index, `-` prefix -/
structure SortKey where
  attr : Nat
  desc : Bool
deriving DecidableEq, Repr

/-- `results.sort(key=sortkey, reverse=reverse)` as an order on elements (`reverse=True` keeps ties in
    their original order, like CPython) -/
def leKey (val : α → Nat → Option Int) (k : SortKey) (x y : α) : Bool :=
  if k.desc then leOpt (val y k.attr) (val x k.attr) else leOpt (val x k.attr) (val y k.attr)

/-- `doSort(results, orderBy)`: the keys after the first are sorted first -/
def doSort (val : α → Nat → Option Int) : List SortKey → List α → List α
  | [], l => l
  | k :: ks, l => insSort (leKey val k) (doSort val ks l)

/-- the ordering a list `orderBy` denotes: first key, ties broken by the next one, …, and `R` among
    elements that tie on every key -/
def lexLE (val : α → Nat → Option Int) (R : α → α → Prop) : List SortKey → α → α → Prop
  | [], x, y => R x y
  | k :: ks, x, y => leKey val k x y = true ∧ (leKey val k y x = true → lexLE val R ks x y)

/-! ## accessors -/

/-- `MultipleJoin` / `SQLMultipleJoin` / `SingleJoin` before ordering: rows of class `k` whose key `f` is the owner -/
def referrers (db : DB) (k f : Nat) (owner : Nat) : List Nat :=
  (db.rows.filter fun r => r.cls == k && r.val f == some owner).map (·.id)

/-- `SingleJoin` -/
def single (db : DB) (k f : Nat) (owner : Nat) : Option Nat := (referrers db k f owner).head?

open SqlObjVerif.Extracted.Graph (JCol JVal addPairs removeConds joinSelect)

def _root_.SqlObjVerif.Extracted.Graph.JVal.get (inst other : Nat) : JVal → Nat
  | .instId => inst
  | .otherId => other

/-- the value a statement's (column, value) list gives to a physical column (`first` = column `a`) -/
def colValue (ps : List (JCol × JVal)) (ownFirst : Bool) (inst other : Nat) (first : Bool) : Nat :=
  match ps.find? fun p => p.1.first ownFirst == first with
  | some p => p.2.get inst other
  | none => 0

/-- an accessor statement `SELECT <sel.1> FROM t WHERE <sel.2.1> = <sel.2.2>` over a link table -/
def relatedBy (sel : JCol × JCol × JVal) (db : DB) (t : Nat) (ownFirst : Bool) (owner : Nat) : List Nat :=
  (db.links.filter fun l => l.table == t && l.col (sel.2.1.first ownFirst) == sel.2.2.get owner 0).map
    (·.col (sel.1.first ownFirst))

/-- an `INSERT` given as (column, value) pairs -/
def addLinkBy (ps : List (JCol × JVal)) (db : DB) (t : Nat) (ownFirst : Bool) (owner other : Nat) : DB :=
  { db with links := db.links ++ [⟨t, colValue ps ownFirst owner other true, colValue ps ownFirst owner other false⟩] }

/-- a `DELETE` given as a conjunction of column = value -/
def removeLinkBy (cs : List (JCol × JVal)) (db : DB) (t : Nat) (ownFirst : Bool) (owner other : Nat) : DB :=
  { db with links := db.links.filter fun l =>
      !(l.table == t && cs.all fun p => l.col (p.1.first ownFirst) == p.2.get owner other) }

/-- `RelatedJoin` / `SQLRelatedJoin` of the side whose id is in column `ownFirst`: the **extracted**
    `_SO_intermediateJoin` statement as `performJoin` calls it -/
def related : DB → Nat → Bool → Nat → List Nat := relatedBy joinSelect

/-- `add`: the **extracted** `_SO_intermediateInsert` statement as `SORelatedJoin.add` calls it -/
def addLink : DB → Nat → Bool → Nat → Nat → DB := addLinkBy addPairs

/-- `remove`: the **extracted** `_SO_intermediateDelete` statement as `SORelatedJoin.remove` calls it -/
def removeLink : DB → Nat → Bool → Nat → Nat → DB := removeLinkBy removeConds

/-- new-style `ManyToMany`: the **extracted** query of `SOManyToMany.__get__` and the wrapper's `add` / `remove` -/
def manyToMany : DB → Nat → Bool → Nat → List Nat := relatedBy Extracted.Graph.m2mSelect
def m2mAdd : DB → Nat → Bool → Nat → Nat → DB := addLinkBy Extracted.Graph.m2mAddPairs
def m2mRemove : DB → Nat → Bool → Nat → Nat → DB := removeLinkBy Extracted.Graph.m2mRemoveConds

/-- the list-flavoured accessors with the join's `orderBy` applied (`_applyOrderBy`) -/
def multipleJoin (val : Nat → Nat → Option Int) (db : DB) (k f : Nat) (ks : List SortKey) (owner : Nat) : List Nat :=
  doSort val ks (referrers db k f owner)

def relatedJoin (val : Nat → Nat → Option Int) (db : DB) (t : Nat) (ownFirst : Bool) (ks : List SortKey) (owner : Nat) :
    List Nat :=
  doSort val ks (related db t ownFirst owner)

/-- attribute assignment of a foreign key -/
def setFK (db : DB) (k i f : Nat) (v : Option Nat) : DB :=
  { db with rows := db.rows.map fun r => if r.cls == k && r.id == i then { r with vals := r.vals.set f v } else r }

def create (db : DB) (k i nf : Nat) : DB :=
  { db with rows := db.rows ++ [⟨k, i, List.replicate nf none⟩], cache := db.cache ++ [(k, i)] }

/-! ## default link-table and column names (`_setOtherRelatedClass`) -/

/-- Python `str <` on code points -/
def strLt : List Nat → List Nat → Bool
  | [], [] => false
  | [], _ :: _ => true
  | _ :: _, [] => false
  | a :: as, b :: bs => if a < b then true else if b < a then false else strLt as bs

/-- `names = [own, other]; names.sort(); '%s_%s' % (names[0], names[1])` -/
def interName (own other : List Nat) : List Nat :=
  if strLt other own then other ++ [95] ++ own else own ++ [95] ++ other

/-- (`joinColumn`, `otherColumn`) = (`<own table>_id`, `<other table>_id`) -/
def defaultCols (own other : List Nat) : List Nat × List Nat :=
  (own ++ [95, 105, 100], other ++ [95, 105, 100])

end SqlObjVerif.Joins
