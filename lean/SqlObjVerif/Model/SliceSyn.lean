/-!
# Syntax of the per-dialect `_queryAddLimitOffset` methods

The *data* of this type is regenerated from `/repo` by `vlib/extractors/slice.py`
(see `Extracted/Slice.lean`); this file only fixes the vocabulary the extractor may use.
-/
namespace SqlObjVerif.Slice

/-- guards that occur in `_queryAddLimitOffset` -/
inductive Cond where
  | notStart      -- `if not start:`
  | endIsNone     -- `if end is None:`
  | notEnd        -- `if not end:`        (the unrepaired form; `end = 0` takes it too)
  | always        -- fall-through `return`
deriving DecidableEq, Repr

/-- the Python expressions that are substituted for `%i` -/
inductive Arg where
  | start | stop | stopMinusStart
deriving DecidableEq, Repr

/-- one whitespace-separated piece of the format string after `%s` -/
inductive Piece where
  | kw (s : String)      -- keyword such as `LIMIT`, `OFFSET`
  | num (a : Arg)        -- `%i`
  | numComma (a : Arg)   -- `%i,`
  | lit (i : Int)        -- a literal number such as `-1` or `0`
deriving DecidableEq, Repr

structure Branch where
  cond   : Cond
  pieces : List Piece
deriving DecidableEq, Repr

end SqlObjVerif.Slice

namespace SqlObjVerif.Slice
/-- the guard in `Select.__sqlrepr__` in front of the dialect call -/
inductive Guard where
  | startOrStopGiven    -- `if start or end is not None:`
  | startOrStopTruthy   -- `if start or end:`  (the unrepaired form)
deriving DecidableEq, Repr
end SqlObjVerif.Slice
