import SqlObjVerif.Model.OrmVal
import SqlObjVerif.Model.PyMain
import SqlObjVerif.Extracted.PyMain
/-!
# C05 / C16 — the value-level `SQLObject` instance methods as TRANSLATED from the source

`absW` maps instance `h` (= `o`) of a state `s` of the hand-written model (`Model/OrmVal.lean`) to the
world an instance method runs in (`Model/PyMain.lean`); the `…X` functions RUN the PyMain programs
that `vlib/extractors/pymain.py` translated from /repo's `main.py` on this very run; `absUnit` / `absVal`
reads the world a method ends in back as a model state and an outcome.  `Lemmas/OrmValX*.lean` prove,
per method, `absUnit … (<method>X (absW …)) = some (op<Method> …)` for ALL states and inputs.

Interface (what the embedding is told about the rest of the library; `ormConn`, `Iface`)
* `_SO_selectOne(self, <all dbNames>)` logs `selectRow` and returns the stored row (`None` if there is
  none), `_SO_selectOne(self, [<one dbName>])` logs `selectCol`; `_SO_update(self, values)` is the hand
  model's `sendUpdate` (counter, log, `updRow` unless refused), then raises when refused;
  `cache.expire(id, cls)` is `evictOthers`, and the instance itself is out of the cache;
* `from_python` / `to_python` of column `c` are `cfg.enc cls c` / `cfg.dec cls c` (uninterpreted),
  `from_python` raises `Invalid` on the input `bad`; a column may lack either validator (`Iface.hasFrom`,
  `hasTo`: both or none), the model's codec is then the identity for it (`Iface.Ok`);
* `_SO_createValues` is a Python dict in insertion order: ANY `cv` with pairwise distinct keys whose
  sort by creation order is the model's `pending` (`Rep`);
* signals are ignored (no listener connected).
-/
namespace SqlObjVerif.OrmVal
open SqlObjVerif.PyMain (World Obj Klass ConnOps Outcome PV CallT noCall ofVal toVal? sortByKey)
open SqlObjVerif.PyMain.Extracted

/-- what the hand model does not say about a class -/
structure Iface where
  hasFrom : Col → Bool
  hasTo : Col → Bool
  /-- `hasattr(cls, name)` for names that are not columns -/
  classAttr : Nat → Bool

/-- a column has both validators or none (`col.py`: both come from the column's one validator object);
    a column without a validator stores / shows the value as it is -/
structure Iface.Ok (i : Iface) (cfg : Cfg) (cls : Cls) : Prop where
  same : ∀ c, i.hasFrom c = i.hasTo c
  enc : ∀ c v, i.hasFrom c = false → cfg.enc cls c v = v
  dec : ∀ c v, i.hasTo c = false → cfg.dec cls c v = v

def klassOf (cfg : Cfg) (i : Iface) (cls : Cls) : Klass :=
  { lazyUpdate := cfg.lazyUpdate cls, cacheValues := cfg.cacheValues cls, ncols := cfg.ncols cls,
    hasFrom := i.hasFrom, hasTo := i.hasTo, enc := cfg.enc cls, dec := cfg.dec cls, classAttr := i.classAttr }

/-- the connection, as the instance (`cls`, `id`) held under handle `h` sees it -/
def ormConn (cls : Cls) (id : Id) (n : Nat) (h : Hnd) : ConnOps State :=
  { selectOne := fun g cols =>
      if cols = List.range n then
        some (logStmt g (.selectRow cls id), (g.db cls id).map fun row => (List.range n).map row)
      else match cols with
        | [c] => some (logStmt g (.selectCol cls id c), (g.db cls id).map fun row => [row c])
        | _ => none,
    update := fun g p fail =>
      { g with db := if fail then g.db else updRow g.db cls id p, updates := g.updates + 1,
               log := g.log ++ [.update cls id p] },
    cacheExpire := fun g => evictOthers g h cls id }

def pyObj (o : Inst) (cv : Pend) : Obj :=
  { vals := o.cached, createValues := cv, expired := o.expired, dirty := o.dirty, creating := false,
    obsolete := o.obsolete, sigSuppress := false, inCache := o.inCache, lock := false }

/-- the Python dict `cv` stands for the model's sorted `pending` -/
structure Rep (cv : Pend) (p : Pend) : Prop where
  nodup : (cv.map (·.1)).Nodup
  sorted : sortByKey cv = p

def absW (cfg : Cfg) (i : Iface) (s : State) (o : Inst) (cv : Pend) (fail : Bool) : World State :=
  { o := pyObj o cv, g := s, k := klassOf cfg i o.cls, fail := fail }

/-- the instance a Python object stands for -/
def instOf (cls : Cls) (id : Id) (o : Obj) : Inst :=
  { cls := cls, id := id, cached := o.vals, expired := o.expired, dirty := o.dirty,
    pending := sortByKey o.createValues, obsolete := o.obsolete, inCache := o.inCache }

/-- the model state a world stands for; `none` when the method left the lock held, the suppress flag set
    or the creating flag changed -/
def conc (cls : Cls) (id : Id) (h : Hnd) (w : World State) : Option State :=
  if w.o.lock || w.o.sigSuppress || w.o.creating then none else some (setObj w.g h (instOf cls id w.o))

def excOut : PyMain.Exc → Option Out
  | .invalid => some .invalid
  | .dbError => some .dbError
  | .notFound => some .notFound
  | .assertion => some .assertion
  | .typeError => some .badCol
  | _ => none

/-- how the model reads the end of a method that returns nothing -/
def absUnit (cls : Cls) (id : Id) (h : Hnd) : Outcome State → Option (State × Out)
  | .ret w .none => (conc cls id h w).map fun s => (s, .ok)
  | .exc w e => (conc cls id h w).bind fun s => (excOut e).map fun out => (s, out)
  | _ => none

/-- … of a method that returns a column value -/
def absVal (cls : Cls) (id : Id) (h : Hnd) : Outcome State → Option (State × Out)
  | .ret w v => (conc cls id h w).bind fun s => (toVal? v).map fun x => (s, .val x)
  | .exc w e => (conc cls id h w).bind fun s => (excOut e).map fun out => (s, out)
  | _ => none

/-- the application-side value of an input -/
def pvOfInp : Inp → PV
  | .ok v => ofVal v
  | .bad => .bad

section
variable (cls : Cls) (id : Id) (n : Nat) (h : Hnd)

/-- `self.syncUpdate()` and `self._SO_selectInit(row)` as seen by `sync` and `_SO_loadValue` -/
def callTable : CallT State := fun m args _ w =>
  if m = "syncUpdate" then
    match args with
    | [] => PyMain.run (ormConn cls id n h) noCall syncUpdateProg [] [] syncUpdate_nlocals syncUpdate_nlists syncUpdate_ndicts w
    | _ => .stuck
  else if m = "_SO_selectInit" then
    match args with
    | [r] => PyMain.run (ormConn cls id n h) noCall selectInitProg [r] [] selectInit_nlocals selectInit_nlists selectInit_ndicts w
    | _ => .stuck
  else .stuck

def expireX (w : World State) : Outcome State :=
  PyMain.run (ormConn cls id n h) noCall expireProg [] [] expire_nlocals expire_nlists expire_ndicts w
def syncUpdateX (w : World State) : Outcome State :=
  PyMain.run (ormConn cls id n h) noCall syncUpdateProg [] [] syncUpdate_nlocals syncUpdate_nlists syncUpdate_ndicts w
def selectInitX (w : World State) (row : PV) : Outcome State :=
  PyMain.run (ormConn cls id n h) noCall selectInitProg [row] [] selectInit_nlocals selectInit_nlists selectInit_ndicts w
def syncX (w : World State) : Outcome State :=
  PyMain.run (ormConn cls id n h) (callTable cls id n h) syncProg [] [] sync_nlocals sync_nlists sync_ndicts w
/-- `self._SO_loadValue('_SO_val_<c>')` -/
def loadValueX (w : World State) (c : Col) : Outcome State :=
  PyMain.run (ormConn cls id n h) (callTable cls id n h) loadValueProg [.valName c] [] loadValue_nlocals loadValue_nlists loadValue_ndicts w
/-- `self._SO_getValue('<c>')` -/
def getValueX (w : World State) (c : Col) : Outcome State :=
  PyMain.run (ormConn cls id n h) noCall getValueProg [.name c] [] getValue_nlocals getValue_nlists getValue_ndicts w
/-- `self._SO_setValue('<c>', value, from_python, to_python)` as the generated setter of column `c` calls it -/
def setValueX (w : World State) (c : Col) (inp : Inp) : Outcome State :=
  PyMain.run (ormConn cls id n h) noCall setValueProg
    [.name c, pvOfInp inp, if w.k.hasFrom c then .fn .fromPy c else .none, if w.k.hasTo c then .fn .toPy c else .none]
    [] setValue_nlocals setValue_nlists setValue_ndicts w
/-- `self.set(**kw)` -/
def setX (w : World State) (kw : List (Nat × Inp)) : Outcome State :=
  PyMain.run (ormConn cls id n h) noCall setProg [.bool false] (kw.map fun e => (e.1, pvOfInp e.2))
    set_nlocals set_nlists set_ndicts w
end

end SqlObjVerif.OrmVal
