import SqlObjVerif.Model.EvMainX
import SqlObjVerif.Model.PyInherit
import SqlObjVerif.Extracted.PyInherit
/-!
# C19 — constructors of an inheritance chain as TRANSLATED from the source

`chainCreate L` is `InheritableSQLObject._create` of the class at level `L` (0 = root): the PyInherit program
`Extracted/PyInherit.lean:createProg` (translated by `vlib/extractors/pyinherit.py` for C15; imported, not modified) RUN
over an interface (`inhIface`) whose world is the PyEv world of `Model/EvMainX.lean` plus `self._parent`:
* `parentClass(kw=parent_kw, connection=self._connection)` IS the translated `SQLObject.__init__` (`initX`) of the
  parent class with the parent level's `_create` (`chainCreate (L-1)`) — a NESTED constructor: the thread-local
  `postponed_calls` exists, so it neither flushes nor deletes it;
* `super(InheritableSQLObject, self)._create(id, **kw)` IS the translated `SQLObject._create` (`createX`), with the
  parent's id as explicit id;
and `chainInitX L` is `Cls_L()` called from application code: the translated `__init__` with `chainCreate L`.

## Assumed interface (beyond the header of `Model/EvMainX.lean`)
* class constants per level: `cls : Nat → Cfg` (the listeners of level `j` are `(cls j).listeners`: own and inherited
  ones, `Chain.effective`); `sqlmeta.parentClass` of level `L+1` is level `L`, of level 0 `None`;
* the keyword split of the inheritable `_create` is not modelled (`Chain.construct` of the hand model has no kwargs
  either): constructors are called without column keywords, RowCreateSignal listeners leave the kwargs empty
  (hypothesis `ChainOk`), every column has a default that validates, `childName` bookkeeping and the `connection=`
  keyword of the nested call have no effect on events (the nested constructor is run with empty kwargs);
* `sqlmeta.columnList` is one handle per column whose `_default` is not `NoDefault`;
* all levels store their row under the root's id; the tables of the levels are kept in ONE list (only ids and the
  non-emptiness of a row read back by `_init` matter here).
-/
namespace SqlObjVerif.Events
open SqlObjVerif.PyEv (World Obj Thunk Frame Ops Calls Outcome PV PDict kwPV ofVal toVal?)
open SqlObjVerif.PyMain (Exc)

abbrev IVal := PyInh.Val
/-- the world of the inheritable `_create`: the PyEv world and the id of `self._parent` -/
abbrev CW := World × Option Nat

def pvOfId : IVal → Option PV
  | .none => some .none
  | .nat i => some (.nat i)
  | _ => none

def idOfPV : PV → Option IVal
  | .none => some .none
  | .nat i => some (.nat i)
  | _ => none

def excFwd : Exc → PyInh.Exc
  | .typeError => ⟨.typeError, 0⟩
  | .keyError => ⟨.keyError, 0⟩
  | .attributeError => ⟨.attributeError, 0⟩
  | .notFound => ⟨.notFound, 0⟩
  | _ => ⟨.exception, 0⟩

def excBack (e : PyInh.Exc) : Exc :=
  match e.cls with
  | .typeError => .typeError
  | .keyError => .keyError
  | .attributeError => .attributeError
  | .notFound => .notFound
  | _ => .invalid

def callOfOutcome (p : Option Nat) : Outcome → PyInh.CallRes CW
  | .ret w _ => .ret (w, p) .none
  | .exc w e => .exc (w, p) (excFwd e)
  | _ => .stuck

section
variable (fuel : Nat) (cls : Nat → Cfg)

def inhAttrOf (L : Nat) (w : CW) (v : IVal) (path : List String) : PyInh.R IVal :=
  match v with
  | .inst _ _ _ =>
    if path = ["sqlmeta", "parentClass"] then .ok (match L with | 0 => .none | L' + 1 => .cls L')
    else if path = ["sqlmeta", "columnList"] then .ok (PyInh.Val.ofList ((List.range w.1.c.ncols).map (PyInh.Val.ref 1)))
    else if path = ["sqlmeta", "childName"] then .ok .none
    else if path = ["_connection"] then .ok (.conn 0)
    else if path = ["_parent", "id"] then (match w.2 with | some i => .ok (.nat i) | none => .stuck)
    else .stuck
  | .ref 1 k => if path = ["_default"] then .ok (.ref 2 k) else .stuck
  | _ => .stuck

/-- the nested constructor `parentClass(kw=…, connection=…)`: `init` runs the parent class's `__init__` on a fresh instance -/
def inhCallFn (init : Option (World → Outcome)) (w : CW) (f : IVal) (pos : List IVal) (kw : List (String × IVal)) :
    PyInh.CallRes CW :=
  match f, init with
  | .cls L', some run =>
    if pos = [] ∧ kw.map (·.1) = ["kw", "connection"] then
      match run { w.1 with c := cls L', lvl := L', o := newObj } with
      | .ret w' _ => (match w'.o.id with
        | some i => .ret ({ w' with c := w.1.c, lvl := w.1.lvl, o := w.1.o }, w.2) (.inst 0 L' i)
        | none => .stuck)
      | .exc w' e => .exc ({ w' with c := w.1.c, lvl := w.1.lvl, o := w.1.o }, w.2) (excFwd e)
      | _ => .stuck
    else .stuck
  | _, _ => .stuck

/-- `super(InheritableSQLObject, self)._create(id, **kw)`: the translated `SQLObject._create` -/
def inhSuper (w : CW) (m : String) (pos : List IVal) (kw : List (String × IVal)) (star : IVal) : PyInh.CallRes CW :=
  if m = "_create" ∧ kw = [] ∧ star = .nil then
    match pos with
    | [idv] => (match pvOfId idv with
      | some v => callOfOutcome w.2 (createX fuel w.1 [v] [])
      | none => .stuck)
    | _ => .stuck
  else .stuck

def inhIface (L : Nat) (init : Option (World → Outcome)) : PyInh.Iface CW where
  self := .inst 0 L 0
  attrOf := inhAttrOf L
  setAttrOf := fun w v path x => match v, x with
    | .inst _ _ _, .inst _ _ i => if path = ["_parent"] then some (w.1, some i) else none
    | _, _ => none
  hasattr := fun _ _ _ => none
  global := fun n => if n = "sqlbuilder.NoDefault" then some (.ref 3 0) else none
  isinstance := fun _ _ _ => none
  call := fun _ _ _ _ _ _ => .stuck
  callFn := inhCallFn cls init
  super := inhSuper fuel
  fuel := fun _ => 0

/-- `InheritableSQLObject._create(self, id, **kw)` of level `L`, as translated; kwargs must be empty -/
def inhCreateX (L : Nat) (init : Option (World → Outcome)) (w : World) (args : List PV) (kw : PDict) : Outcome :=
  match args, kw with
  | [idv], [] => (match idOfPV idv with
    | some iv =>
      (match PyInh.run (inhIface fuel cls L init) PyInh.Extracted.createProg [iv, .nil] PyInh.Extracted.create_nlocals (w, none) with
       | .ret w' _ => .ret w'.1 .none
       | .exc w' e => .exc w'.1 (excBack e)
       | .stuck => .stuck)
    | none => .stuck)
  | _, _ => .stuck

/-- `_create` of the class at level `L` of the chain -/
def chainCreate : Nat → World → List PV → PDict → Outcome
  | 0 => inhCreateX fuel cls 0 none
  | L + 1 => inhCreateX fuel cls (L + 1) (some fun w => initX fuel (chainCreate L) w [])

/-- `Cls_L()` from application code, in a world whose class constants are those of level `L` -/
def chainInitX (L : Nat) (w : World) : Outcome := initX fuel (chainCreate fuel cls L) w []

end

end SqlObjVerif.Events
