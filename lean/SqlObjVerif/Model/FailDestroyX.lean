import SqlObjVerif.Model.PyFail
import SqlObjVerif.Model.PyDestroyF
import SqlObjVerif.Extracted.PyDestroy
/-!
# C06 — `SQLObject.destroySelf` as TRANSLATED from the source, run under the exception-injecting semantics

`destroyF sch inj fuel c id s` RUNS the PyDestroy program `vlib/extractors/pydestroy.py` translated from /repo's
`main.py` on this very run (`Extracted.destroySelfProg`), under `Model/PyDestroyF.lean`, for the victim `(c, id)`, on
the hand model's state `s : Fail.St` (tables, link tables, instances, registered ids; statement counter `n`,
statement log, ghost counter `changes`) and under the schedule `inj` (the database error injected at the k-th
statement).  `Lemmas/FailDestroyX*.lean` prove that the result is exactly
`Fail.run sch inj (Fail.destroyProg sch fuel c id .done) s` (`C06_translated_destroy_eq_model`).

## The assumed interface (the parameters of the interpreter) — everything below is ASSUMED, not verified here
objects (handles `Hnd`):
* `self` = `inst c id`; `self.id = id`, `self.__class__ = klass = cls c`, `self._connection = conn`,
  `conn.cache = cache`, `self.sqlmeta = imeta c id`, `klass.__name__ = cname c`, `k.sqlmeta = cmeta k`, `k.q`;
  class names are distinct within the registry (`cname k = cname k'` iff `k = k'`);
* `k.sqlmeta.joins` : the model's `(clsOf sch k).joins`, in declaration order, every one an `SORelatedJoin`
  (MultipleJoins, which destroySelf skips, are not in the model); `join.intermediateTable / joinColumn / otherColumn
  / otherClassName` : the join's link table `tab`, the component `side` of a link row that holds the declaring
  class's id, the other component `!side`, the name of `other`;
* `k.sqlmeta.columnList` : the columns of `k` in declaration order, as objects `col k j fk` carrying their
  declaration `fk : Option (target × policy)`; `col.foreignKey` = name of the target class (None: no key),
  `col.cascade` = `True / False / 'null' / None` for `Pol.cascade / restrict / null / none`, `col.name` = `name j`;
* `getattr(k.q, name j)` = the SQL field `field k j`; `field == v` builds `app "==" [field, v]`; every other `==`
  of the fragment is plain equality; `sqlbuilder.OR(*l)` builds `app "OR" l`; `"fmt" % (…)` builds `app "%" […]`;
* a row object `row k r` = the instance the select yielded for the stored row `r` of class `k`;
  `getattr(row, name j)` = entry `j` of that instance's cached values at the moment of the read
  (`Fail.instVals s k r.id r.vals`: the registered instance, else the fetched row image), as `valOf`;
  `row.sqlmeta.lazyUpdate` = the class's `lazy`.
pure calls:
* `self._SO_depends()` : the classes of the registry, in registry order, that have a key with a cascade setting
  to `c` or a related join whose other side is `c` (`dependentsF`); `Lemmas/FailDestroyXNat.lean` proves that the
  hand model's loop over the whole registry (`List.range sch.length`) equals its loop over these (a class with
  neither contributes the empty segment);
* `findDependantColumns(cname c, cls k)` : the parameter `fdc`; `destroyF` takes `fdcModel` = the columns
  `Fail.fkCols (clsOf sch k).cols c` as column objects; `fdcF` runs the TRANSLATED function under this very
  semantics and `fdcF_eq` (`Lemmas/FailDestroyXFdc.lean`) proves that it computes exactly that, sending nothing;
* `k.select(q, connection=conn)` : BUILDS the select result `app "select" [cls k, q]` on the victim's own connection
  and sends nothing.
calls that send a statement (`PyFail.sendStmt` = the `.stmt` case of `Fail.run`: count it, log it, raise the
injected error if this is the k-th statement, else let the database execute it atomically):
* `select.count()` : `sendStmt (.select k)`, then the number of rows of class `k` satisfying the disjunction of
  `column = id` tests in the state AFTER the statement;
* ENTERING `for row in select` : `sendStmt (.select k)`, then every matching row `r` (table order) is fetched —
  `memStep (.fetch k r.id)` each (`cls.get(id, selectResults=…)`: the registered instance refreshed unless dirty,
  or a new registered one) — and the loop then iterates the materialised list of row objects
  (`SelectResults.__iter__` builds the whole list before the body runs for the first);
* `self._connection.query("DELETE FROM %s WHERE %s=%d" % (tbl t, lcol side, id))` = `sendStmt (.delLinks t side id)`
  — only for this very template string;
* `self._connection._SO_delete(self)` = `sendStmt (.delete c id)`.
other calls:
* `row.set(**clear)`, every value `None` : the hand model's tree, run under the same schedule —
  `Fail.run sch inj (Fail.setProg sch k r.id (clear ↦ In.ok none) [] .done)` (the translated `set` is proved equal
  to `setProg` separately: `Lemmas/FailXSet.lean`, `FailXSetLazy.lean`); `row.syncUpdate()` = `Fail.syncProg k r.id`;
* `row.destroySelf()` : the parameter `recC` (closed by recursion on `fuel` in `destroyF`); CONVENTION: Python's
  `RecursionError` is the model's `.fail .recursion` at fuel 0;
* `self.sqlmeta._obsolete = True` = `memStep (.obsolete c id)`; `cache.expire(id, cls)` = `memStep (.unreg c id)`;
* `self.sqlmeta.send(signal, self, post_funcs)` : no listener is connected — nothing happens and `post_funcs`
  stays empty (listeners: C19); calling a post-function is outside the interface;
* an exception raised by an interface call carries the hand model's error as its class name (`errName`, injective);
  `raise SQLObjectIntegrityError(…)` is `Err.integrity`.
The inheritable override `InheritableSQLObject.destroySelf` (parent instance destroyed first) is NOT part of this
file: `destroyF` binds `row.destroySelf()` to the translated `SQLObject.destroySelf` itself, and its theorem is stated
for schemas without `parent` (`NoParent`).  `Model/FailDestroyInhX.lean` adds the translated override and dynamic
dispatch on top of `destroySelfF` (theorem for EVERY schema: `C06_translated_inhdestroy_eq_model`).
-/
namespace SqlObjVerif.FailDX
open SqlObjVerif.PyDestroy (R CallRes)
open SqlObjVerif.PyDestroyF (ER IfaceF)
open SqlObjVerif.PyDestroy.Extracted
open SqlObjVerif.Fail (Err Schema Inj Pol Col Join Cls clsOf colOf fkCols Mem In)
open SqlObjVerif.PyFail (sendStmt memStep)

inductive Hnd where
  | cls (k : Nat)
  | cmeta (k : Nat)
  | qns (k : Nat)
  | cname (k : Nat)
  | inst (k j : Nat)
  | imeta (k j : Nat)
  | row (k : Nat) (r : Fail.Row)
  | rmeta (k : Nat)
  | join (j : Join)
  | tbl (t : Nat)
  | lcol (side : Bool)
  | col (k j : Nat) (fk : Option (Nat × Pol))
  | name (j : Nat)
  | field (k j : Nat)
  | conn
  | cache
deriving DecidableEq

abbrev PVal := PyDestroy.Val Hnd

/-- the exception class an interface call raises for a hand-model error -/
def errName : Err → String
  | .invalid => "Invalid"
  | .typeError => "TypeError"
  | .attrError => "AttributeError"
  | .duplicate => "DuplicateEntryError"
  | .dbIntegrity => "IntegrityError"
  | .operational => "OperationalError"
  | .interrupt => "KeyboardInterrupt"
  | .integrity => "SQLObjectIntegrityError"
  | .recursion => "RecursionError"

def polVal : Pol → PVal
  | .cascade => .bool true
  | .restrict => .bool false
  | .null => .str "null"
  | .none => .none

/-- a stored / cached column value as a Python value -/
def valOf : Fail.Val → PVal
  | some (.ofNat n) => .int n
  | some (.negSucc n) => .app "neg" (.int n)
  | none => .none

def colCascade : Option (Nat × Pol) → PVal
  | some (_, p) => polVal p
  | none => .none

def colTarget : Option (Nat × Pol) → PVal
  | some (t, _) => .obj (.cname t)
  | none => .none

/-! ### SQL expressions and select results -/

def atomV (k i : Nat) (f : Nat) : PVal := .app "==" (.cons (.obj (.field k f)) (.cons (.int i) .nil))

/-- `field k f == i` → `(f, i)` -/
def atomOf (k : Nat) : PVal → Option (Nat × Nat)
  | .app t (.cons (.obj (.field k' f)) (.cons (.int i) .nil)) => if t = "==" ∧ k' = k then some (f, i) else none
  | _ => none

def atomsOf (k : Nat) : PVal → Option (List (Nat × Nat))
  | .nil => some []
  | .cons a t => match atomOf k a, atomsOf k t with
    | some x, some l => some (x :: l)
    | _, _ => none
  | _ => none

/-- `OR(field == id, …)` → the list of `(column, id)` tests -/
def whereOf (k : Nat) : PVal → Option (List (Nat × Nat))
  | .app t l => if t = "OR" then atomsOf k l else none
  | _ => none

def rowSat (r : Fail.Row) (as : List (Nat × Nat)) : Bool :=
  as.any fun a => r.vals.getD a.1 none == some (Int.ofNat a.2)

def selRows (s : Fail.St) (k : Nat) (as : List (Nat × Nat)) : List Fail.Row := (s.tab k).filter fun r => rowSat r as

def selV (k : Nat) (q : PVal) : PVal := .app "select" (.cons (.obj (.cls k)) (.cons q .nil))

def selOf : PVal → Option (Nat × List (Nat × Nat))
  | .app t (.cons (.obj (.cls k)) (.cons q .nil)) =>
    if t = "select" then (whereOf k q).map fun as => (k, as) else none
  | _ => none

/-- the `**clear` of `row.set(**clear)`: every value is `None` -/
def kwCols : List (PVal × PVal) → Option (List Nat)
  | [] => some []
  | (.obj (.name f), .none) :: l => (kwCols l).map (f :: ·)
  | _ => none

/-- every row the select yields is fetched: registered / refreshed -/
def fetchRows (k : Nat) (rows : List Fail.Row) (s : Fail.St) : Fail.St :=
  rows.foldl (fun s r => memStep (.fetch k r.id) s) s

/-- the classes `_SO_depends()` returns for class `c` -/
def dependentsF (sch : Schema) (c : Nat) : List Nat :=
  (List.range sch.length).filter fun k =>
    !(fkCols (clsOf sch k).cols c).isEmpty || (clsOf sch k).joins.any fun j => j.other == c

/-! ### the interface -/

def fGetAttr (sch : Schema) (s : Fail.St) (o n : PVal) : R PVal :=
  match o, n with
  | .obj (.inst k j), .str a =>
    if a = "id" then .ok (.int j)
    else if a = "__class__" then .ok (.obj (.cls k))
    else if a = "_connection" then .ok (.obj .conn)
    else if a = "sqlmeta" then .ok (.obj (.imeta k j))
    else .stuck
  | .obj (.row k _), .str a => if a = "sqlmeta" then .ok (.obj (.rmeta k)) else .stuck
  | .obj (.row k r), .obj (.name f) => .ok (valOf ((Fail.instVals s k r.id r.vals).getD f none))
  | .obj (.cls k), .str a =>
    if a = "sqlmeta" then .ok (.obj (.cmeta k))
    else if a = "__name__" then .ok (.obj (.cname k))
    else if a = "q" then .ok (.obj (.qns k))
    else .stuck
  | .obj (.cmeta k), .str a =>
    if a = "joins" then .ok (PyDestroy.Val.ofList ((clsOf sch k).joins.map fun j => .obj (.join j)))
    else if a = "columnList" then
      .ok (PyDestroy.Val.ofList ((fkCols.enumFrom (clsOf sch k).cols).map fun jc => .obj (.col k jc.1 jc.2.fk)))
    else .stuck
  | .obj (.rmeta k), .str a => if a = "lazyUpdate" then .ok (.bool (clsOf sch k).lazy) else .stuck
  | .obj (.join j), .str a =>
    if a = "intermediateTable" then .ok (.obj (.tbl j.tab))
    else if a = "joinColumn" then .ok (.obj (.lcol j.side))
    else if a = "otherColumn" then .ok (.obj (.lcol (!j.side)))
    else if a = "otherClassName" then .ok (.obj (.cname j.other))
    else .stuck
  | .obj (.col _ j fk), .str a =>
    if a = "name" then .ok (.obj (.name j))
    else if a = "cascade" then .ok (colCascade fk)
    else if a = "foreignKey" then .ok (colTarget fk)
    else .stuck
  | .obj (.qns k), .obj (.name f) => .ok (.obj (.field k f))
  | .obj .conn, .str a => if a = "cache" then .ok (.obj .cache) else .stuck
  | _, _ => .stuck

def fSetAttr (s : Fail.St) (o : PVal) (a : String) (v : PVal) : Option Fail.St :=
  match o, v with
  | .obj (.imeta k j), .bool true => if a = "_obsolete" then some (memStep (.obsolete k j) s) else none
  | _, _ => none

def fGlob (n : String) : Option PVal :=
  if n = "events.RowDestroySignal" ∨ n = "events.RowDestroyedSignal" then some (.str n) else none

def fIsinstance (v : PVal) (cls : String) : Option Bool :=
  match v with
  | .obj (.join _) => if cls = "joins.SORelatedJoin" then some true else none
  | _ => none

def fEqOver (a b : PVal) : Option PVal :=
  match a with
  | .obj (.field k f) => some (.app "==" (.cons (.obj (.field k f)) (.cons b .nil)))
  | _ => none

/-- the caller's view of a statement sent from inside an expression: the value is computed in the state AFTER it -/
def sendE {α : Type} (r : Fail.St × Option Err) (f : Fail.St → α) : ER Fail.St α :=
  match r with
  | (s1, some e) => .exc s1 (errName e)
  | (s1, none) => .ok s1 (f s1)

def fQuery (sch : Schema) (inj : Option Inj) (s : Fail.St) (o : PVal) (m : String) (args : List PVal)
    (kw : List (PVal × PVal)) : ER Fail.St PVal :=
  match o, args with
  | .obj (.inst k _), [] =>
    if m = "_SO_depends" ∧ kw = [] then .ok s (PyDestroy.Val.ofList ((dependentsF sch k).map fun d => .obj (.cls d)))
    else .stuck
  | .obj (.cls k), [q] =>
    if m = "select" ∧ kw = [(.str "connection", .obj .conn)] then
      (match whereOf k q with
       | some _ => .ok s (selV k q)
       | none => .stuck)
    else .stuck
  | .app t a, [] =>
    if m = "count" ∧ kw = [] then
      (match selOf (.app t a) with
       | some (k, as) => sendE (sendStmt sch inj (.select k) s) fun s1 => .int (selRows s1 k as).length
       | none => .stuck)
    else .stuck
  | _, _ => .stuck

/-- module-level functions; `fdc` is the meaning of `findDependantColumns` -/
def fFn (fdc : Nat → Nat → R PVal) (name : String) (args : List PVal) : R PVal :=
  if name = "sqlbuilder.OR" then .ok (.app "OR" (PyDestroy.Val.ofList args))
  else if name = "findDependantColumns" then
    (match args with
     | [.obj (.cname c), .obj (.cls k)] => fdc c k
     | _ => .stuck)
  else .stuck

/-- entering `for row in <select result>` -/
def fIter (sch : Schema) (inj : Option Inj) (s : Fail.St) (v : PVal) : ER Fail.St (List PVal) :=
  match selOf v with
  | some (k, as) =>
    (match sendStmt sch inj (.select k) s with
     | (s1, some e) => .exc s1 (errName e)
     | (s1, none) => .ok (fetchRows k (selRows s1 k as) s1) ((selRows s1 k as).map fun r => .obj (.row k r)))
  | none => .stuck

/-- how an interface call that is a piece of the hand model ends -/
def outCall (r : Fail.St × Option Err) : CallRes Hnd Fail.St :=
  match r with
  | (s1, none) => .ret s1 .none
  | (s1, some e) => .exc s1 (errName e)

def fCall (sch : Schema) (inj : Option Inj) (recC : Nat → Nat → Fail.St → CallRes Hnd Fail.St) (s : Fail.St)
    (o : PVal) (m : String) (args : List PVal) (kw : List (PVal × PVal)) : CallRes Hnd Fail.St :=
  match o, args with
  | .obj (.imeta _ _), [_, _, _] => if m = "send" ∧ kw = [] then .ret s .none else .stuck
  | .obj .conn, [.app t (.cons (.str tmpl) (.cons (.obj (.tbl tb)) (.cons (.obj (.lcol b)) (.cons (.int i) .nil))))] =>
    if m = "query" ∧ kw = [] ∧ t = "%" ∧ tmpl = "DELETE FROM %s WHERE %s=%d" then
      outCall (sendStmt sch inj (.delLinks tb b i) s)
    else .stuck
  | .obj .conn, [.obj (.inst k j)] =>
    if m = "_SO_delete" ∧ kw = [] then outCall (sendStmt sch inj (.delete k j) s) else .stuck
  | .obj .cache, [.int j, .obj (.cls k)] =>
    if m = "expire" ∧ kw = [] then .ret (memStep (.unreg k j) s) .none else .stuck
  | .obj (.row k r), [] =>
    if m = "set" then
      (match kwCols kw with
       | some fs => outCall (Fail.run sch inj (Fail.setProg sch k r.id (fs.map fun j => (j, In.ok none)) [] .done) s)
       | none => .stuck)
    else if m = "syncUpdate" ∧ kw = [] then outCall (Fail.run sch inj (Fail.syncProg k r.id .done) s)
    else if m = "destroySelf" ∧ kw = [] then recC k r.id s
    else .stuck
  | _, _ => .stuck

def fIface (sch : Schema) (inj : Option Inj) (fdc : Nat → Nat → R PVal)
    (recC : Nat → Nat → Fail.St → CallRes Hnd Fail.St) (self : PVal) : IfaceF Hnd Fail.St :=
  { self := self
    getAttr := fGetAttr sch
    setAttr := fSetAttr
    glob := fGlob
    isinstance := fIsinstance
    eqOver := fEqOver
    query := fQuery sch inj
    fn := fun _ => fFn fdc
    iter := fIter sch inj
    call := fCall sch inj recC
    callFn := fun _ _ _ => .stuck }

/-- the model's `findDependantColumns` -/
def fdcModel (sch : Schema) (c k : Nat) : R PVal :=
  .ok (PyDestroy.Val.ofList ((fkCols (clsOf sch k).cols c).map fun a => .obj (.col k a.1 (some (c, a.2)))))

/-- the TRANSLATED `findDependantColumns(cname c, cls k)` (it calls nothing) -/
def fdcF (sch : Schema) (inj : Option Inj) (c k : Nat) (s : Fail.St) : CallRes Hnd Fail.St :=
  PyDestroyF.runF (fIface sch inj (fun _ _ => .stuck) (fun _ _ _ => .stuck) .none) findDependantColumnsProg
    [.obj (.cname c), .obj (.cls k)] s

/-- the interface `destroySelf` runs against: victim `(c, id)`, recursive calls go to `recC` -/
@[reducible] def dIface (sch : Schema) (inj : Option Inj) (recC : Nat → Nat → Fail.St → CallRes Hnd Fail.St)
    (c id : Nat) : IfaceF Hnd Fail.St :=
  fIface sch inj (fdcModel sch) recC (.obj (.inst c id))

/-- ONE activation of the TRANSLATED `destroySelf` of the instance `(c, id)` -/
def destroySelfF (sch : Schema) (inj : Option Inj) (recC : Nat → Nat → Fail.St → CallRes Hnd Fail.St)
    (c id : Nat) (s : Fail.St) : CallRes Hnd Fail.St :=
  PyDestroyF.runF (dIface sch inj recC c id) destroySelfProg [] s

/-- the TRANSLATED `destroySelf`, the recursive call `row.destroySelf()` bound to itself; fuel 0 = RecursionError -/
def destroyF (sch : Schema) (inj : Option Inj) : Nat → Nat → Nat → Fail.St → CallRes Hnd Fail.St
  | 0, _, _, s => .exc s "RecursionError"
  | fuel + 1, c, id, s => destroySelfF sch inj (destroyF sch inj fuel) c id s

/-- no class of the schema is an InheritableSQLObject child -/
def NoParent (sch : Schema) : Prop := ∀ c, (clsOf sch c).parent = none

end SqlObjVerif.FailDX
